/* LD_PRELOAD interposer: a deterministic "concurrent writer".
   VERIF_SCHED = "<victim path>|<rule>;<rule>;..."   rule = <point>,<k>,<action>[,<arg>]
     point  : lstat | open | fstat | read        (the k-th call of that kind on the victim, k from 1; the action runs BEFORE the call)
     action : truncate,N | append,N | rewrite,N (truncate to 0, then write N fresh bytes) | replace,N (rename a new file of N bytes over it) | unlink | mkdir (replace by a directory) |
              symlink (replace by a symlink) | regrow,N (append N fresh bytes: used after a truncate rule) |
              fail (read points only: the read returns -1 / EIO)
   The victim is matched by exact path for lstat/open, and by descriptor (recorded at open) for fstat/read.
   Every fired rule is appended to the file named by VERIF_SCHED_LOG. */
#define _GNU_SOURCE
#include <dlfcn.h>
#include <errno.h>
#include <fcntl.h>
#include <stdarg.h>
#include <stdio.h>
#include <stdlib.h>
#include <string.h>
#include <sys/stat.h>
#include <sys/syscall.h>
#include <sys/types.h>
#include <unistd.h>

#define MAXR 16
struct rule { char point[8]; int k; char action[12]; long arg; int fired; };
static struct rule rules[MAXR];
static int nrules = -1;
static char victim[4096];
static int count_lstat, count_open, count_fstat, count_read;
static int victim_fds[64];
static int nfds;
static int busy;
static int fail_this_read;       /* set by the action "fail": the intercepted read() returns -1 / EIO instead of being made */

static void load(void) {
    nrules = 0;
    const char *s = getenv("VERIF_SCHED");
    if (!s || !*s) return;
    const char *bar = strrchr(s, '|');
    if (!bar || (size_t)(bar - s) >= sizeof victim) return;
    memcpy(victim, s, bar - s);
    victim[bar - s] = 0;
    char buf[1024];
    strncpy(buf, bar + 1, sizeof buf - 1);
    buf[sizeof buf - 1] = 0;
    char *save = 0;
    for (char *r = strtok_r(buf, ";", &save); r && nrules < MAXR; r = strtok_r(0, ";", &save)) {
        struct rule *x = &rules[nrules];
        char p[8] = "", a[12] = "";
        long k = 0, arg = 0;
        int n = sscanf(r, "%7[a-z],%ld,%11[a-z],%ld", p, &k, a, &arg);
        if (n < 3) continue;
        strcpy(x->point, p); x->k = (int) k; strcpy(x->action, a); x->arg = arg; x->fired = 0;
        nrules++;
    }
}

static void fresh(int fd, long n, int salt) {
    char buf[4096];
    long done = 0;
    while (done < n) {
        long m = n - done < (long) sizeof buf ? n - done : (long) sizeof buf;
        for (long i = 0; i < m; i++) buf[i] = (char) (((done + i) * 131 + salt * 7 + 89) % 251 + 1);
        if (syscall(SYS_write, fd, buf, m) != m) break;
        done += m;
    }
}

static void act(struct rule *x, int idx) {
    busy = 1;
    if (!strcmp(x->action, "truncate")) {
        truncate(victim, x->arg);
    } else if (!strcmp(x->action, "append") || !strcmp(x->action, "regrow")) {
        int fd = syscall(SYS_openat, AT_FDCWD, victim, O_WRONLY | O_APPEND);
        if (fd >= 0) { fresh(fd, x->arg, idx + 1); syscall(SYS_close, fd); }
    } else if (!strcmp(x->action, "rewrite")) {
        int fd = syscall(SYS_openat, AT_FDCWD, victim, O_WRONLY | O_TRUNC);
        if (fd >= 0) { fresh(fd, x->arg, idx + 11); syscall(SYS_close, fd); }
    } else if (!strcmp(x->action, "replace")) {
        /* another file (new inode) with N fresh bytes is renamed over the victim */
        char tmp[4200];
        snprintf(tmp, sizeof tmp, "%s.new", victim);
        int fd = syscall(SYS_openat, AT_FDCWD, tmp, O_WRONLY | O_CREAT | O_TRUNC, 0644);
        if (fd >= 0) { fresh(fd, x->arg, idx + 23); syscall(SYS_close, fd); rename(tmp, victim); }
    } else if (!strcmp(x->action, "fail")) {
        fail_this_read = 1;
    } else if (!strcmp(x->action, "unlink")) {
        unlink(victim);
    } else if (!strcmp(x->action, "mkdir")) {
        unlink(victim); mkdir(victim, 0755);
    } else if (!strcmp(x->action, "symlink")) {
        unlink(victim); symlink("elsewhere", victim);
    }
    const char *log = getenv("VERIF_SCHED_LOG");
    if (log && *log) {
        int fd = syscall(SYS_openat, AT_FDCWD, log, O_WRONLY | O_APPEND | O_CREAT, 0644);
        if (fd >= 0) {
            char line[128];
            int n = snprintf(line, sizeof line, "%s,%d,%s,%ld\n", x->point, x->k, x->action, x->arg);
            syscall(SYS_write, fd, line, n);
            syscall(SYS_close, fd);
        }
    }
    busy = 0;
}

static void point(const char *name, int ordinal) {
    for (int i = 0; i < nrules; i++)
        if (!rules[i].fired && rules[i].k == ordinal && !strcmp(rules[i].point, name)) { rules[i].fired = 1; act(&rules[i], i); }
}

static int is_victim_path(const char *p) { if (nrules < 0) load(); return nrules > 0 && p && !strcmp(p, victim); }
static int is_victim_fd(int fd) { for (int i = 0; i < nfds; i++) if (victim_fds[i] == fd) return 1; return 0; }
static void add_fd(int fd) { if (fd >= 0 && nfds < 64) victim_fds[nfds++] = fd; }
static void del_fd(int fd) { for (int i = 0; i < nfds; i++) if (victim_fds[i] == fd) { victim_fds[i] = victim_fds[--nfds]; return; } }

int lstat64(const char *path, struct stat64 *st) {
    static int (*real)(const char *, struct stat64 *) = 0;
    if (!real) real = dlsym(RTLD_NEXT, "lstat64");
    if (!busy && is_victim_path(path)) point("lstat", ++count_lstat);
    return real(path, st);
}

int lstat(const char *path, struct stat *st) {
    static int (*real)(const char *, struct stat *) = 0;
    if (!real) real = dlsym(RTLD_NEXT, "lstat");
    if (!busy && is_victim_path(path)) point("lstat", ++count_lstat);
    return real(path, st);
}

int statx(int dirfd, const char *path, int flags, unsigned int mask, struct statx *stx) {
    static int (*real)(int, const char *, int, unsigned int, struct statx *) = 0;
    if (!real) real = dlsym(RTLD_NEXT, "statx");
    if (!busy) {
        if (path && *path && is_victim_path(path)) point("lstat", ++count_lstat);
        else if (path && !*path && (flags & AT_EMPTY_PATH) && is_victim_fd(dirfd)) point("fstat", ++count_fstat);
    }
    return real(dirfd, path, flags, mask, stx);
}

int fstatat64(int dirfd, const char *path, struct stat64 *st, int flags) {
    static int (*real)(int, const char *, struct stat64 *, int) = 0;
    if (!real) real = dlsym(RTLD_NEXT, "fstatat64");
    if (!busy && path && *path && is_victim_path(path)) point("lstat", ++count_lstat);
    return real(dirfd, path, st, flags);
}

int fstat64(int fd, struct stat64 *st) {
    static int (*real)(int, struct stat64 *) = 0;
    if (!real) real = dlsym(RTLD_NEXT, "fstat64");
    if (!busy && nrules > 0 && is_victim_fd(fd)) point("fstat", ++count_fstat);
    return real(fd, st);
}

int fstat(int fd, struct stat *st) {
    static int (*real)(int, struct stat *) = 0;
    if (!real) real = dlsym(RTLD_NEXT, "fstat");
    if (!busy && nrules > 0 && is_victim_fd(fd)) point("fstat", ++count_fstat);
    return real(fd, st);
}

static int open_common(int (*real)(const char *, int, ...), const char *path, int flags, mode_t mode) {
    int v = !busy && is_victim_path(path);
    if (v) point("open", ++count_open);
    int fd = real(path, flags, mode);
    if (v && fd >= 0) add_fd(fd);
    return fd;
}

int open64(const char *path, int flags, ...) {
    static int (*real)(const char *, int, ...) = 0;
    if (!real) real = dlsym(RTLD_NEXT, "open64");
    va_list ap; va_start(ap, flags); mode_t mode = (flags & (O_CREAT | O_TMPFILE)) ? va_arg(ap, mode_t) : 0; va_end(ap);
    return open_common(real, path, flags, mode);
}

int open(const char *path, int flags, ...) {
    static int (*real)(const char *, int, ...) = 0;
    if (!real) real = dlsym(RTLD_NEXT, "open");
    va_list ap; va_start(ap, flags); mode_t mode = (flags & (O_CREAT | O_TMPFILE)) ? va_arg(ap, mode_t) : 0; va_end(ap);
    return open_common(real, path, flags, mode);
}

int openat64(int dirfd, const char *path, int flags, ...) {
    static int (*real)(int, const char *, int, ...) = 0;
    if (!real) real = dlsym(RTLD_NEXT, "openat64");
    va_list ap; va_start(ap, flags); mode_t mode = (flags & (O_CREAT | O_TMPFILE)) ? va_arg(ap, mode_t) : 0; va_end(ap);
    int v = !busy && is_victim_path(path);
    if (v) point("open", ++count_open);
    int fd = real(dirfd, path, flags, mode);
    if (v && fd >= 0) add_fd(fd);
    return fd;
}

int close(int fd) {
    static int (*real)(int) = 0;
    if (!real) real = dlsym(RTLD_NEXT, "close");
    if (nfds) del_fd(fd);
    return real(fd);
}

ssize_t read(int fd, void *buf, size_t n) {
    static ssize_t (*real)(int, void *, size_t) = 0;
    if (!real) real = dlsym(RTLD_NEXT, "read");
    if (!busy && nfds && is_victim_fd(fd)) point("read", ++count_read);
    if (fail_this_read) { fail_this_read = 0; errno = EIO; return -1; }
    return real(fd, buf, n);
}

__attribute__((destructor)) static void report(void) {
    const char *log = getenv("VERIF_SCHED_LOG");
    if (nrules <= 0 || !log || !*log) return;
    int fd = syscall(SYS_openat, AT_FDCWD, log, O_WRONLY | O_APPEND | O_CREAT, 0644);
    if (fd < 0) return;
    char line[128];
    int n = snprintf(line, sizeof line, "counts,%d,%d,%d,%d\n", count_lstat, count_open, count_fstat, count_read);
    syscall(SYS_write, fd, line, n);
    syscall(SYS_close, fd);
}
