/* LD_PRELOAD interposer: CLOCK_REALTIME (and time / gettimeofday) report VERIF_FAKE_TIME seconds since the epoch
   (plus the fraction given after a dot), so that backup and group names are chosen by the test driver.
   Other clocks (monotonic) are passed through. */
#define _GNU_SOURCE
#include <dlfcn.h>
#include <stdlib.h>
#include <string.h>
#include <time.h>
#include <sys/time.h>

static int fake(struct timespec *ts) {
    const char *s = getenv("VERIF_FAKE_TIME");
    if (!s || !*s) return 0;
    char *end;
    long long sec = strtoll(s, &end, 10);
    long nsec = 0;
    if (*end == '.') {
        char buf[10] = "000000000";
        size_t n = strlen(end + 1);
        if (n > 9) n = 9;
        memcpy(buf, end + 1, n);
        nsec = atol(buf);
    }
    ts->tv_sec = (time_t) sec;
    ts->tv_nsec = nsec;
    return 1;
}

int clock_gettime(clockid_t clk, struct timespec *ts) {
    static int (*real)(clockid_t, struct timespec *) = 0;
    if (!real) real = dlsym(RTLD_NEXT, "clock_gettime");
    if (clk == CLOCK_REALTIME && fake(ts)) return 0;
    return real(clk, ts);
}

time_t time(time_t *t) {
    struct timespec ts;
    if (fake(&ts)) { if (t) *t = ts.tv_sec; return ts.tv_sec; }
    static time_t (*real)(time_t *) = 0;
    if (!real) real = dlsym(RTLD_NEXT, "time");
    return real(t);
}

int gettimeofday(struct timeval *tv, void *tz) {
    struct timespec ts;
    if (tv && fake(&ts)) { tv->tv_sec = ts.tv_sec; tv->tv_usec = ts.tv_nsec / 1000; return 0; }
    static int (*real)(struct timeval *, void *) = 0;
    if (!real) real = dlsym(RTLD_NEXT, "gettimeofday");
    return real(tv, tz);
}
