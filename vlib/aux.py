"""Small auxiliary artefacts built at setup (interposers etc.)."""
import os
import subprocess

from . import build


def ensure_all():
    pass
