"""Small auxiliary artefacts built at setup (interposers etc.)."""
import os
import subprocess

from . import build

FAKETIME = os.path.join(build.BUILD, "faketime.so")


def ensure_faketime():
    src = os.path.join(build.VERIF, "interpose", "faketime.c")
    with build.Lock("aux"):
        if not os.path.exists(FAKETIME) or os.path.getmtime(FAKETIME) < os.path.getmtime(src):
            build.run(["gcc", "-O2", "-shared", "-fPIC", "-o", FAKETIME + ".tmp", src, "-ldl"], what="gcc faketime.so")
            os.replace(FAKETIME + ".tmp", FAKETIME)
    return FAKETIME


SCHED = os.path.join(build.BUILD, "sched.so")


def ensure_sched():
    src = os.path.join(build.VERIF, "interpose", "sched.c")
    with build.Lock("aux"):
        if not os.path.exists(SCHED) or os.path.getmtime(SCHED) < os.path.getmtime(src):
            build.run(["gcc", "-O2", "-shared", "-fPIC", "-o", SCHED + ".tmp", src, "-ldl"], what="gcc sched.so")
            os.replace(SCHED + ".tmp", SCHED)
    return SCHED


def ensure_all():
    ensure_faketime()
    ensure_sched()
