"""Small auxiliary artefacts built at setup (interposers etc.)."""
import os
import subprocess

from . import build

FAKETIME = os.path.join(build.BUILD, "faketime.so")


def ensure_faketime():
    src = os.path.join(build.VERIF, "interpose", "faketime.c")
    with build.Lock("aux"):
        if not os.path.exists(FAKETIME) or os.path.getmtime(FAKETIME) < os.path.getmtime(src):
            build.run(["gcc", "-O2", "-shared", "-fPIC", "-o", FAKETIME + ".tmp", src, "-ldl"], what="gcc faketime.so")
            os.replace(FAKETIME + ".tmp", FAKETIME)
    return FAKETIME


def ensure_all():
    ensure_faketime()
