"""Storage-level tooling: run the real vsb binary under a fake clock, write / read storages with the independent
encoder / decoder in vsbh, scan trees."""
import hashlib
import json
import os
import shutil
import stat
import subprocess
import tempfile

from . import aux, build

TMP = os.path.join(build.BUILD, "tmp")


def sha512(b):
    return hashlib.sha512(b).hexdigest()


class Sandbox:
    def __init__(self, tag="sb"):
        os.makedirs(TMP, exist_ok=True)
        self.root = tempfile.mkdtemp(prefix=tag + "-", dir=TMP)
        self.cfg = os.path.join(self.root, "cfg.yaml")
        with open(self.cfg, "w") as f:
            f.write("{}\n")

    def path(self, *p):
        return os.path.join(self.root, *p)

    def close(self):
        subprocess.run(["chmod", "-R", "u+rwx", self.root], stderr=subprocess.DEVNULL)
        shutil.rmtree(self.root, ignore_errors=True)

    def __enter__(self):
        return self

    def __exit__(self, *a):
        self.close()

    # ---- the real binary --------------------------------------------------------------------------------------
    def vsb(self, args, now=None, env=None, exe=None, timeout=120, prefix=None):
        e = dict(os.environ)
        e.update({"TZ": "UTC", "LC_ALL": "C", "HOME": self.path("home")})
        if now is not None:
            e["LD_PRELOAD"] = aux.ensure_faketime()
            e["VERIF_FAKE_TIME"] = str(now)
        if env:
            e.update(env)
        cmd = (prefix or []) + [exe or build.VSB, "-c", self.cfg] + args
        p = subprocess.run(cmd, stdout=subprocess.PIPE, stderr=subprocess.PIPE, env=e, timeout=timeout, cwd=self.root)
        out = (p.stdout + p.stderr).decode("utf-8", "replace")
        record_messages(out)
        return p.returncode, out

    # ---- independent storage codec ----------------------------------------------------------------------------
    def write_storage(self, spec, dest):
        fd, jf = tempfile.mkstemp(prefix="spec-", suffix=".json", dir=self.root)     # unique: callers run in thread pools
        with os.fdopen(fd, "w") as f:
            json.dump(spec, f)
        p = subprocess.run([build.VSBH, "storage-write", jf, dest], stdout=subprocess.PIPE, stderr=subprocess.PIPE, text=True)
        os.remove(jf)
        if p.returncode != 0:
            raise build.BuildError("storage-write failed: %s %s" % (p.stdout, p.stderr))

    def read_storage(self, root):
        p = subprocess.run([build.VSBH, "storage-read", root], stdout=subprocess.PIPE, stderr=subprocess.PIPE, text=True)
        if p.returncode != 0:
            raise build.BuildError("storage-read failed: %s" % p.stderr)
        return json.loads(p.stdout)


def record_messages(out):
    """message coverage (tools/msgcov.py): with VERIF_MSGCOV=<file> every error / warning line the real binary prints is appended there"""
    f = os.environ.get("VERIF_MSGCOV")
    if f:
        lines = [l for l in out.split("\n") if l.startswith(("E:", "W:"))]
        if lines:
            with open(f, "a") as h:
                h.write("\n".join(lines) + "\n")


def errors_of(out):
    return [l for l in out.split("\n") if l.startswith("E:")]


def warnings_of(out):
    return [l for l in out.split("\n") if l.startswith("W:")]


def scan(top):
    """relative path -> node description (lstat + content), for everything below top (top itself excluded)."""
    res = {}
    for dirpath, dirnames, filenames in os.walk(top, followlinks=False):
        for n in dirnames + filenames:
            p = os.path.join(dirpath, n)
            st = os.lstat(p)
            rel = os.path.relpath(p, top)
            node = {"mode": stat.S_IMODE(st.st_mode), "uid": st.st_uid, "gid": st.st_gid, "mtime": st.st_mtime_ns // 1000000000,
                    "mtime_ns": st.st_mtime_ns, "dev": st.st_dev, "ino": st.st_ino}
            if stat.S_ISLNK(st.st_mode):
                node["type"] = "sym"
                node["target"] = os.readlink(p)
            elif stat.S_ISDIR(st.st_mode):
                node["type"] = "dir"
            elif stat.S_ISREG(st.st_mode):
                node["type"] = "file"
                with open(p, "rb") as f:
                    data = f.read()
                node["size"] = len(data)
                node["sha512"] = sha512(data)
                if len(data) <= 65536:
                    node["data"] = data
            else:
                node["type"] = "other"
            res[rel] = node
    return res


def tree_digest(top):
    """digest of names, types, sizes and contents below top (used to show that a storage was not modified)."""
    h = hashlib.sha256()
    for rel, n in sorted(scan(top).items()):
        h.update(repr((rel, n["type"], n.get("sha512"), n.get("target"), n["mode"])).encode())
    return h.hexdigest()
