"""Histories of real `vsb backup` runs under a fake clock (storage level): generated trees and edits, per-run snapshot
of what the run reads, independent decoding of the storage, comparison with the Gallina models (rotation / retention:
Verify.publish + gc; manifest: Dedup.new_backup; restore: Restore2.exec) and direct evaluation of the properties."""
import calendar
import json
import os
import re
import shutil
import stat
import time

from . import build, impl, model, sexp, slevel

BASE = calendar.timegm((2023, 11, 14, 0, 0, 0))
NAMES = ["a", "b", "c.txt", "sp ace", "ü-ñ", "x" * 40, "d1", "d2", "e.o", ".hid", "n" * 200, "trail ", "tab\t", " lead", "two  spaces "]
SIZES = [0, 0, 1, 3, 100, 4095, 4096, 4097, 9000, 511, 512, 513, 8191, 8192, 8193, 10240]   # tar blocks (512), pipe / copy buffers (8 KiB), the restorer's 4096 threshold (128 KiB zstd blocks: the many-small-files scenario of C01)
MODES = [0o644, 0o600, 0o755, 0o640, 0o4755, 0o000, 0o1777, 0o444]
OWNERS = [(0, 0), (1000, 1000), (12345, 54321), (0, 7)]
MTIMES = [1600000000, 1, 946684800, -315619200, 13569465600, 1700000000, 86399]


def day_of(name):
    y, m, d = int(name[0:4]), int(name[5:7]), int(name[8:10])
    return (calendar.timegm((y, m, d, 0, 0, 0)) - BASE) // 86400 + 1000


def time_of(name):
    return int(name[11:13]) * 3600 + int(name[14:16]) * 60 + int(name[17:19])


class World:
    def __init__(self, sb, rng, max_groups, max_per, nitems=1, filters=None):
        self.sb = sb
        self.rng = rng
        self.max_groups = max_groups
        self.max_per = max_per
        self.src = sb.path("src")
        self.st = sb.path("st")
        os.makedirs(self.src)
        os.makedirs(self.st)
        os.makedirs(sb.path("home"), exist_ok=True)
        self.items = ["item%d" % i for i in range(nitems)]
        self.filters = filters or [None] * nitems
        self.mtime_counter = 1500000000
        self.content_counter = 0
        self.contents = {}          # sha512 hex -> bytes (everything this world ever wrote)
        self.path_inodes = {}       # path -> inode numbers it has had (see rename_over)
        for it in self.items:
            os.makedirs(os.path.join(self.src, it))
        self.write_config()

    def write_config(self):
        lines = ["backups:", "  - name: w", "    path: %s" % self.st, "    backup:", "      items:"]
        for it, f in zip(self.items, self.filters):
            lines.append("        - path: %s" % os.path.join(self.src, it))
            if f:
                lines.append("          filter: |")
                for l in f:
                    lines.append("            " + l)
        lines += ["      max_backup_groups: %d" % self.max_groups, "      max_backups_per_group: %d" % self.max_per]
        with open(self.sb.cfg, "w") as f:
            f.write("\n".join(lines) + "\n")

    # ---- tree edits -------------------------------------------------------------------------------------------
    def fresh_mtime(self):
        self.mtime_counter += self.rng.randrange(1, 1000)
        return self.mtime_counter

    def new_content(self, size=None):
        rng = self.rng
        if size is None:
            size = rng.choice(SIZES)
        if rng.random() < 0.35 and self.contents:
            c = rng.choice(list(self.contents.values()))
            return c
        self.content_counter += 1
        seed = ("%d-" % self.content_counter).encode()
        c = (seed * (size // len(seed) + 1))[:size]
        return c

    def remember(self, data):
        self.contents[slevel.sha512(data)] = data

    def write_file(self, path, data, mtime=None, mode=None, owner=None):
        if os.path.lexists(path):
            self.remove(path)
        with open(path, "wb") as f:
            f.write(data)
        self.remember(data)
        if owner:
            os.chown(path, *owner)
        if mode is not None:
            os.chmod(path, mode)
        mt = mtime if mtime is not None else self.fresh_mtime()
        os.utime(path, ns=(mt * 10 ** 9 + 123456789 % 10 ** 9, mt * 10 ** 9 + (self.rng.randrange(10 ** 9) if mt >= 0 else 0)))

    def remove(self, path):
        if os.path.islink(path) or not os.path.isdir(path):
            os.remove(path)
        else:
            shutil.rmtree(path)

    def populate(self, depth=3, nfiles=10):
        rng = self.rng
        for it in self.items:
            top = os.path.join(self.src, it)
            dirs = [top]
            for _ in range(rng.randrange(1, 5)):
                parent = rng.choice(dirs)
                if parent.count("/") - top.count("/") >= depth:
                    continue
                d = os.path.join(parent, rng.choice(["d1", "d2", "sp ace", "ü-ñ", ".hid", "sub"]))
                if not os.path.lexists(d):
                    os.mkdir(d)
                    dirs.append(d)
            for _ in range(nfiles):
                parent = rng.choice(dirs)
                p = os.path.join(parent, rng.choice(NAMES))
                if os.path.lexists(p) or len(p.encode()) > 3500:
                    continue
                r = rng.random()
                if r < 0.78:
                    self.write_file(p, self.new_content(), mtime=rng.choice(MTIMES) if rng.random() < 0.3 else None,
                                    mode=rng.choice(MODES), owner=rng.choice(OWNERS))
                elif r < 0.9:
                    os.symlink(rng.choice(["a", "../nowhere", "/abs/olute", "t" * 150, "sp ace"]), p)
                    os.lchown(p, *rng.choice(OWNERS))
                    os.utime(p, ns=(5 * 10 ** 9, rng.choice(MTIMES) * 10 ** 9), follow_symlinks=False)
                else:
                    os.mkdir(p)
                    dirs.append(p)
            for d in dirs:
                os.chmod(d, rng.choice([0o755, 0o700, 0o750, 0o1777]))
                os.chown(d, *rng.choice(OWNERS))
            for d in reversed(dirs):
                mt = rng.choice(MTIMES)
                os.utime(d, ns=(mt * 10 ** 9, mt * 10 ** 9))

    def all_paths(self, kinds=("file",)):
        out = []
        for it in self.items:
            top = os.path.join(self.src, it)
            for dp, dn, fn in os.walk(top):
                for n in fn:
                    p = os.path.join(dp, n)
                    k = "sym" if os.path.islink(p) else "file"
                    if k in kinds:
                        out.append(p)
                if "dir" in kinds:
                    for n in dn:
                        out.append(os.path.join(dp, n))
        return sorted(out)

    def edit(self, identity_changes=True):
        """one random edit; returns a label.  With identity_changes every content change gets a new mtime."""
        rng = self.rng
        files = [f for f in self.all_paths(("file",)) if not os.path.basename(f).startswith("keeper")]      # "keeper..." files are never edited away
        dirs = [os.path.join(self.src, it) for it in self.items] + self.all_paths(("dir",))
        k = rng.randrange(16)
        if k == 0 and files:
            p = rng.choice(files)
            st = os.lstat(p)
            self.write_file(p, self.new_content(), mode=stat.S_IMODE(st.st_mode), owner=(st.st_uid, st.st_gid))
            return "modify"
        if k == 1 and files:
            p = rng.choice(files)
            mt = self.fresh_mtime()
            os.utime(p, ns=(mt * 10 ** 9, mt * 10 ** 9 + 5))
            return "touch"
        if k == 2 and files:
            p = rng.choice(files)
            q = os.path.join(rng.choice(dirs), rng.choice(NAMES))
            if not os.path.lexists(q) and len(q.encode()) < 3500:
                os.rename(p, q)
                return "rename"
        if k == 3 and files:
            self.remove(rng.choice(files))
            return "delete"
        if k == 4:
            q = os.path.join(rng.choice(dirs), rng.choice(NAMES))
            if not os.path.lexists(q) and len(q.encode()) < 3500:
                self.write_file(q, self.new_content(), mode=rng.choice(MODES), owner=rng.choice(OWNERS))
                return "add"
        if k == 5 and files:
            p = rng.choice(files)
            self.remove(p)
            if rng.random() < 0.5:
                os.mkdir(p)
            else:
                os.symlink("elsewhere", p)
            return "type change"
        if k == 6 and files:
            p = rng.choice(files)
            os.chmod(p, rng.choice(MODES))
            return "chmod"
        if k == 7 and len(files) >= 2:
            # content moves between paths (both get new identities)
            a, b = rng.sample(files, 2)
            da, db = open(a, "rb").read(), open(b, "rb").read()
            self.write_file(a, db)
            self.write_file(b, da)
            return "swap contents"
        if k == 8 and files:
            # rewrite the same content with a new identity
            p = rng.choice(files)
            self.write_file(p, open(p, "rb").read())
            return "rewrite same content"
        if k == 9 and files and not identity_changes:
            # content changes, identity (inode, mtime) kept, size changed: F6's trigger
            p = rng.choice(files)
            st = os.lstat(p)
            data = open(p, "rb").read()
            # always grow: shrinking and growing again between two backups would bring back an earlier size with other bytes under the same
            # identity, which is outside the property's assumption (and outside F6's class: same identity, DIFFERENT size)
            newd = data + b"+"
            with open(p, "r+b") as f:
                f.truncate(0)
                f.write(newd)
            self.remember(newd)
            os.utime(p, ns=(st.st_atime_ns, st.st_mtime_ns))
            return "same identity, new size"
        if k in (14, 15) and files:
            if self.rewrite_same_second(rng.choice(files)):
                return "rewritten in place, same size, mtime differs only below the second"
        if k in (12, 13) and files:
            if self.rename_over(rng.choice(files)):
                return "renamed over, same size and mtime"
        if k == 10 and dirs:
            d = os.path.join(rng.choice(dirs), rng.choice(["d1", "d2", "newdir"]))
            if not os.path.lexists(d):
                os.mkdir(d)
                return "mkdir"
        if k == 11 and files and rng.random() < 0.5:
            p = rng.choice(files)
            q = p + ".hl"
            if not os.path.lexists(q) and len(os.path.basename(q).encode()) < 250:
                os.link(p, q)
                return "hard link"
        return "none"

    def rewrite_same_second(self, p):
        """the file is rewritten in place (same inode, same size, other bytes); its new mtime lies in the same second as the old one"""
        st = os.lstat(p)
        data = open(p, "rb").read()
        if not data:
            return False
        newd = bytes((b + 3) % 256 for b in data)
        with open(p, "r+b") as f:
            f.write(newd)
        self.remember(newd)
        sec, ns = divmod(st.st_mtime_ns, 10 ** 9)
        ns2 = (ns + 400000000) % 10 ** 9 if ns != (ns + 400000000) % 10 ** 9 else (ns + 1) % 10 ** 9
        os.utime(p, ns=(st.st_atime_ns, sec * 10 ** 9 + ns2))
        return True

    def rename_over(self, p):
        """another file of the same size and the same mtime (to the nanosecond) is renamed over p: only the inode tells them apart"""
        st = os.lstat(p)
        data = open(p, "rb").read()
        if not data or len(p.encode()) >= 3400:
            return False
        newd = bytes((b + 1) % 256 for b in data)
        # the file system reuses inode numbers: two replacements of one path between two backups could bring back the very inode (and with it
        # the very fingerprint) an earlier backup recorded, which would break the property's own assumption - insist on a number this path
        # never had
        seen = self.path_inodes.setdefault(p, set())
        seen.add(st.st_ino)
        spare = []
        q = p + ".new"
        while True:
            with open(q, "wb") as f:
                f.write(newd)
            if os.lstat(q).st_ino not in seen or len(spare) > 50:
                break
            spare.append(q + ".spare%d" % len(spare))
            os.rename(q, spare[-1])
        for x in spare:
            os.remove(x)
        seen.add(os.lstat(q).st_ino)
        self.remember(newd)
        os.chown(q, st.st_uid, st.st_gid)
        os.chmod(q, stat.S_IMODE(st.st_mode))
        os.utime(q, ns=(st.st_atime_ns, st.st_mtime_ns))
        os.rename(q, p)
        return True

    # ---- what a run reads -------------------------------------------------------------------------------------
    def allowed(self, item_index, rels):
        """filter verdicts for item-relative paths, through the Gallina filter model (tag 1400)"""
        f = self.filters[item_index]
        if not f or not rels:
            return {r: True for r in rels}
        spec = "\n".join(f)
        res = model.run_driver([[1400, [[ord(c) for c in spec], [list(r.encode()) for r in rels]]]])[0]
        assert res[0] == 1, "filter spec rejected by the model"
        return {r: bool(v) for r, v in zip(rels, res[1])}

    def snapshot(self):
        """entries in the order the run archives them: ancestors of each item root (once), then the recursive walk in
        directory order consulting the item's filter for every child with the item-relative path"""
        out = []
        seen_parents = set()
        for idx, it in enumerate(self.items):
            root = os.path.realpath(os.path.join(self.src, it))
            parts = root.strip("/").split("/")
            cur = ""
            for part in parts[:-1]:
                cur = cur + "/" + part
                if cur not in seen_parents:
                    seen_parents.add(cur)
                    out.append(self.node(cur, "dir"))
            # collect relative paths first to ask the filter model once
            order = []

            def walk(p, rel, top):
                st = os.lstat(p)
                if stat.S_ISREG(st.st_mode):
                    order.append((p, rel, "file"))
                elif stat.S_ISDIR(st.st_mode):
                    order.append((p, rel, "dir"))
                    for n in os.listdir(p):
                        walk(os.path.join(p, n), (rel + "/" + n) if rel else n, False)
                elif stat.S_ISLNK(st.st_mode):
                    order.append((p, rel, "sym"))
                else:
                    order.append((p, rel, "special"))

            walk(root, "", True)
            verdict = self.allowed(idx, [rel for _, rel, _ in order if rel])
            pruned = []
            for p, rel, kind in order:
                if rel:
                    if any(rel == q or rel.startswith(q + "/") for q in pruned):
                        continue
                    if not verdict[rel]:
                        pruned.append(rel)
                        continue
                if kind == "special":
                    continue
                out.append(self.node(p, kind))
        return out

    def node(self, p, kind):
        st = os.lstat(p)
        n = {"kind": kind, "path": p, "mode": st.st_mode, "uid": st.st_uid, "gid": st.st_gid, "mtime": st.st_mtime_ns // 10 ** 9,
             "fp": [st.st_dev, st.st_ino, st.st_mtime_ns], "nlink": st.st_nlink}
        if kind == "file":
            with open(p, "rb") as f:
                n["data"] = f.read()
            self.remember(n["data"])
        elif kind == "sym":
            n["target"] = os.fsencode(os.readlink(p))
        return n

    # ---- the real run -----------------------------------------------------------------------------------------
    def backup(self, now, prefix=None, env=None):
        rc, out = self.sb.vsb(["backup", "w"], now=now, prefix=prefix, env=env)
        return {"exit": rc, "errors": slevel.errors_of(out), "warnings": slevel.warnings_of(out), "out": out}

    def decode(self):
        dec = self.sb.read_storage(self.st)
        # the raw reader reports every directory of the root; only names of exactly the form YYYY.MM.DD are backup groups, any other directory
        # is a foreign entry of the root (an "unexpected directory" to the listing), however much its name resembles a group's
        if "groups" in dec:
            foreign = [g for g in dec["groups"] if not re.fullmatch(r"[0-9]{4}\.[0-9]{2}\.[0-9]{2}", g["name"])]
            if foreign:
                dec["groups"] = [g for g in dec["groups"] if g not in foreign]
                dec["junk"] = sorted(dec.get("junk", []) + [{"name": g["name"], "dir": True, "children": sorted(e["name"] for e in g["entries"])} for g in foreign], key=lambda j: j["name"])
        return dec


# ---- decoded storage helpers -------------------------------------------------------------------------------------
def parse_manifest(b):
    """decoded backup -> list of lines (dict) or None"""
    m = b.get("manifest", {})
    if "text_hex" not in m:
        return None
    text = bytes.fromhex(m["text_hex"])
    lines = []
    for ln in text.split(b"\n")[:-1]:
        parts = ln.split(b" ", 4)
        if len(parts) != 5:
            return None
        d, i, mt = parts[2].split(b":")
        lines.append({"unique": parts[0] == b"unique", "hash": parts[1].decode(), "fp": [int(d), int(i), int(mt)], "size": int(parts[3]),
                      "path": parts[4]})
    return lines


def recognised(e):
    """a final-named backup directory holding both files: what BackupGroup::read keeps"""
    n = e["name"]
    if not (e.get("dir") and len(n) == 19 and n[4] == "." and n[10] == "-"):
        return False
    files = {f["name"] for f in e.get("files", []) if f.get("file")}
    return "data.tar.zst" in files and "metadata.zst" in files


def listing(dec):
    """decoded storage -> [(group name, [final backup names], [temporary names], [other names])], and root junk"""
    out = []
    for g in dec["groups"]:
        finals, temps, other = [], [], []
        for e in g["entries"]:
            n = e["name"]
            if e.get("dir") and len(n) == 19 and n[4] == "." and n[10] == "-":
                files = {f["name"] for f in e.get("files", []) if f.get("file")}
                if "data.tar.zst" in files and "metadata.zst" in files:
                    finals.append(n)            # a backup as the listing recognises it
                else:
                    other.append(n)             # backup-named directory missing a file: reported, not counted
            elif e.get("dir") and n.startswith(".") and len(n) == 20:
                temps.append(n)
            elif n.startswith("."):
                pass                            # hidden: ignored by the listing
            else:
                other.append(n)
        out.append((g["name"], finals, temps, other))
    return out, [j["name"] for j in dec.get("junk", []) if not j["name"].startswith(".")]     # hidden root entries are ignored by the listing


def abstract_groups(dec, hash_ids):
    """decoded storage -> wire form of Verify.grp list (names classified, hashes numbered)"""
    gs = []
    for g in dec["groups"]:
        ents = []
        for e in sorted(g["entries"], key=lambda e: e["name"].encode()):
            n = e["name"]
            if e.get("dir") and len(n) == 19 and n[4] == "." and n[10] == "-":
                files = {f["name"] for f in e.get("files", []) if f.get("file")}
                lines = parse_manifest(e)
                man = []
                if lines is not None:
                    man = [[[int(l["unique"]), hash_ids.setdefault(l["hash"], len(hash_ids) + 1), l["size"]] for l in lines]]
                ents.append([0, [day_of(n), time_of(n), int("data.tar.zst" in files), int("metadata.zst" in files), man]])
            elif e.get("dir") and n.startswith(".") and len(n) == 20:
                ents.append([1])
            elif n.startswith("."):
                ents.append([2])
            else:
                ents.append([3])
        gs.append([day_of(g["name"]), ents])
    return gs


def c13_runs(ctx):
    ctx.notes.append("run histories (completing / failing / killed runs keep the storage healthy) are exercised by the C02 / C07 / C03 checks, "
                     "which verify the real storage after every run")


# ---- one history ---------------------------------------------------------------------------------------------------
class History:
    """Runs a generated history and checks every run against the models and the properties.
    `focus` selects which property's own statement is evaluated as a violation (others are still compared with the models)."""

    def __init__(self, ctx, sb, rng, focus, max_groups, max_per, nitems=1, filters=None, identity_changes=True):
        self.ctx = ctx
        self.rng = rng
        self.focus = focus
        self.w = World(sb, rng, max_groups, max_per, nitems, filters)
        self.identity_changes = identity_changes
        self.now = BASE + rng.randrange(0, 3) * 86400 + rng.randrange(0, 80000)
        self.dec = self.w.decode()
        self.snapshots = {}        # backup name -> snapshot
        self.max_per_seen = max_per
        self.log = []              # human-readable history for replays
        self.hash_ids = {}
        self.diffs = []            # correspondence differences (label, detail)
        self.f3_exposed = False
        self.debris_seeded = False
        self.backup_damaged = False
        self.unreadable = None
        self.model_restore_rate = 0.5
        self.after_corruption = set()

    def advance(self):
        step = self.rng.choice([1, 2, 3600, 86400, 86400, 86400, 9 * 86400, 40000])
        self.now += step

    def name_of_now(self):
        return time.strftime("%Y.%m.%d-%H:%M:%S", time.gmtime(self.now))

    def diff(self, label, detail):
        self.diffs.append((label, detail))

    def violation(self, prop, what, extra=None):
        if prop != self.focus:
            # another property's statement: recorded as a correspondence-level observation of this check
            self.diff("property %s" % prop, what if not extra else "%s %s" % (what, json.dumps(extra, default=str)[:1500]))
            return
        payload = {"history": self.log[-40:], "limits": [self.w.max_groups, self.w.max_per]}
        if extra:
            payload.update(extra)
        self.ctx.violation("history", what, payload)

    # ---- expected archive / manifest ---------------------------------------------------------------------------
    def expected_manifest(self, group_backups, snap):
        """through the Dedup model: manifests of the group's readable backups + the files the run reads"""
        def content_of(h):
            c = self.w.contents.get(h)
            return list(c) if c is not None else [256] + list(bytes.fromhex(h))[:8]
        g = []
        for b in group_backups:
            ls = parse_manifest(b)
            if ls is None:
                continue
            g.append([[int(l["unique"]), content_of(l["hash"]), [l["fp"][0], l["fp"][1], sexp.Z(l["fp"][2])], l["size"], list(l["path"])] for l in ls])
        files = [[list(os.fsencode(n["path"])), [n["fp"][0], n["fp"][1], sexp.Z(n["fp"][2])], list(n["data"])] for n in snap if n["kind"] == "file"]
        return model.run_driver([[200, [g, files]]])[0]

    def check_new_backup(self, snap, newb, group_before):
        """entries and lines of the published backup vs snapshot + model"""
        ctx = self.ctx
        lines = parse_manifest(newb)
        if lines is None:
            self.violation("C10", "the published backup has an unreadable manifest", {"backup": newb["name"]})
            return
        # if an earlier backup of the group has an unreadable manifest the known set is whatever could be loaded; the
        # model receives only the readable ones, and last_state only if the newest one is readable
        usable = list(group_before)
        if usable and parse_manifest(usable[-1]) is None:
            usable_for_last = False
        else:
            usable_for_last = True
        m = self.expected_manifest(usable if usable_for_last else [b for b in usable] + [{"manifest": {"text_hex": ""}}], snap)
        exp_lines = m[1]
        got = []
        for l in lines:
            c = self.w.contents.get(l["hash"])
            got.append([int(l["unique"]), list(c) if c is not None else ["unknown-digest", l["hash"][:16]], [l["fp"][0], l["fp"][1], sexp.Z(l["fp"][2])],
                        l["size"], list(l["path"])])
        if got != exp_lines:
            k = next((i for i, (a, b) in enumerate(zip(got, exp_lines)) if a != b), min(len(got), len(exp_lines)))

            def short(l):
                return None if l is None else {"unique": l[0], "content_len": len(l[1]), "fp": l[2], "size": l[3], "path": bytes(l[4]).decode("utf-8", "replace")}
            self.diff("manifest", {"backup": newb["name"], "line": k, "implementation": short(got[k]) if k < len(got) else None,
                                   "model": short(exp_lines[k]) if k < len(exp_lines) else None, "lines": [len(got), len(exp_lines)]})
        # archive entries
        uniq = {bytes(l[4]): bool(l[0]) for l in exp_lines}
        arch = newb.get("archive", {}).get("entries")
        if arch is None:
            self.violation("C10", "the published backup's data archive does not decode with tar + zstd", {"backup": newb["name"]})
            return
        exp_e = []
        for n in snap:
            p = os.fsencode(n["path"]).lstrip(b"/")
            base = {"path": p, "mode": n["mode"], "uid": n["uid"], "gid": n["gid"], "mtime": n["mtime"] % (1 << 64)}
            if n["kind"] == "dir":
                base.update(type="dir", size=0, sha=slevel.sha512(b""))
            elif n["kind"] == "sym":
                base.update(type="sym", size=0, sha=slevel.sha512(b""), target=n["target"])
            else:
                d = n["data"] if uniq.get(os.fsencode(n["path"])) else b""
                base.update(type="file", size=len(d), sha=slevel.sha512(d))
            exp_e.append(base)
        got_e = []
        for e in arch:
            if "error" in e:
                got_e.append({"error": e["error"]})
                continue
            g = {"path": bytes.fromhex(e["path_hex"]).rstrip(b"/") if e["type"] == "dir" else bytes.fromhex(e["path_hex"]), "mode": e["mode"], "uid": e["uid"], "gid": e["gid"],
                 "mtime": e["mtime"], "type": e["type"], "size": e["size"], "sha": e["sha512"]}
            if e["type"] == "sym":
                g["target"] = bytes.fromhex(e.get("target_hex", ""))
            got_e.append(g)
        # ancestors of the item roots live outside the generated tree (sandbox root, /verif/build/tmp, ...): their mtimes move
        # whenever anything is created next to the tree, so they are compared without mtime
        roots = [os.fsencode(os.path.realpath(os.path.join(self.w.src, it))).lstrip(b"/") for it in self.w.items]
        for lst in (exp_e, got_e):
            for e in lst:
                if e.get("type") == "dir" and any(r.startswith(e["path"] + b"/") for r in roots):
                    e["mtime"] = None
        if got_e != exp_e:
            k = next((i for i, (a, b) in enumerate(zip(got_e, exp_e)) if a != b), min(len(got_e), len(exp_e)))
            self.diff("archive", {"backup": newb["name"], "entry": k, "implementation": repr(got_e[k]) if k < len(got_e) else None,
                                  "model": repr(exp_e[k]) if k < len(exp_e) else None, "entries": [len(got_e), len(exp_e)]})
        # C10's own statement on the real backup: regular entries and lines one to one and in order, unique prefix hash, extern empty
        regs = [e for e in arch if e.get("type") == "file"]
        if len(regs) != len(lines):
            self.violation("C10", "%d regular archive entries but %d manifest lines in %s" % (len(regs), len(lines), newb["name"]))
        else:
            for e, l in zip(regs, lines):
                if b"/" + bytes.fromhex(e["path_hex"]) != l["path"]:
                    self.violation("C10", "entry %r and line %r are not aligned in %s" % (bytes.fromhex(e["path_hex"]), l["path"], newb["name"]))
                    break
                if l["unique"]:
                    data = bytes.fromhex(e["data_hex"]) if "data_hex" in e else None
                    if data is not None and (slevel.sha512(data[:l["size"]]) != l["hash"] or any(data[l["size"]:])):
                        self.violation("C10", "unique line of %r: the first `size` bytes of its entry do not hash to the recorded hash" % l["path"])
                        break
                elif e["size"] != 0:
                    self.violation("C10", "extern line of %r but its entry carries %d bytes" % (l["path"], e["size"]))
                    break
        # truthfulness for static files
        files = [n for n in snap if n["kind"] == "file"]
        if len(files) == len(lines):
            for n, l in zip(files, lines):
                if l["path"] != os.fsencode(n["path"]) or l["size"] != len(n["data"]) or l["fp"] != n["fp"] or l["hash"] != slevel.sha512(n["data"]):
                    self.violation("C10", "manifest line of %r does not record the file's length, SHA-512 and (device, inode, mtime)" % l["path"],
                                   {"line": {k: (v.decode("utf-8", "replace") if isinstance(v, bytes) else v) for k, v in l.items()},
                                    "source": {"path": n["path"], "size": len(n["data"]), "fp": n["fp"], "sha512": slevel.sha512(n["data"])[:16], "nlink": n.get("nlink")}})
                    break
        for f in newb.get("files", []):
            if f["mode"] != 0o600:
                self.violation("C10", "storage file %s/%s has mode %o" % (newb["name"], f["name"], f["mode"]))
        if newb.get("mode") != 0o700:
            self.violation("C10", "backup directory %s has mode %o" % (newb["name"], newb.get("mode", 0)))

    # ---- one run -----------------------------------------------------------------------------------------------
    def run(self, nedits=None, backup_kwargs=None):
        ctx = self.ctx
        w = self.w
        edits = []
        for _ in range(self.rng.randrange(0, 5) if nedits is None else nedits):
            e = w.edit(self.identity_changes)
            if e != "none":
                edits.append(e)
        self.advance()
        snap = w.snapshot()
        before = self.dec
        name = self.name_of_now()
        res = w.backup(self.now, **(backup_kwargs or {}))
        after = w.decode()
        self.dec = after
        self.log.append({"edits": edits, "clock": name, "exit": res["exit"], "errors": res["errors"][:3], "limits": [w.max_groups, w.max_per]})
        ctx.evaluations += 1
        for e in edits:
            ctx.count("edit." + e)
        lb, _ = listing(before)
        la, junk_after = listing(after)
        # ---- rotation / retention vs the model ----
        day, tm = day_of(name), time_of(name)
        gs_before = abstract_groups(before, self.hash_ids)
        root_clean = not [j for j in listing(after)[1] if not j.startswith(".")]
        mres = model.run_driver([[700, [gs_before, w.max_per, w.max_groups, day, tm, [[1, 1, 1]], int(root_clean)]]])[0]
        published = any(name in f for _, f, _, _ in la)
        if mres[0] == 0:
            ctx.count("run.group-exists")
            if published or res["exit"] == 0:
                self.diff("rotation", {"clock": name, "model": "new group would collide with an existing one", "implementation": "published" if published else "exit 0"})
        else:
            exp_after = [(g[0], sorted((e[1][0], e[1][1]) for e in g[1] if e[0] == 0), sum(1 for e in g[1] if e[0] == 1)) for g in mres[2]]
            got_after = [(day_of(g), sorted([(day_of(f), time_of(f)) for f in fin] + [(day_of(f), time_of(f)) for f in o if len(f) == 19 and f[10:11] == "-"]), len(t)) for g, fin, t, o in la]
            if not published:
                ctx.count("run.not-published")
            elif exp_after != got_after:
                self.diff("rotation", {"clock": name, "model": exp_after, "implementation": got_after})
            else:
                ctx.count("run.published")
                ctx.nontrivial.add(("run", name, len(snap), tuple(edits), tuple(len(f) for _, f, _, _ in la)))
        self.check_properties(name, res, lb, la, before, after, snap, published)
        return res, published, name

    def check_properties(self, name, res, lb, la, before, after, snap, published):
        w = self.w
        ctx = self.ctx
        self.max_per_seen = max(self.max_per_seen, w.max_per)
        clean_before = all(not o for _, _, _, o in lb)
        # ---- C07 ----
        for g, fin, _, _ in la:
            if len(fin) > self.max_per_seen:
                self.violation("C07", "group %s holds %d backups, max_backups_per_group never exceeded %d" % (g, len(fin), self.max_per_seen))
        if published:
            # choice of the group
            newest_before = lb[-1] if lb else None
            target_group = [g for g, fin, _, _ in la if name in fin][0]
            if newest_before and len(newest_before[1]) < w.max_per:
                if target_group != newest_before[0]:
                    self.violation("C07", "the newest group %s held %d < %d backups but the run opened/used %s" % (newest_before[0], len(newest_before[1]), w.max_per, target_group))
            else:
                if target_group != name[:10]:
                    self.violation("C07", "a new group should be named by the current date %s, the backup went to %s" % (name[:10], target_group))
            listing_clean = all(not o for _, _, _, o in la) and not listing(after)[1]
            firsts_ok = all((not fin) or fin[0][:10] == g for g, fin, _, _ in la)
            if res["exit"] == 0 or (listing_clean and firsts_ok and not res["errors"]):
                if len(la) > w.max_groups:
                    self.violation("C07", "%d groups remain after a clean published run, max_backup_groups is %d" % (len(la), w.max_groups))
            names_after = [g for g, _, _, _ in la]
            names_before = [g for g, _, _, _ in lb]
            removed = [g for g in names_before if g not in names_after]
            if removed:
                kept_old = [g for g in names_before if g in names_after]
                if kept_old and max(removed) > min(kept_old):
                    self.violation("C07", "removed groups %s are not the oldest ones (kept %s)" % (removed, kept_old))
                if not clean_before or listing(before)[1]:
                    self.violation("C07", "groups %s were removed although the storage contained entries that cannot be listed" % removed)
            if not any(name in fin for _, fin, _, _ in la):
                self.violation("C07", "the backup just made (%s) is gone after retention" % name)
        else:
            gone = [g for g, _, _, _ in lb if g not in [x for x, _, _, _ in la]]
            if gone:
                self.violation("C07", "the run did not publish but groups %s were deleted" % gone)
        # whatever else lies in the root (foreign files and directories, also ones whose names merely resemble group names) is not vsb's to delete
        lost = [j for j in listing(before)[1] if j not in listing(after)[1]]
        if lost:
            self.violation("C07", "entries of the storage root that are not backup groups were deleted by the run: %s" % lost)
        kids_before = {j["name"]: j.get("children") for j in before.get("junk", []) if j.get("dir")}
        for j in after.get("junk", []):
            if j.get("dir") and j["name"] in kids_before and kids_before[j["name"]] is not None and j.get("children") != kids_before[j["name"]]:
                self.violation("C07", "the run changed the contents of %r, a directory of the storage root that is not a backup group (a group is named exactly "
                               "YYYY.MM.DD in ASCII digits): %s -> %s" % (j["name"], kids_before[j["name"]], j.get("children")))
        # ---- per published backup: manifest / archive / C02 / C09 / C10 ----
        if published:
            tg = [g for g in after["groups"] if any(e["name"] == name for e in g["entries"])][0]
            newb = [e for e in tg["entries"] if e["name"] == name][0]
            gb = [g for g in before["groups"] if g["name"] == tg["name"]]
            group_before = [e for e in (gb[0]["entries"] if gb else []) if recognised(e)]
            self.snapshots[name] = snap
            self.check_new_backup(snap, newb, group_before)
            if res["exit"] == 0:
                self.check_c08(name, snap, newb)
        # ---- C02 / C09 on every group present (not after the driver itself damaged a backup) ----
        if published and self.unreadable:
            self.after_corruption.add(name)
        for g in ([] if self.backup_damaged else after["groups"]):
            uniques = []
            prev_lines = None
            for e in g["entries"]:
                if not recognised(e):
                    continue
                ls = parse_manifest(e)
                if ls is None:
                    prev_lines = None
                    continue
                seen_here = []
                for l in ls:
                    if l["unique"]:
                        if (l["hash"] in uniques or l["hash"] in seen_here) and not self.unreadable:
                            self.violation("C09", "content %s... is stored twice in group %s (again by %r in %s)" % (l["hash"][:12], g["name"], l["path"], e["name"]))
                        if l["size"] == 0:
                            self.violation("C09", "an empty file (%r in %s) is recorded as unique" % (l["path"], e["name"]))
                        seen_here.append(l["hash"])
                    elif l["size"] != 0 and l["hash"] not in uniques and l["hash"] not in seen_here:
                        if self.unreadable:
                            # a manifest of this history was destroyed by the driver: older backups may have lost their data; a backup
                            # published afterwards must add no damage of its own (C02_run_no_new_damage)
                            if e["name"] in self.after_corruption:
                                repeats = prev_lines is not None and any(
                                    p["path"] == l["path"] and p["fp"] == l["fp"] and p["hash"] == l["hash"] for p in prev_lines)
                                if not repeats:
                                    self.violation("C02", "%s/%s (published after a manifest became unreadable) records %r as extern although its hash is "
                                                   "neither loadable from the group nor a repetition of the previous backup's record" % (g["name"], e["name"], l["path"]))
                        else:
                            self.violation("C02", "%s/%s records %r as extern (%d bytes) but no earlier unique record of its hash exists in the group" % (
                                g["name"], e["name"], l["path"], l["size"]))
                uniques += seen_here
                prev_lines = ls
        # ---- C13: the real verifier on the real storage (only for histories of vsb runs by themselves) ----
        if self.debris_seeded:
            return
        v = impl.run_lines([[1300, [list(self.w.st.encode())]]])[0]
        if v[0] != 0 or not v[2]:
            # open known findings: F3 (an empty group left by a failed run is reused on a later date) and
            # F10 (a backup of a tree without any regular file has an empty manifest)
            stale_empty = bool(lb) and not lb[-1][1] and lb[-1][0] != name[:10]
            if stale_empty:
                self.f3_exposed = True
            empty_manifest = any(recognised(e) and parse_manifest(e) == [] for g in after["groups"] for e in g["entries"])
            for fid, hit in (("F3", self.f3_exposed), ("F10", empty_manifest)):
                if hit:
                    k = ctx.match_known(lambda f, fid=fid: f.get("id") == fid, any_property=True)
                    if k:
                        if self.focus == "C13" and not any(kk["id"] == fid for kk, _ in ctx.known_hits):
                            ctx.known_hit(k, k["summary"])
                        ctx.count("known." + fid)
                        return
            self.violation("C13", "after the run at %s the real verifier reports the storage inconsistent (listing ok=%s, verified=%s)" % (
                name, v[1] if v[0] == 0 else None, v[2] if v[0] == 0 else None))

    def check_c08(self, name, snap, newb):
        arch = newb.get("archive", {}).get("entries") or []
        have = {bytes.fromhex(e["path_hex"]).rstrip(b"/") for e in arch if "path_hex" in e}
        for n in snap:
            if os.fsencode(n["path"]).lstrip(b"/") not in have:
                self.violation("C08", "exit 0 but %r is not in the published backup" % n["path"])
                break

    # ---- restore every retained backup --------------------------------------------------------------------------
    def restore_all(self, sample=None):
        ctx = self.ctx
        w = self.w
        la, _ = listing(self.dec)
        todo = [(g, b) for g, fin, _, _ in la for b in fin if b in self.snapshots]
        if sample is not None and len(todo) > sample:
            todo = self.rng.sample(todo, sample)
        for g, b in todo:
            out = w.sb.path("restore-%s" % b.replace(":", ""))
            shutil.rmtree(out, ignore_errors=True)
            rc, text = w.sb.vsb(["restore", os.path.join(w.st, g, b), out])
            ctx.evaluations += 1
            ctx.count("restore.runs")
            snap = self.snapshots[b]
            problem = None
            if rc != 0:
                problem = "`vsb restore` of %s exits %d: %s" % (b, rc, slevel.errors_of(text)[:2])
            else:
                tree = slevel.scan(out)
                exp = {}
                item_roots = [os.path.realpath(os.path.join(w.src, it)) for it in w.items]
                for n in snap:
                    exp[n["path"].lstrip("/")] = n
                for rel in sorted(set(exp) | set(tree)):
                    if rel not in tree:
                        problem = "%r was in the backed-up tree but is not restored" % rel
                        break
                    if rel not in exp:
                        problem = "%r is restored but was not in the backed-up tree" % rel
                        break
                    n, r = exp[rel], tree[rel]
                    if n["kind"] != r["type"]:
                        problem = "%r: type %s restored as %s" % (rel, n["kind"], r["type"])
                        break
                    if n["kind"] == "file" and (r["size"] != len(n["data"]) or r["sha512"] != slevel.sha512(n["data"])):
                        problem = "%r: restored bytes differ" % rel
                        break
                    if n["kind"] == "sym" and os.fsencode(r["target"]) != n["target"]:
                        problem = "%r: symlink target differs" % rel
                        break
                    is_ancestor = n["kind"] == "dir" and any(ir.startswith(n["path"] + "/") for ir in item_roots)
                    if n["kind"] != "sym" and stat.S_IMODE(n["mode"]) != r["mode"]:
                        problem = "%r: mode %o restored as %o" % (rel, stat.S_IMODE(n["mode"]), r["mode"])
                        break
                    if (n["uid"], n["gid"]) != (r["uid"], r["gid"]):
                        problem = "%r: owner %d:%d restored as %d:%d" % (rel, n["uid"], n["gid"], r["uid"], r["gid"])
                        break
                    # directories above the sandbox (e.g. /verif/build/tmp) are shared with other check runs and change under us: only the
                    # ancestors inside the sandbox are compared for mtime
                    outside = is_ancestor and not (n["path"] + "/").startswith(w.sb.root.rstrip("/") + "/")
                    if n["mtime"] != r["mtime"] and not outside:
                        problem = "%r: mtime %d restored as %d" % (rel, n["mtime"], r["mtime"])
                        break
            if not problem and self.rng.random() < self.model_restore_rate:
                mr = self.model_restore(g, b)
                if mr in ("undecodable", "too-large"):
                    ctx.count("restore.model-skipped")
                elif mr is None or not mr[0]:
                    self.diff("restore-model", {"backup": b, "model": "abort" if mr is None else "ok=false", "implementation": "exit 0"})
                else:
                    from checks.C11 import tree_diff
                    td = tree_diff(mr[1], tree)
                    ctx.count("restore.model-compared")
                    if td:
                        self.diff("restore-model", {"backup": b, "differences": td[:5]})
            shutil.rmtree(out, ignore_errors=True)
            if problem:
                self.violation("C01", "restoring retained backup %s/%s: %s" % (g, b, problem), {"backup": b})
                return
            ctx.nontrivial.add(("restore", b, len(snap)))

    # ---- debris ---------------------------------------------------------------------------------------------------
    def seed_debris(self):
        """something in the storage that cannot be listed or parsed, or is merely hidden / temporary"""
        rng = self.rng
        w = self.w
        la, _ = listing(self.dec)
        k = rng.randrange(8)
        label = "none"
        if k == 0:
            open(os.path.join(w.st, rng.choice([".DS_Store", ".hidden"])), "w").close()
            label = "hidden file at root"
        elif k == 1:
            open(os.path.join(w.st, rng.choice(["notes.txt", "lost+found"])), "w").close()
            label = "foreign file at root"
        elif k == 2 and la:
            g = rng.choice(la)[0]
            open(os.path.join(w.st, g, rng.choice(["junk", "README"])), "w").close()
            label = "foreign file in a group"
        elif k == 3 and la:
            g = rng.choice(la)[0]
            os.makedirs(os.path.join(w.st, g, "." + time.strftime("%Y.%m.%d-%H:%M:%S", time.gmtime(self.now - 5))), exist_ok=True)
            label = "abandoned temporary"
        elif k == 4 and la:
            cands = [(g, b) for g, fin, _, _ in la for b in fin]
            if cands:
                g, b = rng.choice(cands)
                try:
                    os.remove(os.path.join(w.st, g, b, rng.choice(["metadata.zst", "data.tar.zst"])))
                    label = "backup directory missing a file"
                    self.backup_damaged = True
                except FileNotFoundError:
                    pass
        elif k == 5 and la:
            g = rng.choice(la)[0]
            open(os.path.join(w.st, g, ".hidden"), "w").close()
            label = "hidden file in a group"
        elif k == 6:
            d = time.strftime("%Y.%m.%d", time.gmtime(self.now - rng.randrange(1, 30) * 86400))
            if not os.path.exists(os.path.join(w.st, d)):
                os.mkdir(os.path.join(w.st, d), 0o700)
                label = "empty older group"
        elif k == 7:
            # a foreign directory whose name merely STARTS like a group name (a copy kept by hand, an editor's or sync tool's leftover);
            # empty or holding only a dot-file, older than everything else
            d = time.strftime("%Y.%m.%d", time.gmtime(self.now - rng.randrange(400, 900) * 86400)) + rng.choice([".old", "-copy", ".bak", "x", " (1)"])
            if rng.random() < 0.3:
                # ... or is a date written in decimal digits that are not ASCII: it sorts after every real group name
                d = rng.choice(["\u0662\u0660\u0662\u0660.\u0660\u0661.\u0660\u0662", "\uff12\uff10\uff12\uff10.01.02"])
            if not os.path.exists(os.path.join(w.st, d)):
                os.mkdir(os.path.join(w.st, d), 0o700)
                if rng.random() < 0.5:
                    open(os.path.join(w.st, d, ".note"), "w").close()
                label = "foreign directory with a group-like prefix"
        if label != "none":
            self.debris_seeded = True
            self.dec = w.decode()
            self.log.append({"debris": label})
            self.ctx.count("debris." + label)
        return label

    def change_limits(self):
        self.w.max_groups = self.rng.randrange(1, 5)
        self.w.max_per = self.rng.randrange(1, 5)
        self.w.write_config()
        self.log.append({"limits": [self.w.max_groups, self.w.max_per]})

    def report_diffs(self, name):
        """model / implementation differences that did not amount to a violation of the focus property"""
        if self.diffs and not self.ctx.violations:
            label, detail = self.diffs[0]
            self.ctx.violation("history-model", "correspondence %s (%s) no longer checks: %d differences, none of which fails the property's own statement"
                               % (name, label, len(self.diffs)),
                               {"correspondence": name, "first_difference": detail, "history": self.log[-40:]}, failing_input=False)

    # ---- the restore model on the decoded storage ------------------------------------------------------------------
    def model_restore(self, group_name, backup_name):
        """Restore2.exec (tag 1100) on the decoded Layer A of the group; returns (ok, {relpath: node}) or None (abort)"""
        comp_ids = {}

        def comps(path_bytes):
            out = []
            for c in path_bytes.strip(b"/").split(b"/"):
                out.append(comp_ids.setdefault(c, len(comp_ids) + 1))
            return out

        def content_of(h):
            c = self.w.contents.get(h)
            return list(c) if c is not None else [256] + list(bytes.fromhex(h))[:8]
        g = [x for x in self.dec["groups"] if x["name"] == group_name][0]
        wire = []
        names = {}
        for e in g["entries"]:
            if not recognised(e):
                continue
            ls = parse_manifest(e)
            arch = e.get("archive", {}).get("entries")
            if ls is None or arch is None:
                return "undecodable"
            lines = [[int(l["unique"]), content_of(l["hash"]), l["size"], comps(l["path"])] for l in ls]
            ents = []
            for a in arch:
                meta = [a["mode"], a["uid"], a["gid"], sexp.Z(a["mtime"] - (1 << 64) if a["mtime"] >= (1 << 63) else a["mtime"])]
                p = comps(bytes.fromhex(a["path_hex"]))
                if a["type"] == "dir":
                    ents.append([0, p, meta])
                elif a["type"] == "sym":
                    ents.append([2, p, meta, list(bytes.fromhex(a.get("target_hex", "")))])
                else:
                    if "data_hex" not in a:
                        return "too-large"
                    ents.append([1, p, meta, list(bytes.fromhex(a["data_hex"]))])
            n = day_of(e["name"]) * 100000 + time_of(e["name"])
            names[e["name"]] = n
            wire.append([n, lines, ents])
        res = model.run_driver([[1100, [wire, names[backup_name]]]])[0]
        if res[0] == 0:
            return None
        inv = {v: k for k, v in comp_ids.items()}
        tree = {}
        for p, n in res[2]:
            rel = b"/".join(inv[c] for c in p).decode("utf-8", "surrogateescape")
            if n[0] == 0:
                tree[rel] = {"type": "file", "data": bytes(n[1]), "meta": n[2][0] if n[2] else None}
            elif n[0] == 1:
                tree[rel] = {"type": "dir", "meta": n[1][0] if n[1] else None}
            else:
                tree[rel] = {"type": "sym", "target": bytes(n[1]), "meta": n[2]}
        return bool(res[1]), tree
