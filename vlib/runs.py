"""Histories of real vsb runs (storage level).  (Under construction.)"""


def c13_runs(ctx):
    ctx.notes.append("run histories (completing / failing / killed runs keep the storage healthy) are exercised by the storage-level driver; not in this run yet")
