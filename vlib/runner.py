"""Common flow of a check: proof half, tie half (delegated to checks/<id>.py), violation search bookkeeping,
known-findings matching, evidence."""
import importlib
import json
import os
import random
import sys
import time
import traceback

from . import build, proof, sexp, model, impl

VERIF = build.VERIF
EVIDENCE = os.path.join(VERIF, "evidence")
REPLAY = os.path.join(VERIF, "replay")
KNOWN = os.path.join(VERIF, "KNOWN_FINDINGS.json")

GLOBAL_TRUSTED = [
    "Coq 8.16.1 kernel (coqc; vm_compute used in Examples, refutation witnesses, reflective finite proofs and cases.v; no native_compute)",
    "no axioms: every property theorem must print 'Closed under the global context' (allow-list is empty unless stated)",
    "extraction with ExtrOcamlBasic only, no Extract Constant/Inductive of our own; OCaml 4.13.1; coq/extract/driver.ml (text <-> val)",
    "hand-written model tied to /repo by this correspondence run (vsbh harness including /repo/src by #[path], python driver)",
]


class Ctx:
    def __init__(self, pid, tier, seed):
        self.pid = pid
        self.tier = tier
        self.seed = seed
        self.rng = random.Random(seed)
        self.t0 = time.time()
        self.evaluations = 0
        self.nontrivial = set()
        self.samples = []
        self.dist = {}
        self.violations = []      # dict(kind, what, replay)
        self.known_hits = []
        self.notes = []
        self.traces = 0
        self.rule = ""
        self.assumptions = []
        self.trusted = list(GLOBAL_TRUSTED)
        self.allowed_axioms = ()
        self.extra = {}
        self.known = [k for k in load_known() if k.get("property") == pid]
        self._replay_n = 0

    # ---- bookkeeping -------------------------------------------------------------------------------------
    def count(self, key, n=1):
        self.dist[key] = self.dist.get(key, 0) + n

    def sample(self, s, limit=6):
        if len(self.samples) < limit:
            self.samples.append(s)

    def log(self, msg):
        sys.stderr.write("[%s] %s\n" % (self.pid, msg))
        sys.stderr.flush()

    def replay_path(self, label):
        os.makedirs(REPLAY, exist_ok=True)
        self._replay_n += 1
        return os.path.join(REPLAY, "%s-%s-%d-%d.json" % (self.pid, label, self.seed, self._replay_n))

    def violation(self, label, what, payload, failing_input=True):
        """Record a violation unless it falls into an open known-finding class (matched by the caller via
        known_class) -- callers pass already-classified failures here."""
        path = self.replay_path(label)
        doc = {"property": self.pid, "what": what, "failing_input_found": failing_input,
               "repo": build.repo_state(), "seed": self.seed, "tier": self.tier}
        doc.update(payload)
        with open(path, "w") as f:
            json.dump(doc, f, indent=1, default=repr)
        self.violations.append({"what": what, "replay": path, "failing_input": failing_input})

    def has_failing_input(self):
        """a violation with a concrete failing input has been recorded (a broken correspondence alone does not stop the search)"""
        return any(v["failing_input"] for v in self.violations)

    def known_hit(self, finding, what):
        self.known_hits.append((finding, what))

    def match_known(self, classifier, any_property=False):
        """classifier(finding_dict) -> bool; returns the first open finding whose class matches."""
        for k in (load_known() if any_property else self.known):
            if k.get("status") == "open" and classifier(k):
                return k
        return None

    # ---- the common F-level pattern ----------------------------------------------------------------------
    def correspond(self, label, cases, expected, observed, prop_ok=None, nontrivial=None, describe=None,
                   vm_sample=24, known_class=None, shrink=None, env=None, shards=1):
        """cases: list of wire values [tag, arg].
        expected(case, model_result) / observed(case, impl_result): canonical comparable values.
        prop_ok(case, impl_result) -> (bool, why): the property evaluated on the implementation's observation.
        known_class(case, impl_result) -> finding id or None."""
        if not cases:
            return
        mres = model.run_driver(cases)
        ires = impl.run_lines(cases, env=env, shards=shards)
        # sample re-evaluated inside Coq: keeps extraction + driver honest
        idx = list(range(len(cases)))
        pick = idx[:vm_sample // 2] + self.rng.sample(idx, min(len(idx), vm_sample // 2))
        pick = sorted(set(pick))
        vres = model.run_vm([cases[i] for i in pick])
        for i, v in zip(pick, vres):
            if v != mres[i]:
                raise build.BuildError("extracted model and vm_compute disagree on %s: %s vs %s" %
                                       (sexp.dumps(cases[i])[:200], v, mres[i]))
        self.extra["vm_compute_cross_checked"] = self.extra.get("vm_compute_cross_checked", 0) + len(pick)
        diffs = []
        failing = []
        for i, c in enumerate(cases):
            self.evaluations += 1
            e = expected(c, mres[i])
            o = observed(c, ires[i])
            if nontrivial is not None:
                k = nontrivial(c, mres[i])
                if k is not None:
                    self.nontrivial.add((label, k))
            if e != o:
                diffs.append(i)
            if prop_ok is not None:
                ok, why = prop_ok(c, ires[i])
                if not ok:
                    failing.append((i, why))
            if describe and len(self.samples) < 6 and (i % max(1, len(cases) // 3) == 0):
                self.sample({"check": label, "case": describe(c), "model": _short(e), "impl": _short(o)})
        self.count(label + ".cases", len(cases))
        self.count(label + ".diffs", len(diffs))
        reported = set()
        failing.sort(key=lambda t: len(sexp.dumps(cases[t[0]])))
        nrep = 0
        for i, why in failing:
            kf = known_class(cases[i], ires[i]) if known_class else None
            if kf:
                k = self.match_known(lambda f: f.get("id") == kf)
                if k:
                    if kf not in reported:
                        self.known_hit(k, why)
                        reported.add(kf)
                    continue
            c = cases[i]
            if shrink:
                c = shrink(c)
            self.violation(label, why, {"case": sexp.dumps(c), "case_readable": describe(c) if describe else None,
                                        "impl": _short(observed(c, impl.run_lines([c], env=env)[0]), 2000),
                                        "model": _short(expected(c, model.run_driver([c])[0]), 2000),
                                        "replay_cmd": "./check %s --replay <this file>" % self.pid})
            nrep += 1
            if nrep >= 3:
                break
        if diffs and not failing:
            i = diffs[0]
            self.violation(label, "correspondence %s no longer checks (model and implementation differ on %d of %d cases, "
                           "none of which fails the property checker)" % (label, len(diffs), len(cases)),
                           {"correspondence": label, "first_differing_case": sexp.dumps(cases[i]),
                            "case_readable": describe(cases[i]) if describe else None,
                            "model": _short(expected(cases[i], mres[i]), 2000),
                            "impl": _short(observed(cases[i], ires[i]), 2000)}, failing_input=False)
        return mres, ires


def _short(x, n=300):
    s = x if isinstance(x, str) else json.dumps(x, default=repr)
    return s if len(s) <= n else s[:n] + "..."


def load_known():
    if not os.path.exists(KNOWN):
        return []
    return json.load(open(KNOWN)).get("findings", [])


def write_evidence(ctx, ph, chk=None):
    os.makedirs(EVIDENCE, exist_ok=True)
    cov = {
        "obligations": ph["obligations"],
        "discharged": ph["discharged"],
        "checker_cmd": "make -C coq (full .vo build) && coqc Props_%s.v + Print Assumptions per theorem (vlib/proof.py)%s"
                       % (ctx.pid, "; coqchk -o -silent Vsb.Props_%s" % ctx.pid if chk else ""),
        "trusted_base": ctx.trusted,
        "theorems": ph["theorems"],
        "proof_problems": ph["problems"],
        "evaluations": ctx.evaluations,
        "distinct_nontrivial": len(ctx.nontrivial),
        "rule": ctx.rule,
        "samples": ctx.samples,
        "traces_validated_against_impl": ctx.traces,
        "input_distribution": ctx.dist,
        "known_findings_hit": [k["id"] for k, _ in ctx.known_hits],
        "notes": ctx.notes,
        "repo": build.repo_state(),
    }
    cov.update(ctx.extra)
    if chk:
        cov["coqchk"] = chk
    ev = {
        "property_id": ctx.pid,
        "tier": ctx.tier,
        "seed": ctx.seed,
        "level": "proof",
        "coverage": cov,
        "assumptions": ctx.assumptions,
        "wall_s": round(time.time() - ctx.t0, 2),
        "violations": len(ctx.violations),
    }
    path = os.path.join(EVIDENCE, "%s.json" % ctx.pid)
    tmp = path + ".tmp"
    with open(tmp, "w") as f:
        json.dump(ev, f, indent=1, default=repr)
    os.replace(tmp, path)


def main(argv):
    if len(argv) < 2:
        print("usage: check <Cxx> quick|thorough | check <Cxx> --replay <file>")
        return 2
    pid = argv[0]
    replay = None
    if argv[1] == "--replay":
        tier = os.environ.get("VERIF_TIER", "quick")
        replay = argv[2]
    else:
        tier = os.environ.get("VERIF_TIER") or argv[1]
        if argv[1] in ("quick", "thorough"):
            tier = argv[1]
    seed = int(os.environ.get("VERIF_SEED", "1") or "1")
    mod = importlib.import_module("checks.%s" % pid)
    ctx = Ctx(pid, tier, seed)
    try:
        if replay:
            doc = json.load(open(replay))
            rc = mod.replay(ctx, doc)
            for v in ctx.violations:
                print("VIOLATION property=%s replay=%s%s" % (pid, v["replay"], "" if v["failing_input"] else " no-failing-input-found"))
            return 1 if ctx.violations else (rc or 0)
        import glob as _glob
        for old in _glob.glob(os.path.join(REPLAY, "%s-*.json" % pid)):
            os.remove(old)
        ctx.allowed_axioms = getattr(mod, "ALLOWED_AXIOMS", ())
        ph = proof.proof_half(pid, ctx.allowed_axioms)
        for pr in ph["problems"]:
            ctx.violation("proof", "proof obligation no longer checks: %s" % pr, {"theorem_or_file": pr}, failing_input=False)
        chk = None
        if tier == "thorough" and os.environ.get("VERIF_NO_COQCHK") != "1":
            chk = proof.coqchk(pid)
            if not chk["ok"]:
                ctx.violation("coqchk", "coqchk rejected Props_%s" % pid, {"output": chk["tail"]}, failing_input=False)
        mod.run(ctx)
    except build.BuildError as e:
        sys.stderr.write("BROKEN-INPUT: %s\n" % e)
        print("check %s could not run: build or harness failure (see stderr); no verdict" % pid)
        return 2
    except Exception:
        import traceback
        traceback.print_exc()
        print("check %s could not run: internal error of the checking machinery (traceback on stderr); no verdict" % pid)
        return 2
    write_evidence(ctx, ph, chk)
    for k, what in ctx.known_hits:
        print("KNOWN-FINDING: property=%s %s [%s]" % (pid, k.get("summary", what), k["id"]))
    for v in ctx.violations:
        print("VIOLATION property=%s replay=%s%s" % (pid, v["replay"], "" if v["failing_input"] else " no-failing-input-found"))
    if ctx.violations:
        return 1
    print("OK property=%s tier=%s evaluations=%d theorems=%d/%d wall=%.1fs" %
          (pid, tier, ctx.evaluations, ph["discharged"], ph["obligations"], time.time() - ctx.t0))
    return 0
