"""Proof half of a check: the development builds, the property file's theorems exist with pinned statements,
every property theorem's Print Assumptions is within the allow-list, and the sources pass the hygiene scan."""
import os
import re
import subprocess
import tempfile
import shutil

from . import build

FORBIDDEN = re.compile(
    r"\b(Admitted|admit|Axiom|Axioms|Parameter|Parameters|Conjecture|Conjectures|Admit\s+Obligations|"
    r"Unset\s+Guard\s+Checking|Unset\s+Positivity\s+Checking|Unset\s+Universe\s+Checking|bypass_check|"
    r"type-in-type|impredicative-set|native_compute)\b")
SECTION_ONLY = re.compile(r"^\s*(Variable|Variables|Hypothesis|Hypotheses|Context)\b")


def strip_comments(text):
    out = []
    depth = 0
    i = 0
    n = len(text)
    while i < n:
        if text.startswith("(*", i):
            depth += 1
            i += 2
        elif text.startswith("*)", i) and depth > 0:
            depth -= 1
            i += 2
        else:
            if depth == 0:
                out.append(text[i])
            elif text[i] == "\n":
                out.append("\n")
            i += 1
    return "".join(out)


def hygiene():
    """Returns a list of problems (empty = clean)."""
    problems = []
    files = build.coq_sources() + [os.path.join(build.EXTRACT, "Extract.v")]
    for path in files:
        text = strip_comments(open(path).read())
        # strings may mention the words; drop string literals
        text = re.sub(r'"[^"\n]*"', '""', text)
        depth = 0
        for ln, line in enumerate(text.split("\n"), 1):
            m = FORBIDDEN.search(line)
            if m:
                problems.append("%s:%d: forbidden %s" % (os.path.basename(path), ln, m.group(1)))
            if re.match(r"^\s*Section\s+\w+", line):
                depth += 1
            elif re.match(r"^\s*End\s+\w+", line) and depth > 0:
                depth -= 1
            elif SECTION_ONLY.match(line) and depth == 0:
                problems.append("%s:%d: %s outside a section" % (os.path.basename(path), ln, line.strip()[:40]))
    return problems


def theorems_of(pid):
    path = os.path.join(build.THEORIES, "Props_%s.v" % pid)
    text = strip_comments(open(path).read())
    thms = re.findall(r"^\s*Theorem\s+(\w+)", text, flags=re.M)
    checks = set(re.findall(r"^\s*Check\s+(\w+)\s*:", text, flags=re.M))
    return path, thms, checks, text


def proof_half(pid, allowed_axioms=()):
    """Returns dict(obligations, discharged, theorems=[{name, axioms}], problems=[...])."""
    build.ensure_coq()
    path, thms, checks, text = theorems_of(pid)
    problems = list(hygiene())
    for t in thms:
        if t not in checks:
            problems.append("theorem %s has no pinned statement (Check %s : ...)" % (t, t))
    # every Theorem in a Props file must be closed by `exact`
    for m in re.finditer(r"^\s*Theorem\s+(\w+).*?Proof\.(.*?)Qed\.", text, flags=re.M | re.S):
        body = m.group(2).strip()
        if not re.match(r"^(intros[^.]*\.\s*)?(split;\s*\[)?\s*exact\b", body) and "exact" not in body:
            problems.append("theorem %s is not closed by exact" % m.group(1))
    work = tempfile.mkdtemp(prefix="assum", dir=build.BUILD)
    try:
        q = os.path.join(work, "Assum.v")
        with open(q, "w") as f:
            f.write("From Vsb Require Import Props_%s.\n" % pid)
            for t in thms:
                f.write('Goal True. idtac "@@THM %s". Abort.\nPrint Assumptions %s.\n' % (t, t))
            f.write('Goal True. idtac "@@END". Abort.\n')
        p = subprocess.run(["timeout", "600", "coqc", "-noglob", "-R", build.THEORIES, "Vsb", q],
                           stdout=subprocess.PIPE, stderr=subprocess.STDOUT, text=True, cwd=work)
        if p.returncode != 0:
            problems.append("assumption query failed: %s" % p.stdout[-1500:])
            return {"obligations": len(thms), "discharged": 0, "theorems": [], "problems": problems}
        out = p.stdout
    finally:
        shutil.rmtree(work, ignore_errors=True)
    res = []
    parts = re.split(r"@@THM (\w+)\n", out)
    # parts: [pre, name1, body1, name2, body2, ...]
    for i in range(1, len(parts), 2):
        name = parts[i]
        body = parts[i + 1].split("@@END")[0]
        if "Closed under the global context" in body:
            axioms = []
        else:
            axioms = re.findall(r"^(\S+)\s*:", body, flags=re.M)
            if not axioms:
                axioms = ["<unparsed: %s>" % body.strip()[:80]]
        res.append({"name": name, "axioms": axioms})
    discharged = 0
    for r in res:
        bad = [a for a in r["axioms"] if a not in allowed_axioms]
        if bad:
            problems.append("theorem %s depends on axioms not in the allow-list: %s" % (r["name"], ", ".join(bad)))
        else:
            discharged += 1
    if len(res) != len(thms):
        problems.append("assumption query covered %d of %d theorems" % (len(res), len(thms)))
    return {"obligations": len(thms), "discharged": discharged, "theorems": res, "problems": problems}


def coqchk(pid, timeout=3000):
    """Independent re-check of the property file and everything it depends on (thorough tier)."""
    build.ensure_coq()
    p = subprocess.run(["timeout", str(timeout), "coqchk", "-o", "-silent", "-R", build.THEORIES, "Vsb",
                        "Vsb.Props_%s" % pid], stdout=subprocess.PIPE, stderr=subprocess.STDOUT, text=True, cwd=build.COQ)
    out = p.stdout
    ok = p.returncode == 0
    m = re.search(r"\* Axioms:\s*(.*?)\n\s*\n|\* Axioms:\s*(<none>)", out, flags=re.S)
    axioms = (m.group(1) or m.group(2)).strip() if m else "?"
    return {"ok": ok, "axioms": axioms, "tail": out[-800:]}
