"""System-call traces of the real binary (strace -f -y), fault and kill injection, and the projection of the
storage-side calls to the abstract operations of the durability / atomicity models."""
import os
import re
import subprocess

RX_UNF = re.compile(r'^(\d+)\s+(.*) <unfinished \.\.\.>\s*$')
RX_RES = re.compile(r'^(\d+)\s+<\.\.\. (\w+) resumed>(.*)$')
RX_CALL = re.compile(r'^(\d+)\s+(\w+)\((.*)\)\s+= (-?\d+|\?)(.*)$')
RX_EXIT = re.compile(r'^(\d+)\s+\+\+\+ (exited with (\d+)|killed by (\w+)) \+\+\+')


def unescape(s):
    return s.encode("latin-1", "backslashreplace").decode("unicode_escape").encode("latin-1", "replace").decode("utf-8", "replace")


def split_args(s):
    out, cur, depth, inq, esc = [], "", 0, False, False
    for ch in s:
        if inq:
            cur += ch
            if esc:
                esc = False
            elif ch == "\\":
                esc = True
            elif ch == '"':
                inq = False
            continue
        if ch == '"':
            inq = True
            cur += ch
        elif ch in "([{<":
            depth += 1
            cur += ch
        elif ch in ")]}>":
            depth -= 1
            cur += ch
        elif ch == "," and depth == 0:
            out.append(cur.strip())
            cur = ""
        else:
            cur += ch
    if cur.strip():
        out.append(cur.strip())
    return out


def parse(path):
    """list of events: dict(pid, name, args, ret, err, raw) and exit records dict(pid, exit|killed)"""
    events = []
    pending = {}
    with open(path, errors="replace") as f:
        for line in f:
            line = line.rstrip("\n")
            u = RX_UNF.match(line)
            if u:
                pending[u.group(1)] = u.group(2)
                continue
            r = RX_RES.match(line)
            if r and r.group(1) in pending:
                line = "%s %s%s" % (r.group(1), pending.pop(r.group(1)), r.group(3))
            x = RX_EXIT.match(line)
            if x:
                events.append({"pid": x.group(1), "name": "+exit", "status": int(x.group(3)) if x.group(3) else None, "signal": x.group(4)})
                continue
            m = RX_CALL.match(line)
            if not m:
                continue
            events.append({"pid": m.group(1), "name": m.group(2), "args": split_args(m.group(3)), "ret": m.group(4), "err": m.group(5).strip(), "raw": line})
    return events


def fd_path(arg):
    """'5</path/to>' -> '/path/to' (strace -y)"""
    m = re.match(r'^-?\d+<(.*)>$', arg)
    return unescape(m.group(1)) if m else None


def str_arg(arg):
    m = re.match(r'^"(.*)"(\.\.\.)?$', arg)
    return unescape(m.group(1)) if m else None


def strace_cmd(out, syscalls, inject=None, paths=None):
    cmd = ["strace", "-f", "-y", "-s", "300", "-o", out, "-e", "trace=" + ",".join(syscalls)]
    for i in (inject or []):
        cmd += ["-e", "inject=" + i]
    for p in (paths or []):
        cmd += ["-P", p]
    return cmd


STORAGE_CALLS = ["mkdir", "mkdirat", "openat", "write", "fsync", "fdatasync", "rename", "renameat", "renameat2", "unlink", "unlinkat", "rmdir",
                 "flock", "close", "exit_group", "getdents64"]


def project(events, st_root):
    """storage-side calls of the main process -> abstract operations with paths relative to the storage root.
    returns list of dict(op, rel, ..., index) in issue order; failed calls are kept with ok=False"""
    ops = []
    st_root = st_root.rstrip("/")

    def rel(p):
        if p is None:
            return None
        if p == st_root:
            return ""
        if p.startswith(st_root + "/"):
            return p[len(st_root) + 1:]
        return None

    for i, e in enumerate(events):
        n = e["name"]
        if n == "+exit":
            ops.append({"op": "exit", "status": e["status"], "signal": e["signal"], "index": i})
            continue
        ok = e["ret"] not in ("-1", "?")
        a = e["args"]
        if n in ("mkdir", "mkdirat"):
            p = str_arg(a[0] if n == "mkdir" else a[1])
            r = rel(p)
            if r is not None:
                ops.append({"op": "mkdir", "rel": r, "ok": ok, "index": i, "err": e["err"]})
        elif n == "openat":
            p = str_arg(a[1])
            r = rel(p)
            if r is not None and "O_CREAT" in a[2]:
                ops.append({"op": "create", "rel": r, "ok": ok, "index": i, "excl": "O_EXCL" in a[2], "err": e["err"]})
            elif r is not None and ("O_WRONLY" in a[2] or "O_RDWR" in a[2]):
                ops.append({"op": "open-write", "rel": r, "ok": ok, "index": i, "err": e["err"]})
        elif n == "write":
            r = rel(fd_path(a[0]))
            if r is not None:
                ops.append({"op": "write", "rel": r, "ok": ok, "n": int(e["ret"]) if ok else 0, "index": i, "err": e["err"]})
        elif n in ("fsync", "fdatasync"):
            r = rel(fd_path(a[0]))
            if r is not None:
                ops.append({"op": "fsync", "rel": r, "ok": ok, "index": i, "err": e["err"]})
        elif n in ("rename", "renameat", "renameat2"):
            if n == "rename":
                src, dst = str_arg(a[0]), str_arg(a[1])
            else:
                src, dst = str_arg(a[1]), str_arg(a[3])
            rs, rd = rel(src), rel(dst)
            if rs is not None or rd is not None:
                ops.append({"op": "rename", "rel": rs, "to": rd, "ok": ok, "index": i, "err": e["err"]})
        elif n in ("unlink", "rmdir", "unlinkat"):
            if n == "unlinkat":
                base = fd_path(a[0]) if a[0] != "AT_FDCWD" else None
                name = str_arg(a[1])
                p = name if (name or "").startswith("/") else (os.path.join(base, name) if base else name)
            else:
                p = str_arg(a[0])
            r = rel(p)
            if r is not None:
                ops.append({"op": "remove", "rel": r, "ok": ok, "index": i, "dir": n == "rmdir" or "AT_REMOVEDIR" in "".join(a), "err": e["err"]})
        elif n == "flock":
            p = fd_path(a[0])
            ops.append({"op": "flock", "rel": rel(p), "path": p, "ok": ok, "how": a[1], "index": i, "err": e["err"]})
        elif n == "exit_group":
            ops.append({"op": "exit_group", "status": int(a[0]), "index": i})
    return ops
