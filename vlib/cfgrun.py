"""C20, the clause about the real binary: a malformed configuration is rejected with a non-zero exit BEFORE any storage or network access and
without side effects - for `vsb backup`, `vsb upload` and `vsb restore` alike.  A valid document (storage, one item with a hook and a filter,
an upload section, a second backup, a metrics path - all inside the sandbox) is mutated by one fault of the property's list at a time; the
real `vsb` runs under strace (-f, %file + execve + connect): nothing may be executed, no inet connect issued, no path at or below the storage,
the items, the restore target, the metrics file touched in any way, and the sandbox must be byte-for-byte as it was."""
import os
import shutil

from vlib import build, slevel, trace

TEMPLATE = """backups:
  - name: {name1}
    path: {path1}
{spec_extra}
    backup:
{items}
{mg}
{mpg}
{backup_extra}
    upload:
      provider:
        name: {prov_name}
        client_id: {cid}
        client_secret: b
        refresh_token: c
{prov_extra}
      path: {upath}
      max_backup_groups: {umg}
      encryption_passphrase: {passphrase}
      max_time_without_backups: {age}
{upload_extra}
  - name: {name2}
    path: {path2}
{metrics}
{top_extra}
"""

ITEMS = """      items:
        - path: {item}
          before: 'echo B >> {log}'
          filter: |
            {rule}
{item_extra}"""


def render(sbx, over):
    v = {"name1": "w", "path1": sbx["st"], "spec_extra": "", "mg": "      max_backup_groups: 3", "mpg": "      max_backups_per_group: 3", "backup_extra": "",
         "prov_name": "dropbox", "cid": "a", "prov_extra": "", "upath": "/cloud", "umg": "2", "passphrase": "secret", "age": "7d", "upload_extra": "",
         "name2": "other", "path2": sbx["st2"], "metrics": "prometheus_metrics: " + sbx["metrics"], "top_extra": "",
         "item": sbx["item"], "log": sbx["log"], "rule": "- *.tmp", "item_extra": "", "items": None}
    v.update(over)
    if v["items"] is None:
        v["items"] = ITEMS.format(**v)
    text = TEMPLATE.format(**v)
    return "\n".join(l for l in text.split("\n") if l.strip() != "") + "\n"


def faults(sbx):
    """(label, overrides): one malformation of the property's list each"""
    st = sbx["st"]
    return [
        ("unknown key at the top level", {"top_extra": "bogus: 1"}),
        ("unknown key in a backup specification", {"spec_extra": "    bogus: 1"}),
        ("unknown key in the backup section", {"backup_extra": "      bogus: 1"}),
        ("unknown key in an item", {"item_extra": "          bogus: 1"}),
        ("unknown key in the upload section", {"upload_extra": "      bogus: 1"}),
        ("unknown key in the provider block", {"prov_extra": "        bogus: 1"}),
        ("max_backup_groups: 0", {"mg": "      max_backup_groups: 0"}),
        ("max_backups_per_group: 0", {"mpg": "      max_backups_per_group: 0"}),
        ("upload max_backup_groups: 0", {"umg": "0"}),
        ("max_backup_groups missing", {"mg": ""}),
        ("empty item list", {"items": "      items: []"}),
        ("empty item path", {"item": "''"}),
        ("duplicate backup names", {"name2": "w"}),
        ("empty backup name (other specification)", {"name2": "''"}),
        ("relative storage path", {"path1": "relative/st"}),
        ("storage path with ..", {"path1": os.path.dirname(st) + "/x/../st"}),
        ("relative storage path (other specification)", {"path2": "relative/st2"}),
        ("relative upload path", {"upath": "cloud"}),
        ("upload path with ..", {"upath": "/a/../cloud"}),
        ("relative metrics path", {"metrics": "prometheus_metrics: metrics.prom"}),
        ("malformed filter rule (no sign)", {"rule": "x nonsense"}),
        ("malformed filter rule (bad glob)", {"rule": "- a{b"}),
        ("malformed duration (7 days)", {"age": "7 days"}),
        ("malformed duration (d7)", {"age": "d7"}),
        ("empty passphrase", {"passphrase": "''"}),
        ("unknown provider", {"prov_name": "nosuch"}),
        ("empty credential", {"cid": "''"}),
    ]


CALLS = ["%file", "execve", "connect"]


def snapshot(root, skip):
    out = []
    for dp, dn, fn in os.walk(root):
        dn[:] = [d for d in dn if os.path.join(dp, d) not in skip]
        for n in sorted(dn + fn):
            p = os.path.join(dp, n)
            if p in skip:
                continue
            st = os.lstat(p)
            out.append((os.path.relpath(p, root), st.st_mode, st.st_size, st.st_mtime_ns if not os.path.isdir(p) else 0))
    return sorted(out)


def observe(sb, sbx, action, tag):
    tf = sb.path("trace-%s.txt" % tag)
    if os.path.exists(tf):
        os.remove(tf)
    prefix = trace.strace_cmd(tf, CALLS)
    env = {"VSB_VERIF_HTTP_ENDPOINT": "http://127.0.0.1:1"}
    rc, out = sb.vsb(action, env=env, prefix=prefix, timeout=120)
    ev = trace.parse(tf)
    os.remove(tf)
    watched = [sbx["st"], sbx["st2"], sbx["src"], sbx["restore"], sbx["metrics"], sbx["log"]]
    touched, execs, connects = [], [], []
    first_exec = True
    for e in ev:
        if e["name"] == "+exit":
            continue
        if e["name"] == "execve":
            if first_exec:
                first_exec = False
                continue
            execs.append(trace.str_arg(e["args"][0]) if e["args"] else "?")
            continue
        if e["name"] == "connect":
            raw = e["raw"]
            if "AF_INET" in raw:
                connects.append(raw[:160])
            continue
        for a in e["args"]:
            s = trace.str_arg(a)
            if s is None:
                s = trace.fd_path(a)
            if s and any(s == w or s.startswith(w + "/") for w in watched):
                touched.append("%s(%s)" % (e["name"], s))
                break
    return {"exit": rc, "out": out, "touched": touched, "execs": execs, "connects": connects}


def run(ctx):
    build.ensure_vsb()
    thorough = ctx.tier == "thorough"
    rng = ctx.rng
    with slevel.Sandbox("c20") as sb:
        sbx = {"st": sb.path("st"), "st2": sb.path("st2"), "src": sb.path("src"), "item": sb.path("src", "item0"), "log": sb.path("hook.log"),
               "metrics": sb.path("metrics.prom"), "restore": sb.path("restored")}
        for d in ("st", "st2", "home"):
            os.makedirs(sb.path(d))
        os.makedirs(sbx["item"])
        with open(os.path.join(sbx["item"], "a.txt"), "w") as f:
            f.write("content\n")
        with open(os.path.join(sbx["item"], "b.tmp"), "w") as f:
            f.write("filtered\n")

        def write(over):
            with open(sb.cfg, "w") as f:
                f.write(render(sbx, over))
        # ---- the valid document: every action does act (the observation is sensitive) ----
        write({})
        r = observe(sb, sbx, ["backup", "w"], "valid-backup")
        ctx.evaluations += 1
        if r["exit"] != 0 or not r["touched"] or not r["execs"] or not os.path.exists(sbx["log"]):
            ctx.violation("binary", "correspondence config-binary no longer checks: `vsb backup` with the valid document: exit %d, %d storage accesses seen, "
                          "%d commands executed: %s" % (r["exit"], len(r["touched"]), len(r["execs"]), r["out"][-300:]), {}, failing_input=False)
            return
        group = sorted(os.listdir(sbx["st"]))[-1]
        backup = sorted(b for b in os.listdir(os.path.join(sbx["st"], group)) if not b.startswith("."))[-1]
        bpath = os.path.join(sbx["st"], group, backup)
        r = observe(sb, sbx, ["upload"], "valid-upload")
        ctx.evaluations += 1
        if not r["connects"]:
            ctx.violation("binary", "correspondence config-binary no longer checks: `vsb upload` with the valid document issues no connect(): exit %d: %s"
                          % (r["exit"], r["out"][-300:]), {}, failing_input=False)
            return
        r = observe(sb, sbx, ["restore", bpath, sbx["restore"]], "valid-restore")
        ctx.evaluations += 1
        if r["exit"] != 0 or not os.path.exists(os.path.join(sbx["restore"], sbx["item"].lstrip("/"), "a.txt")):
            ctx.violation("binary", "correspondence config-binary no longer checks: `vsb restore` with the valid document: exit %d: %s" % (r["exit"], r["out"][-300:]),
                          {}, failing_input=False)
            return
        shutil.rmtree(sbx["restore"])
        os.remove(sbx["log"])
        if os.path.exists(sbx["metrics"]):
            os.remove(sbx["metrics"])
        ctx.count("binary.valid-runs", 3)
        # ---- one fault at a time ----
        fl = faults(sbx)
        actions = [("backup", ["backup", "w"]), ("upload", ["upload"]), ("restore", ["restore", bpath, sbx["restore"]])]
        skip = {sb.cfg}
        for k, (label, over) in enumerate(fl):
            write(over)
            todo = actions if thorough else [actions[k % 3], actions[(k + 1) % 3]] if k % 2 else [actions[k % 3]]
            if label in ("empty item path", "unknown key at the top level"):
                todo = actions
            for aname, action in todo:
                before = snapshot(sb.root, skip)
                r = observe(sb, sbx, action, "f%d-%s" % (k, aname))
                after = snapshot(sb.root, skip)
                ctx.evaluations += 1
                ctx.count("binary.fault." + aname)
                ctx.nontrivial.add(("binary", label, aname))
                problem = None
                if r["exit"] == 0:
                    problem = "exits 0"
                elif r["exit"] == 101 or "panicked" in r["out"]:
                    problem = "panics"
                elif r["execs"]:
                    problem = "executes %s before / instead of rejecting it" % r["execs"][:2]
                elif r["connects"]:
                    problem = "opens a network connection (%s)" % r["connects"][0]
                elif r["touched"]:
                    problem = "accesses the storage / the items / the restore target (%s)" % ", ".join(r["touched"][:3])
                elif before != after:
                    diff = sorted(set(after) ^ set(before))[:3]
                    problem = "leaves side effects: %s" % [d[0] for d in diff]
                if problem:
                    ctx.violation("binary", "`vsb %s` with a configuration that has %s %s" % (aname, label, problem),
                                  {"fault": label, "action": aname, "document": render(sbx, over), "exit": r["exit"], "output": r["out"][-500:]})
                    return
