"""Running the implementation side through the harness binary (line mode)."""
import subprocess

from . import build, sexp


def run_lines(cases, timeout=3600, env=None, shards=1):
    exe = build.ensure_vsbh()
    if shards > 1 and len(cases) >= 4 * shards:
        from concurrent.futures import ThreadPoolExecutor
        n = (len(cases) + shards - 1) // shards
        parts = [cases[i:i + n] for i in range(0, len(cases), n)]
        with ThreadPoolExecutor(max_workers=shards) as ex:
            outs = list(ex.map(lambda p: run_lines(p, timeout, env, 1), parts))
        return [r for o in outs for r in o]
    text = "\n".join(sexp.dumps(c) for c in cases) + "\n"
    e = dict(build.ENV)
    e["RUST_BACKTRACE"] = "0"
    if env:
        e.update(env)
    p = subprocess.run([exe, "lines"], input=text, stdout=subprocess.PIPE, stderr=subprocess.PIPE, text=True,
                       timeout=timeout, env=e)
    if p.returncode != 0:
        raise build.BuildError("vsbh failed (exit %d): %s" % (p.returncode, p.stderr[-2000:]))
    lines = [l for l in p.stdout.split("\n") if l.strip()]
    if len(lines) != len(cases):
        raise build.BuildError("vsbh returned %d lines for %d cases; stderr: %s" % (len(lines), len(cases), p.stderr[-2000:]))
    return [sexp.loads(l) for l in lines]
