"""Storage-level part of C10: real `vsb backup` runs decoded by the independent reader (tar + zstd crates used
directly; in the thorough tier the decompressed tar is also re-read with python's tarfile)."""
import io
import os
import tarfile

from . import build, runs, slevel


def run_c10(ctx):
    thorough = ctx.tier == "thorough"
    rng = ctx.rng
    build.ensure_vsb()
    nhist, nruns = (25, 6) if thorough else (3, 4)
    for h in range(nhist):
        with slevel.Sandbox("c10") as sb:
            H = runs.History(ctx, sb, rng, "C10", rng.randrange(1, 4), rng.randrange(1, 4), nitems=rng.choice([1, 2]), identity_changes=True)
            H.w.populate(nfiles=10)
            for i in range(nruns):
                H.run()
                if ctx.violations:
                    break
            H.report_diffs("backup-run")
        if ctx.violations:
            break
    ctx.count("storage.histories", nhist)
