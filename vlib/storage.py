"""Storage-level part of C10: real `vsb backup` runs decoded by the independent reader (tar + zstd crates used
directly; in the thorough tier the decompressed tar is also re-read with python's tarfile)."""
import io
import os
import tarfile

from . import build, runs, slevel


def run_c10(ctx):
    thorough = ctx.tier == "thorough"
    rng = ctx.rng
    build.ensure_vsb()
    nhist, nruns = (25, 6) if thorough else (3, 4)
    for h in range(nhist):
        with slevel.Sandbox("c10") as sb:
            # every other history also changes content under an unchanged (device, inode, mtime) with a different size: the line must still
            # be truthful (the repaired fingerprint shortcut compares sizes)
            H = runs.History(ctx, sb, rng, "C10", rng.randrange(1, 4), rng.randrange(1, 4), nitems=rng.choice([1, 2]), identity_changes=(h % 2 == 0))
            H.w.populate(nfiles=10)
            for i in range(nruns):
                H.run()
                if ctx.violations:
                    break
            H.report_diffs("backup-run")
        if ctx.violations:
            break
    # targeted: a file rewritten in place to another length with its mtime set back (same device, inode, mtime - another size): the next
    # backup's line must describe the file as it is now
    if not ctx.has_failing_input():
        with slevel.Sandbox("c10") as sb:
            H = runs.History(ctx, sb, rng, "C10", 3, 6, identity_changes=False)
            H.advance = lambda: None
            H.now += 3600
            H.w.populate(nfiles=4)
            p = os.path.join(H.w.src, H.w.items[0], "report.txt")
            H.w.write_file(p, b"first build of the report\n")
            H.now += 61
            H.run(nedits=0)
            for newd in (b"second build, a longer report than before\n", b"third\n"):
                st = os.lstat(p)
                with open(p, "r+b") as f:
                    f.truncate(0)
                    f.write(newd)
                H.w.remember(newd)
                os.utime(p, ns=(st.st_atime_ns, st.st_mtime_ns))
                H.now += 61
                H.run(nedits=0)
                ctx.count("targeted.rewritten-in-place-mtime-set-back")
                if ctx.has_failing_input():
                    break
            H.report_diffs("backup-run")
    # a source file that fails to be read in the middle of its SECOND pass (the tar header and part of the data are already in the stream):
    # whatever gets a final name must still be a well-formed archive with lines and entries in step
    if not ctx.has_failing_input():
        with slevel.Sandbox("c10") as sb:
            H = runs.History(ctx, sb, rng, "C10", 3, 6, identity_changes=True)
            H.advance = lambda: None
            H.w.populate(nfiles=5)
            top = os.path.join(H.w.src, H.w.items[0])
            big = os.path.join(top, "big.bin")
            H.w.write_file(big, rng.randbytes(200000))
            H.w.write_file(os.path.join(top, "zz-after-big"), b"after " * 100)
            tf = sb.path("reads.txt")
            H.now += 3600
            # the number of read() calls on the file in an undisturbed run
            H.run(nedits=0, backup_kwargs={"prefix": ["strace", "-f", "-o", tf, "-e", "trace=read", "-P", os.path.realpath(big)]})
            nreads = sum(1 for l in open(tf, errors="replace") if "read(" in l) if os.path.exists(tf) else 0
            ctx.count("faulted-source-read.reads_per_run", nreads)
            for k in sorted(set([1, nreads // 2 + 1, nreads // 2 + 2, max(1, nreads - 2), nreads // 4 + 1])):
                if ctx.violations or nreads == 0:
                    break
                # a fresh content so that both passes happen again
                H.w.write_file(big, rng.randbytes(200000))
                H.now += 61
                H.run(nedits=0, backup_kwargs={"prefix": ["strace", "-f", "-o", tf, "-e", "trace=read", "-P", os.path.realpath(big),
                                                          "-e", "inject=read:error=EIO:when=%d" % k]})
                ctx.count("faulted-source-read.runs")
            H.report_diffs("backup-run")
    ctx.count("storage.histories", nhist)
