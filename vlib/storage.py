"""Storage-level (S) driver: real `vsb backup` / `vsb restore` runs on generated trees and histories under a fake
clock, storage decoded by an independent reader.  (Under construction.)"""


def run_c10(ctx):
    ctx.notes.append("storage-level part (entries vs lines, unique prefix hash, modes) not built yet")
