"""Wire values: an int or a list of values; text form '(1 (2 3) 4)' (coq/theories/Wire.v)."""


def dumps(v):
    if isinstance(v, bool):
        return "1" if v else "0"
    if isinstance(v, int):
        assert v >= 0, v
        return str(v)
    if isinstance(v, (bytes, bytearray)):
        return "(" + " ".join(str(b) for b in v) + ")"
    if isinstance(v, str):
        return dumps(v.encode())
    return "(" + " ".join(dumps(x) for x in v) + ")"


def loads(s):
    s = s.split(";", 1)[0]
    pos = 0
    n = len(s)
    stack = []
    while True:
        while pos < n and s[pos] in " \t\r\n":
            pos += 1
        if pos >= n:
            raise ValueError("eof in %r" % s[:80])
        c = s[pos]
        if c == "(":
            stack.append([])
            pos += 1
            continue
        if c == ")":
            pos += 1
            v = stack.pop()
        elif c.isdigit():
            j = pos
            while j < n and s[j].isdigit():
                j += 1
            v = int(s[pos:j])
            pos = j
        else:
            raise ValueError("bad char %r at %d in %r" % (c, pos, s[:80]))
        if stack:
            stack[-1].append(v)
        else:
            rest = s[pos:].strip()
            if rest:
                raise ValueError("trailing %r" % rest[:40])
            return v


def Z(z):
    return [0, z] if z >= 0 else [1, -z]


def unZ(v):
    return v[1] if v[0] == 0 else -v[1]


def opt(x, f=lambda y: y):
    return [] if x is None else [f(x)]


def to_bytes(v):
    return bytes(v)


def to_coq(v):
    """Render as a Gallina term of type Wire.val (N_scope open)."""
    if isinstance(v, bool):
        v = int(v)
    if isinstance(v, int):
        return "VN %d" % v
    if isinstance(v, (bytes, bytearray, str)):
        v = list(v.encode() if isinstance(v, str) else v)
    return "VL [" + "; ".join(to_coq(x) for x in v) + "]"


def from_coq(s):
    """Parse Coq's printing of a Wire.val: 'VL [VN 1; VL []]' (numbers may carry %N)."""
    toks = []
    i = 0
    n = len(s)
    while i < n:
        c = s[i]
        if c in " \t\r\n":
            i += 1
        elif c in "[];()":
            toks.append(c)
            i += 1
        elif c.isdigit():
            j = i
            while j < n and s[j].isdigit():
                j += 1
            toks.append(int(s[i:j]))
            i = j
            if s[i:i + 2] == "%N":
                i += 2
        elif c.isalpha():
            j = i
            while j < n and (s[j].isalnum() or s[j] == "_"):
                j += 1
            toks.append(s[i:j])
            i = j
        else:
            raise ValueError("bad char %r in coq output" % c)
    pos = [0]

    def val():
        t = toks[pos[0]]
        if t == "(":
            pos[0] += 1
            v = val()
            assert toks[pos[0]] == ")"
            pos[0] += 1
            return v
        if t == "VN":
            pos[0] += 1
            x = toks[pos[0]]
            if x == "(":
                pos[0] += 1
                x = toks[pos[0]]
                pos[0] += 1
                assert toks[pos[0]] == ")"
            assert isinstance(x, int), x
            pos[0] += 1
            return x
        if t == "VL":
            pos[0] += 1
            if toks[pos[0]] == "(":
                pos[0] += 1
                v = lst()
                assert toks[pos[0]] == ")"
                pos[0] += 1
                return v
            return lst()
        raise ValueError("unexpected token %r" % (t,))

    def lst():
        assert toks[pos[0]] == "[", toks[pos[0]]
        pos[0] += 1
        out = []
        if toks[pos[0]] == "]":
            pos[0] += 1
            return out
        while True:
            out.append(val())
            t = toks[pos[0]]
            pos[0] += 1
            if t == "]":
                return out
            assert t == ";", t

    return val()
