"""How the listing classifies names (C13: 'an unexpected entry'; C07: 'anything that cannot be listed'): the Gallina model NameClass
(tag 1350) against the real Storage listing (harness tag 1300) on a healthy storage to which ONE entry with a generated name is added -
at the root (an empty directory or a file) or inside the group (a complete copy of the group's backup, or a file).
Observed class: the name shows up among the groups / backups / temporaries of the listing; otherwise ignored (no error) or unexpected."""
import hashlib
import os
import shutil

from . import impl, model

GROUP = "2023.11.01"
BACKUP = "2023.11.01-10:00:00"


def variants(rng, base):
    """names around `base`: the name itself, one character replaced / dropped / doubled, prefixes and suffixes, digits that are not ASCII"""
    out = {base, "." + base, ".." + base, base + ".old", base + "~", base + " ", " " + base, "x" + base, base + "0", base[:-1], base[1:], base + "\n",
           base.replace(".", "-"), base.replace(".", ":"), base.upper(), base + ".tar.gpg", "." + base + ".tar.gpg", base + "/".replace("/", "_")}
    swaps = {"0": "٠", "1": "١", "2": "２", "3": "३"}
    for i, ch in enumerate(base):
        for r in ("a", ".", "-", ":", "9", " ", swaps.get(ch, "٥")):
            if r != ch:
                out.add(base[:i] + r + base[i + 1:])
        out.add(base[:i] + base[i + 1:])
        out.add(base[:i] + ch + base[i:])
    # whole name in other decimal digits
    for zero in (0x0660, 0xff10, 0x0966):
        out.add("".join(chr(zero + int(c)) if c.isdigit() else c for c in base))
    out |= {"notes.txt", "lost+found", ".DS_Store", ".hidden", "a", "2023", "2023.11", "....", ".-", "0000.00.00", "9999.99.99", "0000.00.00-00:00:00", "9999.99.99-99:99:99"}
    out = [n for n in out if n not in ("", ".", "..") and "/" not in n and "\0" not in n and len(n.encode()) < 200]
    out.sort()
    return out


def run(ctx, sb):
    rng = ctx.rng
    thorough = ctx.tier == "thorough"
    tmpl = sb.path("names-template")
    content = b"name classification"
    sb.write_storage({"groups": [{"name": GROUP, "backups": [{
        "name": BACKUP,
        "manifest": [{"unique": True, "hash": hashlib.sha512(content).hexdigest(), "fp": [1, 2, 3], "size": len(content), "path_hex": b"/d/f".hex()}],
        "entries": [{"type": "file", "path_hex": b"d/f".hex(), "data_hex": content.hex()}]}]}]}, tmpl)
    cands = []
    for name in variants(rng, GROUP):
        cands.append((0, True, name))
        if thorough or rng.random() < 0.25:
            cands.append((0, False, name))
    for name in variants(rng, BACKUP):
        if name == BACKUP:
            continue
        cands.append((1, True, name))
        if thorough or rng.random() < 0.25:
            cands.append((1, False, name))
    if not thorough:
        must = [c for c in cands if c[2] in (GROUP + ".old", BACKUP + ".old", "." + BACKUP, "." + GROUP) or any(ord(ch) > 127 for ch in c[2])]
        rest = [c for c in cands if c not in must]
        cands = must + rng.sample(rest, min(len(rest), 260))
    roots = []
    kept = []
    for k, (lvl, is_dir, name) in enumerate(cands):
        root = sb.path("names-%d" % k)
        shutil.copytree(tmpl, root)
        where = root if lvl == 0 else os.path.join(root, GROUP)
        p = os.path.join(where, name)
        if os.path.lexists(p):
            shutil.rmtree(root)
            continue            # the name is the template's own group
        try:
            if is_dir and lvl == 1:
                shutil.copytree(os.path.join(root, GROUP, BACKUP), p)
            elif is_dir:
                os.mkdir(p)
            else:
                with open(p, "w") as f:
                    f.write("junk")
        except OSError:
            shutil.rmtree(root)
            continue
        roots.append(root)
        kept.append((lvl, is_dir, name))
    ires = impl.run_lines([[1300, [list(r.encode())]] for r in roots])
    mres = model.run_driver([[1350, [[[lvl, int(d), list(n.encode())] for lvl, d, n in kept]]]])[0]
    for r in roots:
        shutil.rmtree(r, ignore_errors=True)
    shutil.rmtree(tmpl, ignore_errors=True)
    if mres[0] != 0 or len(mres[1]) != len(kept):
        ctx.violation("names-model", "correspondence name-classification no longer checks: the model rejects the case list", {}, failing_input=False)
        return
    ROOT = {0: "ignored as hidden", 1: "a backup group", 2: "an unexpected entry"}
    ENT = {0: "ignored as hidden", 1: "a backup", 2: "a temporary backup", 3: "an unexpected entry"}
    for (lvl, is_dir, name), r, m in zip(kept, ires, mres[1]):
        ctx.evaluations += 1
        kind = "directory" if is_dir else "file"
        what = "%s %r %s" % (kind, name, "in the storage root" if lvl == 0 else "in a group")
        if r[0] != 0:
            ctx.violation("names", "listing a storage with the %s fails altogether" % what, {"name": name, "level": lvl, "dir": is_dir})
            return
        groups = {bytes(g[0]).decode("utf-8", "replace"): g for g in r[3]}
        if lvl == 0:
            got = 1 if name in groups else (0 if r[4] == 0 and r[1] else 2)
            label = ROOT
        else:
            g = groups.get(GROUP, [None, [], []])
            backs = [bytes(b).decode("utf-8", "replace") for b in g[1]]
            temps = [bytes(b).decode("utf-8", "replace") for b in g[2]]
            got = 1 if name in backs else 2 if (name.startswith(".") and name[1:] in temps) else (0 if r[4] == 0 and r[1] else 3)
            label = ENT
        ctx.count("names.%s.%s" % ("root" if lvl == 0 else "group", label[got].replace("ignored as ", "").replace("an ", "").replace("a ", "").replace(" ", "-")))
        ctx.nontrivial.add(("name", lvl, is_dir, name))
        if got != m:
            # the property's side: a name vsb never gives (not exactly YYYY.MM.DD / YYYY.MM.DD-HH:MM:SS in ASCII digits, or not a directory)
            # is an unexpected entry unless hidden; a disagreement where the code accepts such a name is a failing input
            accepted_foreign = got in (1, 2) and m in (2, 3) if lvl == 1 else (got == 1 and m == 2)
            ctx.violation("names", "the %s is %s to the listing; by the naming rule (exactly YYYY.MM.DD%s in ASCII digits, a directory) it is %s"
                          % (what, label[got], "-HH:MM:SS, optionally behind the temporary prefix," if lvl else "", label[m]),
                          {"name": name, "level": lvl, "dir": is_dir, "name_hex": name.encode().hex()}, failing_input=bool(accepted_foreign))
            if len(ctx.violations) >= 3:
                return
