"""Driving `vsb upload` against the provider emulator (emu/emu.py): local storages made by real backup runs,
emulator life cycle, fault scripts, namespace / request-log inspection, leftover-process detection."""
import json
import os
import shutil
import signal
import subprocess
import sys
import time

from . import aux, build, slevel

EMU = os.path.join(build.VERIF, "emu", "emu.py")
PROVIDERS = {"dropbox": "dropbox", "yandex": "yandex-disk", "google": "google-drive"}
CLOUD_ROOT = "/Backups/t"
REAL_GPG = shutil.which("gpg") or "/usr/bin/gpg"
PASS = "pass phrase \"quoted\" ü"


class Emu:
    def __init__(self, state_dir, init=None, script=None):
        self.dir = state_dir
        os.makedirs(state_dir, exist_ok=True)
        args = [sys.executable, EMU, "--state-dir", state_dir, "--port", "0"]
        if init is not None:
            p = os.path.join(state_dir, "init.json")
            json.dump(init, open(p, "w"))
            args += ["--init", p]
        if script is not None:
            p = os.path.join(state_dir, "script.json")
            json.dump(script, open(p, "w"))
            args += ["--script", p]
        self.proc = subprocess.Popen(args, stdout=subprocess.PIPE, stderr=subprocess.DEVNULL, text=True)
        line = self.proc.stdout.readline()
        if not line.startswith("PORT "):
            raise build.BuildError("emulator did not start: %r" % line)
        self.port = int(line.split()[1])
        self.endpoint = "http://127.0.0.1:%d" % self.port

    def stop(self):
        if self.proc.poll() is None:
            self.proc.send_signal(signal.SIGTERM)
            try:
                self.proc.wait(timeout=5)
            except subprocess.TimeoutExpired:
                self.proc.kill()

    def namespace(self):
        p = os.path.join(self.dir, "namespace.json")
        return json.load(open(p)) if os.path.exists(p) else {}

    def requests(self):
        p = os.path.join(self.dir, "requests.jsonl")
        out = []
        if os.path.exists(p):
            for l in open(p):
                l = l.strip()
                if l:
                    out.append(json.loads(l))
        out.sort(key=lambda r: r["index"])
        return out

    def object_bytes(self, entry):
        return open(os.path.join(self.dir, entry["object"]), "rb").read()

    def files(self, provider):
        """{absolute path: entry} of the provider's visible namespace (google converted to paths)"""
        ns = self.namespace()
        if provider != "google":
            return ns.get(provider, {})
        objs = {o["id"]: o for o in ns.get("google", [])}

        def path_of(o):
            parts = [o["name"]]
            p = o["parents"][0] if o.get("parents") else "root"
            while p != "root" and p in objs:
                parts.append(objs[p]["name"])
                p = objs[p]["parents"][0] if objs[p].get("parents") else "root"
            return "/" + "/".join(reversed(parts))
        out = {}
        for o in ns.get("google", []):
            out.setdefault(path_of(o), []).append(o)
        return out


def write_upload_config(sb, st, provider, max_groups=3, max_age=None, passphrase=None):
    lines = ["backups:", "  - name: t", "    path: %s" % st, "    upload:", "      provider:", "        name: %s" % PROVIDERS[provider],
             "        client_id: a", "        client_secret: b", "        refresh_token: c", "      path: %s" % CLOUD_ROOT,
             "      max_backup_groups: %d" % max_groups, "      encryption_passphrase: '%s'" % (passphrase if passphrase is not None else PASS).replace("'", "''")]
    if max_age:
        lines.append("      max_time_without_backups: %s" % max_age)
    with open(sb.cfg, "w") as f:
        f.write("\n".join(lines) + "\n")
    gh = sb.path("home", ".gnupg")
    os.makedirs(gh, exist_ok=True)
    os.chmod(gh, 0o700)
    warm_gpg(sb)


def warm_gpg(sb):
    gh = sb.path("home", ".gnupg")
    # vsb SIGTERMs gpg when an upload fails; a gpg that dies while rewriting random_seed leaves it empty, the next gpg of the same run prints a
    # note on stderr and vsb reports that upload as failed too.  That chain is gpg's and the environment's, not the property's: the sandbox gpg
    # keeps no seed file at all.
    conf = os.path.join(gh, "gpg.conf")
    if not os.path.exists(conf):
        with open(conf, "w") as f:
            f.write("no-random-seed-file\n")
    # a first gpg invocation in a fresh home prints "keybox created" on stderr, which vsb (rightly or not) treats as a gpg error: use an
    # initialised home, as any real user has
    subprocess.run(["gpg", "--homedir", gh, "--batch", "--list-keys"], stdout=subprocess.DEVNULL, stderr=subprocess.DEVNULL)
    # ... and one complete symmetric encryption, so that random_seed exists (an empty one makes gpg print a note, again an "error" to vsb)
    subprocess.run(["gpg", "--homedir", gh, "--batch", "--pinentry-mode", "loopback", "--passphrase", "x", "--symmetric", "-o", "-"],
                   input=b"warm-up", stdout=subprocess.DEVNULL, stderr=subprocess.DEVNULL)


def run_upload(sb, emu, now=None, timeout=90, extra_env=None, args=None, prefix=None, exe=None):
    """returns dict(exit, out, seconds, timed_out, leftover=[cmdlines of processes of the session still alive])"""
    # a gpg that vsb terminated in an earlier run may have died between truncating and rewriting random_seed; the next gpg then prints a note
    # on stderr, which vsb reports as a failed upload.  That is gpg's state, not this run's fault: start every run from a warm home.
    rs = sb.path("home", ".gnupg", "random_seed")
    if not os.path.exists(rs) or os.path.getsize(rs) == 0:
        warm_gpg(sb)
    env = dict(os.environ)
    env.update({"TZ": "UTC", "LC_ALL": "C", "HOME": sb.path("home"), "VSB_VERIF_HTTP_ENDPOINT": emu.endpoint})
    if now is not None:
        env["LD_PRELOAD"] = aux.ensure_faketime()
        env["VERIF_FAKE_TIME"] = str(now)
    if extra_env:
        env.update(extra_env)
    t0 = time.time()
    p = subprocess.Popen((prefix or []) + [exe or build.VSB, "-c", sb.cfg] + (args or ["upload"]), stdout=subprocess.PIPE, stderr=subprocess.STDOUT, env=env, cwd=sb.root,
                         start_new_session=True)
    timed_out = False
    try:
        out = p.communicate(timeout=timeout)[0]
    except subprocess.TimeoutExpired:
        timed_out = True
        os.killpg(p.pid, signal.SIGKILL)
        out = p.communicate()[0]
    dt = time.time() - t0
    leftover = session_processes(p.pid)
    for pid, cmd in leftover:
        try:
            os.kill(pid, signal.SIGKILL)
        except OSError:
            pass
    slevel.record_messages(out.decode("utf-8", "replace"))
    return {"exit": p.returncode, "out": out.decode("utf-8", "replace"), "seconds": dt, "timed_out": timed_out, "leftover": [c for _, c in leftover]}


def session_processes(sid):
    out = []
    for d in os.listdir("/proc"):
        if not d.isdigit():
            continue
        try:
            st = open("/proc/%s/stat" % d).read()
            fields = st[st.rindex(")") + 2:].split()
            if int(fields[3]) == sid and fields[0] != "Z":
                cmd = open("/proc/%s/cmdline" % d).read().replace("\0", " ").strip()
                out.append((int(d), cmd))
        except (OSError, ValueError, IndexError):
            pass
    return out


def decrypt_members(sb, blob, passphrase=None):
    """gpg --decrypt with the configured passphrase; returns {member name: bytes} of the tar or raises"""
    import io
    import tarfile
    gh = sb.path("gnupg-check")
    os.makedirs(gh, exist_ok=True)
    os.chmod(gh, 0o700)
    # the passphrase goes through a file (it may start with a dash or hold anything else a command line would misread); gpg takes its
    # first line, as it does with vsb's pipe
    pf = sb.path("gnupg-check", "pass.%d" % os.getpid())
    with open(pf, "wb") as f:
        f.write((passphrase if passphrase is not None else PASS).encode("utf-8"))
    try:
        p = subprocess.run([REAL_GPG, "--homedir", gh, "--batch", "--quiet", "--pinentry-mode", "loopback", "--passphrase-file", pf, "--decrypt"],
                           input=blob, stdout=subprocess.PIPE, stderr=subprocess.PIPE)
    finally:
        os.remove(pf)
    if p.returncode != 0:
        raise ValueError("gpg: %s" % p.stderr.decode("utf-8", "replace")[-200:])
    members = {}
    with tarfile.open(fileobj=io.BytesIO(p.stdout)) as tf:
        for m in tf.getmembers():
            members[m.name.rstrip("/")] = tf.extractfile(m).read() if m.isfile() else None
    return members


def kill_agents(sb):
    """gpg may have started its agent daemon for the sandbox homes: stop them before the sandbox goes away"""
    for gh in (sb.path("home", ".gnupg"), sb.path("gnupg-check")):
        if os.path.isdir(gh):
            subprocess.run(["gpgconf", "--homedir", gh, "--kill", "gpg-agent"], stdout=subprocess.DEVNULL, stderr=subprocess.DEVNULL)
