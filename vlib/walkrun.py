"""Real `vsb backup` runs over generated item trees with hooks and injected per-path faults (C08, C19), and the
corresponding wire cases for the Gallina model of Backuper::run (tag 1900)."""
import os
import re
import stat

from . import build, model, runs, sexp, slevel, trace

TRACE_CALLS = ["execve", "openat", "statx", "read", "readlink", "readlinkat", "getdents64", "close", "newfstatat", "lstat"]
FAULT_CODE = {"none": 0, "vanish": 1, "denied": 2, "typechange": 3, "readerr": 4}


def name_of(n):
    return "n%d" % n


def gen_tree(rng, depth=0, allow_special=True):
    """node = dict(kind, data|children|target, fault='none')"""
    r = rng.random()
    if depth >= 3 or r < 0.45:
        return {"kind": "file", "data": bytes(rng.randrange(65, 91) for _ in range(rng.choice([0, 1, 3, 20, 5000]))), "fault": "none"}
    if r < 0.55:
        return {"kind": "sym", "target": rng.choice([b"x", b"../y", b"/abs"]), "fault": "none"}
    if r < 0.6 and allow_special and depth > 0:
        return {"kind": "special"}
    kids = []
    for i in rng.sample(range(1, 9), rng.randrange(0, 4)):
        kids.append((i, gen_tree(rng, depth + 1)))
    return {"kind": "dir", "children": kids, "fault": "none"}


def nodes_of(tree, path=()):
    out = [(path, tree)]
    if tree["kind"] == "dir":
        for n, c in tree["children"]:
            out += nodes_of(c, path + (n,))
    return out


def materialize(top, tree):
    """create the tree on disk; returns nothing (directory order is whatever the file system gives)"""
    k = tree["kind"]
    if k == "file":
        with open(top, "wb") as f:
            f.write(tree["data"])
    elif k == "sym":
        os.symlink(tree["target"], top)
    elif k == "special":
        os.mkfifo(top)
    else:
        os.mkdir(top)
        for n, c in tree["children"]:
            materialize(os.path.join(top, name_of(n)), c)


def reorder(top, tree):
    """put children in the order the directory actually lists them (what the run will see)"""
    if tree["kind"] == "dir" and os.path.isdir(top) and not os.path.islink(top):
        order = {n: i for i, n in enumerate(os.listdir(top))}
        tree["children"].sort(key=lambda nc: order.get(name_of(nc[0]), 999))
        for n, c in tree["children"]:
            reorder(os.path.join(top, name_of(n)), c)


def wire_node(t):
    k = t["kind"]
    if k == "file":
        return [0, list(t["data"]), FAULT_CODE[t["fault"]]]
    if k == "sym":
        return [2, list(t["target"]), FAULT_CODE[t["fault"]]]
    if k == "special":
        return [3]
    return [1, [[n, wire_node(c)] for n, c in t["children"]], FAULT_CODE[t["fault"]]]


def hook_wire(h):
    return [] if h is None else [1 if h is True else 0]


class WalkCase:
    """items: list of dict(before, after, tree | None (missing item)); hooks: None | True (succeeds) | False (exits 3)"""

    def __init__(self, sb, items, fail_seed=0, rotation=False):
        self.sb = sb
        self.items = items
        self.fail_seed = fail_seed
        self.rotation = rotation        # the storage already holds an older group and the limit is one group: this run has to rotate
        self.src = sb.path("src")
        self.st = sb.path("st")
        self.log = sb.path("hooks.log")
        os.makedirs(self.src, exist_ok=True)
        os.makedirs(self.st, exist_ok=True)
        os.makedirs(sb.path("home"), exist_ok=True)
        self.roots = []
        for i, it in enumerate(items):
            root = os.path.join(self.src, "item%d" % i)
            self.roots.append(root)
            if it["tree"] is not None:
                materialize(root, it["tree"])
                reorder(root, it["tree"])
                if it.get("late"):
                    os.rename(root, root + ".staged")
        self.reset_storage()
        self.write_config()

    def hook_cmd(self, tag, i, h):
        cmd = "echo %s%d >> %s" % (tag, i, self.log)
        if tag == "B" and self.items[i].get("late"):
            # the item's path is prepared by its own before hook (a snapshot directory, a mount, a re-pointed link): it appears only now
            cmd += "; mv %s.staged %s" % (self.roots[i], self.roots[i])
        if h is False:
            # a failing hook: non-zero exit status, or death from a signal (no exit status at all)
            style = (i * 2 + (0 if tag == "B" else 1) + getattr(self, "fail_seed", 0)) % 4
            cmd += ("; exit 3", "; kill -9 $$", "; kill -TERM $$", "; kill -SEGV $$")[style]
        return cmd

    def write_config(self):
        lines = ["backups:", "  - name: w", "    path: %s" % self.st, "    backup:", "      items:"]
        for i, it in enumerate(self.items):
            lines.append("        - path: %s" % self.roots[i])
            if it["before"] is not None:
                lines.append("          before: '%s'" % self.hook_cmd("B", i, it["before"]))
            if it["after"] is not None:
                lines.append("          after: '%s'" % self.hook_cmd("A", i, it["after"]))
        lines += ["      max_backup_groups: %d" % (1 if self.rotation else 3), "      max_backups_per_group: %d" % (1 if self.rotation else 3)]
        with open(self.sb.cfg, "w") as f:
            f.write("\n".join(lines) + "\n")

    OLD_GROUP = "2001.02.03"

    def reset_storage(self):
        import hashlib
        import shutil
        shutil.rmtree(self.st, ignore_errors=True)
        os.makedirs(self.st)
        if self.rotation:
            self.sb.write_storage({"groups": [{"name": self.OLD_GROUP, "backups": [{
                "name": self.OLD_GROUP + "-04:05:06",
                "manifest": [{"unique": True, "hash": hashlib.sha512(b"x").hexdigest(), "fp": [1, 2, 3], "size": 1, "path_hex": b"/old/p".hex()}],
                "entries": [{"type": "file", "path_hex": b"old/p".hex(), "data_hex": b"x".hex()}]}]}]}, self.st)

    def wire(self):
        return [1900, [[[hook_wire(it["before"]), hook_wire(it["after"]), [wire_node(it["tree"])] if it["tree"] is not None else []]
                        for it in self.items]]]

    def run(self, now, inject=None):
        tf = self.sb.path("walk-trace.txt")
        if os.path.exists(tf):
            os.remove(tf)
        if os.path.exists(self.log):
            os.remove(self.log)
        rc, out = self.sb.vsb(["backup", "w"], now=now, prefix=trace.strace_cmd(tf, TRACE_CALLS, inject=inject))
        ev = trace.parse(tf)
        return rc, out, ev

    # ---- observations --------------------------------------------------------------------------------------------
    def skeleton(self, ev):
        """[('B', i), ('W', i), ('A', i), ...] from execve of hooks and main-thread accesses at / below item roots"""
        main = ev[0]["pid"] if ev else None
        out = []

        def push(x):
            if not out or out[-1] != x:
                out.append(x)

        for e in ev:
            if e["name"] == "execve":
                m = re.search(r'echo ([AB])(\d+) >> ', e["raw"])
                if m and '"-c"' in e["raw"]:
                    push((m.group(1), int(m.group(2))))
                continue
            if e["pid"] != main or e["name"] == "+exit":
                continue
            p = None
            a = e.get("args", [])
            # "reading an item's paths": opening files / directories at or below the root, or reading links below it
            # (canonicalize() of an alias stats the directory it resolves to: that is not a read of the item)
            below_only = False
            if e["name"] == "openat" and len(a) > 1:
                p = trace.str_arg(a[1])
            elif e["name"] == "readlink" and a:
                p = trace.str_arg(a[0])
                below_only = True
            if p:
                for i, r in enumerate(self.roots):
                    if (p == r and not below_only) or p.startswith(r + "/"):
                        push(("W", i))
        return out

    def find_injection(self, ev, path, kind, fault, late=False, size=None):
        """(syscall, errno, ordinal) for making `fault` happen at `path`, located in the trace `ev` of a run.
        late (file read errors only): not the first read of the file but the first read of its SECOND pass - the file is read once for its
        hash and, when it has to be stored, once more while its bytes go into the archive (the first read after `size` bytes, or an end of file, were
        delivered: the reader asks for exactly the size it was told)"""
        main = ev[0]["pid"]
        if late and fault == "readerr" and kind == "file":
            n, seen_eof, cum = 0, False, 0
            for e in ev:
                if e["pid"] != main or e["name"] != "read":
                    continue
                n += 1
                try:
                    mine = trace.fd_path(e["args"][0]) == path
                except (IndexError, TypeError):
                    mine = False
                if not mine:
                    continue
                if seen_eof:
                    return "read", "EIO", n
                try:
                    cum += max(0, int(e["ret"]))
                except ValueError:
                    pass
                if e["ret"] == "0" or (size is not None and cum >= size):
                    seen_eof = True
            return None
        counts = {}
        want = []
        if fault == "vanish":
            want = [("statx", "ENOENT", lambda e: trace.str_arg(e["args"][1]) == path and "AT_FDCWD" in e["args"][0])]
        elif fault == "denied":
            if kind == "sym":
                want = [("readlink", "EACCES", lambda e: trace.str_arg(e["args"][0]) == path)]
            else:
                want = [("openat", "EACCES", lambda e: trace.str_arg(e["args"][1]) == path)]
        elif fault == "typechange":
            if kind == "file":
                want = [("openat", "ELOOP", lambda e: trace.str_arg(e["args"][1]) == path)]
            elif kind == "dir":
                want = [("openat", "ENOTDIR", lambda e: trace.str_arg(e["args"][1]) == path)]
            else:
                want = [("readlink", "EINVAL", lambda e: trace.str_arg(e["args"][0]) == path)]
        elif fault == "readerr":
            if kind == "file":
                want = [("read", "EIO", lambda e: trace.fd_path(e["args"][0]) == path)]
            elif kind == "dir":
                want = [("getdents64", "EIO", lambda e: trace.fd_path(e["args"][0]) == path)]
            else:
                want = [("readlink", "EIO", lambda e: trace.str_arg(e["args"][0]) == path)]
        for e in ev:
            if e["pid"] != main or e["name"] == "+exit":
                continue
            counts[e["name"]] = counts.get(e["name"], 0) + 1
            for sc, errno, pred in want:
                if e["name"] == sc:
                    try:
                        if pred(e):
                            return sc, errno, counts[sc]
                    except (IndexError, TypeError):
                        pass
        return None


def model_archive(mres):
    """model trace -> (set of archived (item, path tuple, kind, payload)), errors, warnings, aborted, ok"""
    arch = []
    errors = warnings = 0
    for e in mres[1]:
        if e[0] == 1:
            i = e[1]
            for w in e[2]:
                if w[0] == 0:
                    arch.append((i, tuple(w[1]), "dir", None))
                elif w[0] == 1:
                    arch.append((i, tuple(w[1]), "file", bytes(w[2])))
                elif w[0] == 2:
                    arch.append((i, tuple(w[1]), "sym", bytes(w[2])))
                elif w[0] in (3, 5):
                    errors += 1
                else:
                    warnings += 1
        elif e[0] == 2:
            errors += 1
        elif e[0] in (0, 3) and not e[2]:
            errors += 1
    return arch, errors, warnings, bool(mres[2]), bool(mres[3])


def model_skeleton(mres):
    out = []
    for e in mres[1]:
        if e[0] == 0:
            out.append(("B", e[1]))
        elif e[0] == 1:
            out.append(("W", e[1]))
        elif e[0] == 2:
            pass            # an item that cannot be prepared: nothing of it is read
        else:
            out.append(("A", e[1]))
    return out
