"""Running the Gallina model: the extracted driver (volume) and vm_compute inside coqc (sample, no extraction
in the trusted base).  Both evaluate the same Gallina function Dispatch.dispatch."""
import os
import re
import subprocess
import tempfile

from . import build, sexp


def run_driver(cases, timeout=3600):
    """cases: list of wire values [tag, arg]; returns the list of result values."""
    build.ensure_driver()
    text = "\n".join(sexp.dumps(c) for c in cases) + "\n"
    p = subprocess.run(["bash", "-c", "ulimit -s unlimited 2>/dev/null; exec %s" % build.DRIVER],
                       input=text, stdout=subprocess.PIPE, stderr=subprocess.PIPE, text=True, timeout=timeout)
    if p.returncode != 0:
        raise build.BuildError("model driver failed: %s" % p.stderr[-2000:])
    lines = [l for l in p.stdout.split("\n") if l.strip()]
    if len(lines) != len(cases):
        raise build.BuildError("model driver returned %d lines for %d cases" % (len(lines), len(cases)))
    return [sexp.loads(l) for l in lines]


def run_vm(cases, timeout=1800):
    """Evaluate dispatch on the cases with vm_compute in one coqc call; returns result values."""
    build.ensure_coq()
    if not cases:
        return []
    work = tempfile.mkdtemp(prefix="cases", dir=build.BUILD)
    try:
        path = os.path.join(work, "cases.v")
        with open(path, "w") as f:
            f.write("From Coq Require Import List NArith.\nImport ListNotations.\n"
                    "From Vsb Require Import Wire Dispatch.\nLocal Open Scope N_scope.\n"
                    "Set Printing Width 100000000.\nSet Printing Depth 100000000.\n")
            for c in cases:
                f.write("Eval vm_compute in (dispatch (%s)).\n" % sexp.to_coq(c))
        p = subprocess.run(["timeout", str(timeout), "coqc", "-noglob", "-R", build.THEORIES, "Vsb", path],
                           stdout=subprocess.PIPE, stderr=subprocess.STDOUT, text=True, cwd=work)
        if p.returncode != 0:
            raise build.BuildError("cases.v failed: %s" % p.stdout[-3000:])
        outs = re.findall(r"^\s*= (.*?)\n\s*: val\s*$", p.stdout, flags=re.M | re.S)
        if len(outs) != len(cases):
            raise build.BuildError("cases.v printed %d results for %d cases:\n%s" % (len(outs), len(cases), p.stdout[-2000:]))
        return [sexp.from_coq(o) for o in outs]
    finally:
        import shutil
        shutil.rmtree(work, ignore_errors=True)
