"""Build steps shared by all checks.  Everything is rebuilt from files on disk, offline; /repo's
current working tree is what the Rust builds see (the harness includes /repo/src by #[path])."""
import fcntl
import glob
import hashlib
import os
import shutil
import subprocess
import sys
import time

VERIF = os.path.dirname(os.path.dirname(os.path.abspath(__file__)))
REPO = "/repo"
BUILD = os.path.join(VERIF, "build")
COQ = os.path.join(VERIF, "coq")
THEORIES = os.path.join(COQ, "theories")
EXTRACT = os.path.join(COQ, "extract")
HARNESS = os.path.join(VERIF, "harness")
DRIVER = os.path.join(BUILD, "driver")
VSBH = os.path.join(BUILD, "target-vsbh", "debug", "vsbh")
VSB = os.path.join(BUILD, "target-vsb", "debug", "vsb")
VSB_RELEASE = os.path.join(BUILD, "target-vsb", "release", "vsb")
GUARD = "vsb_verif"

ENV = dict(os.environ)
ENV.update({
    "CARGO_NET_OFFLINE": "true",
    "RUSTFLAGS": "--cfg %s" % GUARD,
    "LC_ALL": "C",
})


class BuildError(Exception):
    pass


class Lock:
    def __init__(self, name="build"):
        os.makedirs(BUILD, exist_ok=True)
        self.path = os.path.join(BUILD, ".%s.lock" % name)

    def __enter__(self):
        self.f = open(self.path, "w")
        fcntl.flock(self.f, fcntl.LOCK_EX)
        return self

    def __exit__(self, *a):
        fcntl.flock(self.f, fcntl.LOCK_UN)
        self.f.close()


def log(msg):
    sys.stderr.write("[build] %s\n" % msg)
    sys.stderr.flush()


def run(cmd, cwd=None, env=None, timeout=3600, what=None):
    t0 = time.time()
    p = subprocess.run(cmd, cwd=cwd, env=env or ENV, stdout=subprocess.PIPE, stderr=subprocess.STDOUT,
                       timeout=timeout, text=True, errors="replace")
    if p.returncode != 0:
        raise BuildError("%s failed (exit %d):\n%s" % (what or cmd, p.returncode, p.stdout[-6000:]))
    log("%s: %.1fs" % (what or " ".join(cmd)[:60], time.time() - t0))
    return p.stdout


def coq_sources():
    return sorted(glob.glob(os.path.join(THEORIES, "*.v")))


def ensure_coq():
    """Full .vo build of the development (never -vos)."""
    with Lock("coq"):
        srcs = coq_sources()
        proj = "-R theories Vsb\n" + "\n".join(os.path.relpath(s, COQ) for s in srcs) + "\n"
        pf = os.path.join(COQ, "_CoqProject")
        old = open(pf).read() if os.path.exists(pf) else ""
        if old != proj or not os.path.exists(os.path.join(COQ, "Makefile")):
            open(pf, "w").write(proj)
            run(["coq_makefile", "-f", "_CoqProject", "-o", "Makefile"], cwd=COQ, what="coq_makefile")
        run(["timeout", "3000", "make", "-j16"], cwd=COQ, what="coq make")


def ensure_driver():
    """Extract the model (ExtrOcamlBasic only) and compile the OCaml driver."""
    ensure_coq()
    with Lock("driver"):
        deps = glob.glob(os.path.join(THEORIES, "*.vo")) + [os.path.join(EXTRACT, "Extract.v"),
                                                             os.path.join(EXTRACT, "driver.ml")]
        newest = max(os.path.getmtime(d) for d in deps)
        if os.path.exists(DRIVER) and os.path.getmtime(DRIVER) >= newest:
            return
        work = os.path.join(BUILD, "extract")
        shutil.rmtree(work, ignore_errors=True)
        os.makedirs(work)
        shutil.copy(os.path.join(EXTRACT, "Extract.v"), work)
        shutil.copy(os.path.join(EXTRACT, "driver.ml"), work)
        run(["timeout", "900", "coqc", "-R", THEORIES, "Vsb", "Extract.v"], cwd=work, what="extraction")
        run(["ocamlfind", "ocamlopt", "-O2", "-w", "-a", "model.mli", "model.ml", "driver.ml", "-o", "driver"],
            cwd=work, what="ocamlopt driver")
        shutil.copy(os.path.join(work, "driver"), DRIVER + ".tmp")
        os.replace(DRIVER + ".tmp", DRIVER)


def _sync_lock():
    src = os.path.join(REPO, "Cargo.lock")
    dst = os.path.join(HARNESS, "Cargo.lock")
    if not os.path.exists(dst) or open(src, "rb").read() != open(dst, "rb").read():
        shutil.copy(src, dst)


def ensure_vsbh():
    """Harness binary: includes /repo/src/** by #[path], built with the hook guard on."""
    with Lock("vsbh"):
        _sync_lock()
        env = dict(ENV)
        env["CARGO_TARGET_DIR"] = os.path.join(BUILD, "target-vsbh")
        try:
            run(["cargo", "build", "--offline", "-q"], cwd=HARNESS, env=env, what="cargo build vsbh")
        except BuildError as e:
            raise BuildError("the harness does not compile against /repo's working tree:\n%s" % e)
    return VSBH


def ensure_vsb(release=False):
    """The real vsb binary from /repo's working tree (hook guard on), in a target dir outside /repo."""
    with Lock("vsb"):
        env = dict(ENV)
        env["CARGO_TARGET_DIR"] = os.path.join(BUILD, "target-vsb")
        cmd = ["cargo", "build", "--offline", "-q", "--manifest-path", os.path.join(REPO, "Cargo.toml")]
        if release:
            cmd += ["--release", "--config", "profile.release.lto=false", "--config", "profile.release.codegen-units=16"]
        run(cmd, cwd=REPO, env=env, what="cargo build vsb%s" % (" (release)" if release else ""))
    return VSB_RELEASE if release else VSB


def repo_state():
    """Identify the tree the check ran against (HEAD + digest of the working-tree diff)."""
    head = subprocess.run(["git", "-C", REPO, "rev-parse", "HEAD"], stdout=subprocess.PIPE, text=True).stdout.strip()
    diff = subprocess.run(["git", "-C", REPO, "diff", "HEAD"], stdout=subprocess.PIPE).stdout
    return {"head": head, "dirty": bool(diff), "diff_sha256": hashlib.sha256(diff).hexdigest()[:16]}
