"""Real `vsb backup` runs with a deterministic concurrent writer (interpose/sched.c): the victim file is truncated, extended, rewritten,
unlinked or replaced at a chosen point of lstat -> open -> fstat -> read pass 1 -> read pass 2.  The published backup is then decoded with
the independent reader, restored with the real `vsb restore`, and the clauses of C15 / C10 that concern changing files are evaluated."""
import hashlib
import os
import shutil
import stat

from . import aux, build, runs, slevel

BUF = 8192        # size hint only: the number of read points is taken from an unscheduled reference run


def sha512(b):
    return hashlib.sha512(b).hexdigest()


class DynCase:
    def __init__(self, ctx, sb, rng, size, where, previous):
        """where: 'nested' (file inside an item directory) | 'top' (the file is itself a configured item)"""
        self.ctx, self.sb, self.rng = ctx, sb, rng
        self.size, self.where, self.previous = size, where, previous
        w = runs.World(sb, rng, 3, 6, nitems=1)
        self.w = w
        w.populate(nfiles=4)
        top = os.path.join(w.src, w.items[0])
        data = bytes(((i * 37 + size) % 251) + 1 for i in range(size))
        if where == "nested":
            d = os.path.join(top, "zz-dyn")
            os.makedirs(d, exist_ok=True)
            self.victim = os.path.join(d, "victim.dat")
            # neighbours archived after the victim, to see that they are unaffected
            w.write_file(os.path.join(d, "~after-1"), b"after one " * 30)
            w.write_file(os.path.join(d, "~after-2"), b"after two " * 300)
        else:
            w.items.append("item-file.dat")
            w.filters.append(None)
            self.victim = os.path.join(w.src, "item-file.dat")
        # an EARLIER item holding exactly the first half of the victim: a victim cut to that length during its first pass then has content the
        # group already stores
        if size >= 2:
            w.items.insert(0, "a-first")
            w.filters.insert(0, None)
            os.makedirs(os.path.join(w.src, "a-first"))
            w.write_file(os.path.join(w.src, "a-first", "prefix-half"), data[:size // 2])
        # a later item (configuration order is the walk order) holding a file with the victim's ORIGINAL content: if the run registers
        # a hash it never stores, this file is the one that ends up referring to it
        w.items.append("item9")
        w.filters.append(None)
        os.makedirs(os.path.join(w.src, "item9"))
        w.write_file(os.path.join(w.src, "item9", "after"), b"after the victim " * 20)
        if size:
            w.write_file(os.path.join(w.src, "item9", "copy-of-original"), data)
        w.write_file(self.victim, data)
        w.write_config()
        self.victim = os.path.realpath(self.victim)
        self.original = data
        self.now = runs.BASE + 7200
        if previous:       # "shortcut": the fingerprint still matches in the scheduled run; "touched": the file must be read again
            r = w.backup(self.now)
            if r["exit"] != 0:
                raise build.BuildError("dynrun: preliminary backup failed: %s" % r["out"][-300:])
            self.now += 60
            if previous == "touched":
                st = os.stat(self.victim)
                os.utime(self.victim, ns=(st.st_atime_ns, st.st_mtime_ns + 5 * 10 ** 9))
        self.src_copy = sb.path("src.orig")
        shutil.copytree(w.src, self.src_copy, symlinks=True)

    def run(self, rules):
        """rules: list of (point, k, action, arg)"""
        sb = self.sb
        log = sb.path("sched.log")
        if os.path.exists(log):
            os.remove(log)
        spec = self.victim + "|" + ";".join("%s,%d,%s,%d" % (p, k, a, arg) for p, k, a, arg in rules)
        env = {"LD_PRELOAD": aux.ensure_faketime() + ":" + aux.ensure_sched(), "VERIF_SCHED": spec, "VERIF_SCHED_LOG": log}
        r = self.w.backup(self.now, env=env)
        lines = open(log).read().split() if os.path.exists(log) else []
        r["fired"] = [l for l in lines if not l.startswith("counts,")]
        r["counts"] = None
        for l in lines:
            if l.startswith("counts,"):
                c = [int(x) for x in l.split(",")[1:]]
                r["counts"] = {"lstat": c[0], "open": c[1], "fstat": c[2], "read": c[3]}
        return r


def evaluate(case, r, rules, label):
    """the clauses of C15 and C10 on the outcome; returns (property, problem) or None"""
    w, sb = case.w, case.sb
    os.environ["VSBH_FULL_DATA"] = "1"
    try:
        dec = w.decode()
    finally:
        os.environ.pop("VSBH_FULL_DATA", None)
    la, _ = runs.listing(dec)
    finals = [(g, b) for g, fin, _, _ in la for b in fin]
    newest = finals[-1] if finals else None
    expected_count = (1 if case.previous else 0) + 1
    if len(finals) != expected_count:
        return ("C15 C03", "%s: the run did not publish a backup (exit %d): %s" % (label, r["exit"], slevel.errors_of(r["out"])[:2]))
    g, b = newest
    ent = [e for gg in dec["groups"] if gg["name"] == g for e in gg["entries"] if e["name"] == b][0]
    lines = runs.parse_manifest(ent)
    arch = ent.get("archive", {})
    if lines is None or "entries" not in arch or any("error" in x or not x.get("read_ok", True) for x in arch["entries"]):
        return ("C15", "%s: the published backup does not decode (manifest or archive broken)" % label)
    files = [x for x in arch["entries"] if x["type"] == "file"]
    if len(files) != len(lines):
        return ("C10 C15", "%s: %d regular-file archive entries but %d manifest lines" % (label, len(files), len(lines)))
    # hashes stored earlier in the group (for extern lines)
    earlier = set()
    for gg in dec["groups"]:
        if gg["name"] != g:
            continue
        for e in gg["entries"]:
            if e["name"] < b and runs.recognised(e):
                for l in runs.parse_manifest(e) or []:
                    if l["unique"]:
                        earlier.add((l["hash"], l["size"]))
    recorded = {}
    for l, x in zip(lines, files):
        path = bytes.fromhex(x["path_hex"])
        if os.fsencode(l["path"]).lstrip(b"/") != path.lstrip(b"/") and l["path"].lstrip(b"/") != path.lstrip(b"/"):
            return ("C10 C15", "%s: manifest line %r and archive entry %r are not in the same order" % (label, l["path"], path))
        if l["unique"]:
            if "data_hex" not in x:
                continue
            data = bytes.fromhex(x["data_hex"])
            if l["size"] > len(data) or sha512(data[:l["size"]]) != l["hash"]:
                return ("C10 C15", "%s: the unique line of %r says size=%d hash=%s.. but the first %d bytes of its archive entry (%d bytes) hash to %s.."
                        % (label, l["path"], l["size"], l["hash"][:12], l["size"], len(data), sha512(data[:l["size"]])[:12]))
            earlier.add((l["hash"], l["size"]))
        else:
            if x["data_len"] != 0:
                return ("C10 C15", "%s: the extern line of %r has a non-empty archive entry" % (label, l["path"]))
            if l["size"] != 0 and (l["hash"], l["size"]) not in earlier:
                return ("C15 C02", "%s: the extern line of %r refers to content (hash %s.., size %d) that no earlier record of the group stores"
                        % (label, l["path"], l["hash"][:12], l["size"]))
        recorded[l["path"]] = l
    # restore with the real tool
    out = sb.path("restore-dyn")
    shutil.rmtree(out, ignore_errors=True)
    rc, text = sb.vsb(["restore", os.path.join(w.st, g, b), out])
    if rc != 0:
        return ("C15 C02", "%s: the published backup does not restore: `vsb restore` exits %d: %s" % (label, rc, slevel.errors_of(text)[:2]))
    tree = slevel.scan(out)
    orig = slevel.scan(case.src_copy)
    vrel = case.victim.lstrip("/")
    src_prefix = case.w.src.lstrip("/")
    for rel, n in orig.items():
        full = os.path.join(src_prefix, rel)
        if full == vrel:
            continue
        t = tree.get(full)
        if t is None:
            return ("C15", "%s: the unaffected path %r is missing from the restored tree" % (label, rel))
        if n["type"] != t["type"] or (n["type"] == "file" and n["sha512"] != t["sha512"]) or (n["type"] == "sym" and n["target"] != t["target"]):
            return ("C15", "%s: the unaffected path %r is not restored exactly" % (label, rel))
    t = tree.get(vrel)
    line = recorded.get(os.fsencode(case.victim))
    if t is not None and t["type"] == "file":
        with open(os.path.join(out, vrel), "rb") as f:
            restored = f.read()
        if line is None:
            return ("C15", "%s: the affected file is restored but has no manifest line" % label)
        if len(restored) != line["size"] or sha512(restored) != line["hash"]:
            return ("C15", "%s: the affected file restores to %d bytes (sha512 %s..), the manifest records size=%d hash=%s.."
                    % (label, len(restored), sha512(restored)[:12], line["size"], line["hash"][:12]))
        actions = [a for _, _, a, _ in rules]
        if r["fired"] and all(a == "truncate" for a in actions):
            if not case.original.startswith(restored):
                return ("C15", "%s: the file only shrank during the run but the restored bytes are not a prefix of what was on disk" % label)
        if r["fired"] and all(a == "append" for a in actions):
            try:
                with open(case.victim, "rb") as f:
                    final = f.read()
            except OSError:
                final = None
            if final is not None and not final.startswith(restored):
                return ("C15", "%s: the file only grew during the run but the restored bytes are not a prefix of what was on disk" % label)
        # a file that was replaced / rewritten BEFORE it was opened did not change while being read: its line must be truthful (C10)
        if r["fired"] and all(p in ("lstat", "open") for p, _, _, _ in rules):
            try:
                st = os.lstat(case.victim)
                with open(case.victim, "rb") as f:
                    final = f.read()
            except OSError:
                st, final = None, None
            if st is not None and stat.S_ISREG(st.st_mode):
                if line["size"] != len(final) or line["hash"] != sha512(final):
                    return ("C10 C15", "%s: the file did not change while it was read (it was replaced before it was opened), yet its line says size=%d hash=%s.. "
                            "while the source file has %d bytes, sha512 %s.." % (label, line["size"], line["hash"][:12], len(final), sha512(final)[:12]))
                if line["fp"] != [st.st_dev, st.st_ino, st.st_mtime_ns]:
                    return ("C10 C15", "%s: the file did not change while it was read, yet its fingerprint %s is not the source file's (%d, %d, %d)"
                            % (label, line["fp"], st.st_dev, st.st_ino, st.st_mtime_ns))
        if not r["fired"] and restored != case.original:
            return ("C15", "%s: no change happened but the file is not restored exactly" % label)
    elif line is not None:
        return ("C15", "%s: the affected file has a manifest line but restore does not produce it as a file" % label)
    return None


def read_points(case):
    """number of read() calls on the victim in an undisturbed run (both passes)"""
    r = case.run([("read", 10 ** 6, "truncate", 0)])     # never fires; the log stays empty
    return r


SIZES = [1, 5000, 8192, 20000, 70000]
_REF = {}


def reference_counts(ctx, rng, size, where, previous):
    key = (size, where, previous)
    if key not in _REF:
        with slevel.Sandbox("dynref") as sb:
            c = DynCase(ctx, sb, rng, size, where, previous)
            r = read_points(c)
            if r["exit"] != 0 or not r["counts"]:
                raise build.BuildError("dynrun: the undisturbed reference run failed: %s" % r["out"][-300:])
            _REF[key] = r["counts"]
    return _REF[key]


def schedules(size, counts):
    """all single-action schedules, and the two-step shrink-then-grow ones, over the points of the per-file sequence"""
    points = [("lstat", 1), ("open", 1), ("fstat", 1)] + [("read", k) for k in range(1, counts["read"] + 2)]
    per_pass = max(1, counts["read"] // 2) if counts["read"] else 1
    out = []
    for p, k in points:
        offset = ((k - 1) % per_pass) * BUF if p == "read" else 0
        acts = [("truncate", 0), ("truncate", size // 2), ("append", 1000), ("append", 3 * BUF), ("unlink", 0), ("mkdir", 0), ("symlink", 0),
                ("rewrite", size), ("rewrite", size + 5000), ("replace", size + 4000), ("replace", size // 2)]
        if p == "read":
            acts += [("truncate", max(0, offset - 1)), ("truncate", min(size, offset + 1))]
        for a, arg in acts:
            out.append([(p, k, a, arg)])
        if p == "read":
            out.append([(p, k, "truncate", 0), (p, k + 1, "regrow", 2 * size + 100)])
            out.append([(p, k, "truncate", max(0, offset - 1)), (p, k + 1, "regrow", size + BUF)])
            out.append([(p, k, "truncate", size // 3), (p, k + 2, "regrow", size)])
    return out


def sweep(ctx, rng, budget, report, focus=None):
    """report: set of property ids whose clauses are reported by the calling check.  budget None = everything.
    focus: optional predicate on (size, where, previous, rules) selecting the schedules of interest"""
    combos = [(s, w, p) for s in SIZES for w in ("nested", "top") for p in (None, "shortcut", "touched")]
    todo = []
    for size, where, previous in combos:
        counts = reference_counts(ctx, rng, size, where, previous)
        for rules in schedules(size, counts):
            if focus is None or focus(size, where, previous, rules):
                todo.append((size, where, previous, rules))
    ctx.count("dyn.schedules_total", len(todo))
    # schedules that are always run, whatever the budget: one per distinct decision of add_file (first pass cut to content the group already
    # stores; content replaced between the passes; second pass cut short - also to exactly the content an earlier item stored; shrink-then-grow inside
    # the second pass)
    must = []
    for size in (20000, 70000):
        for where in ("nested", "top"):
            counts = reference_counts(ctx, rng, size, where, None)
            pp = max(1, counts["read"] // 2)
            for rules in ([("open", 1, "replace", size + 4000)], [("read", 1, "truncate", size // 2)], [("read", pp + 1, "rewrite", size)], [("read", pp + 2, "truncate", size // 3)],
                          # the second pass delivers exactly the first half: content an earlier item of the same run has already stored
                          [("read", pp + 1, "truncate", size // 2)],
                          [("read", pp + 1, "truncate", 0), ("read", pp + 2, "regrow", 2 * size)]):
                if focus is None or focus(size, where, None, rules):
                    must.append((size, where, None, rules))
    if budget is not None and len(todo) > budget:
        # keep the mix: two-step schedules and read points are where the reader's logic lives
        two = [t for t in todo if len(t[3]) > 1 and t[2] != "shortcut"]
        reads = [t for t in todo if len(t[3]) == 1 and t[3][0][0] == "read" and t[2] != "shortcut"]
        rest = [t for t in todo if t not in two and t not in reads]
        todo = rng.sample(two, min(len(two), budget // 3)) + rng.sample(reads, min(len(reads), budget // 2)) + rng.sample(rest, min(len(rest), budget // 6))
        todo = must + [t for t in todo if t not in must]
    for size, where, previous, rules in todo:
        with slevel.Sandbox("dyn") as sb:
            case = DynCase(ctx, sb, rng, size, where, previous)
            r = case.run(rules)
            ctx.evaluations += 1
            label = "size %d, %s, previous backup %s, schedule %s" % (size, where, previous, ";".join("%s#%d:%s(%d)" % x for x in rules))
            ctx.count("dyn.where." + where)
            ctx.count("dyn.previous.%s" % previous)
            for x in rules:
                ctx.count("dyn.action." + x[2])
                ctx.count("dyn.point." + x[0])
            ctx.count("dyn.fired.%d-of-%d" % (len(r["fired"]), len(rules)))
            if r["fired"]:
                ctx.nontrivial.add((size, where, previous, tuple(rules)))
            pr = evaluate(case, r, rules, label)
            if pr and set(pr[0].split()) & set(report):
                ctx.violation("dynamic", pr[1], {"size": size, "where": where, "previous": previous, "rules": [list(x) for x in rules], "exit": r["exit"],
                                                 "fired": r["fired"], "output": r["out"][-600:]})
                if len(ctx.violations) >= 3:
                    return


def replay_case(ctx, doc, report):
    import random
    with slevel.Sandbox("dyn") as sb:
        rules = [tuple(x) for x in doc["rules"]]
        case = DynCase(ctx, sb, random.Random(1), doc["size"], doc["where"], doc["previous"])
        r = case.run(rules)
        pr = evaluate(case, r, rules, "replay")
        print("fired:", r["fired"], "exit:", r["exit"])
        print("verdict:", pr)
        return 1 if pr and set(pr[0].split()) & set(report) else 0
