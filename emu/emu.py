#!/usr/bin/env python3
"""Local HTTP emulator of Dropbox, Yandex Disk and Google Drive as seen by `vsb upload`.

The hook-enabled vsb binary rewrites https://HOST/PATH?QUERY to $VSB_VERIF_HTTP_ENDPOINT/HOST/PATH?QUERY, so every
request arrives here as plain HTTP/1.1 with the original host as the first path segment.

See README.md in this directory for routes, error shapes and the fault script format.
"""

import argparse
import hashlib
import json
import os
import re
import shutil
import signal
import socket
import struct
import sys
import threading
import time
import traceback
import urllib.parse
from http.server import BaseHTTPRequestHandler, ThreadingHTTPServer

DBX_BLOCK = 4 * 1024 * 1024
FOLDER_MIME = "application/vnd.google-apps.folder"
GOOGLE_ROOT = "root"

DBX_API_HOST = "api.dropboxapi.com"
DBX_CONTENT_HOST = "content.dropboxapi.com"
DBX_OAUTH_HOST = "www.dropbox.com"
YA_API_HOST = "cloud-api.yandex.net"
YA_OAUTH_HOST = "oauth.yandex.ru"
YA_UPLOAD_HOST = "uploader1d.disk.yandex.net"
G_API_HOST = "www.googleapis.com"
G_OAUTH_HOST = "accounts.google.com"

FAULT_KINDS = {
    "http_4xx_json", "http_5xx_json", "http_5xx_text", "http_3xx_json", "malformed_json", "missing_content_type",
    "reset_before_body", "reset_inside_body", "corrupt", "wrong_checksum", "omit_checksum", "delay", "async",
}

DEFAULT_CONFIG = {
    "page_size": None,             # if set: overrides the three page sizes below
    "dropbox_page_size": 1000,
    "yandex_limit": 20,            # Yandex's real default `limit`
    "google_page_size": 100,       # Google's real default `pageSize`
    "yandex_async_delete": False,  # every DELETE answers 202 + operation
    "yandex_async_move": False,    # every move answers 202 + operation
    "yandex_async_polls": 0,       # number of "in-progress" answers before an async operation completes
    "yandex_upload_polls": 0,      # number of "in-progress" answers of an upload operation after the PUT has completed
    "check_auth": True,            # API requests must carry the token handed out by the OAuth endpoint
    "token_expires_in": 3600,
}


class ClientGone(Exception):
    """The client closed the connection (or sent garbage) while we were reading the request body."""


class Reply:
    def __init__(self, status, body=None, headers=None, ctype=None):
        self.status = status
        self.headers = dict(headers or {})
        if isinstance(body, (dict, list)) or (body is None and ctype == "json"):
            self.body = json.dumps(body).encode()
            self.ctype = "application/json"
        else:
            self.body = body if body is not None else b""
            if isinstance(self.body, str):
                self.body = self.body.encode()
            self.ctype = ctype


def json_null():
    return Reply(200, b"null", ctype="application/json")


def now_iso():
    return time.strftime("%Y-%m-%dT%H:%M:%SZ", time.gmtime())


def now_iso_tz():
    return time.strftime("%Y-%m-%dT%H:%M:%S+00:00", time.gmtime())


def hash_file(path):
    """Returns (size, sha256, md5, dropbox content_hash) of a file."""
    sha = hashlib.sha256()
    md5 = hashlib.md5()
    outer = hashlib.sha256()
    size = 0
    with open(path, "rb") as f:
        while True:
            block = f.read(DBX_BLOCK)
            if not block:
                break
            # A short read can only happen at EOF for regular files, but be careful anyway
            while len(block) < DBX_BLOCK:
                more = f.read(DBX_BLOCK - len(block))
                if not more:
                    break
                block += more
            size += len(block)
            sha.update(block)
            md5.update(block)
            outer.update(hashlib.sha256(block).digest())
    return size, sha.hexdigest(), md5.hexdigest(), outer.hexdigest()


def spoil_hex(h):
    """A checksum of the same shape that is guaranteed to differ."""
    if not h:
        return "0" * 32
    return ("1" if h[0] == "0" else "0") + h[1:]


def flip_byte(path, offset=None):
    size = os.path.getsize(path)
    if size == 0:
        return None
    if offset is None or not (0 <= offset < size):
        offset = size // 2
    with open(path, "r+b") as f:
        f.seek(offset)
        b = f.read(1)
        f.seek(offset)
        f.write(bytes([b[0] ^ 0x01]))
    return offset


def parent_of(path):
    if path == "/":
        return None
    p = path.rsplit("/", 1)[0]
    return p or "/"


def base_of(path):
    return path.rsplit("/", 1)[1]


class Emu:
    def __init__(self, state_dir, init_path=None, script_path=None):
        self.dir = os.path.abspath(state_dir)
        os.makedirs(self.dir, exist_ok=True)
        self.objects_dir = os.path.join(self.dir, "objects")
        self.inflight_dir = os.path.join(self.dir, "inflight")
        self.ns_path = os.path.join(self.dir, "namespace.json")
        self.log_path = os.path.join(self.dir, "requests.jsonl")
        self.emu_log_path = os.path.join(self.dir, "emu.log")
        self.config_path = os.path.join(self.dir, "config.json")

        self.lock = threading.RLock()
        self.log_lock = threading.Lock()
        self.config = dict(DEFAULT_CONFIG)

        self.paths = {"dropbox": {}, "yandex": {}}   # provider -> {abs path -> entry}
        self.google = []                               # list of objects
        self.meta = {}                                 # object id -> {"md5":..., "dbx":...}
        self.counter = 0                               # id generator
        self.index = 0                                 # request index
        self.route_counts = {}

        self.dbx_sessions = {}
        self.dbx_cursors = {}
        self.ya_uploads = {}
        self.ya_ops = {}
        self.g_sessions = {}

        shutil.rmtree(self.inflight_dir, ignore_errors=True)
        os.makedirs(self.inflight_dir, exist_ok=True)

        if init_path is not None:
            shutil.rmtree(self.objects_dir, ignore_errors=True)
            os.makedirs(self.objects_dir, exist_ok=True)
            for p in (self.log_path,):
                if os.path.exists(p):
                    os.unlink(p)
            with open(init_path) as f:
                init = json.load(f)
            self.load_namespace(init, os.path.dirname(os.path.abspath(init_path)))
        elif os.path.exists(self.ns_path):
            os.makedirs(self.objects_dir, exist_ok=True)
            with open(self.ns_path) as f:
                init = json.load(f)
            if os.path.exists(self.config_path):
                with open(self.config_path) as f:
                    init["config"] = json.load(f)
            self.load_namespace(init, self.dir, adopt=True)
            if os.path.exists(self.log_path):
                with open(self.log_path) as f:
                    self.index = sum(1 for _ in f)
        else:
            os.makedirs(self.objects_dir, exist_ok=True)
        self.save()
        with open(self.config_path, "w") as f:
            json.dump(self.config, f, indent=1, sort_keys=True)
            f.write("\n")

        self.script = []
        if script_path is not None:
            with open(script_path) as f:
                script = json.load(f)
            if not isinstance(script, list):
                raise ValueError("the fault script must be a JSON list")
            for i, item in enumerate(script):
                if not isinstance(item, dict) or item.get("fault") not in FAULT_KINDS:
                    raise ValueError("fault script item %d: unknown fault kind %r" % (i, item.get("fault") if isinstance(item, dict) else item))
                when = item.get("when")
                if not isinstance(when, dict) or not (("index" in when) or ("route" in when)):
                    raise ValueError("fault script item %d: bad `when`" % i)
                item = dict(item)
                item["_used"] = False
                self.script.append(item)

    # ---------------------------------------------------------------------------------------------------------------
    # logging

    def log_exc(self, what):
        try:
            with self.log_lock:
                with open(self.emu_log_path, "a") as f:
                    f.write("[%s] %s\n%s\n" % (now_iso(), what, traceback.format_exc()))
        except Exception:
            pass

    def log_msg(self, what):
        try:
            with self.log_lock:
                with open(self.emu_log_path, "a") as f:
                    f.write("[%s] %s\n" % (now_iso(), what))
        except Exception:
            pass

    def log_request(self, record):
        with self.log_lock:
            with open(self.log_path, "a") as f:
                f.write(json.dumps(record, sort_keys=True) + "\n")

    # ---------------------------------------------------------------------------------------------------------------
    # ids, objects, persistence

    def new_id(self, prefix):
        with self.lock:
            self.counter += 1
            return "%s%06d" % (prefix, self.counter)

    def new_inflight(self):
        return os.path.join(self.inflight_dir, self.new_id("t"))

    def adopt_file(self, tmp_path):
        """Moves a complete file into objects/ and returns the public part of a file entry."""
        size, sha, md5, dbx = hash_file(tmp_path)
        with self.lock:
            oid = self.new_id("o")
            while os.path.exists(os.path.join(self.objects_dir, oid)):
                oid = self.new_id("o")
            os.replace(tmp_path, os.path.join(self.objects_dir, oid))
            self.meta[oid] = {"md5": md5, "dbx": dbx}
        return {"type": "file", "size": size, "sha256": sha, "object": "objects/" + oid}

    def object_path(self, entry):
        return os.path.join(self.dir, entry["object"])

    def obj_meta(self, entry):
        oid = entry["object"].split("/", 1)[1]
        with self.lock:
            m = self.meta.get(oid)
            if m is None:
                _, _, md5, dbx = hash_file(self.object_path(entry))
                m = self.meta[oid] = {"md5": md5, "dbx": dbx}
            return m

    def drop_object(self, entry):
        if entry.get("type") != "file" or not entry.get("object"):
            return
        oid = entry["object"].split("/", 1)[1]
        self.meta.pop(oid, None)
        try:
            os.unlink(self.object_path(entry))
        except OSError:
            pass

    def public_entry(self, e):
        if e["type"] == "folder":
            return {"type": "folder"}
        return {"type": "file", "size": e["size"], "sha256": e["sha256"], "object": e["object"]}

    def save(self):
        with self.lock:
            out = {"dropbox": {}, "yandex": {}, "google": []}
            for prov in ("dropbox", "yandex"):
                for p in sorted(self.paths[prov]):
                    if p != "/":
                        out[prov][p] = self.public_entry(self.paths[prov][p])
            for o in self.google:
                item = {"id": o["id"], "name": o["name"], "parents": list(o["parents"]), "type": o["type"]}
                if o["type"] == "file":
                    item.update({"size": o["size"], "sha256": o["sha256"], "object": o["object"]})
                out["google"].append(item)
            tmp = self.ns_path + ".tmp"
            with open(tmp, "w") as f:
                json.dump(out, f, indent=1, sort_keys=True)
                f.write("\n")
                f.flush()
                os.fsync(f.fileno())
            os.replace(tmp, self.ns_path)

    # ---------------------------------------------------------------------------------------------------------------
    # INIT

    def materialize(self, spec, base_dir, adopt=False):
        """Turns an INIT file description into a stored object; returns the public entry."""
        if adopt and spec.get("object") and os.path.exists(os.path.join(self.dir, spec["object"])):
            # Resuming from our own namespace.json: keep the object where it is
            path = os.path.join(self.dir, spec["object"])
            size, sha, md5, dbx = hash_file(path)
            oid = spec["object"].split("/", 1)[1]
            self.meta[oid] = {"md5": md5, "dbx": dbx}
            m = re.match(r"^[a-z](\d+)$", oid)
            if m:
                self.counter = max(self.counter, int(m.group(1)))
            return {"type": "file", "size": size, "sha256": sha, "object": spec["object"]}

        tmp = self.new_inflight()
        if "content_hex" in spec:
            with open(tmp, "wb") as f:
                f.write(bytes.fromhex(spec["content_hex"]))
        elif spec.get("object"):
            src = spec["object"]
            candidates = [src] if os.path.isabs(src) else [os.path.join(base_dir, src), os.path.join(self.dir, src)]
            for c in candidates:
                if os.path.exists(c):
                    shutil.copyfile(c, tmp)
                    break
            else:
                raise ValueError("INIT: object file %r not found" % src)
        else:
            size = int(spec.get("size", 0))
            with open(tmp, "wb") as f:
                left = size
                zeros = bytes(1 << 20)
                while left > 0:
                    n = min(left, len(zeros))
                    f.write(zeros[:n])
                    left -= n
        return self.adopt_file(tmp)

    def load_namespace(self, init, base_dir, adopt=False):
        if not isinstance(init, dict):
            raise ValueError("INIT must be a JSON object")
        cfg = init.get("config") or {}
        if "page_size" in init:
            cfg = dict(cfg, page_size=init["page_size"])
        for k, v in cfg.items():
            if k not in DEFAULT_CONFIG:
                raise ValueError("INIT: unknown config key %r" % k)
            self.config[k] = v

        for prov in ("dropbox", "yandex"):
            table = self.paths[prov]
            for path, spec in (init.get(prov) or {}).items():
                path = self.norm_init_path(path)
                if path == "/":
                    continue
                self.ensure_parents(table, path)
                if spec.get("type") == "folder":
                    table.setdefault(path, {"type": "folder"})
                elif spec.get("type") == "file":
                    table[path] = self.materialize(spec, base_dir, adopt)
                else:
                    raise ValueError("INIT: %s: bad type" % path)

        g = init.get("google")
        if isinstance(g, dict):
            # Convenience: the same path -> entry shape as for the other providers
            for path in sorted(g):
                spec = g[path]
                path = self.norm_init_path(path)
                if path == "/":
                    continue
                parent = self.g_mkdirs(parent_of(path))
                name = base_of(path)
                if spec.get("type") == "folder":
                    if not any(o for o in self.g_children(parent) if o["name"] == name and o["type"] == "folder"):
                        self.google.append({"id": self.new_id("g"), "name": name, "parents": [parent], "type": "folder"})
                elif spec.get("type") == "file":
                    e = self.materialize(spec, base_dir, adopt)
                    e.update({"id": self.new_id("g"), "name": name, "parents": [parent]})
                    self.google.append(e)
                else:
                    raise ValueError("INIT: %s: bad type" % path)
        elif isinstance(g, list):
            for spec in g:
                oid = str(spec.get("id") or self.new_id("g"))
                m = re.match(r"^[a-z](\d+)$", oid)
                if m:
                    self.counter = max(self.counter, int(m.group(1)))
                parents = [GOOGLE_ROOT if p in ("root", GOOGLE_ROOT) else str(p) for p in (spec.get("parents") or [GOOGLE_ROOT])]
                if spec.get("type") == "folder":
                    self.google.append({"id": oid, "name": spec["name"], "parents": parents, "type": "folder"})
                elif spec.get("type") == "file":
                    e = self.materialize(spec, base_dir, adopt)
                    e.update({"id": oid, "name": spec["name"], "parents": parents})
                    self.google.append(e)
                else:
                    raise ValueError("INIT: google object %r: bad type" % oid)
        elif g is not None:
            raise ValueError("INIT: google must be a list or an object")

    @staticmethod
    def norm_init_path(path):
        if not path.startswith("/"):
            raise ValueError("INIT: path %r is not absolute" % path)
        parts = [p for p in path.split("/") if p]
        return "/" + "/".join(parts)

    @staticmethod
    def ensure_parents(table, path):
        p = parent_of(path)
        chain = []
        while p and p != "/":
            chain.append(p)
            p = parent_of(p)
        for p in reversed(chain):
            e = table.get(p)
            if e is None:
                table[p] = {"type": "folder"}
            elif e["type"] != "folder":
                raise ValueError("%s is a file" % p)

    def g_children(self, parent):
        return [o for o in self.google if parent in o["parents"]]

    def g_mkdirs(self, path):
        cur = GOOGLE_ROOT
        if path in (None, "/"):
            return cur
        for name in [p for p in path.split("/") if p]:
            found = [o for o in self.g_children(cur) if o["name"] == name and o["type"] == "folder"]
            if found:
                cur = found[0]["id"]
            else:
                oid = self.new_id("g")
                self.google.append({"id": oid, "name": name, "parents": [cur], "type": "folder"})
                cur = oid
        return cur

    # ---------------------------------------------------------------------------------------------------------------
    # fault script

    def arrival(self, route):
        """Assigns the global index, counts the route occurrence and picks the fault (if any)."""
        with self.lock:
            idx = self.index
            self.index += 1
            nth = self.route_counts.get(route, 0) + 1
            self.route_counts[route] = nth
            fault = None
            for item in self.script:
                if item["_used"]:
                    continue
                when = item["when"]
                if "index" in when:
                    hit = when["index"] == idx
                else:
                    hit = when.get("route") == route and int(when.get("nth", 1)) == nth
                if hit:
                    item["_used"] = True
                    fault = item
                    break
            return idx, fault

    # ---------------------------------------------------------------------------------------------------------------
    # page sizes

    def page_size(self, key):
        v = self.config.get("page_size")
        if v:
            return max(1, int(v))
        return max(1, int(self.config[key]))

    # ---------------------------------------------------------------------------------------------------------------
    # path namespaces (Dropbox, Yandex)

    def tree_children(self, table, path):
        prefix = "/" if path == "/" else path + "/"
        out = []
        for p in table:
            if p != "/" and p.startswith(prefix) and "/" not in p[len(prefix):]:
                out.append(p)
        return sorted(out)

    def tree_get(self, table, path):
        if path == "/":
            return {"type": "folder"}
        return table.get(path)

    def tree_delete(self, table, path):
        prefix = path + "/"
        for p in [p for p in table if p == path or p.startswith(prefix)]:
            self.drop_object(table.pop(p))

    def tree_move(self, table, src, dst):
        prefix = src + "/"
        for p in sorted(p for p in table if p == src or p.startswith(prefix)):
            table[dst + p[len(src):]] = table.pop(p)

    def tree_put_file(self, table, path, entry):
        old = table.get(path)
        if old is not None:
            self.drop_object(old)
        table[path] = entry


# =====================================================================================================================
# Error shapes

def dbx_error(summary, error, status=409):
    return Reply(status, {"error_summary": summary + "/..", "error": error})


def dbx_path_error(field, tag, extra=None):
    inner = {".tag": tag}
    if extra:
        inner.update(extra)
    return dbx_error("%s/%s" % (field, tag), {".tag": field, field: inner})


def dbx_bad_request(message):
    return Reply(400, "Error in call to API function: " + message, ctype="text/plain; charset=utf-8")


def ya_error(status, error, message, description=None):
    return Reply(status, {"error": error, "message": message, "description": description or message})


def g_error(status, message, reason):
    return Reply(status, {"error": {
        "code": status, "message": message,
        "errors": [{"message": message, "domain": "global", "reason": reason}],
    }})


def g_not_found(file_id):
    return g_error(404, "File not found: %s." % file_id, "notFound")


def oauth_error(status, error, description):
    return Reply(status, {"error": error, "error_description": description})


def provider_error(provider, status, kind):
    """The canned error used by http_4xx_json / http_5xx_json faults."""
    if provider == "dropbox":
        tag = "other" if status < 500 else "internal_error"
        return Reply(status, {"error_summary": "%s/..." % tag, "error": {".tag": tag}})
    if provider == "yandex":
        if status >= 500:
            return ya_error(status, "InternalServerError", "Injected internal server error.")
        name = {400: "FieldValidationError", 403: "ForbiddenError", 409: "DiskResourceLockedError"}.get(status, "InjectedError")
        return ya_error(status, name, "Injected %d error." % status)
    if provider == "google":
        reason = {400: "badRequest", 403: "rateLimitExceeded", 409: "conflict"}.get(status, "backendError" if status >= 500 else "injected")
        return g_error(status, "Injected %d error." % status, reason)
    if provider == "oauth":
        return oauth_error(status, "invalid_grant" if status < 500 else "server_error", "Injected %d error" % status)
    return Reply(status, {"error": "injected", "message": "Injected %d error" % status})


def unknown_route_reply(provider):
    if provider == "dropbox":
        return Reply(404, {"error_summary": "unknown_route/..", "error": {".tag": "unknown_route"}})
    if provider == "yandex":
        return ya_error(404, "NotFoundError", "The emulator has no such route.")
    if provider == "google":
        return g_error(404, "Not Found (the emulator has no such route).", "notFound")
    if provider == "oauth":
        return oauth_error(404, "not_found", "The emulator has no such route")
    return Reply(404, {"error": "not_found", "message": "The emulator has no such route"})


DEFAULT_4XX = {"dropbox": 409, "yandex": 400, "google": 403, "oauth": 400}


# =====================================================================================================================
# The request context

class Ctx:
    def __init__(self, handler, emu):
        self.h = handler
        self.emu = emu
        self.method = handler.command
        self.headers = handler.headers
        raw = handler.path
        path, _, query = raw.partition("?")
        path = urllib.parse.unquote(path)
        parts = path.split("/", 2)
        self.host = parts[1] if len(parts) > 1 else ""
        self.path = "/" + (parts[2] if len(parts) > 2 else "")
        self.query = query
        self.q = {}
        for k, v in urllib.parse.parse_qsl(query, keep_blank_values=True):
            self.q.setdefault(k, v)
        self.provider = "unknown"
        self.route = "unknown"
        self.func = None
        self.fault = None
        self.index = None
        self.args = None
        self.body_bytes = 0
        self.body_done = False

        te = (self.headers.get("Transfer-Encoding") or "").lower()
        self.chunked = "chunked" in te
        cl = self.headers.get("Content-Length")
        try:
            self.content_length = int(cl) if cl is not None else None
        except ValueError:
            self.content_length = None

    # ---- body ------------------------------------------------------------------------------------------------------

    def _read_exact(self, n):
        data = self.h.rfile.read(n)
        if data is None or len(data) != n:
            self.body_bytes += len(data or b"")
            raise ClientGone("premature end of the request body")
        return data

    def iter_body(self, block=1 << 16):
        """Yields the de-chunked request body."""
        if self.body_done:
            return
        if self.chunked:
            while True:
                line = self.h.rfile.readline(65537)
                if not line.endswith(b"\n"):
                    raise ClientGone("premature end of a chunk header")
                size_text = line.split(b";", 1)[0].strip()
                try:
                    size = int(size_text, 16)
                except ValueError:
                    raise ClientGone("bad chunk size %r" % line[:40])
                if size == 0:
                    # trailers
                    while True:
                        line = self.h.rfile.readline(65537)
                        if not line:
                            raise ClientGone("premature end of trailers")
                        if line in (b"\r\n", b"\n"):
                            break
                    break
                left = size
                while left > 0:
                    n = min(left, block)
                    data = self._read_exact(n)
                    self.body_bytes += n
                    left -= n
                    yield data
                crlf = self.h.rfile.readline(3)
                if crlf not in (b"\r\n", b"\n"):
                    raise ClientGone("missing CRLF after a chunk")
        elif self.content_length:
            left = self.content_length
            while left > 0:
                n = min(left, block)
                data = self._read_exact(n)
                self.body_bytes += n
                left -= n
                yield data
        self.body_done = True

    def read_all(self, limit=8 << 20):
        out = []
        total = 0
        for data in self.iter_body():
            total += len(data)
            if total <= limit:
                out.append(data)
        if total > limit:
            raise ValueError("request body is too big for this route: %d bytes" % total)
        return b"".join(out)

    def read_to_file(self, path, mode="wb"):
        n = 0
        with open(path, mode) as f:
            for data in self.iter_body():
                f.write(data)
                n += len(data)
        return n

    def drain(self):
        for _ in self.iter_body():
            pass

    def read_json(self):
        data = self.read_all()
        if not data.strip():
            return None
        return json.loads(data.decode("utf-8"))

    def set_args(self, args):
        try:
            text = json.dumps(args)
            self.args = args if len(text) <= 4096 else {"_truncated": text[:512]}
        except Exception:
            self.args = None

    def fault_kind(self):
        return self.fault["fault"] if self.fault else None

    def capture_args(self, body=None):
        """Best-effort `args` for requests that are answered by a fault instead of their route handler."""
        if self.args is not None:
            return
        try:
            if self.headers.get("Dropbox-API-Arg") is not None:
                self.set_args(json.loads(self.headers["Dropbox-API-Arg"]))
            elif body:
                ctype = (self.headers.get("Content-Type") or "").lower()
                if "json" in ctype:
                    self.set_args(json.loads(body.decode("utf-8")))
                elif "x-www-form-urlencoded" in ctype:
                    self.set_args(dict(urllib.parse.parse_qsl(body.decode("utf-8", "replace"), keep_blank_values=True)))
            if self.args is None and self.q:
                self.set_args(self.q)
        except Exception:
            pass

    def drain_capturing(self, limit=1 << 16):
        """Consumes the body; keeps it for capture_args() when it is small."""
        kept, total = [], 0
        for data in self.iter_body():
            total += len(data)
            if total <= limit:
                kept.append(data)
        self.capture_args(b"".join(kept) if total <= limit else None)


# =====================================================================================================================
# Routing

def classify(ctx):
    """Returns (provider, route name, function)."""
    m, host, path, q = ctx.method, ctx.host.lower(), ctx.path, ctx.q
    if host.endswith(":443"):
        host = host[:-4]

    if host == DBX_OAUTH_HOST and path == "/oauth2/token" and m == "POST":
        return "oauth", "oauth.dropbox.token", lambda c: oauth_token(c, "dropbox")
    if host == YA_OAUTH_HOST and path == "/token" and m == "POST":
        return "oauth", "oauth.yandex.token", lambda c: oauth_token(c, "yandex")
    if host == G_OAUTH_HOST and path == "/o/oauth2/token" and m == "POST":
        return "oauth", "oauth.google.token", lambda c: oauth_token(c, "google")
    if host in (DBX_OAUTH_HOST, YA_OAUTH_HOST, G_OAUTH_HOST):
        return "oauth", "unknown", None

    if host == DBX_API_HOST:
        table = {
            "/2/files/list_folder": ("dropbox.list_folder", dbx_list_folder),
            "/2/files/list_folder/continue": ("dropbox.list_folder.continue", dbx_list_folder_continue),
            "/2/files/create_folder_v2": ("dropbox.create_folder", dbx_create_folder),
            "/2/files/delete_v2": ("dropbox.delete", dbx_delete),
            "/2/files/move_v2": ("dropbox.move", dbx_move),
        }
        if m == "POST" and path in table:
            return ("dropbox",) + table[path]
        return "dropbox", "unknown", None
    if host == DBX_CONTENT_HOST:
        table = {
            "/2/files/upload_session/start": ("dropbox.upload_session.start", dbx_session_start),
            "/2/files/upload_session/append_v2": ("dropbox.upload_session.append", dbx_session_append),
            "/2/files/upload_session/finish": ("dropbox.upload_session.finish", dbx_session_finish),
        }
        if m == "POST" and path in table:
            return ("dropbox",) + table[path]
        return "dropbox", "unknown", None

    if host == YA_API_HOST:
        if path == "/v1/disk/resources":
            if m == "GET":
                if q.get("fields", "").strip() == "md5":
                    return "yandex", "yandex.resources.md5", ya_get_resource
                return "yandex", "yandex.resources.get", ya_get_resource
            if m == "PUT":
                return "yandex", "yandex.resources.mkdir", ya_mkdir
            if m == "DELETE":
                return "yandex", "yandex.resources.delete", ya_delete
        if path == "/v1/disk/resources/upload" and m == "GET":
            return "yandex", "yandex.resources.upload_href", ya_upload_href
        if path == "/v1/disk/resources/move" and m == "POST":
            return "yandex", "yandex.resources.move", ya_move
        if path.startswith("/v1/disk/operations/") and m == "GET":
            return "yandex", "yandex.operations.get", ya_operation
        return "yandex", "unknown", None
    if host.endswith(".disk.yandex.net"):
        if path.startswith("/upload-target/") and m == "PUT":
            return "yandex", "yandex.upload.put", ya_upload_put
        return "yandex", "unknown", None

    if host == G_API_HOST:
        if path == "/drive/v3/files" and m == "GET":
            return "google", "google.files.list", g_list
        mm = re.match(r"^/drive/v3/files/([^/]+)$", path)
        if mm:
            fid = mm.group(1)
            if m == "GET":
                if fid == "root":
                    return "google", "google.files.get_root", lambda c: g_get(c, fid)
                if q.get("fields", "").strip() == "md5Checksum":
                    return "google", "google.files.md5", lambda c: g_get(c, fid)
                return "google", "google.files.get", lambda c: g_get(c, fid)
            if m == "PATCH":
                return "google", "google.files.update", lambda c: g_update(c, fid)
            if m == "DELETE":
                return "google", "google.files.delete", lambda c: g_delete(c, fid)
        mm = re.match(r"^/upload/drive/v3/files(?:/([^/]+))?$", path)
        if mm:
            fid = mm.group(1)
            if m == "PUT" and "upload_id" in q:
                return "google", "google.upload.put", lambda c: g_upload_put(c, fid)
            if m == "POST" and fid is None:
                return "google", "google.upload.init_create", lambda c: g_upload_init(c, None)
            if m == "PATCH" and fid is not None:
                return "google", "google.upload.init_update", lambda c: g_upload_init(c, fid)
        return "google", "unknown", None

    return "unknown", "unknown", None


# =====================================================================================================================
# OAuth

def token_for(provider):
    return "emu-%s-access-token" % provider


def oauth_token(ctx, provider):
    emu = ctx.emu
    body = ctx.read_all().decode("utf-8", "replace")
    form = dict(urllib.parse.parse_qsl(body, keep_blank_values=True))
    ctx.set_args(form)
    if form.get("grant_type") != "refresh_token":
        return oauth_error(400, "unsupported_grant_type", "grant_type must be refresh_token")
    for k in ("client_id", "client_secret", "refresh_token"):
        if not form.get(k):
            return oauth_error(400, "invalid_request", "%s is missing" % k)
    return Reply(200, {
        "access_token": token_for(provider), "expires_in": int(emu.config["token_expires_in"]), "token_type": "bearer",
    })


def check_auth(ctx):
    """Returns an error Reply when the request does not carry the expected Authorization header."""
    if not ctx.emu.config.get("check_auth"):
        return None
    if ctx.route in ("yandex.upload.put", "google.upload.put"):
        return None   # the client sends these to pre-authorised URLs without credentials
    expected = {
        "dropbox": "Bearer " + token_for("dropbox"),
        "yandex": "OAuth " + token_for("yandex"),
        "google": "Bearer " + token_for("google"),
    }.get(ctx.provider)
    if expected is None or ctx.headers.get("Authorization") == expected:
        return None
    if ctx.provider == "dropbox":
        return Reply(401, {"error_summary": "invalid_access_token/..", "error": {".tag": "invalid_access_token"}})
    if ctx.provider == "yandex":
        return ya_error(401, "UnauthorizedError", "Unauthorized.")
    return g_error(401, "Invalid Credentials.", "authError")


# =====================================================================================================================
# Dropbox

def dbx_norm(path):
    """Returns the normalised path or None if it is malformed. Root is "" on the wire and "/" here."""
    if not isinstance(path, str):
        return None
    if path == "":
        return "/"
    if not path.startswith("/") or path.endswith("/") or "//" in path:
        return None
    return path


def dbx_metadata(emu, path, e):
    name = base_of(path)
    out = {".tag": e["type"], "name": name, "path_lower": path.lower(), "path_display": path,
           "id": "id:" + hashlib.sha1(path.encode()).hexdigest()[:22]}
    if e["type"] == "file":
        t = now_iso()
        out.update({"client_modified": t, "server_modified": t, "rev": "0" + hashlib.sha1(e["object"].encode()).hexdigest()[:14],
                    "size": e["size"], "is_downloadable": True, "content_hash": emu.obj_meta(e)["dbx"]})
    return out


def dbx_args(ctx):
    try:
        args = ctx.read_json()
    except ValueError:
        return None, dbx_bad_request("request body: could not decode input as JSON")
    if not isinstance(args, dict):
        return None, dbx_bad_request("request body: expected object, got %s" % type(args).__name__)
    ctx.set_args(args)
    return args, None


def dbx_list_page(emu, entries, offset, limit):
    page = entries[offset:offset + limit]
    more = offset + limit < len(entries)
    cursor = emu.new_id("AAE-emu-cursor-")
    if more:
        emu.dbx_cursors[cursor] = (entries, offset + limit, limit)
    return Reply(200, {"entries": page, "cursor": cursor, "has_more": more})


def dbx_list_folder(ctx):
    emu = ctx.emu
    args, err = dbx_args(ctx)
    if err:
        return err
    if args.get("path") == "/":
        return dbx_bad_request('request body: path: Specify the root folder as an empty string rather than as "/".')
    path = dbx_norm(args.get("path"))
    if path is None:
        return dbx_path_error("path", "malformed_path")
    limit = emu.page_size("dropbox_page_size")
    if isinstance(args.get("limit"), int) and args["limit"] > 0:
        limit = min(limit, args["limit"])
    with emu.lock:
        table = emu.paths["dropbox"]
        e = emu.tree_get(table, path)
        if e is None:
            return dbx_path_error("path", "not_found")
        if e["type"] != "folder":
            return dbx_path_error("path", "not_folder")
        entries = [dbx_metadata(emu, p, table[p]) for p in emu.tree_children(table, path)]
        return dbx_list_page(emu, entries, 0, limit)


def dbx_list_folder_continue(ctx):
    emu = ctx.emu
    args, err = dbx_args(ctx)
    if err:
        return err
    with emu.lock:
        state = emu.dbx_cursors.pop(args.get("cursor"), None)
        if state is None:
            return dbx_error("reset", {".tag": "reset"})
        entries, offset, limit = state
        return dbx_list_page(emu, entries, offset, limit)


def dbx_create_folder(ctx):
    emu = ctx.emu
    args, err = dbx_args(ctx)
    if err:
        return err
    path = dbx_norm(args.get("path"))
    if path is None or path == "/":
        return dbx_path_error("path", "malformed_path")
    with emu.lock:
        table = emu.paths["dropbox"]
        old = table.get(path)
        if old is not None:
            return dbx_error("path/conflict/" + old["type"], {".tag": "path", "path": {".tag": "conflict", "conflict": {".tag": old["type"]}}})
        try:
            emu.ensure_parents(table, path)
        except ValueError:
            return dbx_error("path/conflict/file", {".tag": "path", "path": {".tag": "conflict", "conflict": {".tag": "file"}}})
        table[path] = {"type": "folder"}
        emu.save()
        return Reply(200, {"metadata": {k: v for k, v in dbx_metadata(emu, path, table[path]).items() if k != ".tag"}})


def dbx_delete(ctx):
    emu = ctx.emu
    args, err = dbx_args(ctx)
    if err:
        return err
    path = dbx_norm(args.get("path"))
    if path is None or path == "/":
        return dbx_path_error("path_lookup", "malformed_path")
    with emu.lock:
        table = emu.paths["dropbox"]
        e = table.get(path)
        if e is None:
            return dbx_path_error("path_lookup", "not_found")
        meta = dbx_metadata(emu, path, e)
        emu.tree_delete(table, path)
        emu.save()
        return Reply(200, {"metadata": meta})


def dbx_move(ctx):
    emu = ctx.emu
    args, err = dbx_args(ctx)
    if err:
        return err
    src = dbx_norm(args.get("from_path"))
    dst = dbx_norm(args.get("to_path"))
    if src is None or src == "/":
        return dbx_path_error("from_lookup", "malformed_path")
    if dst is None or dst == "/":
        return dbx_path_error("to", "malformed_path")
    with emu.lock:
        table = emu.paths["dropbox"]
        e = table.get(src)
        if e is None:
            return dbx_path_error("from_lookup", "not_found")
        if dst == src or dst.startswith(src + "/"):
            return dbx_error("duplicated_or_nested_paths", {".tag": "duplicated_or_nested_paths"})
        old = table.get(dst)
        if old is not None and not args.get("autorename"):
            return dbx_error("to/conflict/" + old["type"], {".tag": "to", "to": {".tag": "conflict", "conflict": {".tag": old["type"]}}})
        try:
            emu.ensure_parents(table, dst)
        except ValueError:
            return dbx_error("to/conflict/file", {".tag": "to", "to": {".tag": "conflict", "conflict": {".tag": "file"}}})
        emu.tree_move(table, src, dst)
        emu.save()
        return Reply(200, {"metadata": dbx_metadata(emu, dst, table[dst])})


def dbx_api_arg(ctx):
    raw = ctx.headers.get("Dropbox-API-Arg")
    if raw is None:
        return None, dbx_bad_request('Must provide HTTP header "Dropbox-API-Arg" or URL parameter "arg".')
    try:
        args = json.loads(raw)
    except ValueError:
        return None, dbx_bad_request("HTTP header \"Dropbox-API-Arg\": could not decode input as JSON")
    if not isinstance(args, dict):
        return None, dbx_bad_request("HTTP header \"Dropbox-API-Arg\": expected object")
    ctx.set_args(args)
    return args, None


def dbx_session_start(ctx):
    emu = ctx.emu
    args, err = dbx_api_arg(ctx)
    if err:
        ctx.drain()
        return err
    tmp = emu.new_inflight()
    try:
        n = ctx.read_to_file(tmp)
    except BaseException:
        _unlink(tmp)
        raise
    if ctx.fault_kind() == "corrupt":
        flip_byte(tmp, ctx.fault.get("offset"))
    with emu.lock:
        sid = emu.new_id("emu-dbx-session-")
        emu.dbx_sessions[sid] = {"path": tmp, "size": n, "closed": bool(args.get("close"))}
    return Reply(200, {"session_id": sid})


def dbx_session_append(ctx):
    emu = ctx.emu
    args, err = dbx_api_arg(ctx)
    if err:
        ctx.drain()
        return err
    cursor = args.get("cursor") if isinstance(args.get("cursor"), dict) else {}
    sid, offset = cursor.get("session_id"), cursor.get("offset")
    with emu.lock:
        session = emu.dbx_sessions.get(sid)
        if session is not None and session.get("busy"):
            session = "busy"
        elif session is not None:
            session["busy"] = True
    if session is None:
        ctx.drain()
        return dbx_error("not_found", {".tag": "not_found"})
    if session == "busy":
        ctx.drain()
        return dbx_error("concurrent_session_data_not_allowed", {".tag": "concurrent_session_data_not_allowed"})
    try:
        if session["closed"]:
            ctx.drain()
            return dbx_error("closed", {".tag": "closed"})
        if offset != session["size"]:
            ctx.drain()
            return dbx_error("incorrect_offset", {".tag": "incorrect_offset", "correct_offset": session["size"]})
        # The request is all-or-nothing: a broken request leaves the session as it was
        part = emu.new_inflight()
        try:
            n = ctx.read_to_file(part)
            if ctx.fault_kind() == "corrupt":
                flip_byte(part, ctx.fault.get("offset"))
            with open(session["path"], "ab") as dst, open(part, "rb") as src:
                shutil.copyfileobj(src, dst, 1 << 20)
        finally:
            _unlink(part)
        session["size"] += n
        if args.get("close"):
            session["closed"] = True
        return json_null()
    finally:
        session["busy"] = False


def dbx_session_finish(ctx):
    emu = ctx.emu
    args, err = dbx_api_arg(ctx)
    if err:
        ctx.drain()
        return err
    cursor = args.get("cursor") if isinstance(args.get("cursor"), dict) else {}
    commit = args.get("commit") if isinstance(args.get("commit"), dict) else {}
    sid, offset = cursor.get("session_id"), cursor.get("offset")
    tail = emu.new_inflight()
    try:
        n = ctx.read_to_file(tail)
        with emu.lock:
            session = emu.dbx_sessions.get(sid)
            if session is None:
                return dbx_path_error("lookup_failed", "not_found")
            if offset != session["size"]:
                return dbx_path_error("lookup_failed", "incorrect_offset", {"correct_offset": session["size"]})
            path = dbx_norm(commit.get("path"))
            if path is None or path == "/":
                return dbx_path_error("path", "malformed_path")
            mode = commit.get("mode", "add")
            if isinstance(mode, dict):
                mode = mode.get(".tag")
            table = emu.paths["dropbox"]
            old = table.get(path)
            if old is not None and old["type"] == "folder":
                return dbx_error("path/conflict/folder", {".tag": "path", "path": {"reason": {".tag": "conflict", "conflict": {".tag": "folder"}}, "upload_session_id": sid}})
            if old is not None and mode != "overwrite" and not commit.get("autorename"):
                return dbx_error("path/conflict/file", {".tag": "path", "path": {"reason": {".tag": "conflict", "conflict": {".tag": "file"}}, "upload_session_id": sid}})
            try:
                emu.ensure_parents(table, path)
            except ValueError:
                return dbx_error("path/conflict/file", {".tag": "path", "path": {"reason": {".tag": "conflict", "conflict": {".tag": "file"}}, "upload_session_id": sid}})
            if n:
                with open(session["path"], "ab") as dst, open(tail, "rb") as src:
                    shutil.copyfileobj(src, dst, 1 << 20)
            if ctx.fault_kind() == "corrupt":
                flip_byte(session["path"], ctx.fault.get("offset"))
            del emu.dbx_sessions[sid]
            entry = emu.adopt_file(session["path"])
            emu.tree_put_file(table, path, entry)
            emu.save()
            meta = dbx_metadata(emu, path, entry)
            del meta[".tag"]
            if ctx.fault_kind() == "wrong_checksum":
                meta["content_hash"] = spoil_hex(meta["content_hash"])
            if ctx.fault_kind() == "omit_checksum":
                meta.pop("content_hash", None)
            return Reply(200, meta)
    finally:
        _unlink(tail)


def _unlink(path):
    try:
        os.unlink(path)
    except OSError:
        pass


# =====================================================================================================================
# Yandex Disk

def ya_norm(path):
    if not isinstance(path, str) or path == "":
        return None
    for prefix in ("disk:", "app:"):
        if path.startswith(prefix):
            path = path[len(prefix):]
            break
    if not path.startswith("/"):
        path = "/" + path
    parts = [p for p in path.split("/") if p]
    if any(p in (".", "..") for p in parts):
        return None
    return "/" + "/".join(parts)


def ya_link(href, method="GET"):
    return {"href": href, "method": method, "templated": False}


def ya_resource_link(path):
    return ya_link("https://%s/v1/disk/resources?path=%s" % (YA_API_HOST, urllib.parse.quote("disk:" + path, safe="")))


def ya_resource(emu, path, e, with_md5_fault=False):
    out = {
        "name": "disk" if path == "/" else base_of(path), "path": "disk:" + path,
        "type": "dir" if e["type"] == "folder" else "file",
        "created": now_iso_tz(), "modified": now_iso_tz(),
        "resource_id": "1:" + hashlib.sha1(path.encode()).hexdigest(), "revision": 1,
    }
    if e["type"] == "file":
        md5 = emu.obj_meta(e)["md5"]
        if with_md5_fault is True:
            md5 = spoil_hex(md5)
        out.update({"size": e["size"], "md5": md5, "sha256": e["sha256"], "mime_type": "application/octet-stream",
                    "media_type": "encoded"})
        if with_md5_fault == "omit":
            del out["md5"]
    return out


def fields_tree(spec):
    tree = {}
    for field in spec.split(","):
        field = field.strip()
        if not field:
            continue
        node = tree
        for part in field.split("."):
            node = node.setdefault(part, {})
    return tree


def fields_filter(value, tree):
    if not tree:
        return value
    if isinstance(value, list):
        return [fields_filter(v, tree) for v in value]
    if isinstance(value, dict):
        return {k: fields_filter(v, tree[k]) for k, v in value.items() if k in tree}
    return value


def ya_missing_param(name):
    return ya_error(400, "FieldValidationError", "Error validating field \"%s\": This field is required." % name)


def ya_get_resource(ctx):
    emu = ctx.emu
    ctx.drain()
    q = ctx.q
    ctx.set_args(q)
    if "path" not in q:
        return ya_missing_param("path")
    path = ya_norm(q["path"])
    if path is None:
        return ya_error(400, "FieldValidationError", "Invalid path.")
    try:
        offset = int(q.get("offset", "0") or 0)
        limit = int(q["limit"]) if q.get("limit") else emu.page_size("yandex_limit")
        if offset < 0 or limit < 0:
            raise ValueError
    except ValueError:
        return ya_error(400, "FieldValidationError", "Error validating field \"offset\"/\"limit\".")
    wrong = True if ctx.fault_kind() == "wrong_checksum" else ("omit" if ctx.fault_kind() == "omit_checksum" else False)
    with emu.lock:
        table = emu.paths["yandex"]
        e = emu.tree_get(table, path)
        if e is None:
            return ya_error(404, "DiskNotFoundError", "Resource not found.", "Resource not found.")
        out = ya_resource(emu, path, e, wrong)
        if e["type"] == "folder":
            children = emu.tree_children(table, path)
            items = [ya_resource(emu, p, table[p], wrong) for p in children[offset:offset + limit]]
            out["_embedded"] = {"sort": "", "items": items, "limit": limit, "offset": offset, "path": "disk:" + path,
                                "total": len(children)}
    if q.get("fields"):
        out = fields_filter(out, fields_tree(q["fields"]))
    return Reply(200, out)


def ya_mkdir(ctx):
    emu = ctx.emu
    ctx.drain()
    ctx.set_args(ctx.q)
    if "path" not in ctx.q:
        return ya_missing_param("path")
    path = ya_norm(ctx.q["path"])
    if path is None or path == "/":
        return ya_error(409, "DiskPathPointsToExistentDirectoryError", "Specified path \"%s\" points to existent directory." % ctx.q["path"])
    with emu.lock:
        table = emu.paths["yandex"]
        old = table.get(path)
        if old is not None:
            if old["type"] == "folder":
                return ya_error(409, "DiskPathPointsToExistentDirectoryError", "Specified path \"%s\" points to existent directory." % path)
            return ya_error(409, "DiskResourceAlreadyExistsError", "Resource \"%s\" already exists." % path)
        parent = emu.tree_get(table, parent_of(path))
        if parent is None or parent["type"] != "folder":
            return ya_error(409, "DiskPathDoesntExistsError", "Specified path \"%s\" doesn't exists." % path)
        table[path] = {"type": "folder"}
        emu.save()
    return Reply(201, ya_resource_link(path))


def ya_new_operation(emu, apply, fail, polls):
    with emu.lock:
        op_id = emu.new_id("emu-ya-op-")
        emu.ya_ops[op_id] = {"kind": "async", "apply": apply, "fail": bool(fail), "polls": int(polls), "status": None}
    return op_id


def ya_operation_link(op_id):
    return ya_link("https://%s/v1/disk/operations/%s" % (YA_API_HOST, op_id))


def ya_want_async(ctx, config_key):
    if ctx.fault_kind() == "async":
        return True, bool(ctx.fault.get("fail")), int(ctx.fault.get("polls", 0))
    if ctx.emu.config.get(config_key):
        return True, False, int(ctx.emu.config.get("yandex_async_polls") or 0)
    return False, False, 0


def ya_do_delete(emu, path):
    """Returns None on success or an error Reply. Call with the lock held."""
    table = emu.paths["yandex"]
    if table.get(path) is None:
        return ya_error(404, "DiskNotFoundError", "Resource not found.")
    emu.tree_delete(table, path)
    emu.save()
    return None


def ya_delete(ctx):
    emu = ctx.emu
    ctx.drain()
    ctx.set_args(ctx.q)
    if "path" not in ctx.q:
        return ya_missing_param("path")
    path = ya_norm(ctx.q["path"])
    if path is None or path == "/":
        return ya_error(400, "FieldValidationError", "Invalid path.")
    is_async, fail, polls = ya_want_async(ctx, "yandex_async_delete")
    with emu.lock:
        if emu.paths["yandex"].get(path) is None:
            return ya_error(404, "DiskNotFoundError", "Resource not found.")
        if is_async:
            op_id = ya_new_operation(emu, lambda: ya_do_delete(emu, path), fail, polls)
            return Reply(202, ya_operation_link(op_id))
        err = ya_do_delete(emu, path)
        if err:
            return err
    return Reply(204)


def ya_check_move(emu, src, dst, overwrite):
    table = emu.paths["yandex"]
    if table.get(src) is None:
        return ya_error(404, "DiskNotFoundError", "Resource not found.")
    if dst == src or dst.startswith(src + "/"):
        return ya_error(409, "DiskMoveSameSourceAndTargetError" if dst == src else "DiskMoveTargetIsSubfolderOfSourceError",
                        "Bad move target.")
    parent = emu.tree_get(table, parent_of(dst))
    if parent is None or parent["type"] != "folder":
        return ya_error(409, "DiskPathDoesntExistsError", "Specified path \"%s\" doesn't exists." % dst)
    if table.get(dst) is not None and not overwrite:
        return ya_error(409, "DiskResourceAlreadyExistsError", "Resource \"%s\" already exists." % dst)
    return None


def ya_do_move(emu, src, dst, overwrite):
    err = ya_check_move(emu, src, dst, overwrite)
    if err:
        return err
    table = emu.paths["yandex"]
    if table.get(dst) is not None:
        emu.tree_delete(table, dst)
    emu.tree_move(table, src, dst)
    emu.save()
    return None


def ya_move(ctx):
    emu = ctx.emu
    ctx.drain()
    q = ctx.q
    ctx.set_args(q)
    for name in ("from", "path"):
        if name not in q:
            return ya_missing_param(name)
    src, dst = ya_norm(q["from"]), ya_norm(q["path"])
    if src is None or dst is None or src == "/" or dst == "/":
        return ya_error(400, "FieldValidationError", "Invalid path.")
    overwrite = q.get("overwrite", "false").lower() == "true"
    is_async, fail, polls = ya_want_async(ctx, "yandex_async_move")
    with emu.lock:
        err = ya_check_move(emu, src, dst, overwrite)
        if err:
            return err
        if is_async:
            op_id = ya_new_operation(emu, lambda: ya_do_move(emu, src, dst, overwrite), fail, polls)
            return Reply(202, ya_operation_link(op_id))
        err = ya_do_move(emu, src, dst, overwrite)
        if err:
            return err
    return Reply(201, ya_resource_link(dst))


def ya_upload_href(ctx):
    emu = ctx.emu
    ctx.drain()
    q = ctx.q
    ctx.set_args(q)
    if "path" not in q:
        return ya_missing_param("path")
    path = ya_norm(q["path"])
    if path is None or path == "/":
        return ya_error(400, "FieldValidationError", "Invalid path.")
    overwrite = q.get("overwrite", "false").lower() == "true"
    with emu.lock:
        table = emu.paths["yandex"]
        parent = emu.tree_get(table, parent_of(path))
        if parent is None or parent["type"] != "folder":
            return ya_error(409, "DiskPathDoesntExistsError", "Specified path \"%s\" doesn't exists." % path)
        old = table.get(path)
        if old is not None and (old["type"] == "folder" or not overwrite):
            return ya_error(409, "DiskResourceAlreadyExistsError", "Resource \"%s\" already exists." % path)
        op_id = emu.new_id("emu-ya-upload-")
        emu.ya_ops[op_id] = {"kind": "upload", "status": "in-progress", "polls": int(emu.config.get("yandex_upload_polls") or 0)}
        emu.ya_uploads[op_id] = {"path": path, "overwrite": overwrite, "used": False}
    href = "https://%s/upload-target/%s" % (YA_UPLOAD_HOST, op_id)
    return Reply(200, {"operation_id": op_id, "href": href, "method": "PUT", "templated": False})


def ya_upload_put(ctx):
    emu = ctx.emu
    op_id = ctx.path[len("/upload-target/"):]
    ctx.set_args({"operation_id": op_id})
    with emu.lock:
        upload = emu.ya_uploads.get(op_id)
        if upload is not None and upload["used"]:
            upload = None
        elif upload is not None:
            upload["used"] = True
    if upload is None:
        ctx.drain()
        return ya_error(404, "NotFoundError", "Upload target not found.")
    tmp = emu.new_inflight()
    try:
        ctx.read_to_file(tmp)
    except BaseException:
        _unlink(tmp)
        with emu.lock:
            emu.ya_ops[op_id]["status"] = "failed"
        raise
    if ctx.fault_kind() == "corrupt":
        flip_byte(tmp, ctx.fault.get("offset"))
    with emu.lock:
        table = emu.paths["yandex"]
        path = upload["path"]
        parent = emu.tree_get(table, parent_of(path))
        old = table.get(path)
        if parent is None or parent["type"] != "folder" or (old is not None and (old["type"] == "folder" or not upload["overwrite"])):
            _unlink(tmp)
            emu.ya_ops[op_id]["status"] = "failed"
            return ya_error(409, "DiskPathDoesntExistsError", "Specified path \"%s\" doesn't exists." % path)
        entry = emu.adopt_file(tmp)
        emu.tree_put_file(table, path, entry)
        emu.ya_ops[op_id]["status"] = "success"
        emu.save()
    return Reply(201)


def ya_operation(ctx):
    emu = ctx.emu
    ctx.drain()
    op_id = ctx.path[len("/v1/disk/operations/"):]
    ctx.set_args({"operation_id": op_id})
    with emu.lock:
        op = emu.ya_ops.get(op_id)
        if op is None:
            return ya_error(404, "OperationNotFoundError", "Operation not found.")
        if op["kind"] == "upload":
            status = op["status"]
            if status == "success" and op["polls"] > 0:
                op["polls"] -= 1
                status = "in-progress"
            return Reply(200, {"status": status})
        if op["status"] is None:
            if op["polls"] > 0:
                op["polls"] -= 1
                return Reply(200, {"status": "in-progress"})
            if op["fail"]:
                op["status"] = "failed"
            else:
                # The deferred mutation happens at the moment the operation is first seen as finished
                err = op["apply"]()
                op["status"] = "failed" if err else "success"
        return Reply(200, {"status": op["status"]})


# =====================================================================================================================
# Google Drive

def g_find(emu, fid):
    if fid == GOOGLE_ROOT:
        return {"id": GOOGLE_ROOT, "name": "My Drive", "parents": [], "type": "folder"}
    for o in emu.google:
        if o["id"] == fid:
            return o
    return None


def g_resource(emu, o, wrong=False):
    out = {"kind": "drive#file", "id": o["id"], "name": o["name"],
           "mimeType": FOLDER_MIME if o["type"] == "folder" else o.get("mime", "application/octet-stream"),
           "parents": list(o["parents"]), "trashed": False}
    if o["type"] == "file":
        md5 = emu.obj_meta(o)["md5"]
        out.update({"size": str(o["size"]), "md5Checksum": spoil_hex(md5) if wrong is True else md5, "sha256Checksum": o["sha256"]})
        if wrong == "omit":
            del out["md5Checksum"]
    return out


def g_project(res, fields):
    """Default projection (kind, id, name, mimeType) or the requested top-level fields."""
    if fields and fields.strip() != "*":
        names = [f.strip() for f in re.split(r"[,\s]+", fields) if f.strip()]
        return {k: v for k, v in res.items() if k in names}
    if fields and fields.strip() == "*":
        return res
    return {k: res[k] for k in ("kind", "id", "name", "mimeType")}


def g_get(ctx, fid):
    emu = ctx.emu
    ctx.drain()
    ctx.set_args(ctx.q)
    with emu.lock:
        o = g_find(emu, fid)
        if o is None:
            return g_not_found(fid)
        res = g_resource(emu, o, True if ctx.fault_kind() == "wrong_checksum" else ("omit" if ctx.fault_kind() == "omit_checksum" else False))
    return Reply(200, g_project(res, ctx.q.get("fields")))


def g_list(ctx):
    emu = ctx.emu
    ctx.drain()
    q = ctx.q
    ctx.set_args(q)
    query = q.get("q", "")
    m = re.match(r"^\s*'([^']*)'\s+in\s+parents(?:\s+and\s+trashed\s*=\s*(true|false))?\s*$", query)
    if not m:
        return g_error(400, "Invalid Value", "invalid")
    parent, trashed = m.group(1), m.group(2)
    try:
        size = int(q["pageSize"]) if q.get("pageSize") else emu.page_size("google_page_size")
        if size <= 0:
            raise ValueError
    except ValueError:
        return g_error(400, "Invalid value for pageSize", "invalid")
    offset = 0
    token = q.get("pageToken")
    if token:
        mm = re.match(r"^emu-page-(\d+)-(.*)$", token)
        if not mm or mm.group(2) != parent:
            return g_error(400, "Invalid Value", "invalid")
        offset = int(mm.group(1))
    with emu.lock:
        if g_find(emu, parent) is None:
            # The real service answers a search below an unknown parent with "File not found: ."
            return g_error(404, "File not found: .", "notFound")
        children = [] if trashed == "true" else emu.g_children(parent)
        page = [g_project(g_resource(emu, o), None) for o in children[offset:offset + size]]
        out = {"kind": "drive#fileList", "incompleteSearch": False, "files": page}
        if offset + size < len(children):
            out["nextPageToken"] = "emu-page-%d-%s" % (offset + size, parent)
    return Reply(200, out)


def g_update(ctx, fid):
    emu = ctx.emu
    try:
        args = ctx.read_json()
    except ValueError:
        return g_error(400, "Parse Error", "parseError")
    if args is None:
        args = {}
    if not isinstance(args, dict):
        return g_error(400, "Parse Error", "parseError")
    ctx.set_args(args)
    with emu.lock:
        o = g_find(emu, fid)
        if o is None:
            return g_not_found(fid)
        if fid == GOOGLE_ROOT:
            return g_error(403, "The user does not have sufficient permissions for this file.", "insufficientFilePermissions")
        changed = False
        if "name" in args:
            if not isinstance(args["name"], str):
                return g_error(400, "Invalid value for name", "invalid")
            o["name"] = args["name"]
            changed = True
        if changed:
            emu.save()
        res = g_resource(emu, o)
    return Reply(200, g_project(res, ctx.q.get("fields")))


def g_delete(ctx, fid):
    emu = ctx.emu
    ctx.drain()
    with emu.lock:
        if fid == GOOGLE_ROOT:
            return g_error(403, "The user does not have sufficient permissions for this file.", "insufficientFilePermissions")
        o = g_find(emu, fid)
        if o is None:
            return g_not_found(fid)
        doomed = {fid}
        grew = True
        while grew:
            grew = False
            for x in emu.google:
                if x["id"] not in doomed and x["parents"] and all(p in doomed for p in x["parents"]):
                    doomed.add(x["id"])
                    grew = True
        for x in [x for x in emu.google if x["id"] in doomed]:
            emu.drop_object(x)
        emu.google = [x for x in emu.google if x["id"] not in doomed]
        emu.save()
    return Reply(204)


def g_upload_init(ctx, fid):
    emu = ctx.emu
    try:
        args = ctx.read_json()
    except ValueError:
        return g_error(400, "Parse Error", "parseError")
    if args is None:
        args = {}
    if not isinstance(args, dict):
        return g_error(400, "Parse Error", "parseError")
    ctx.set_args(args)
    if ctx.q.get("uploadType") != "resumable":
        return g_error(400, "Only uploadType=resumable is emulated", "badRequest")
    with emu.lock:
        if fid is not None:
            o = g_find(emu, fid)
            if o is None or fid == GOOGLE_ROOT:
                return g_not_found(fid)
            session = {"file_id": fid, "name": args.get("name"), "mime": args.get("mimeType")}
        else:
            parents = args.get("parents") or [GOOGLE_ROOT]
            if not isinstance(parents, list) or len(parents) != 1 or not isinstance(parents[0], str):
                return g_error(400, "Invalid value for parents (exactly one parent is emulated)", "invalid")
            parent = g_find(emu, parents[0])
            if parent is None or parent["type"] != "folder":
                return g_not_found(parents[0])
            name = args.get("name", "Untitled")
            if not isinstance(name, str):
                return g_error(400, "Invalid value for name", "invalid")
            session = {"file_id": None, "name": name, "mime": args.get("mimeType") or "application/octet-stream",
                       "parent": parents[0]}
        sid = emu.new_id("emu-g-upload-")
        emu.g_sessions[sid] = session
    location = "https://%s/upload/drive/v3/files%s?uploadType=resumable&upload_id=%s" % (
        G_API_HOST, "/" + fid if fid is not None else "", sid)
    return Reply(200, b"", {"Location": location, "X-GUploader-UploadID": sid}, ctype="text/html; charset=UTF-8")


def g_upload_put(ctx, fid):
    emu = ctx.emu
    sid = ctx.q.get("upload_id")
    ctx.set_args({"upload_id": sid})
    with emu.lock:
        session = emu.g_sessions.get(sid)
        if session is not None and session.get("busy"):
            session = None
        elif session is not None:
            session["busy"] = True
    if session is None or session["file_id"] != fid:
        ctx.drain()
        if session is not None:
            session["busy"] = False
        return g_error(404, "Upload session not found.", "notFound")
    tmp = emu.new_inflight()
    try:
        ctx.read_to_file(tmp)
    except BaseException:
        _unlink(tmp)
        session["busy"] = False    # a resumable session survives a broken request
        raise
    if ctx.fault_kind() == "corrupt":
        flip_byte(tmp, ctx.fault.get("offset"))
    with emu.lock:
        del emu.g_sessions[sid]
        if session["file_id"] is not None:
            o = g_find(emu, session["file_id"])
            if o is None:
                _unlink(tmp)
                return g_not_found(session["file_id"])
            if o["type"] == "folder":
                _unlink(tmp)
                return g_error(403, "Cannot upload content to a folder.", "forbidden")
            emu.drop_object(o)
            o.update(emu.adopt_file(tmp))
            if isinstance(session.get("name"), str):
                o["name"] = session["name"]
        else:
            parent = g_find(emu, session["parent"])
            if parent is None:
                _unlink(tmp)
                return g_not_found(session["parent"])
            if session["mime"] == FOLDER_MIME:
                _unlink(tmp)
                o = {"id": emu.new_id("g"), "name": session["name"], "parents": [session["parent"]], "type": "folder"}
            else:
                o = emu.adopt_file(tmp)
                o.update({"id": emu.new_id("g"), "name": session["name"], "parents": [session["parent"]],
                          "mime": session["mime"]})
            emu.google.append(o)
        emu.save()
        res = g_resource(emu, o)
    return Reply(200, g_project(res, None))


# =====================================================================================================================
# HTTP plumbing

class Handler(BaseHTTPRequestHandler):
    protocol_version = "HTTP/1.1"
    server_version = "vsb-emu/1"
    emu = None

    def log_message(self, format, *args):    # silence the default stderr log
        pass

    def hard_close(self):
        try:
            self.connection.setsockopt(socket.SOL_SOCKET, socket.SO_LINGER, struct.pack("ii", 1, 0))
        except OSError:
            pass
        self.close_connection = True
        # wfile stays open (http.server flushes it after the handler returns); the descriptor is really closed, and
        # the RST sent, when StreamRequestHandler.finish() drops the last reference a moment later.
        try:
            self.rfile.close()
        except Exception:
            pass
        try:
            self.connection.close()
        except OSError:
            pass

    def send_reply(self, reply, omit_content_type=False):
        body = reply.body or b""
        self.send_response(reply.status)
        if reply.ctype and not omit_content_type:
            self.send_header("Content-Type", reply.ctype)
        for k, v in reply.headers.items():
            self.send_header(k, v)
        if reply.status == 204 or 100 <= reply.status < 200:
            body = b""
        else:
            self.send_header("Content-Length", str(len(body)))
        if self.close_connection:
            self.send_header("Connection", "close")
        self.end_headers()
        if body and self.command != "HEAD":
            self.wfile.write(body)
        self.wfile.flush()

    def handle_any(self):
        emu = self.emu
        ctx = None
        status = None
        try:
            ctx = Ctx(self, emu)
            ctx.provider, ctx.route, ctx.func = classify(ctx)
            ctx.index, ctx.fault = emu.arrival(ctx.route)
            if (self.headers.get("Expect") or "").lower() == "100-continue":
                self.send_response_only(100)
                self.end_headers()
            status = self.process(ctx)
        except ClientGone as e:
            emu.log_msg("request %s (%s): client went away: %s" % (getattr(ctx, "index", "?"), getattr(ctx, "route", "?"), e))
            self.close_connection = True
            status = None
        except (BrokenPipeError, ConnectionError, socket.timeout) as e:
            emu.log_msg("request %s (%s): connection error: %r" % (getattr(ctx, "index", "?"), getattr(ctx, "route", "?"), e))
            self.close_connection = True
            status = None
        except Exception:
            emu.log_exc("request %s (%s): internal error" % (getattr(ctx, "index", "?"), getattr(ctx, "route", "?")))
            self.close_connection = True
            status = None
            try:
                self.send_reply(Reply(500, "emulator internal error, see emu.log", ctype="text/plain"))
                status = 500
            except Exception:
                pass
        finally:
            if ctx is not None and ctx.index is not None:
                try:
                    emu.log_request({
                        "index": ctx.index, "provider": ctx.provider, "method": ctx.method, "host": ctx.host,
                        "path": ctx.path, "query": ctx.query, "route": ctx.route, "body_bytes": ctx.body_bytes,
                        "status": status, "fault": ctx.fault_kind(), "args": ctx.args,
                    })
                except Exception:
                    emu.log_exc("cannot write the request log")

    def process(self, ctx):
        """Handles one request, returns the reply status (None when the connection was dropped on purpose)."""
        emu = self.emu
        kind = ctx.fault_kind()
        fault = ctx.fault or {}

        if kind == "reset_before_body":
            ctx.capture_args()
            self.hard_close()
            return None

        if kind == "reset_inside_body":
            ctx.capture_args()
            self.read_part_of_body(ctx, fault)
            self.hard_close()
            return None

        if kind == "delay" and fault.get("phase", "before") != "after":
            time.sleep(float(fault.get("seconds", 1)))

        if kind in ("http_4xx_json", "http_5xx_json", "http_5xx_text", "http_3xx_json", "malformed_json", "missing_content_type"):
            ctx.drain_capturing()
            if kind == "http_4xx_json":
                status = int(fault.get("status", DEFAULT_4XX.get(ctx.provider, 400)))
                reply = provider_error(ctx.provider, status, kind)
            elif kind == "http_5xx_json":
                status = int(fault.get("status", 500))
                reply = provider_error(ctx.provider, status, kind)
            elif kind == "http_5xx_text":
                status = int(fault.get("status", 503))
                reply = Reply(status, fault.get("text", "Service Unavailable.\nInjected by the emulator.\n"), ctype="text/plain; charset=utf-8")
            elif kind == "http_3xx_json":
                # a final status that is neither success nor a client / server error and that no HTTP library follows (no Location): e.g. what
                # a proxy in between may answer.  The body is a harmless JSON object
                reply = Reply(int(fault.get("status", 300)), b"{}", ctype="application/json")
            elif kind == "malformed_json":
                reply = Reply(200, b'{"truncated": ', ctype="application/json")
            else:
                reply = Reply(200, b"{}", ctype="application/json")
            if "json" in fault and kind in ("http_4xx_json", "http_5xx_json"):
                reply = Reply(reply.status, fault["json"])
            self.send_reply(reply, omit_content_type=(kind == "missing_content_type"))
            return reply.status

        if ctx.func is None:
            ctx.drain()
            reply = unknown_route_reply(ctx.provider)
        else:
            reply = check_auth(ctx)
            if reply is not None:
                ctx.drain()
            else:
                try:
                    reply = ctx.func(ctx)
                except ValueError as e:
                    # e.g. an oversized JSON body; the rest of the body has been consumed by read_all()
                    emu.log_exc("request %d (%s): bad request" % (ctx.index, ctx.route))
                    reply = Reply(400, str(e), ctype="text/plain")
            if not ctx.body_done:
                ctx.drain()

        if kind == "delay" and fault.get("phase", "before") == "after":
            time.sleep(float(fault.get("seconds", 1)))

        self.send_reply(reply)
        return reply.status

    def read_part_of_body(self, ctx, fault):
        """Consumes about a half of the request body (as far as its size can be known) and stops."""
        after = fault.get("after_bytes")
        try:
            if ctx.chunked:
                # The total size is unknown: stop in the middle of the first chunk unless told otherwise
                want = int(after) if after is not None else None
                while True:
                    line = self.rfile.readline(65537)
                    if not line.endswith(b"\n"):
                        return
                    size = int(line.split(b";", 1)[0].strip() or b"0", 16)
                    if size == 0:
                        return
                    if want is None:
                        take = max(1, size // 2) if size > 1 else size
                        ctx.body_bytes += len(self.rfile.read(take) or b"")
                        return
                    take = min(size, want - ctx.body_bytes)
                    ctx.body_bytes += len(self.rfile.read(take) or b"")
                    if ctx.body_bytes >= want or take < size:
                        return
                    self.rfile.readline(3)
            elif ctx.content_length:
                want = int(after) if after is not None else ctx.content_length // 2
                want = max(0, min(want, ctx.content_length))
                while ctx.body_bytes < want:
                    data = self.rfile.read(min(1 << 16, want - ctx.body_bytes))
                    if not data:
                        return
                    ctx.body_bytes += len(data)
        except (ValueError, OSError):
            return

    do_GET = do_POST = do_PUT = do_PATCH = do_DELETE = do_HEAD = do_OPTIONS = handle_any


class Server(ThreadingHTTPServer):
    daemon_threads = True
    allow_reuse_address = True
    request_queue_size = 128

    def handle_error(self, request, client_address):
        emu = Handler.emu
        if emu is not None:
            emu.log_exc("unhandled error while serving %s" % (client_address,))


def main():
    ap = argparse.ArgumentParser(description=__doc__.split("\n")[0])
    ap.add_argument("--state-dir", required=True)
    ap.add_argument("--init")
    ap.add_argument("--script")
    ap.add_argument("--port", type=int, default=0)
    args = ap.parse_args()

    emu = Emu(args.state_dir, args.init, args.script)
    Handler.emu = emu
    server = Server(("127.0.0.1", args.port), Handler)

    stop = threading.Event()

    def on_signal(signum, frame):
        stop.set()

    signal.signal(signal.SIGTERM, on_signal)
    signal.signal(signal.SIGINT, on_signal)

    thread = threading.Thread(target=server.serve_forever, kwargs={"poll_interval": 0.05}, daemon=True)
    thread.start()

    sys.stdout.write("PORT %d\n" % server.server_address[1])
    sys.stdout.flush()

    while not stop.is_set():
        stop.wait(3600)
    # State is rewritten after every mutation, so there is nothing to flush; do not wait for handler threads
    with emu.lock:
        pass
    os._exit(0)


if __name__ == "__main__":
    main()
