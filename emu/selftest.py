#!/usr/bin/env python3
"""Self-test of emu.py: a real `vsb upload` against the emulator for each provider, plus a Dropbox checksum fault."""

import io
import json
import os
import shutil
import signal
import subprocess
import sys
import tarfile
import tempfile

HERE = os.path.dirname(os.path.abspath(__file__))
EMU = os.path.join(HERE, "emu.py")
VSB = os.environ.get("VSB_VERIF_BIN", "/verif/build/target-vsb/debug/vsb")
PASSPHRASE = "pass phrase"
CLOUD_ROOT = "/Backups/t"
PROVIDERS = [("dropbox", "dropbox"), ("yandex-disk", "yandex"), ("google-drive", "google")]


class Failure(Exception):
    pass


def check(cond, message):
    if not cond:
        raise Failure(message)


def ensure_binary():
    if os.path.exists(VSB):
        return
    print("building the hook-enabled vsb binary...", flush=True)
    env = dict(os.environ, CARGO_NET_OFFLINE="true", RUSTFLAGS="--cfg vsb_verif", CARGO_TARGET_DIR="/verif/build/target-vsb")
    subprocess.run(["cargo", "build", "--offline"], cwd="/repo", env=env, check=True)


def write_config(tmp, provider_name):
    cfg = os.path.join(tmp, "cfg-%s.yaml" % provider_name)
    with open(cfg, "w") as f:
        f.write("\n".join([
            "backups:",
            "  - name: t",
            "    path: %s" % os.path.join(tmp, "st"),
            "    backup:",
            "      items:",
            "        - path: %s" % os.path.join(tmp, "src", "item"),
            "      max_backup_groups: 3",
            "      max_backups_per_group: 3",
            "    upload:",
            "      provider: {name: %s, client_id: a, client_secret: b, refresh_token: c}" % provider_name,
            "      path: %s" % CLOUD_ROOT,
            "      max_backup_groups: 2",
            "      encryption_passphrase: \"%s\"" % PASSPHRASE,
        ]) + "\n")
    return cfg


def run_vsb(tmp, cfg, args, endpoint=None):
    env = dict(os.environ, TZ="UTC", LC_ALL="C", HOME=os.path.join(tmp, "home"))
    env.pop("VSB_VERIF_HTTP_ENDPOINT", None)
    if endpoint:
        env["VSB_VERIF_HTTP_ENDPOINT"] = endpoint
    p = subprocess.run([VSB, "-c", cfg] + args, stdout=subprocess.PIPE, stderr=subprocess.PIPE, env=env, timeout=300, cwd=tmp)
    return p.returncode, (p.stdout + p.stderr).decode("utf-8", "replace")


def error_lines(out):
    return [l for l in out.splitlines() if l.startswith("E:")]


class Emulator:
    def __init__(self, state_dir, init=None, script=None):
        self.state_dir = state_dir
        os.makedirs(state_dir)
        cmd = [sys.executable, EMU, "--state-dir", state_dir, "--port", "0"]
        if init is not None:
            path = os.path.join(state_dir, "init-input.json")
            with open(path, "w") as f:
                json.dump(init, f)
            cmd += ["--init", path]
        if script is not None:
            path = os.path.join(state_dir, "script-input.json")
            with open(path, "w") as f:
                json.dump(script, f)
            cmd += ["--script", path]
        self.proc = subprocess.Popen(cmd, stdout=subprocess.PIPE)
        line = self.proc.stdout.readline().decode()
        check(line.startswith("PORT "), "the emulator did not print its port: %r" % line)
        self.endpoint = "http://127.0.0.1:%d" % int(line.split()[1])

    def stop(self):
        self.proc.send_signal(signal.SIGTERM)
        try:
            self.proc.wait(timeout=5)
        except subprocess.TimeoutExpired:
            self.proc.kill()
            self.proc.wait()
            raise Failure("the emulator did not stop on SIGTERM within 5 seconds")

    def namespace(self):
        with open(os.path.join(self.state_dir, "namespace.json")) as f:
            return json.load(f)

    def requests(self):
        with open(os.path.join(self.state_dir, "requests.jsonl")) as f:
            return [json.loads(l) for l in f]

    def emu_log(self):
        path = os.path.join(self.state_dir, "emu.log")
        return open(path).read() if os.path.exists(path) else ""


def google_paths(objects):
    """Converts the Google object list into {absolute path: object} (every object here has one parent)."""
    by_id = {o["id"]: o for o in objects}

    def path_of(o):
        parent = o["parents"][0]
        if parent == "root":
            return "/" + o["name"]
        return path_of(by_id[parent]) + "/" + o["name"]

    out = {}
    for o in objects:
        p = path_of(o)
        check(p not in out, "google: two objects at %s" % p)
        out[p] = o
    return out


def view(ns, key):
    return google_paths(ns["google"]) if key == "google" else ns[key]


def init_gnupg_home(path):
    """vsb treats ANY output on gpg's stderr as an encryption error, and a gpg that sees its home directory for the
    first time announces the files it creates there. So create the home of vsb's gpg before vsb runs."""
    os.makedirs(path, mode=0o700)
    env = dict(os.environ, GNUPGHOME=path)
    subprocess.run(["gpg", "--batch", "--list-keys"], stdout=subprocess.DEVNULL, stderr=subprocess.DEVNULL, env=env, timeout=60)
    p = subprocess.run(["gpg", "--batch", "--symmetric", "--passphrase", "x", "--pinentry-mode", "loopback", "--compress-algo", "none"],
                       input=b"probe", stdout=subprocess.PIPE, stderr=subprocess.PIPE, env=env, timeout=60)
    p = subprocess.run(["gpg", "--batch", "--symmetric", "--passphrase-fd", "0", "--compress-algo", "none", os.devnull],
                       input=b"x\n", stdout=subprocess.PIPE, stderr=subprocess.PIPE, env=env, timeout=60)


def decrypt_listing(tmp, path):
    gnupg = os.path.join(tmp, "gnupg")
    os.makedirs(gnupg, mode=0o700, exist_ok=True)
    env = dict(os.environ, GNUPGHOME=gnupg)
    p = subprocess.run(
        ["gpg", "--batch", "--quiet", "--no-tty", "--pinentry-mode", "loopback", "--passphrase", PASSPHRASE, "--decrypt", path],
        stdout=subprocess.PIPE, stderr=subprocess.PIPE, env=env, timeout=120)
    check(p.returncode == 0, "gpg failed on %s: %s" % (path, p.stderr.decode("utf-8", "replace")))
    with tarfile.open(fileobj=io.BytesIO(p.stdout), mode="r:") as tar:
        return tar.getnames()


def local_backup(tmp):
    st = os.path.join(tmp, "st")
    groups = sorted(g for g in os.listdir(st) if not g.startswith("."))
    check(len(groups) == 1, "expected one local group, found %r" % groups)
    backups = sorted(b for b in os.listdir(os.path.join(st, groups[0])) if not b.startswith("."))
    check(len(backups) == 1, "expected one local backup, found %r" % backups)
    return groups[0], backups[0]


def hidden_names(paths):
    return [p for p in paths if p.rsplit("/", 1)[1].startswith(".")]


def test_plain_upload(tmp, provider_name, key, group, backup):
    cfg = write_config(tmp, provider_name)
    emu = Emulator(os.path.join(tmp, "state-" + key), init={key: {CLOUD_ROOT: {"type": "folder"}}})
    try:
        code, out = run_vsb(tmp, cfg, ["upload"], emu.endpoint)
        context = "\n--- vsb output ---\n%s\n--- emu.log ---\n%s" % (out, emu.emu_log())
        check(code == 0, "%s: vsb upload exited with %d%s" % (key, code, context))
        check(not error_lines(out), "%s: vsb upload reported errors%s" % (key, context))

        ns = emu.namespace()
        paths = view(ns, key)
        group_path = "%s/%s" % (CLOUD_ROOT, group)
        file_path = "%s/%s.tar.gpg" % (group_path, backup)
        check(paths.get(group_path, {}).get("type") == "folder", "%s: no folder %s in %r" % (key, group_path, sorted(paths)))
        check(paths.get(file_path, {}).get("type") == "file", "%s: no file %s in %r" % (key, file_path, sorted(paths)))
        check(not hidden_names(paths), "%s: temporary names remain: %r" % (key, hidden_names(paths)))
        for other in ("dropbox", "yandex", "google"):
            if other != key:
                check(not ns[other], "%s: the %s namespace was touched" % (key, other))
        check(not os.listdir(os.path.join(emu.state_dir, "inflight")), "%s: in-flight data left behind" % key)

        names = decrypt_listing(tmp, os.path.join(emu.state_dir, paths[file_path]["object"]))
        for want in ("%s/data.tar.zst" % backup, "%s/metadata.zst" % backup):
            check(want in names, "%s: %s is not in the uploaded archive: %r" % (key, want, names))

        reqs = emu.requests()
        check([r["index"] for r in reqs] == list(range(len(reqs))), "%s: request indexes are not 0..n-1" % key)
        check(all(r["route"] != "unknown" for r in reqs), "%s: unknown routes were requested: %r" % (
            key, [(r["method"], r["host"], r["path"]) for r in reqs if r["route"] == "unknown"]))
        check(all(r["status"] is not None and r["status"] < 400 for r in reqs), "%s: unexpected error replies: %r" % (
            key, [(r["route"], r["status"]) for r in reqs if r["status"] is None or r["status"] >= 400]))
        check(emu.emu_log() == "", "%s: emu.log is not empty:\n%s" % (key, emu.emu_log()))

        # A second run has nothing to do and must not upload anything
        code, out = run_vsb(tmp, cfg, ["upload"], emu.endpoint)
        check(code == 0 and not error_lines(out), "%s: the second vsb upload failed (%d):\n%s" % (key, code, out))
        check(view(emu.namespace(), key).keys() == paths.keys(), "%s: the second upload changed the namespace" % key)
        routes = sorted(set(r["route"] for r in emu.requests()))
        print("  %-7s ok: %d requests for the first run, routes seen: %s" % (key, len(reqs), ", ".join(routes)), flush=True)
    finally:
        emu.stop()


def test_dropbox_wrong_checksum(tmp, group, backup):
    cfg = write_config(tmp, "dropbox")
    script = [{"when": {"route": "dropbox.upload_session.finish", "nth": 1}, "fault": "wrong_checksum"}]
    emu = Emulator(os.path.join(tmp, "state-dropbox-fault"), init={"dropbox": {CLOUD_ROOT: {"type": "folder"}}}, script=script)
    try:
        code, out = run_vsb(tmp, cfg, ["upload"], emu.endpoint)
        paths = emu.namespace()["dropbox"]
        file_path = "%s/%s/%s.tar.gpg" % (CLOUD_ROOT, group, backup)
        check(file_path not in paths, "wrong_checksum: the final name exists: %r" % sorted(paths))
        check(not [p for p in paths if p.endswith(".tar.gpg") and not base(p).startswith(".")],
              "wrong_checksum: a final-named object exists: %r" % sorted(paths))
        check(error_lines(out), "wrong_checksum: no E: line in the output:\n%s" % out)
        check(any("Checksum mismatch" in l for l in error_lines(out)), "wrong_checksum: unexpected errors:\n%s" % out)
        # Not asserted: the exit status. `vsb upload` only logs per-backup upload errors (uploading::sync_backups()
        # returns Ok whatever sync::sync_backups() reports), so this run exits with 0.
        reqs = emu.requests()
        faulted = [r for r in reqs if r["fault"]]
        check(len(faulted) == 1 and faulted[0]["route"] == "dropbox.upload_session.finish" and faulted[0]["fault"] == "wrong_checksum",
              "wrong_checksum: the fault was not applied exactly once: %r" % faulted)
        check(not any(r["route"] == "dropbox.move" for r in reqs), "wrong_checksum: the client renamed the file anyway")
        print("  dropbox wrong_checksum ok: exit status %d, remaining names %r" % (code, sorted(paths)), flush=True)
    finally:
        emu.stop()


def base(path):
    return path.rsplit("/", 1)[1]


def main():
    ensure_binary()
    tmp = tempfile.mkdtemp(prefix="vsb-emu-selftest-", dir="/tmp")
    try:
        os.makedirs(os.path.join(tmp, "home"))
        init_gnupg_home(os.path.join(tmp, "home", ".gnupg"))
        item = os.path.join(tmp, "src", "item")
        os.makedirs(item)
        with open(os.path.join(item, "a.txt"), "w") as f:
            f.write("first file\n")
        with open(os.path.join(item, "b.bin"), "wb") as f:
            f.write(bytes(range(256)) * 40)
        os.makedirs(os.path.join(tmp, "st"))

        cfg = write_config(tmp, "dropbox")
        code, out = run_vsb(tmp, cfg, ["backup", "t"])
        check(code == 0 and not error_lines(out), "vsb backup failed (%d):\n%s" % (code, out))
        group, backup = local_backup(tmp)
        print("local backup: %s/%s" % (group, backup), flush=True)

        for provider_name, key in PROVIDERS:
            test_plain_upload(tmp, provider_name, key, group, backup)
        test_dropbox_wrong_checksum(tmp, group, backup)
    except Failure as e:
        print("SELFTEST FAILED: %s" % e, flush=True)
        return 1
    finally:
        shutil.rmtree(tmp, ignore_errors=True)
    print("SELFTEST OK", flush=True)
    return 0


if __name__ == "__main__":
    sys.exit(main())
