(* Text line <-> Model.val.  All structured decoding is in Gallina (Wire.v); numbers are built and
   printed through the extracted N_of_digits / digits_of_N so no OCaml integer arithmetic is trusted. *)
open Model

let rec n_of_int (i : int) : n =
  (* only used for single decimal digits 0..9 *)
  let rec pos k = if k = 1 then XH else if k land 1 = 0 then XO (pos (k / 2)) else XI (pos (k / 2)) in
  if i = 0 then N0 else Npos (pos i)

let int_of_digit (d : n) : int =
  let rec ip = function XH -> 1 | XO p -> 2 * ip p | XI p -> 2 * ip p + 1 in
  match d with N0 -> 0 | Npos p -> ip p

exception Parse of string

let parse (s : string) : val0 =
  let len = String.length s in
  let pos = ref 0 in
  let skip () = while !pos < len && (s.[!pos] = ' ' || s.[!pos] = '\t' || s.[!pos] = '\r') do incr pos done in
  let rec value () : val0 =
    skip ();
    if !pos >= len then raise (Parse "eof");
    match s.[!pos] with
    | '(' ->
      incr pos;
      let items = ref [] in
      let fin = ref false in
      while not !fin do
        skip ();
        if !pos >= len then raise (Parse "unclosed");
        if s.[!pos] = ')' then (incr pos; fin := true)
        else items := value () :: !items
      done;
      VL (List.rev !items)
    | '0' .. '9' ->
      let ds = ref [] in
      while !pos < len && s.[!pos] >= '0' && s.[!pos] <= '9' do
        ds := n_of_int (Char.code s.[!pos] - 48) :: !ds; incr pos
      done;
      VN (n_of_digits (List.rev !ds))
    | c -> raise (Parse (Printf.sprintf "char %c at %d" c !pos))
  in
  let v = value () in
  skip ();
  if !pos <> len then raise (Parse "trailing");
  v

let rec print (b : Buffer.t) (v : val0) : unit =
  match v with
  | VN n -> List.iter (fun d -> Buffer.add_char b (Char.chr (48 + int_of_digit d))) (digits_of_N n)
  | VL l ->
    Buffer.add_char b '(';
    List.iteri (fun i x -> if i > 0 then Buffer.add_char b ' '; print b x) l;
    Buffer.add_char b ')'

let () =
  let b = Buffer.create 65536 in
  (try
     while true do
       let line = input_line stdin in
       if String.length line > 0 then begin
         Buffer.clear b;
         (match parse line with
          | v -> print b (dispatch v)
          | exception Parse m -> Buffer.add_string b ("(255 2) ; parse error: " ^ m));
         Buffer.add_char b '\n';
         print_string (Buffer.contents b)
       end
     done
   with End_of_file -> ());
  flush stdout
