(* Extraction: ExtrOcamlBasic only (bool, option, unit, list, prod, sumbool, sumor mapped to OCaml's);
   no Extract Constant, N / Z / positive / nat stay the extracted inductive types. *)
Require Extraction.
Require Import ExtrOcamlBasic.
From Vsb Require Import Wire Dispatch.
Extraction "model.ml" dispatch N_of_digits digits_of_N.
