(* C04 for the providers without a request-size limit (Yandex Disk, Google Drive): the reader thread with the MD5 hasher
   composed with the splitter run with max = None: one body holding the whole stream, then the finalisation with the
   stream's length and the MD5 of the whole stream, whatever blocks gpg's stdout yielded *)
From Coq Require Import List Arith NArith Lia Bool.
Import ListNotations.
Require Import Splitter Splitter3 Md5.

Section C2.
Variable Hmd5 : list N -> list N.

(* encryptor.rs::read_data with the Md5 hasher *)
Definition reader_md5 (blocks : list (list N)) : list msg :=
  map Payload blocks ++ [Eof (md5_finish Hmd5 (md5_feed blocks))].

Theorem upload_stream_exact_unlimited : forall blocks budget, 2 * length blocks + 1 <= budget ->
  exists es0,
    splitter None budget (reader_md5 blocks) = (es0 ++ [EEof (length (concat blocks)) (Hmd5 (concat blocks))], ROk) /\
    bodies (es0 ++ [EEof (length (concat blocks)) (Hmd5 (concat blocks))]) = one_body 0 (concat blocks).
Proof.
  intros blocks budget Hb. unfold reader_md5. rewrite md5_any_fragmentation.
  exact (splitter_unlimited blocks (Hmd5 (concat blocks)) budget Hb).
Qed.
End C2.
Print Assumptions upload_stream_exact_unlimited.
