(* C20 — only a well-formed configuration is ever acted upon. *)
From Coq Require Import List Arith NArith ZArith Lia Bool.
Import ListNotations.
Require Import Paths Duration Config ConfigProps.
Local Open Scope N_scope.

(* Whatever document is accepted (for every home directory, either build profile), the configuration acted upon is
   well formed: backup names distinct and non-empty; storage / upload / metrics paths normalised ("/" followed by
   parts joined by "/", no part empty, ".", ".." or containing "/"); every limit >= 1; item lists and item paths
   non-empty; passphrase non-empty; provider one of the three; a staleness threshold is the value of a duration the
   parser accepts. *)
Theorem C20_accepted_wellformed : forall home doc cfg, load home doc = Some cfg ->
  NoDup (map sp_name (c_backups cfg)) /\
  (forall p, c_metrics cfg = Some p -> normalised p) /\
  forall sp, In sp (c_backups cfg) ->
    sp_name sp <> [] /\ normalised (sp_path sp) /\
    (forall b, sp_backup sp = Some b ->
       bk_items b <> [] /\ 1 <= bk_groups b /\ 1 <= bk_per_group b /\ Forall (fun it => it_path it <> []) (bk_items b)) /\
    (forall u, sp_upload sp = Some u ->
       normalised (up_path u) /\ 1 <= up_groups u /\ up_pass u <> [] /\
       (up_provider u = V_dropbox \/ up_provider u = V_gdrive \/ up_provider u = V_ydisk) /\
       (forall n, up_max_age u = Some n -> exists t, parse_duration t = Dur n)).
Proof. exact accepted_wellformed. Qed.
Check C20_accepted_wellformed : forall home doc cfg, load home doc = Some cfg ->
  NoDup (map sp_name (c_backups cfg)) /\
  (forall p, c_metrics cfg = Some p -> normalised p) /\
  forall sp, In sp (c_backups cfg) ->
    sp_name sp <> [] /\ normalised (sp_path sp) /\
    (forall b, sp_backup sp = Some b ->
       bk_items b <> [] /\ 1 <= bk_groups b /\ 1 <= bk_per_group b /\ Forall (fun it => it_path it <> []) (bk_items b)) /\
    (forall u, sp_upload sp = Some u ->
       normalised (up_path u) /\ 1 <= up_groups u /\ up_pass u <> [] /\
       (up_provider u = V_dropbox \/ up_provider u = V_gdrive \/ up_provider u = V_ydisk) /\
       (forall n, up_max_age u = Some n -> exists t, parse_duration t = Dur n)).

Theorem C20_unknown_top_key_rejected : forall home m k v, In (k, v) m ->
  key_eqb k K_backups = false -> key_eqb k K_metrics = false -> load home (Some (YMap m)) = None.
Proof. exact unknown_top_key_rejected. Qed.
Check C20_unknown_top_key_rejected : forall home m k v, In (k, v) m ->
  key_eqb k K_backups = false -> key_eqb k K_metrics = false -> load home (Some (YMap m)) = None.

(* equivalent spellings address the same storage: normalisation is idempotent and its result has only good parts *)
Theorem C20_normalisation_idempotent : forall s r, validate_path s = Some r -> validate_path r = Some r.
Proof. exact validate_path_idem. Qed.
Check C20_normalisation_idempotent : forall s r, validate_path s = Some r -> validate_path r = Some r.
Theorem C20_normalised_parts : forall s r, validate_path s = Some r ->
  exists ps, r = SL :: join ps /\ Forall good_part ps.
Proof. exact validate_path_parts. Qed.
Check C20_normalised_parts : forall s r, validate_path s = Some r ->
  exists ps, r = SL :: join ps /\ Forall good_part ps.

(* unknown keys are rejected inside `provider` as well, and empty credentials too (repair of finding F4) *)
Theorem C20_unknown_provider_key_rejected : forall m k v, In (k, v) m ->
  existsb (key_eqb k) [K_name; K_cid; K_csec; K_rtok] = false -> provider (YMap m) = None.
Proof. exact unknown_provider_key_rejected. Qed.
Check C20_unknown_provider_key_rejected : forall m k v, In (k, v) m ->
  existsb (key_eqb k) [K_name; K_cid; K_csec; K_rtok] = false -> provider (YMap m) = None.

(* durations: accepted strings are exactly [1-9][0-9]*[mhd] whose value in seconds fits u64, the value is number x unit;
   the parser never panics (repair of finding F8; the earlier behaviour is Duration.parse_duration_v0) *)
Theorem C20_duration_inv : forall s t, parse_duration s = Dur t ->
  exists c ds u k n, s = c :: ds ++ [u] /\ lead c = true /\ forallb Codec.is_digit ds = true /\ unit_of u = Some k /\
    Codec.parse_N (c :: ds) = Some n /\ n * k < U64 /\ t = n * k.
Proof. exact parse_duration_inv. Qed.
Check C20_duration_inv : forall s t, parse_duration s = Dur t ->
  exists c ds u k n, s = c :: ds ++ [u] /\ lead c = true /\ forallb Codec.is_digit ds = true /\ unit_of u = Some k /\
    Codec.parse_N (c :: ds) = Some n /\ n * k < U64 /\ t = n * k.
Theorem C20_duration_never_panics : forall s, parse_duration s <> Panic.
Proof. exact parse_duration_never_panics. Qed.
Check C20_duration_never_panics : forall s, parse_duration s <> Panic.

(* non-vacuity: "/a//b/./c/" is accepted and normalises to "/a/b/c" *)
Example C20_example : validate_path [47;97;47;47;98;47;46;47;99;47] = Some [47;97;47;98;47;99].
Proof. vm_compute. reflexivity. Qed.

Print Assumptions C20_accepted_wellformed.
Print Assumptions C20_normalisation_idempotent.
Print Assumptions C20_duration_inv.
