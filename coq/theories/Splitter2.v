(* PROTOTYPE (round 0): the failure half of C17 on the splitter model: upstream error, sender hang-up,
   receiver gone, "never both a finalisation and an error" *)
From Coq Require Import List Arith NArith ZArith Lia Bool ZifyBool ZifyNat.
Require Import Chunk Splitter.
Import ListNotations.

Definition is_term (e : ev) := match e with EEof _ _ | EFail _ => true | _ => false end.
Definition quiet (es : list ev) := forallb (fun e => negb (is_term e)) es.

Lemma quiet_app : forall a b, quiet (a ++ b) = quiet a && quiet b.
Proof. intros. apply forallb_app. Qed.

Lemma send_ev : forall s e s' l, send s e = Some (s', l) -> l = [e] /\ budget s = S (budget s').
Proof. intros s e s' l H. unfold send in H. destruct (budget s); inversion H; subst. auto. Qed.

Lemma block_quiet : forall fuel max s d s' e oof, block fuel max s d = (Some (s', e), oof) -> quiet e = true.
Proof.
  induction fuel as [|f IH]; intros max s d s' e oof H.
  - destruct d; cbn [block] in H; inversion H; reflexivity.
  - destruct d as [|a d']; [cbn [block] in H; inversion H; reflexivity|].
    remember (a :: d') as d. cbn [block] in H. rewrite Heqd in H at 1.
    set (opened := if open s then Some (s, []) else
                   match send s (EStream (off s)) with
                   | Some (s'0, e0) => Some ({| open := true; ssize := 0; off := off s'0; budget := budget s'0 |}, e0)
                   | None => None end) in H.
    assert (Ho : forall s1 e1, opened = Some (s1, e1) -> quiet e1 = true).
    { intros s1 e1 E. unfold opened in E. destruct (open s); [inversion E; reflexivity|].
      destruct (send s (EStream (off s))) as [[s0 e0]|] eqn:Es; [|discriminate].
      apply send_ev in Es as [-> _]. inversion E; reflexivity. }
    destruct opened as [[s1 e1]|]; [|inversion H]. specialize (Ho _ _ eq_refl).
    destruct (length d <=? _).
    + destruct (send s1 (EChunk d)) as [[s2 e2]|] eqn:Es; [|inversion H]. apply send_ev in Es as [-> _].
      inversion H; subst. unfold quiet in *. rewrite forallb_app, Ho. reflexivity.
    + destruct (0 <? _).
      * destruct (send s1 (EChunk _)) as [[s2 e2]|] eqn:Es; [|inversion H]. apply send_ev in Es as [-> _].
        destruct (block f max _ _) as [[[s4 e4]|] oof'] eqn:Eb; inversion H; subst.
        apply IH in Eb. unfold quiet in *. rewrite forallb_app, Ho. cbn [forallb is_term negb andb]. exact Eb.
      * destruct (block f max _ _) as [[[s4 e4]|] oof'] eqn:Eb; inversion H; subst.
        apply IH in Eb. unfold quiet in *. rewrite forallb_app, Ho. cbn [forallb is_term negb andb]. exact Eb.
Qed.

Lemma close_quiet : forall s, quiet (close_if_open s) = true.
Proof. intro s. unfold close_if_open. destruct (open s); reflexivity. Qed.

(* never both: the event list is a terminal-free part followed by at most one terminal event *)
Theorem terminal_once_and_last : forall max ms s es r, run max s ms = (es, r) ->
  exists body tl, es = body ++ tl /\ quiet body = true /\
    (tl = [] \/ exists t, tl = [t] /\ is_term t = true).
Proof.
  intros max ms; induction ms as [|m ms IH]; intros s es r H; cbn [run] in H.
  - inversion H; subst. exists [], []. auto.
  - destruct m as [d|sum|x].
    + destruct (block _ max s d) as [[[s' e]|] [|]] eqn:Eb; try (inversion H; subst; exists [], []; auto; fail).
      destruct (run max s' ms) as [e' r'] eqn:Er. inversion H; subst.
      destruct (IH _ _ _ Er) as (body & tl & -> & Hq & Htl). exists (e ++ body), tl.
      rewrite app_assoc, quiet_app, (block_quiet _ _ _ _ _ _ _ Eb), Hq. auto.
    + destruct (send s (EEof (off s) sum)) as [[s' e]|] eqn:Es.
      * apply send_ev in Es as [-> _]. inversion H; subst. exists (close_if_open s), [EEof (off s) sum].
        rewrite close_quiet. split; auto. split; auto. right. eexists; split; reflexivity.
      * inversion H; subst. exists (close_if_open s), []. rewrite app_nil_r, close_quiet. auto.
    + destruct (send s (EFail x)) as [[s' e]|] eqn:Es.
      * apply send_ev in Es as [-> _]. inversion H; subst. exists (close_if_open s), [EFail x].
        rewrite close_quiet. split; auto. split; auto. right. eexists; split; reflexivity.
      * inversion H; subst. exists (close_if_open s), []. rewrite app_nil_r, close_quiet. auto.
Qed.

(* an upstream error ends the sequence with that error, after the bodies of everything received before it *)
Lemma run_bodies_err : forall m, m >= 1 -> forall x blocks s cur,
  Inv m s cur -> 2 * length (concat blocks) + 1 <= budget s ->
  exists es0, run (Some m) s (map Payload blocks ++ [MErr x]) = (es0 ++ [EFail x], ROk) /\ quiet es0 = true /\
              bodies_aux cur (es0 ++ [EFail x]) = G m s cur (concat blocks).
Proof.
  intros m Hm x blocks. induction blocks as [|d blocks IH]; intros s cur HI Hb.
  - cbn [map app run concat length]. unfold send. destruct (budget s) as [|b] eqn:Eb; [cbn in Hb; lia|].
    exists (close_if_open s). split; [reflexivity|]. split; [apply close_quiet|].
    unfold G, cstart, cbytes, close_if_open. destruct cur as [[o b0]|]; cbn [Inv] in HI.
    + destruct HI as (Ho & Hl & Hbm & Hoff). rewrite Ho. cbn [app bodies_aux].
      rewrite app_nil_r. rewrite (chunks_small (fun z => z)); [reflexivity| |lia].
      destruct b0; cbn in *; [lia|discriminate].
    + rewrite HI. reflexivity.
  - cbn [map app run concat]. cbn [concat] in Hb. rewrite app_length in Hb.
    destruct (block_bodies m Hm (2 * length d + 2) s d cur HI) as (s1 & e1 & cur1 & Hblk & HI1 & Hoff1 & Hbud1 & Hbod1).
    { destruct (open s); lia. } { lia. }
    rewrite Hblk. destruct (IH s1 cur1 HI1) as (es0 & Hrun & Hq & Hbod); [lia|].
    rewrite Hrun. exists (e1 ++ es0). rewrite <- app_assoc.
    split; [reflexivity|]. split; [rewrite quiet_app, (block_quiet _ _ _ _ _ _ _ Hblk), Hq; reflexivity|].
    apply Hbod1. exact Hbod.
Qed.

Theorem splitter_upstream_error : forall m blocks x budget0, m >= 1 ->
  2 * length (concat blocks) + 1 <= budget0 ->
  exists es0, splitter (Some m) budget0 (map Payload blocks ++ [MErr x]) = (es0 ++ [EFail x], ROk) /\
              quiet es0 = true /\                                   (* no finalisation anywhere *)
              bodies (es0 ++ [EFail x]) = from_off 0 (chunks m (concat blocks)).
Proof.
  intros m blocks x budget0 Hm Hb. unfold splitter, bodies.
  destruct (run_bodies_err m Hm x blocks {| open := false; ssize := 0; off := 0; budget := budget0 |} None) as (es0 & Hrun & Hq & Hbod);
    [reflexivity | exact Hb |]. exists es0. auto.
Qed.

(* the sender hangs up without a terminal message: the splitter fails, and sends neither finalisation nor error *)
Theorem splitter_sender_hangup : forall m blocks budget0, m >= 1 ->
  2 * length (concat blocks) + 1 <= budget0 ->
  exists es0, splitter (Some m) budget0 (map Payload blocks) = (es0, RSenderClosed) /\ quiet es0 = true.
Proof.
  intros m blocks budget0 Hm Hb. unfold splitter.
  assert (H : forall blocks s cur, Inv m s cur -> 2 * length (concat blocks) + 1 <= budget s ->
            exists es0, run (Some m) s (map Payload blocks) = (es0, RSenderClosed) /\ quiet es0 = true).
  { clear blocks budget0 Hb. induction blocks as [|d blocks IH]; intros s cur HI Hb.
    - exists []. auto.
    - cbn [map run concat]. cbn [concat] in Hb. rewrite app_length in Hb.
      destruct (block_bodies m Hm (2 * length d + 2) s d cur HI) as (s1 & e1 & cur1 & Hblk & HI1 & Hoff1 & Hbud1 & _).
      { destruct (open s); lia. } { lia. }
      rewrite Hblk. destruct (IH s1 cur1 HI1) as (es0 & Hrun & Hq); [lia|]. rewrite Hrun.
      exists (e1 ++ es0). split; auto. rewrite quiet_app, (block_quiet _ _ _ _ _ _ _ Hblk), Hq. reflexivity. }
  apply (H blocks _ None); [reflexivity|exact Hb].
Qed.

(* a receiver that is gone: the first message that needs a send makes the run fail at once *)
Theorem receiver_gone_fails : forall max s ms m0,
  budget s = 0 -> (match m0 with Payload d => d <> [] | _ => True end) ->
  snd (run max s (m0 :: ms)) = RReceiverClosed \/ (open s = true /\ exists d, m0 = Payload d).
Proof.
  intros max s ms m0 Hb Hm. destruct m0 as [d|sum|x]; cbn [run].
  - destruct (open s) eqn:Eo; [right; eauto|left].
    destruct d as [|a d']; [congruence|]. cbn [block length Nat.mul Nat.add]. rewrite Eo. unfold send. rewrite Hb. reflexivity.
  - left. unfold send. rewrite Hb. reflexivity.
  - left. unfold send. rewrite Hb. reflexivity.
Qed.

(* ... and with a body open, the very next chunk send fails *)
Theorem receiver_gone_fails_open : forall max s ms d,
  budget s = 0 -> open s = true -> d <> [] -> (match max with Some m => ssize s < m | None => True end) ->
  snd (run max s (Payload d :: ms)) = RReceiverClosed.
Proof.
  intros max s ms d Hb Ho Hd Hm. destruct d as [|a d']; [congruence|]. remember (a :: d') as d.
  cbn [run]. assert (Hf : 2 * length d + 2 = S (2 * length d + 1)) by lia. rewrite Hf.
  rewrite block_unfold by (subst; discriminate). cbv zeta. rewrite Ho.
  destruct (length d <=? _).
  - unfold send. rewrite Hb. reflexivity.
  - assert (0 <? match max with Some m => m - ssize s | None => length d end = true) as ->.
    { destruct max; [apply Nat.ltb_lt; lia|subst; cbn; reflexivity]. }
    unfold send. rewrite Hb. reflexivity.
Qed.
Print Assumptions terminal_once_and_last.
Print Assumptions splitter_upstream_error.
Print Assumptions splitter_sender_hangup.
Print Assumptions receiver_gone_fails_open.
