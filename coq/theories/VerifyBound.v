(* PROTOTYPE (round 0): C07 group-size bound over arbitrary histories of runs, failures and collections *)
From Coq Require Import List Arith NArith Lia Bool.
Import ListNotations.
Require Import Verify VerifyRuns.

Definition Bounded (M : nat) (gs : list grp) := Forall (fun g => length (kept g) <= M) gs.

Lemma kept_publish : forall g nb, readable nb = true ->
  kept {| g_day := g_day g; g_entries := filter (fun e => match e with GTemp => false | _ => true end) (g_entries g) ++ [GFinal nb] |}
  = kept g ++ [nb].
Proof.
  intros g nb Hr. unfold kept, read_group. cbn [snd g_entries]. rewrite finals_app, finals_filter_temp. cbn [finals].
  rewrite filter_app. cbn [filter]. now rewrite Hr.
Qed.

Theorem publish_bounded : forall M gs max_per day time ls gs',
  1 <= M -> max_per <= M -> Bounded M gs -> publish gs max_per day time ls = Some gs' -> Bounded M gs'.
Proof.
  intros M gs max_per day time ls gs' H1 HM HB E. unfold publish in E.
  destruct (rev gs) as [|g older] eqn:Er.
  - inversion E; subst. constructor; [cbn; lia|constructor].
  - apply rev_cons_last with (d := g) in Er as [_ Hgs]. rewrite Hgs in HB. apply Forall_app in HB as [HBo HBg].
    destruct (length (kept g) <? max_per) eqn:El.
    + inversion E; subst gs'. apply Forall_app. split; auto. constructor; [|constructor].
      rewrite kept_publish by reflexivity. rewrite app_length. cbn [length]. apply Nat.ltb_lt in El. lia.
    + destruct (existsb _ gs); [discriminate|]. inversion E; subst gs'. apply Forall_app. split.
      * rewrite Hgs. apply Forall_app; auto.
      * constructor; [cbn; lia|constructor].
Qed.

Theorem fail_bounded : forall M gs max_per day, Bounded M gs -> Bounded M (fail_after_select gs max_per day).
Proof.
  intros M gs max_per day HB. unfold fail_after_select. destruct (rev gs) as [|g older].
  - constructor; [cbn; lia|constructor].
  - destruct (_ <? _); auto. destruct (existsb _ gs); auto. apply Forall_app. split; auto. constructor; [cbn; lia|constructor].
Qed.

Theorem gc_bounded : forall M gs max_groups, Bounded M gs -> Bounded M (gc gs max_groups).
Proof.
  intros M gs mg HB. unfold gc. destruct (_ <=? _); auto. destruct (forallb _ gs); auto.
  unfold Bounded in *. rewrite <- (firstn_skipn (length gs - mg) gs) in HB. now apply Forall_app in HB as [_ HB].
Qed.

(* histories: each event carries the limits in force for that run *)
Inductive event :=
| Run (max_per max_groups day time : nat) (ls : list mline)      (* a run that publishes, then collects *)
| Failed (max_per day : nat).                                     (* a run that fails or is killed after group selection *)

Definition step (gs : list grp) (e : event) : list grp :=
  match e with
  | Run mp mg day time ls => match publish gs mp day time ls with Some gs' => gc gs' mg | None => gs end
  | Failed mp day => fail_after_select gs mp day
  end.
Definition limit_of (e : event) := match e with Run mp _ _ _ _ => mp | Failed mp _ => mp end.

(* C07: no group ever holds more recognised backups than the largest per-group limit that was ever in force *)
Theorem history_bounded : forall M es gs, 1 <= M -> Forall (fun e => limit_of e <= M) es -> Bounded M gs -> Bounded M (fold_left step es gs).
Proof.
  intros M es; induction es as [|e es IH]; intros gs H1 HL HB; cbn [fold_left]; auto.
  apply Forall_cons_iff in HL as [He HL]. apply IH; auto. destruct e as [mp mg day time ls|mp day]; cbn [step limit_of] in *.
  - destruct (publish gs mp day time ls) as [gs'|] eqn:E; auto. apply gc_bounded. eapply publish_bounded; eauto.
  - now apply fail_bounded.
Qed.

Corollary from_empty_bounded : forall M es, 1 <= M -> Forall (fun e => limit_of e <= M) es -> Bounded M (fold_left step es []).
Proof. intros. apply history_bounded; auto. constructor. Qed.
Print Assumptions history_bounded.

(* after a publishing run whose listing was clean, at most max_groups groups remain and the new backup's group is kept *)
Theorem run_group_count : forall gs mp mg day time ls gs', mg >= 1 ->
  publish gs mp day time ls = Some gs' -> forallb (fun g => fst (read_group g)) gs' = true ->
  length (gc gs' mg) <= mg /\ forall d, gs' <> [] -> last (gc gs' mg) d = last gs' d.
Proof.
  intros gs mp mg day time ls gs' Hmg E Hc. split; [now apply gc_bound|]. intros d Hne. symmetry. now apply gc_keeps_newest.
Qed.

(* gc_groups sees the whole listing: an unexpected entry at ROOT level blocks every deletion as well *)
Definition gc_root (root_clean : bool) (gs : list grp) (max_groups : nat) : list grp :=
  if root_clean then gc gs max_groups else gs.
Theorem gc_root_dirty_no_delete : forall gs max, gc_root false gs max = gs.
Proof. reflexivity. Qed.
Theorem gc_root_removes_oldest_whole : forall c gs max, exists k, gc_root c gs max = skipn k gs.
Proof. intros [|] gs max; cbn [gc_root]; [apply gc_removes_oldest_whole | exists 0; reflexivity]. Qed.
Theorem gc_root_bounded : forall c M gs max_groups, Bounded M gs -> Bounded M (gc_root c gs max_groups).
Proof. intros [|] M gs mg HB; cbn [gc_root]; [now apply gc_bounded | exact HB]. Qed.
