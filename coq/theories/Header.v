(* PROTOTYPE (round 0): the width conversions between fs::Metadata, the tar header and FileMetadata
   (backup.rs::tar_header via tar's set_metadata; restorer.rs::get_file_metadata); finding F1 *)
From Coq Require Import ZArith Lia Bool.
Open Scope Z_scope.

Definition two64 := 18446744073709551616.
Definition two63 := 9223372036854775808.
Definition two32 := 4294967296.

(* tar's numeric fields: octal when the value fits the field, GNU base-256 otherwise; either way a u64 comes back.
   Trusted (tar crate), modelled as the identity on 0 <= n < 2^64. *)
Definition field (n : Z) : Z := n.

Definition store_mtime (mtime : Z) : Z := field (mtime mod two64).                    (* meta.mtime() as u64 *)
Definition load_mtime (fixed : bool) (raw : Z) : option Z :=
  if fixed then Some (if raw <? two63 then raw else raw - two64)                      (* raw as i64 *)
  else if raw <? two63 then Some raw else None.                                       (* i64::try_from(raw) *)

Definition store_id (id : Z) : Z := field id.                                         (* meta.uid() as u64, u32 -> u64 *)
Definition load_id (raw : Z) : option Z := if raw <? two32 then Some raw else None.   (* u32::try_from *)
Definition store_mode (st_mode : Z) : Z := field st_mode.                             (* full st_mode, 0o100644 etc. *)
Definition applied_mode (raw : Z) : Z := raw mod 4096.                                (* chmod keeps the low 12 bits *)

Theorem mtime_roundtrip_today : forall m, 0 <= m < two63 -> load_mtime false (store_mtime m) = Some m.
Proof.
  intros m H. unfold load_mtime, store_mtime, field, two63, two64 in *. rewrite Z.mod_small by lia.
  destruct (m <? 9223372036854775808) eqn:E; [reflexivity|lia].
Qed.

(* F1: today's code cannot restore any file whose mtime lies before 1970 *)
Theorem F1_pre1970_fails_today : forall m, - two63 <= m < 0 -> load_mtime false (store_mtime m) = None.
Proof.
  intros m H. unfold load_mtime, store_mtime, field, two63, two64 in *.
  assert (E : m mod 18446744073709551616 = m + 18446744073709551616).
  { symmetry. apply Z.mod_unique with (q := -1); lia. }
  rewrite E. destruct (m + 18446744073709551616 <? 9223372036854775808) eqn:E2; [lia|reflexivity].
Qed.

(* with the inverse cast the round trip holds on the whole i64 range *)
Theorem mtime_roundtrip_fixed : forall m, - two63 <= m < two63 -> load_mtime true (store_mtime m) = Some m.
Proof.
  intros m H. unfold load_mtime, store_mtime, field, two63, two64 in *. f_equal.
  destruct (Z_lt_ge_dec m 0) as [Hn|Hp].
  - assert (E : m mod 18446744073709551616 = m + 18446744073709551616) by (symmetry; apply Z.mod_unique with (q := -1); lia).
    rewrite E. destruct (m + 18446744073709551616 <? 9223372036854775808) eqn:E2; lia.
  - rewrite Z.mod_small by lia. destruct (m <? 9223372036854775808) eqn:E2; lia.
Qed.

Theorem id_roundtrip : forall id, 0 <= id < two32 -> load_id (store_id id) = Some id.
Proof. intros id H. unfold load_id, store_id, field, two32 in *. destruct (id <? 4294967296) eqn:E; [reflexivity|lia]. Qed.

Theorem mode_roundtrip : forall perm ftype, 0 <= perm < 4096 -> 0 <= ftype ->
  applied_mode (store_mode (ftype * 4096 + perm)) = perm.
Proof.
  intros perm ftype Hp Hf. unfold applied_mode, store_mode, field.
  rewrite Z.add_comm, Z.mod_add by lia. apply Z.mod_small. lia.
Qed.
Print Assumptions mtime_roundtrip_fixed.
