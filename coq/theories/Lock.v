(* PROTOTYPE (round 0): two runs under flock(LOCK_EX|LOCK_NB) semantics (C16) *)
From Coq Require Import List Arith Lia Bool.
Import ListNotations.

Inductive pstate := NotStarted | Holding (todo : nat) | Done | Refused.      (* todo = storage operations still to issue *)
Record st := { p0 : pstate; p1 : pstate; trace : list (bool * nat) }.         (* trace: (process, op index) in issue order *)
Definition get (s : st) (b : bool) := if b then p1 s else p0 s.
Definition set (s : st) (b : bool) (x : pstate) (tr : list (bool * nat)) :=
  if b then {| p0 := p0 s; p1 := x; trace := tr |} else {| p0 := x; p1 := p1 s; trace := tr |}.
Definition holding (x : pstate) := match x with Holding _ => true | _ => false end.

(* one scheduling step of process b; n = number of storage operations a run issues between lock and unlock *)
Definition step (n : nat) (s : st) (b : bool) : st :=
  match get s b with
  | NotStarted => if holding (get s (negb b)) then set s b Refused (trace s)          (* lock error, nothing touched *)
                  else set s b (Holding n) (trace s)
  | Holding 0 => set s b Done (trace s)                                                (* unlock after the last operation *)
  | Holding (S k) => set s b (Holding k) (trace s ++ [(b, k)])
  | _ => s
  end.
Definition run (n : nat) (sched : list bool) : st := fold_left (step n) sched {| p0 := NotStarted; p1 := NotStarted; trace := [] |}.

(* invariant: never both holding; a refused process has issued nothing; operations of a process appear only while it holds *)
Definition Inv (s : st) : Prop :=
  ~ (holding (p0 s) = true /\ holding (p1 s) = true) /\
  (p0 s = Refused \/ p0 s = NotStarted -> forall k, ~ In (false, k) (trace s)) /\
  (p1 s = Refused \/ p1 s = NotStarted -> forall k, ~ In (true, k) (trace s)).

Ltac lock_solve Hex H0 H1 :=
  repeat split;
  try (intros [A B]; cbn in *; try discriminate; try (apply Hex; split; reflexivity); fail);
  try (intros [A|A]; discriminate);
  try (intros Hp k0 Hin; try (apply in_app_or in Hin as [Hin|[Hin|[]]]; [|try discriminate]);
       first [ eapply H0; eauto; fail | eapply H1; eauto; fail | idtac ]).

Lemma step_Inv : forall n s b, Inv s -> Inv (step n s b).
Proof.
  intros n [a0 a1 tr] b (Hex & H0 & H1). unfold Inv, step, get, set in *. cbn [p0 p1 trace] in *.
  destruct b; cbn [negb]; destruct a0 as [|[|k0]| |], a1 as [|[|k1]| |]; cbn [holding p0 p1 trace] in *;
    lock_solve Hex H0 H1; try (inversion Hin; fail); try (exfalso; apply Hex; split; reflexivity).
  all: intros _ k Hin; try (apply in_app_or in Hin as [Hin|[Hin|[]]]; [|discriminate]);
       first [ apply (H1 (or_introl eq_refl) k Hin) | apply (H1 (or_intror eq_refl) k Hin)
             | apply (H0 (or_introl eq_refl) k Hin) | apply (H0 (or_intror eq_refl) k Hin) ].
Qed.

(* C16: in every schedule the two runs never hold the lock together, and a run that was refused touched nothing *)
Theorem mutual_exclusion : forall n sched, Inv (run n sched).
Proof.
  intros n sched. unfold run.
  assert (H : forall s, Inv s -> Inv (fold_left (step n) sched s)).
  { induction sched as [|b r IH]; intros s Hs; cbn [fold_left]; auto. apply IH. now apply step_Inv. }
  apply H. repeat split; cbn; auto. intros [A B]; discriminate.
Qed.
Print Assumptions mutual_exclusion.
