(* PROTOTYPE (round 0): C01 stage 4 - the shape of the plan on a well-formed group *)
From Coq Require Import List Arith NArith ZArith Lia Bool Permutation.
Import ListNotations.
Require Import Restore2 Restore2Exec Restore2Plan.
Open Scope N_scope.

Definition tfp (tf : tfmap) : list path := map fst (concat (map snd tf)).

Lemma tfp_app : forall a b, tfp (a ++ b) = tfp a ++ tfp b.
Proof. intros. unfold tfp. now rewrite map_app, concat_app, map_app. Qed.
Lemma tfp_cons : forall h ps tf, tfp ((h, ps) :: tf) = map fst ps ++ tfp tf.
Proof. intros. unfold tfp. cbn. now rewrite map_app. Qed.

Lemma tf_remove_split : forall h tf ps tf', tf_remove h tf = (Some ps, tf') ->
  exists pre post, tf = pre ++ (h, ps) :: post /\ tf' = pre ++ post /\ forall ps0, ~ In (h, ps0) pre.
Proof.
  intros h tf. induction tf as [|[h' ps'] tf IH]; intros ps tf' Hr; cbn [tf_remove] in Hr; [discriminate|].
  destruct (list_eqb_spec h h') as [->|Hne].
  - inversion Hr; subst ps tf'. exists [], tf. repeat split; auto.
  - destruct (tf_remove h tf) as [r t] eqn:Er. inversion Hr; subst r tf'.
    destruct (IH ps t eq_refl) as (pre & post & -> & -> & Hno). exists ((h', ps') :: pre), post. repeat split; auto.
    intros ps0 [E|Hin]; [inversion E; congruence | eapply Hno; eauto].
Qed.

Lemma tf_remove_none_keys : forall h tf tf', tf_remove h tf = (None, tf') -> forall ps, ~ In (h, ps) tf.
Proof.
  intros h tf. induction tf as [|[h' ps'] tf IH]; intros tf' Hr ps Hin; [destruct Hin|]. cbn [tf_remove] in Hr.
  destruct (list_eqb_spec h h') as [->|Hne]; [discriminate|].
  destruct (tf_remove h tf) as [r t] eqn:Er. inversion Hr; subst. destruct Hin as [E|Hin]; [inversion E; congruence | eapply IH; eauto].
Qed.

Lemma NoDup_app_r : forall (A : Type) (a b : list A), NoDup (a ++ b) -> NoDup b.
Proof. intros A a b. induction a as [|x a IH]; cbn; auto. intros H. inversion H; auto. Qed.
Lemma NoDup_app_remove_mid : forall (A : Type) (a b c : list A), NoDup (a ++ b ++ c) -> NoDup (a ++ c).
Proof.
  intros A a b c H. apply (NoDup_app_r A b). eapply Permutation_NoDup; [|exact H]. apply Permutation_app_swap_app.
Qed.
Lemma NoDup_app_intro : forall (A : Type) (a b : list A), NoDup a -> NoDup b -> (forall x, In x a -> In x b -> False) -> NoDup (a ++ b).
Proof.
  intros A a b Ha Hb Hd. induction a as [|x a IH]; cbn; auto. inversion Ha as [|? ? Hx Ha']; subst. constructor.
  - intro Hc. apply in_app_or in Hc as [Hc|Hc]; [contradiction | eapply Hd; eauto; now left].
  - apply IH; auto. intros y Hy1 Hy2. eapply Hd; eauto. now right.
Qed.

Section Shape.
Variable fx : fixes.
Hypothesis Hfx5 : fx5 fx = true.
Hypothesis Hfx7 : fx7 fx = true.
Variable L : list mline.                                   (* the target manifest *)
Hypothesis L_nodup : NoDup (map l_path L).
Definition ExtLine (q : path) (h : hash) (sz : N) : Prop :=
  exists l, In l L /\ is_own l = false /\ l_path l = q /\ l_hash l = h /\ l_size l = sz.

Record TfOK (tf : tfmap) : Prop := {
  tk_wf : tf_wf tf;
  tk_ext : forall h ps q sz, In (h, ps) tf -> In (q, sz) ps -> ExtLine q h sz;
  tk_nodup : NoDup (tfp tf)
}.

Definition fo_of (e : mline * list (path * N)) : list path := map fst (snd e).
Definition rfile_of (own : bool) (e : mline * list (path * N)) : rfile :=
  {| rf_hash := l_hash (fst e); rf_size := l_size (fst e); rf_paths := fo_of e ++ (if own then [l_path (fst e)] else []) |}.

(* exact effect of a sequence of resolving records *)
Lemma resolves_shape : forall (own : bool) ls s, TfOK (p_tf s) -> NoDup (map l_path ls) ->
  (forall l, In l ls -> map_get (l_path l) (p_map s) = None) ->
  let s' := fold_left (fun s l => resolve fx own l s) ls s in
  exists ens : list (mline * list (path * N)),
    TfOK (p_tf s') /\
    p_exts s' = p_exts s ++ concat (map fo_of ens) /\
    Permutation (tfp (p_tf s)) (tfp (p_tf s') ++ concat (map fo_of ens)) /\
    (forall e, In e ens -> In (fst e) ls /\ (forall q sz, In (q, sz) (snd e) -> ExtLine q (l_hash (fst e)) sz) /\
                           map_get (l_path (fst e)) (p_map s') = Some (rfile_of own e)) /\
    (forall k r, map_get k (p_map s') = Some r -> map_get k (p_map s) = Some r \/ exists e, In e ens /\ k = l_path (fst e)) /\
    (forall k r, map_get k (p_map s) = Some r -> map_get k (p_map s') = Some r) /\
    (own = true -> forall l, In l ls -> exists ps, In (l, ps) ens) /\
    (p_ok s' = true <-> p_ok s = true /\ forall e q sz, In e ens -> In (q, sz) (snd e) -> sz = l_size (fst e)) /\
    NoDup (map (fun e => l_path (fst e)) ens) /\
    (forall l ps, In l ls -> ~ In (l_hash l, ps) (p_tf s')) /\
    (forall h ps, In (h, ps) (p_tf s') -> In (h, ps) (p_tf s)).
Proof.
  intros own ls. induction ls as [|l ls IH]; intros s Htf Hnd Hfresh; cbn [fold_left].
  - exists []. cbn [map concat]. rewrite !app_nil_r.
    split; [exact Htf|]. split; [reflexivity|]. split; [apply Permutation_refl|]. split; [intros e []|].
    split; [intros k r Hk; now left|]. split; [auto|]. split; [intros _ l []|].
    split; [split; [intros A; split; [exact A|intros e q sz []] | intros [A _]; exact A]|].
    split; [constructor|]. split; [intros l ps []|auto].
  - inversion Hnd as [|? ? Hlnot Hnd']; subst.
    (* one step *)
    assert (Hstep : exists ens1 : list (mline * list (path * N)),
       let s1 := resolve fx own l s in
       TfOK (p_tf s1) /\ p_exts s1 = p_exts s ++ concat (map fo_of ens1) /\
       Permutation (tfp (p_tf s)) (tfp (p_tf s1) ++ concat (map fo_of ens1)) /\
       (forall e, In e ens1 -> fst e = l /\ (forall q sz, In (q, sz) (snd e) -> ExtLine q (l_hash l) sz) /\
                              map_get (l_path l) (p_map s1) = Some (rfile_of own e)) /\
       (forall k, k <> l_path l -> map_get k (p_map s1) = map_get k (p_map s)) /\
       (ens1 = [] -> p_map s1 = p_map s) /\
       (own = true -> exists ps, ens1 = [(l, ps)]) /\
       (p_ok s1 = true <-> p_ok s = true /\ forall e q sz, In e ens1 -> In (q, sz) (snd e) -> sz = l_size l) /\
       (length ens1 <= 1)%nat /\
       (forall ps, ~ In (l_hash l, ps) (p_tf s1)) /\
       (forall h ps, In (h, ps) (p_tf s1) -> In (h, ps) (p_tf s))).
    { unfold resolve. destruct (tf_remove (l_hash l) (p_tf s)) as [r tf'] eqn:Er.
      assert (Hdup : map_get (l_path l) (p_map s) = None) by (apply Hfresh; now left).
      destruct r as [ps|].
      - (* an entry of the hash map is taken *)
        destruct (tf_remove_split _ _ _ _ Er) as (pre & post & Etf & Etf' & Hno).
        exists [(l, ps)]. cbn [p_tf p_exts p_map p_ok map concat fo_of snd fst]. rewrite app_nil_r.
        assert (Hin : In (l_hash l, ps) (p_tf s)) by (rewrite Etf; apply in_or_app; right; now left).
        split; [|split; [reflexivity|split]].
        + destruct Htf as [[Hk Hne] Hext Hnd0]. constructor.
          * split.
            -- rewrite Etf, map_app in Hk. cbn [map fst] in Hk. rewrite Etf', map_app. eapply NoDup_remove_1; eauto.
            -- intros h0 ps0 Hi. apply (Hne h0 ps0). rewrite Etf. rewrite Etf' in Hi. apply in_app_or in Hi as [Hi|Hi]; apply in_or_app; [now left | right; now right].
          * intros h0 ps0 q sz Hi Hq. apply (Hext h0 ps0 q sz); auto. rewrite Etf. rewrite Etf' in Hi.
            apply in_app_or in Hi as [Hi|Hi]; apply in_or_app; [now left | right; now right].
          * rewrite Etf, tfp_app, tfp_cons in Hnd0. rewrite Etf', tfp_app.
            apply (NoDup_app_remove_mid _ _ _ _ Hnd0).
        + rewrite Etf, Etf', !tfp_app, tfp_cons. rewrite <- app_assoc. apply Permutation_app_head. apply Permutation_app_comm.
        + split; [intros e [<-|[]]; cbn [fst snd]; split; [reflexivity|split] |].
          * intros q sz Hq. eapply (tk_ext _ Htf); eauto.
          * unfold rfile_of, fo_of. cbn [fst snd]. apply map_insert_same.
          * split; [intros k Hk; apply map_insert_other; auto|]. split; [discriminate|]. split; [intros _; eexists; reflexivity|].
            split; [|split; [cbn; lia|split]].
            -- rewrite Hdup, Hfx5, Hfx7. cbn [negb orb andb]. rewrite !andb_true_r. rewrite andb_true_iff. unfold sizes_agree. rewrite forallb_forall. split.
               ++ intros [A B]. split; auto. intros e q sz [<-|[]] Hq. cbn [snd fst] in *. specialize (B _ Hq). cbn in B. now apply N.eqb_eq in B.
               ++ intros [A B]. split; auto. intros [q sz] Hq. apply N.eqb_eq. eapply (B (l, ps)); [now left|exact Hq].
            -- intros ps0 Hc. rewrite Etf' in Hc. apply in_app_or in Hc as [Hc|Hc]; [eapply Hno; eauto|].
               destruct Htf as [[Hk _] _ _]. rewrite Etf, map_app in Hk. cbn [map fst] in Hk. apply NoDup_remove_2 in Hk.
               apply Hk. apply in_or_app. right. apply in_map_iff. exists (l_hash l, ps0). auto.
            -- intros h0 ps0 Hi. rewrite Etf. rewrite Etf' in Hi. apply in_app_or in Hi as [Hi|Hi]; apply in_or_app; [now left | right; now right].
      - (* nothing waits for this hash *)
        pose proof (tf_remove_none _ _ _ Er) as ->. pose proof (tf_remove_none_keys _ _ _ Er) as Hnok.
        destruct own.
        + exists [(l, [])]. cbn [p_tf p_exts p_map p_ok map concat fo_of snd fst app]. rewrite !app_nil_r.
          split; [exact Htf|]. split; [reflexivity|]. split; [apply Permutation_refl|].
          split; [intros e [<-|[]]; cbn [fst snd]; split; [reflexivity|split; [intros q sz []|apply map_insert_same]] |].
          split; [intros k Hk; apply map_insert_other; auto|]. split; [discriminate|]. split; [intros _; eexists; reflexivity|].
          split; [|split; [cbn; lia|split; [exact Hnok|auto]]].
          rewrite Hdup, Hfx5, Hfx7. cbn [negb orb andb sizes_agree forallb]. rewrite !andb_true_r. split; [intros A; split; [auto|intros e q sz [<-|[]] []] | intros [A _]; exact A].
        + exists []. cbn [map concat]. rewrite !app_nil_r. split; [exact Htf|]. split; [reflexivity|]. split; [apply Permutation_refl|].
          split; [intros e []|]. split; [reflexivity|]. split; [reflexivity|]. split; [discriminate|].
          split; [split; [intros A; split; [auto|intros e q sz []] | intros [A _]; exact A]|]. split; [cbn; lia|]. split; [exact Hnok|auto]. }
    destruct Hstep as (ens1 & Htf1 & Hex1 & Hperm1 & Hens1 & Hother1 & Hnil1 & Hown1 & Hok1 & Hlen1 & Hgone1 & Hsub1).
    set (s1 := resolve fx own l s) in *.
    destruct (IH s1 Htf1 Hnd') as (ens2 & Htf2 & Hex2 & Hperm2 & Hens2 & Hnew2 & Hold2 & Hown2 & Hok2 & Hnd2 & Hgone2 & Hsub2).
    { intros l0 Hl0. rewrite Hother1; [apply Hfresh; now right|].
      intro E. apply Hlnot. apply in_map_iff. exists l0. auto. }
    exists (ens1 ++ ens2). rewrite map_app, concat_app.
    split; [exact Htf2|]. split; [rewrite Hex2, Hex1, <- app_assoc; reflexivity|].
    split.
    { eapply Permutation_trans; [exact Hperm1|]. rewrite app_assoc.
      eapply Permutation_trans; [apply Permutation_app_tail; exact Hperm2|].
      rewrite <- !app_assoc. apply Permutation_app_head. apply Permutation_app_comm. }
    split.
    { intros e He. apply in_app_or in He as [He|He].
      - destruct (Hens1 e He) as (E & Hq & Hg). split; [left; auto|]. split; [rewrite E; exact Hq|].
        rewrite E. apply Hold2. exact Hg.
      - destruct (Hens2 e He) as (A & B & C). split; [now right|auto]. }
    split.
    { intros k r Hk. destruct (Hnew2 k r Hk) as [A|(e & He & ->)]; [|right; exists e; split; [apply in_or_app; now right|reflexivity]].
      destruct (list_eqb_spec k (l_path l)) as [->|Hne]; [|left; rewrite <- Hother1; auto].
      destruct ens1 as [|e1 ens1']; [left; rewrite <- (Hnil1 eq_refl); exact A|].
      right. exists e1. destruct (Hens1 e1 (or_introl eq_refl)) as (E & _). split; [now left|now rewrite E]. }
    split.
    { intros k r Hk. apply Hold2. destruct (list_eqb_spec k (l_path l)) as [->|Hne]; [|rewrite Hother1; auto].
      rewrite (Hfresh l (or_introl eq_refl)) in Hk. discriminate. }
    split.
    { intros Ho l0 [<-|Hl0]; [destruct (Hown1 Ho) as (ps & ->); exists ps; now left|].
      destruct (Hown2 Ho l0 Hl0) as (ps & Hps). exists ps. apply in_or_app. now right. }
    split.
    { rewrite Hok2, Hok1. split.
      - intros [[A B] C]. split; auto. intros e q sz He Hq. apply in_app_or in He as [He|He]; [|eauto].
        destruct (Hens1 e He) as (E & _). rewrite E. eauto.
      - intros [A B]. split; [split; auto|].
        + intros e q sz He Hq. destruct (Hens1 e He) as (E & _). rewrite <- E. eapply B; eauto. apply in_or_app. now left.
        + intros e q sz He Hq. eapply B; eauto. apply in_or_app. now right. }
    split.
    { rewrite map_app. apply NoDup_app_intro; auto.
      - destruct ens1 as [|e1 [|e2 r]]; cbn; [constructor | constructor; [intros []|constructor] | cbn in Hlen1; lia].
      - intros k Hk1 Hk2. apply in_map_iff in Hk1 as (e1 & <- & He1). destruct (Hens1 e1 He1) as (E1 & _).
        apply in_map_iff in Hk2 as (e2 & E2 & He2). destruct (Hens2 e2 He2) as (A & _).
        apply Hlnot. apply in_map_iff. exists (fst e2). rewrite E2, E1. auto. }
    split.
    { intros l0 ps [<-|Hl0]; [|apply Hgone2; auto]. intro Hc. apply Hsub2 in Hc. eapply Hgone1; eauto. }
    { intros h ps Hi. apply Hsub1. apply Hsub2. exact Hi. }
Qed.

(* ---- the hash map built from the extern lines of the target ---- *)
Lemma tfp_push : forall h p tf, Permutation (tfp (tf_push h p tf)) (fst p :: tfp tf).
Proof.
  intros h p tf. induction tf as [|[h' ps] tf IH]; cbn [tf_push].
  - unfold tfp. cbn. apply Permutation_refl.
  - destruct (list_eqb h h').
    + rewrite !tfp_cons, map_app. cbn [map]. rewrite <- app_assoc. cbn [app].
      apply Permutation_sym. apply Permutation_middle.
    + rewrite !tfp_cons. eapply Permutation_trans; [apply Permutation_app_head; exact IH|].
      apply Permutation_sym. apply Permutation_middle.
Qed.

Lemma tf_push_In : forall h p tf h0 ps0 q sz, In (h0, ps0) (tf_push h p tf) -> In (q, sz) ps0 ->
  (h0 = h /\ (q, sz) = p) \/ exists ps1, In (h0, ps1) tf /\ In (q, sz) ps1.
Proof.
  intros h p tf. induction tf as [|[h' ps] tf IH]; intros h0 ps0 q sz Hin Hq; cbn [tf_push] in Hin.
  - destruct Hin as [E|[]]. inversion E; subst. destruct Hq as [<-|[]]. now left.
  - destruct (list_eqb_spec h h') as [->|Hne].
    + destruct Hin as [E|Hin].
      * inversion E; subst. apply in_app_or in Hq as [Hq|[<-|[]]]; [right; exists ps; split; [now left|auto] | now left].
      * right. exists ps0. split; [now right|auto].
    + destruct Hin as [E|Hin].
      * inversion E; subst. right. exists ps0. split; [now left|auto].
      * destruct (IH _ _ _ _ Hin Hq) as [A|(ps1 & B & C)]; [now left | right; exists ps1; split; [now right|auto]].
Qed.

Lemma fold_push_TfOK : forall ext tf, TfOK tf ->
  (forall l, In l ext -> In l L /\ is_own l = false) -> NoDup (map l_path ext) ->
  (forall l, In l ext -> ~ In (l_path l) (tfp tf)) ->
  let tf' := fold_left (fun tf l => tf_push (l_hash l) (l_path l, l_size l) tf) ext tf in
  TfOK tf' /\ Permutation (tfp tf') (rev (map l_path ext) ++ tfp tf).
Proof.
  induction ext as [|x ext IH]; intros tf Htf Hext Hnd Hfresh; cbn [fold_left].
  - split; [exact Htf|]. cbn. apply Permutation_refl.
  - inversion Hnd as [|? ? Hxn Hnd']; subst.
    assert (Htf1 : TfOK (tf_push (l_hash x) (l_path x, l_size x) tf)).
    { destruct Htf as [Hwf Hex Hn]. constructor.
      - now apply tf_push_wf.
      - intros h ps q sz Hin Hq. destruct (tf_push_In _ _ _ _ _ _ _ Hin Hq) as [[-> E]|(ps1 & A & B)]; [|eauto].
        inversion E; subst. destruct (Hext x (or_introl eq_refl)) as [A B]. exists x. auto.
      - eapply Permutation_NoDup; [apply Permutation_sym; apply tfp_push|]. cbn [fst]. constructor; [apply Hfresh; now left|exact Hn]. }
    destruct (IH _ Htf1) as [H1 H2]; auto.
    { intros l Hl. apply Hext. now right. }
    { intros l Hl Hc. eapply Permutation_in in Hc; [|apply tfp_push]. cbn [fst] in Hc. destruct Hc as [E|Hc].
      - apply Hxn. apply in_map_iff. exists l. auto.
      - eapply Hfresh; eauto. now right. }
    split; [exact H1|]. eapply Permutation_trans; [exact H2|]. cbn [map rev]. rewrite <- app_assoc. cbn [app].
    apply Permutation_app_head. apply tfp_push.
Qed.

(* an older backup's pass is the same fold over its unique lines *)
Lemma resolve_false_nil : forall l s, p_tf s = [] -> resolve fx false l s = s.
Proof. intros l s E. unfold resolve. rewrite E. reflexivity. Qed.
Lemma fold_resolve_false_nil : forall ls s, p_tf s = [] -> fold_left (fun s l => resolve fx false l s) ls s = s.
Proof. induction ls as [|l ls IH]; intros s E; cbn [fold_left]; [reflexivity|]. rewrite resolve_false_nil; auto. Qed.
Lemma plan_older_eq : forall b s,
  plan_older fx b s = fold_left (fun s l => resolve fx false l s) (filter l_unique (b_manifest b))
                                {| p_tf := p_tf s; p_exts := p_exts s; p_map := []; p_ok := p_ok s |}.
Proof.
  intros b s. unfold plan_older. generalize {| p_tf := p_tf s; p_exts := p_exts s; p_map := []; p_ok := p_ok s |} as s0.
  induction (b_manifest b) as [|l ls IH]; intros s0; cbn [fold_left filter]; [reflexivity|].
  destruct (p_tf s0) eqn:Et.
  - rewrite IH. destruct (l_unique l); cbn [fold_left]; [rewrite resolve_false_nil; auto|reflexivity].
  - destruct (l_unique l); cbn [fold_left]; apply IH.
Qed.
End Shape.
