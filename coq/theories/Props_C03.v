(* C03 — publication is atomic and completed backups are immutable under crashes and faults.
   Model: the volatile namespace of one group (kernel semantics with EEXIST, ENOENT, ENOTEMPTY, rename onto an empty
   directory).  T is the run's temporary name, F its final name. *)
From Coq Require Import List Arith NArith Lia Bool.
Import ListNotations.
Require Import Atomic2.
Require Durable DurableProof Atomic.

(* kill before the rename: after ANY list of calls confined to the temporary directory - complete or partial writes,
   in any order, any number of them - every final-named entry of the group is an old one, unchanged (the new name can
   only ever hold the complete new backup) *)
Theorem C03_kill_before_rename_safe : forall (T F : name) (M D : list N), fst T = true ->
  forall s0 ops, lookup T s0 = None -> Forall (local T) ops -> Safe F M D s0 (apply s0 (Mkdir T :: ops)).
Proof. exact kill_before_rename_safe. Qed.
Check C03_kill_before_rename_safe : forall (T F : name) (M D : list N), fst T = true ->
  forall s0 ops, lookup T s0 = None -> Forall (local T) ops -> Safe F M D s0 (apply s0 (Mkdir T :: ops)).

(* failure of any call before the rename: Drop's removal of the temporary directory leaves the group EXACTLY as it was *)
Theorem C03_failure_restores : forall (T : name) s0 ops, lookup T s0 = None -> Forall (local T) ops ->
  apply s0 (Mkdir T :: ops ++ [RmTree T]) = s0.
Proof. exact failure_restores. Qed.
Check C03_failure_restores : forall (T : name) s0 ops, lookup T s0 = None -> Forall (local T) ops ->
  apply s0 (Mkdir T :: ops ++ [RmTree T]) = s0.

(* success: the group as it was plus the complete new backup, and Safe all along *)
Theorem C03_success_publishes : forall (T F : name) (M D : list N), fst T = true -> fst F = false ->
  forall s0 ws, lookup T s0 = None -> lookup F s0 = None -> content Meta ws = M -> content Data ws = D ->
  apply s0 (script T F ws) = (F, {| meta := Some M; data := Some D |}) :: s0 /\ Safe F M D s0 (apply s0 (script T F ws)).
Proof. exact success_publishes. Qed.
Check C03_success_publishes : forall (T F : name) (M D : list N), fst T = true -> fst F = false ->
  forall s0 ws, lookup T s0 = None -> lookup F s0 = None -> content Meta ws = M -> content Data ws = D ->
  apply s0 (script T F ws) = (F, {| meta := Some M; data := Some D |}) :: s0 /\ Safe F M D s0 (apply s0 (script T F ws)).

(* two runs within the same second: a complete backup already bears the final name; the rename fails (ENOTEMPTY) instead
   of replacing it and the clean-up restores the group *)
Theorem C03_collision_restores : forall (T F : name), fst T = true -> fst F = false ->
  forall s0 ws x, lookup T s0 = None -> lookup F s0 = Some x -> is_empty x = false ->
  apply s0 ([Mkdir T; Create T Meta; Create T Data] ++ map (wr T) ws ++ [Sync; Sync; Sync; Rename T F; RmTree T]) = s0.
Proof. exact collision_restores. Qed.
Check C03_collision_restores : forall (T F : name), fst T = true -> fst F = false ->
  forall s0 ws x, lookup T s0 = None -> lookup F s0 = Some x -> is_empty x = false ->
  apply s0 ([Mkdir T; Create T Meta; Create T Data] ++ map (wr T) ws ++ [Sync; Sync; Sync; Rename T F; RmTree T]) = s0.

(* recovery: from any state a killed or failed run can leave, the next run's removal of temporaries followed by its
   script publishes normally *)
Theorem C03_next_run_recovers : forall T' F' s ws, fst T' = true -> fst F' = false -> lookup F' s = None ->
  apply (drop_temps s) (script T' F' ws)
  = (F', {| meta := Some (content Meta ws); data := Some (content Data ws) |}) :: drop_temps s.
Proof. exact next_run_recovers. Qed.
Check C03_next_run_recovers : forall T' F' s ws, fst T' = true -> fst F' = false -> lookup F' s = None ->
  apply (drop_temps s) (script T' F' ws)
  = (F', {| meta := Some (content Meta ws); data := Some (content Data ws) |}) :: drop_temps s.

(* immutability on the persistence model of C12: whatever accepted operations follow, a published object keeps its content *)
Theorem C03_published_never_changes : forall ops s s', DurableProof.INV s -> Durable.run s ops = Some s' ->
  forall id d, Durable.oget id (Durable.objs s) = Some d -> Durable.pub d = true ->
  exists d', Durable.oget id (Durable.objs s') = Some d' /\ Atomic.same_content d d'.
Proof. exact Atomic.published_never_changes. Qed.
Check C03_published_never_changes : forall ops s s', DurableProof.INV s -> Durable.run s ops = Some s' ->
  forall id d, Durable.oget id (Durable.objs s) = Some d -> Durable.pub d = true ->
  exists d', Durable.oget id (Durable.objs s') = Some d' /\ Atomic.same_content d d'.

Print Assumptions C03_kill_before_rename_safe.
Print Assumptions C03_failure_restores.
Print Assumptions C03_collision_restores.
Print Assumptions C03_next_run_recovers.
