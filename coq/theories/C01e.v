(* PROTOTYPE (round 0): C01 stages 2-3 - a backup run over walk-ordered items produces exactly the target shape
   exec_success wants, its archive is ArchOK, and the content-level group invariant is preserved; hence every
   backup of a group built by runs restores to its snapshot *)
From Coq Require Import List Arith NArith ZArith Lia Bool Permutation.
Import ListNotations.
Require Import Restore2 Restore2Exec Restore2Plan C01a C01b C01c C01d.
Open Scope N_scope.

Definition fp := (N * N * Z)%type.
Definition fp_eqb (a b : fp) : bool :=
  let '(d1, i1, m1) := a in let '(d2, i2, m2) := b in (d1 =? d2) && (i1 =? i2) && (m1 =? m2)%Z.
Record dline := { d_line : mline; d_fp : fp }.

Inductive witem :=
| WDir (p : path) (m : meta)
| WFile (p : path) (m : meta) (f : fp) (data : bytes)
| WSym (p : path) (m : meta) (t : bytes).
Definition sn_of_item (w : witem) : path * snode :=
  match w with WDir p m => (p, SDir m) | WFile p m _ d => (p, SFile m d) | WSym p m t => (p, SSym m t) end.
Definition sn_of (ws : list witem) : snapshot := map sn_of_item ws.

Definition hmem (h : hash) (l : list hash) := existsb (list_eqb h) l.
Lemma hmem_In : forall h l, hmem h l = true <-> In h l.
Proof.
  intros h l. unfold hmem. rewrite existsb_exists. split.
  - intros (x & Hx & E). destruct (list_eqb_spec h x); [subst; auto|discriminate].
  - intros Hin. exists h. split; auto. destruct (list_eqb_spec h h); congruence.
Qed.

Fixpoint last_lookup (p : path) (ls : list dline) : option dline :=
  match ls with
  | [] => None
  | l :: r => match last_lookup p r with Some x => Some x | None => if list_eqb p (l_path (d_line l)) then Some l else None end
  end.

(* BackupInstance::add_file for a file that does not change while it is read *)
Definition add_file (known : list hash) (last : list dline) (p : path) (m : meta) (f : fp) (data : bytes)
  : entry * dline * list hash :=
  let ext h := (EReg p m 0 [], {| d_line := {| l_unique := false; l_hash := h; l_size := fsize data; l_path := p |}; d_fp := f |}, known) in
  if fsize data =? 0 then ext (H [])
  else
    let by_hash := if hmem (H data) known then ext (H data)
                   else (EReg p m (fsize data) data,
                         {| d_line := {| l_unique := true; l_hash := H data; l_size := fsize data; l_path := p |}; d_fp := f |}, H data :: known) in
    match last_lookup p last with
    | Some dl => if fp_eqb f (d_fp dl) && (fsize data =? l_size (d_line dl))   (* size check: repair of F6, commit d28d72c *)
                 then ext (l_hash (d_line dl)) else by_hash
    | None => by_hash
    end.

Fixpoint run_items (known : list hash) (last : list dline) (ws : list witem) : list entry * list dline :=
  match ws with
  | [] => ([], [])
  | WDir p m :: r => let '(es, ls) := run_items known last r in (EDir p m :: es, ls)
  | WSym p m t :: r => let '(es, ls) := run_items known last r in (ESym p m t :: es, ls)
  | WFile p m f d :: r => let '(e, l, known') := add_file known last p m f d in
                          let '(es, ls) := run_items known' last r in (e :: es, l :: ls)
  end.

Definition uniques (ls : list mline) : list hash := map l_hash (filter l_unique ls).

(* a group as the runs built it: oldest first, each backup with the fingerprints of its lines *)
Definition gstate := list (backup * list dline).
Definition known_of (g : gstate) : list hash := concat (map (fun x => uniques (b_manifest (fst x))) g).
Definition last_of (g : gstate) : list dline := match rev g with x :: _ => snd x | [] => [] end.
Definition run (g : gstate) (name : N) (ws : list witem) : backup * list dline :=
  let '(es, ls) := run_items (known_of g) (last_of g) ws in
  ({| b_name := name; b_manifest := map d_line ls; b_archive := es |}, ls).

(* the semantic assumption of C01: when the fingerprint shortcut fires, the recorded hash is the hash of what is there now *)
Definition FpTruth (last : list dline) (ws : list witem) : Prop :=
  forall p m f d dl, In (WFile p m f d) ws -> fsize d <> 0 -> last_lookup p last = Some dl -> fp_eqb f (d_fp dl) = true ->
                     l_hash (d_line dl) = H d.

(* which files got their bytes stored in this backup *)
Definition uniq_of (ls : list dline) (p : path) : bool :=
  existsb (fun l => l_unique (d_line l) && list_eqb p (l_path (d_line l))) ls.

Lemma flat_map_ext_in' : forall (A B : Type) (f g : A -> list B) l, (forall a, In a l -> f a = g a) -> flat_map f l = flat_map g l.
Proof.
  intros A B f g l. induction l as [|x l IH]; intros Hext; [reflexivity|]. cbn [flat_map].
  rewrite (Hext x (or_introl eq_refl)), IH; [reflexivity|]. intros a Ha. apply Hext. now right.
Qed.

Lemma run_items_shape : forall ws known last, FpTruth last ws -> NoDup (map fst (sn_of ws)) ->
  let '(es, ls) := run_items known last ws in
  (forall l, In l ls -> exists m f d, In (WFile (l_path (d_line l)) m f d) ws /\ d_fp l = f /\ l_hash (d_line l) = H d /\ l_size (d_line l) = fsize d /\
                                    (l_unique (d_line l) = true -> fsize d <> 0)) /\
  map d_line ls = Lm (sn_of ws) (uniq_of ls) /\ es = map (entry_of (uniq_of ls)) (sn_of ws).
Proof.
  induction ws as [|w ws IH]; intros known last Hft Hnd; cbn [run_items].
  - split; [intros l []|split; reflexivity].
  - cbn [sn_of map] in Hnd. inversion Hnd as [|? ? Hn Hnd']; subst.
    assert (Hft' : FpTruth last ws) by (intros p m f d dl Hin Hs Hl Hf; apply (Hft p m f d dl); auto; now right).
    destruct w as [p m|p m f d|p m t].
    + specialize (IH known last Hft' Hnd'). destruct (run_items known last ws) as [es ls].
      destruct IH as (A & B & C). split; [|split].
      * intros l Hl. destruct (A l Hl) as (m0 & f & d & Hin & R). exists m0, f, d. split; [now right|exact R].
      * rewrite B. reflexivity.
      * cbn [sn_of map sn_of_item entry_of]. now rewrite C.
    + (* a file *)
      assert (Hadd : exists (u : bool) (h : hash), add_file known last p m f d =
                (if u then EReg p m (fsize d) d else EReg p m 0 [],
                 {| d_line := {| l_unique := u; l_hash := h; l_size := fsize d; l_path := p |}; d_fp := f |},
                 if u then H d :: known else known) /\ h = H d /\ (u = true -> fsize d <> 0)).
      { unfold add_file. destruct (N.eqb_spec (fsize d) 0) as [Hz|Hnz].
        - exists false, (H []). split; [reflexivity|]. split; [|discriminate]. now rewrite (fsize_zero d Hz).
        - assert (Hby : exists (u : bool) (h : hash), (if hmem (H d) known
                    then (EReg p m 0 [], {| d_line := {| l_unique := false; l_hash := H d; l_size := fsize d; l_path := p |}; d_fp := f |}, known)
                    else (EReg p m (fsize d) d, {| d_line := {| l_unique := true; l_hash := H d; l_size := fsize d; l_path := p |}; d_fp := f |}, H d :: known)) =
                   (if u then EReg p m (fsize d) d else EReg p m 0 [],
                    {| d_line := {| l_unique := u; l_hash := h; l_size := fsize d; l_path := p |}; d_fp := f |}, if u then H d :: known else known) /\ h = H d /\ (u = true -> fsize d <> 0)).
          { destruct (hmem (H d) known); [exists false, (H d) | exists true, (H d)]; repeat split; auto; discriminate. }
          destruct (last_lookup p last) as [dl|] eqn:El; [|exact Hby].
          destruct (fp_eqb f (d_fp dl) && (fsize d =? l_size (d_line dl))) eqn:Ef0; [|exact Hby]. apply andb_true_iff in Ef0 as [Ef _].
          exists false, (l_hash (d_line dl)). split; [reflexivity|]. split; [|discriminate].
          eapply Hft; eauto. now left. }
      destruct Hadd as (u & h & -> & -> & Hu).
      specialize (IH (if u then H d :: known else known) last Hft' Hnd').
      destruct (run_items (if u then H d :: known else known) last ws) as [es ls]. destruct IH as (A & B & C).
      set (nl := {| d_line := {| l_unique := u; l_hash := H d; l_size := fsize d; l_path := p |}; d_fp := f |}).
      (* the flag function on the extended list agrees with the old one on the other paths *)
      assert (Hother : forall q, q <> p -> uniq_of (nl :: ls) q = uniq_of ls q).
      { intros q Hq. unfold uniq_of. cbn [existsb nl d_line l_path l_unique]. destruct (list_eqb_spec q p); [congruence|]. now rewrite andb_false_r. }
      assert (Hself : uniq_of (nl :: ls) p = u).
      { unfold uniq_of. cbn [existsb nl d_line l_path l_unique]. destruct (list_eqb_spec p p); [|congruence]. rewrite andb_true_r.
        destruct u; [reflexivity|]. cbn [orb]. apply not_true_is_false. intro Hc. apply existsb_exists in Hc as (l & Hl & Hc).
        apply andb_true_iff in Hc as [_ Hc]. destruct (list_eqb_spec p (l_path (d_line l))) as [E|]; [|discriminate].
        destruct (A l Hl) as (m0 & f0 & d0 & Hin & _). apply Hn. rewrite E. apply in_map_iff. exists (sn_of_item (WFile (l_path (d_line l)) m0 f0 d0)). split; [reflexivity|]. now apply in_map. }
      assert (Hnotin : forall q n, In (q, n) (sn_of ws) -> q <> p).
      { intros q n Hq E. subst q. apply Hn. apply in_map_iff. exists (p, n). auto. }
      split; [|split].
      * intros l [<-|Hl].
        -- exists m, f, d. cbn [nl d_line d_fp l_path l_hash l_size l_unique]. split; [now left|auto].
        -- destruct (A l Hl) as (m0 & f0 & d0 & Hin & R). exists m0, f0, d0. split; [now right|exact R].
      * cbn [map]. cbn [sn_of map sn_of_item]. unfold Lm. cbn [flat_map line_of app]. unfold mk at 1. rewrite Hself. f_equal.
        rewrite B. unfold Lm. apply flat_map_ext_in'. intros [q n] Hq. destruct n; try reflexivity. cbn [line_of]. unfold mk.
        rewrite Hother; [reflexivity|]. eapply Hnotin; eauto.
      * cbn [sn_of map sn_of_item entry_of]. rewrite Hself. f_equal. rewrite C. apply map_ext_in. intros [q n] Hq.
        destruct n; try reflexivity. cbn [entry_of]. rewrite Hother; [reflexivity|]. eapply Hnotin; eauto.
    + specialize (IH known last Hft' Hnd'). destruct (run_items known last ws) as [es ls].
      destruct IH as (A & B & C). split; [|split].
      * intros l Hl. destruct (A l Hl) as (m0 & f & d & Hin & R). exists m0, f, d. split; [now right|exact R].
      * rewrite B. reflexivity.
      * cbn [sn_of map sn_of_item entry_of]. now rewrite C.
Qed.

(* ---------------- the archive of a produced backup ---------------- *)
Lemma reg_paths_entry_of : forall uq sn, NoDup (map fst sn) -> NoDup (reg_paths (map (entry_of uq) sn)).
Proof.
  intros uq sn. induction sn as [|[p n] sn IH]; intros Hnd; [constructor|]. cbn [map fst] in Hnd. inversion Hnd as [|? ? Hn Hnd']; subst.
  assert (Hsub : forall q, In q (reg_paths (map (entry_of uq) sn)) -> In q (map fst sn)).
  { clear. induction sn as [|[q0 n0] sn IH]; intros q Hq; [destruct Hq|]. cbn [map reg_paths flat_map] in Hq.
    apply in_app_or in Hq as [Hq|Hq]; [|right; apply IH; exact Hq].
    destruct n0; cbn [entry_of] in Hq; try (destruct Hq; fail). destruct (uq q0); destruct Hq as [<-|[]]; now left. }
  unfold reg_paths. cbn [map flat_map]. fold (reg_paths (map (entry_of uq) sn)).
  destruct n as [m|m d|m t]; cbn [entry_of app]; auto.
  destruct (uq p); cbn [app]; (constructor; [intro Hc; apply Hn; apply Hsub; exact Hc | auto]).
Qed.

Lemma produced_ArchOK : forall uq sn name, NoDup (map fst sn) ->
  (forall p m d, In (p, SFile m d) sn -> uq p = true -> fsize d <> 0) ->
  ArchOK {| b_name := name; b_manifest := Lm sn uq; b_archive := map (entry_of uq) sn |}.
Proof.
  intros uq sn name Hnd Hun. constructor; cbn [b_manifest b_archive].
  - intros l Hl Hu. apply Lm_In in Hl as (p & m & d & Hin & ->). cbn [mk l_unique l_path l_size l_hash] in *.
    exists m, d. split; [|auto]. apply in_map_iff. exists (p, SFile m d). split; [cbn [entry_of]; now rewrite Hu|exact Hin].
  - now apply reg_paths_entry_of.
  - apply NoDup_map_filter. now apply Lm_nodup.
Qed.

(* ---------------- histories of runs ---------------- *)
Record WFws (ws : list witem) : Prop := {
  wf_nodup : NoDup (map fst (sn_of ws));
  wf_nonroot : forall p n, In (p, n) (sn_of ws) -> p <> [];
  wf_parents : forall pre p n suf, sn_of ws = pre ++ (p, n) :: suf -> parent p = [] \/ exists m, In (parent p, SDir m) pre
}.

Definition hstate := list (backup * list dline * list witem).       (* oldest first; what each run saw is kept as a ghost *)
Definition gs_of (h : hstate) : gstate := map fst h.
Definition HasUnique (bs : list backup) (x : hash) : Prop := exists b l, In b bs /\ In l (b_manifest b) /\ l_unique l = true /\ l_hash l = x.

Record HOK (h : hstate) : Prop := {
  hk_names : NoDup (map (fun x => b_name (fst (fst x))) h);
  hk_each : forall pre b dls ws post, h = pre ++ (b, dls, ws) :: post ->
     WFws ws /\ b_manifest b = map d_line dls /\
     (exists uq, b_manifest b = Lm (sn_of ws) uq /\ b_archive b = map (entry_of uq) (sn_of ws) /\
                 (forall p m d, In (p, SFile m d) (sn_of ws) -> uq p = true -> fsize d <> 0)) /\
     (forall l, In l (b_manifest b) -> l_unique l = false -> l_size l <> 0 ->
                HasUnique (map (fun x => fst (fst x)) pre ++ [b]) (l_hash l))
}.

Lemma known_of_In : forall g x, In x (known_of g) <-> HasUnique (map fst g) x.
Proof.
  intros g x. unfold known_of, HasUnique. rewrite in_concat. split.
  - intros (l & Hl & Hx). apply in_map_iff in Hl as (y & <- & Hy). unfold uniques in Hx. apply in_map_iff in Hx as (ln & <- & Hln).
    apply filter_In in Hln as [A B]. exists (fst y), ln. split; [apply in_map; auto|auto].
  - intros (b & l & Hb & Hl & Hu & <-). apply in_map_iff in Hb as (y & <- & Hy). exists (uniques (b_manifest (fst y))). split; [apply in_map_iff; eauto|].
    unfold uniques. apply in_map. apply filter_In. auto.
Qed.

(* the three ways a line can come out of add_file *)
Lemma add_file_cases : forall known last p m f d e l k, add_file known last p m f d = (e, l, k) ->
  (k = known \/ (k = H d :: known /\ l_unique (d_line l) = true /\ l_hash (d_line l) = H d)) /\
  l_path (d_line l) = p /\ d_fp l = f /\
  (l_unique (d_line l) = false -> l_size (d_line l) <> 0 ->
     In (l_hash (d_line l)) known \/
     exists dl, last_lookup p last = Some dl /\ l_hash (d_line dl) = l_hash (d_line l) /\ fp_eqb f (d_fp dl) = true /\
                l_size (d_line dl) = l_size (d_line l)).
Proof.
  intros known last p m f d e l k E. unfold add_file in E.
  destruct (N.eqb_spec (fsize d) 0) as [Hz|Hnz].
  - inversion E; subst. cbn. repeat split; auto. intros _ Hc. congruence.
  - assert (Hby : forall e l k, (if hmem (H d) known
                    then (EReg p m 0 [], {| d_line := {| l_unique := false; l_hash := H d; l_size := fsize d; l_path := p |}; d_fp := f |}, known)
                    else (EReg p m (fsize d) d, {| d_line := {| l_unique := true; l_hash := H d; l_size := fsize d; l_path := p |}; d_fp := f |}, H d :: known)) = (e, l, k) ->
            (k = known \/ (k = H d :: known /\ l_unique (d_line l) = true /\ l_hash (d_line l) = H d)) /\
            l_path (d_line l) = p /\ d_fp l = f /\
            (l_unique (d_line l) = false -> l_size (d_line l) <> 0 -> In (l_hash (d_line l)) known \/
               exists dl, last_lookup p last = Some dl /\ l_hash (d_line dl) = l_hash (d_line l) /\ fp_eqb f (d_fp dl) = true /\
                          l_size (d_line dl) = l_size (d_line l))).
    { intros e0 l0 k0 E0. destruct (hmem (H d) known) eqn:Em; inversion E0; subst; cbn.
      - repeat split; auto. intros _ _. left. now apply hmem_In.
      - split; [right; auto|]. repeat split; auto. discriminate. }
    destruct (last_lookup p last) as [dl|] eqn:El; [|apply (Hby e l k); exact E].
    destruct (fp_eqb f (d_fp dl) && (fsize d =? l_size (d_line dl))) eqn:Ef0; [|apply (Hby e l k); exact E]. apply andb_true_iff in Ef0 as [Ef Esz].
    apply N.eqb_eq in Esz. inversion E; subst. cbn. repeat split; auto. intros _ _. right. exists dl. auto.
Qed.

Lemma run_items_known : forall ws known last es ls, run_items known last ws = (es, ls) ->
  forall l, In l ls -> l_unique (d_line l) = false -> l_size (d_line l) <> 0 ->
    In (l_hash (d_line l)) known \/ (exists l', In l' ls /\ l_unique (d_line l') = true /\ l_hash (d_line l') = l_hash (d_line l)) \/
    (exists dl, last_lookup (l_path (d_line l)) last = Some dl /\ l_hash (d_line dl) = l_hash (d_line l) /\ fp_eqb (d_fp l) (d_fp dl) = true /\
                l_size (d_line dl) = l_size (d_line l)).
Proof.
  induction ws as [|w ws IH]; intros known last es ls E; cbn [run_items] in E.
  - inversion E; subst. intros l [].
  - destruct w as [p m|p m f d|p m t].
    + destruct (run_items known last ws) as [es0 ls0] eqn:Er. inversion E; subst. eapply IH; eauto.
    + destruct (add_file known last p m f d) as [[e l] k] eqn:Ea. destruct (run_items k last ws) as [es0 ls0] eqn:Er. inversion E; subst.
      destruct (add_file_cases _ _ _ _ _ _ _ _ _ Ea) as (Hk & Hp & Hf & Hext).
      intros l0 [<-|Hl0] Hu Hs.
      * destruct (Hext Hu Hs) as [A|(dl & A & B & C & D)]; [now left|]. right. right. exists dl. rewrite Hp, Hf. auto.
      * destruct (IH _ _ _ _ Er l0 Hl0 Hu Hs) as [A|[(l' & A & B & C)|D]].
        -- destruct Hk as [->|(-> & Hku & Hkh)]; [now left|]. destruct A as [A|A]; [|now left].
           right. left. exists l. split; [now left|]. split; [exact Hku|]. congruence.
        -- right. left. exists l'. split; [now right|auto].
        -- right. right. exact D.
    + destruct (run_items known last ws) as [es0 ls0] eqn:Er. inversion E; subst. eapply IH; eauto.
Qed.

Definition bs_of (h : hstate) : list backup := map (fun x => fst (fst x)) h.

Lemma app_snoc_split : forall (A : Type) (pre h post : list A) n x, h ++ [n] = pre ++ x :: post ->
  (exists post', post = post' ++ [n] /\ h = pre ++ x :: post') \/ (post = [] /\ x = n /\ pre = h).
Proof.
  intros A pre. induction pre as [|a pre IH]; intros h post n x E.
  - destruct h as [|b h']; cbn [app] in E.
    + inversion E; subst. right. auto.
    + inversion E; subst. left. exists h'. auto.
  - destruct h as [|b h']; cbn [app] in E.
    + inversion E as [[E1 E2]]. destruct pre; discriminate.
    + inversion E as [[E1 E2]]. subst b. destruct (IH h' post n x E2) as [(post' & -> & ->)|(-> & -> & ->)].
      * left. exists post'. auto.
      * right. auto.
Qed.

Lemma HasUnique_mono : forall a b x, HasUnique a x -> (forall y, In y a -> In y b) -> HasUnique b x.
Proof. intros a b x (bk & l & H1 & H2) Hsub. exists bk, l. destruct H2 as (A & B & C). auto. Qed.

(* one more run keeps the history well-formed (C02 at the level of contents, plus the shape facts) *)
Theorem run_HOK : forall h name ws, HOK h -> WFws ws -> FpTruth (last_of (gs_of h)) ws ->
  ~ In name (map (fun x => b_name (fst (fst x))) h) ->
  HOK (h ++ [(fst (run (gs_of h) name ws), snd (run (gs_of h) name ws), ws)]).
Proof.
  intros h name ws Hh Hwf Hft Hname. unfold run.
  pose proof (run_items_shape ws (known_of (gs_of h)) (last_of (gs_of h)) Hft (wf_nodup _ Hwf)) as Hshape.
  pose proof (run_items_known ws (known_of (gs_of h)) (last_of (gs_of h))) as Hknown.
  destruct (run_items (known_of (gs_of h)) (last_of (gs_of h)) ws) as [es ls] eqn:Er. cbn [fst snd].
  destruct Hshape as (Hlines & Hman & Harch). specialize (Hknown es ls eq_refl).
  set (bn := {| b_name := name; b_manifest := map d_line ls; b_archive := es |}).
  constructor.
  - rewrite map_app. cbn [map fst b_name bn]. apply NoDup_app_intro; [apply (hk_names _ Hh) | constructor; [intros []|constructor] |].
    intros x Hx [<-|[]]. contradiction.
  - intros pre b dls ws0 post E. apply (app_snoc_split _ pre h post) in E as [(post' & -> & ->)|(-> & E & ->)].
    + apply (hk_each _ Hh pre b dls ws0 post' eq_refl).
    + inversion E; subst b dls ws0. clear E. split; [exact Hwf|]. split; [reflexivity|]. split.
      * exists (uniq_of ls). cbn [b_manifest b_archive bn]. split; [exact Hman|]. split; [exact Harch|].
        intros p m d Hin Hu. (* a stored file is non-empty *)
        assert (Hl : In (mk (uniq_of ls) p d) (map d_line ls)) by (rewrite Hman; apply Lm_In; eauto).
        apply in_map_iff in Hl as (dl & Edl & Hdl). destruct (Hlines dl Hdl) as (m0 & f0 & d0 & Hin0 & Hfp0 & Hh0 & Hs0 & Hne0).
        rewrite Edl in *. cbn [mk l_unique l_hash l_size l_path] in *. apply H_inj in Hh0. subst d0. apply Hne0. exact Hu.
      * intros l Hl Hu Hs. cbn [b_manifest bn] in Hl. apply in_map_iff in Hl as (dl & <- & Hdl).
        destruct (Hknown dl Hdl Hu Hs) as [A|[(l' & A & B & C)|(dl0 & A & B & C & Dsz)]].
        -- apply known_of_In in A. eapply HasUnique_mono; [exact A|]. intros y Hy. apply in_or_app. left.
           unfold gs_of in Hy. rewrite map_map in Hy. exact Hy.
        -- exists bn, (d_line l'). split; [apply in_or_app; right; now left|]. split; [cbn [b_manifest bn]; apply in_map; auto|auto].
        -- (* fingerprint hit: the shortcut also demands equal sizes (repair of F6), so the previous record was non-empty and its hash
              is already stored in the group *)
           assert (Hnz : l_size (d_line dl0) <> 0) by (rewrite Dsz; exact Hs).
           unfold last_of, gs_of in A. rewrite <- map_rev in A. destruct (rev h) as [|[[bl dlsl] wsl] rh] eqn:Erh; [discriminate|].
           cbn [map fst snd] in A. assert (Eh : h = rev rh ++ [(bl, dlsl, wsl)]) by (rewrite <- (rev_involutive h), Erh; reflexivity).
           destruct (hk_each _ Hh (rev rh) bl dlsl wsl [] Eh) as (_ & Eman & _ & Hkn).
           assert (Hdl0 : In dl0 dlsl).
           { clear - A. induction dlsl as [|x r IHr]; [discriminate|]. cbn [last_lookup] in A. destruct (last_lookup (l_path (d_line dl)) r) eqn:E2.
             - right. apply IHr. congruence.
             - destruct (list_eqb (l_path (d_line dl)) (l_path (d_line x))); [inversion A; now left|discriminate]. }
           assert (Hml : In (d_line dl0) (b_manifest bl)) by (rewrite Eman; apply in_map; auto).
           rewrite <- B. destruct (l_unique (d_line dl0)) eqn:Eu.
           ++ exists bl, (d_line dl0). split; [|auto]. apply in_or_app. left. rewrite Eh. unfold bs_of. rewrite map_app. apply in_or_app. right. now left.
           ++ eapply HasUnique_mono; [apply (Hkn _ Hml Eu Hnz)|]. intros y Hy. apply in_or_app. left. rewrite Eh. rewrite map_app. cbn [map fst]. exact Hy.
Qed.

Lemma split_at_found : forall name post b older, b_name b = name ->
  (forall x, In x post -> b_name x <> name) -> split_at name (post ++ b :: older) = Some (b, older).
Proof.
  intros name post. induction post as [|x post IH]; intros b older Hb Hpost; cbn [app split_at].
  - rewrite Hb, N.eqb_refl. reflexivity.
  - destruct (N.eqb_spec (b_name x) name) as [E|_]; [exfalso; eapply Hpost; eauto; now left|]. apply IH; auto. intros y Hy. apply Hpost. now right.
Qed.

(* C01 at Layer A: every backup of a group built by runs restores to exactly what its run saw,
   however many runs followed it *)
Theorem history_restore : forall fx h pre b dls ws post,
  fx5 fx = true -> fx7 fx = true -> HOK h -> h = pre ++ (b, dls, ws) :: post ->
  exists t, exec fx (bs_of h) (b_name b) = Some (t, true) /\
    (forall p m, In (p, SDir m) (sn_of ws) -> t_get p t = Some (RDir (Some m))) /\
    (forall p m d, In (p, SFile m d) (sn_of ws) -> t_get p t = Some (RFile d (Some m))) /\
    (forall p m tg, In (p, SSym m tg) (sn_of ws) -> t_get p t = Some (RSym tg m)) /\
    (forall p n, t_get p t = Some n -> exists x, In (p, x) (sn_of ws)).
Proof.
  intros fx h pre b dls ws post H5 H7 Hh Eh.
  destruct (hk_each _ Hh pre b dls ws post Eh) as (Hwf & _ & (uq & Hman & Harch & Hun) & Hkn).
  assert (Eb : b = bT (sn_of ws) uq (b_name b)).
  { destruct b as [bn bm ba]. cbn [b_manifest b_archive b_name] in *. unfold bT. now rewrite Hman, Harch. }
  set (older := rev (bs_of pre)).
  assert (Holder : Forall ArchOK older).
  { apply Forall_forall. intros b' Hb'. unfold older in Hb'. apply in_rev in Hb'. unfold bs_of in Hb'. apply in_map_iff in Hb' as ([[b0 dls0] ws0] & <- & Hin).
    cbn [fst]. apply in_split in Hin as (pre0 & post0 & Epre). 
    assert (Eh0 : h = pre0 ++ (b0, dls0, ws0) :: (post0 ++ (b, dls, ws) :: post)) by (rewrite Eh, Epre, <- app_assoc; reflexivity).
    destruct (hk_each _ Hh _ _ _ _ _ Eh0) as (Hwf0 & _ & (uq0 & Hman0 & Harch0 & Hun0) & _).
    destruct b0 as [bn bm ba]. cbn [b_manifest b_archive] in *. subst bm ba. apply produced_ArchOK; [apply (wf_nodup _ Hwf0)|exact Hun0]. }
  assert (Hres : forall q m d, In (q, SFile m d) (sn_of ws) -> own uq q d = false ->
            (exists p m', In (p, SFile m' d) (sn_of ws) /\ own uq p d = true) \/
            (exists b' l, In b' older /\ In l (b_manifest b') /\ l_unique l = true /\ l_hash l = H d)).
  { intros q m d Hq Ho. unfold own in Ho. apply orb_false_iff in Ho as [Hu Hz]. apply N.eqb_neq in Hz.
    assert (Hl : In (mk uq q d) (b_manifest b)) by (rewrite Hman; apply Lm_In; eauto).
    destruct (Hkn _ Hl) as (b' & l' & Hb' & Hl' & Hu' & Hh'); [exact Hu|exact Hz|]. cbn [mk l_hash] in Hh'.
    apply in_app_or in Hb' as [Hb'|[<-|[]]].
    - right. exists b', l'. split; [unfold older; apply -> in_rev; exact Hb'|auto].
    - left. rewrite Hman in Hl'. apply Lm_In in Hl' as (p & m' & d' & Hin & ->). cbn [mk l_unique l_hash] in *. apply H_inj in Hh'. subst d'.
      exists p, m'. split; [exact Hin|]. unfold own. now rewrite Hu'. }
  assert (Hsplit : split_at (b_name b) (rev (bs_of h)) = Some (bT (sn_of ws) uq (b_name b), older)).
  { rewrite <- Eb. rewrite Eh. unfold bs_of. rewrite map_app. cbn [map fst]. rewrite rev_app_distr. cbn [rev]. rewrite <- app_assoc. cbn [app].
    apply split_at_found; [reflexivity|]. intros x Hx. apply in_rev in Hx. apply in_map_iff in Hx as ([[bx dx] wx] & <- & Hin). cbn [fst].
    pose proof (hk_names _ Hh) as Hnd. rewrite Eh, map_app in Hnd. cbn [map fst] in Hnd. apply NoDup_remove_2 in Hnd.
    intro E. apply Hnd. apply in_or_app. right. rewrite <- E. apply in_map_iff. exists (bx, dx, wx). auto. }
  destruct (exec_success (sn_of ws) uq (wf_nodup _ Hwf) fx H5 H7 (b_name b) (wf_nonroot _ Hwf) (wf_parents _ Hwf) older Holder Hres (bs_of h) Hsplit)
    as (t & He & A & B & C & D).
  exists t. repeat split; auto.
Qed.
Print Assumptions history_restore.

Lemma HOK_nil : HOK [].
Proof. constructor; [constructor|]. intros pre b dls ws post E. destruct pre; discriminate. Qed.

(* non-vacuity: two runs over a small tree (directory, a file, a duplicate of it, an empty file, a symlink);
   the second run sees the files unchanged; both backups restore, the first one also after the second exists *)
Definition m1 := {| m_mode := 420; m_uid := 0; m_gid := 0; m_mtime := 5%Z |}.
Definition ws1 := [WDir [1] m1; WFile [1;2] m1 (1,2,3%Z) [97;98]; WFile [1;3] m1 (1,3,3%Z) [97;98]; WFile [1;4] m1 (1,4,3%Z) []; WSym [1;5] m1 [120]].
Definition r1 := run [] 10 ws1.
Definition r2 := run [r1] 11 ws1.
Example two_runs_restore :
  option_map snd (exec repaired [fst r1; fst r2] 10) = Some true /\ option_map snd (exec repaired [fst r1; fst r2] 11) = Some true /\
  map l_unique (b_manifest (fst r1)) = [true; false; false] /\ map l_unique (b_manifest (fst r2)) = [false; false; false].
Proof. vm_compute. auto. Qed.
