(* Wire glue for C18: run the chunked-digest model and the MD5 wrapper model on a fragmentation. *)
From Coq Require Import List NArith Bool.
Import ListNotations.
Require Import Wire Chunk Md5.
Local Open Scope N_scope.

(* symbolic digest: the digested bytes followed by a separator outside the byte range, so the
   harness can recompute every digest of the structure with an independent implementation *)
Definition Hsep (x : list N) : list N := x ++ [256].

(* (bs fragments) -> (0 structure) where structure = res after the final consume_block *)
Definition run_c18_chunked (v : val) : val :=
  match v with
  | VL [VN bs; ws] =>
    match as_bytess ws with
    | Some ws =>
      match feed Hsep (N.to_nat bs) init ws with
      | Some s => VL [VN 0; of_bytes (res (consume_block Hsep s))]
      | None => out_of_fuel
      end
    | None => bad_input
    end
  | _ => bad_input
  end.

(* (fragments) -> (0 bytes-digested) *)
Definition run_c18_md5 (v : val) : val :=
  match v with
  | VL [ws] =>
    match as_bytess ws with
    | Some ws => VL [VN 0; of_bytes (md5_feed ws)]
    | None => bad_input
    end
  | _ => bad_input
  end.
