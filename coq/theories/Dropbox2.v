(* PROTOTYPE (round 0): providers/dropbox.rs::upload_file run against an emulated upload-session server whose
   content_hash is the provider's checksum function of what the session received, and which rejects a cursor offset
   that is not the number of bytes received so far *)
From Coq Require Import List Arith NArith Lia Bool.
Import ListNotations.
Require Import Providers2.

Section D.
Variable reply : nat -> rep.
Variable Hsrv : bytes -> bytes.
Variable beqb : bytes -> bytes -> bool.
Hypothesis beqb_spec : forall a b, reflect (a = b) (beqb a b).

Record dsrv := { dsession : bytes; dtemp : option bytes; dfinal : option bytes }.

Definition d_delete (s : dsrv) (k : nat) : dsrv :=
  if is_ok (reply k) then {| dsession := dsession s; dtemp := None; dfinal := dfinal s |} else s.

Fixpoint d_events (evs : list cev) (k : nat) (s : dsrv) : dsrv * bool :=
  match evs with
  | [] => (s, false)
  | CStream off body :: r =>                                            (* upload_session/append_v2 *)
      if is_ok (reply k) && (off =? length (dsession s))
      then d_events r (S k) {| dsession := dsession s ++ body; dtemp := dtemp s; dfinal := dfinal s |}
      else (s, false)
  | CEof size sum :: _ =>                                               (* upload_session/finish, commit to the temp path *)
      if is_ok (reply k) && (size =? length (dsession s)) then
        let s1 := {| dsession := []; dtemp := Some (dsession s); dfinal := dfinal s |} in
        if beqb (Hsrv (dsession s)) sum then
          match dfinal s with
          | Some _ => (s1, false)                                       (* move_v2 refuses: destination exists *)
          | None => if is_ok (reply (S k)) then ({| dsession := []; dtemp := None; dfinal := Some (dsession s) |}, true)
                    else (s1, false)
          end
        else (d_delete s1 (S k), false)
      else (s, false)
  | CErr :: _ => (s, false)
  end.

Definition dropbox (evs : list cev) (s : dsrv) : dsrv * bool :=
  if is_ok (reply 0) then d_events evs 1 {| dsession := []; dtemp := dtemp s; dfinal := dfinal s |} else (s, false).

Lemma d_delete_final : forall s k, dfinal (d_delete s k) = dfinal s.
Proof. intros. unfold d_delete. destruct (is_ok _); reflexivity. Qed.

Lemma d_events_final : forall evs k s s' res,
  d_events evs k s = (s', res) -> dfinal s' <> dfinal s ->
  res = true /\ dfinal s = None /\ dfinal s' = Some (dsession s ++ payload evs) /\
  exists n, terminal evs = Some (n, Hsrv (dsession s ++ payload evs)) /\ n = length (dsession s ++ payload evs).
Proof.
  induction evs as [|e evs IH]; intros k s s' res E Hf; cbn [d_events] in E.
  - inversion E; subst. congruence.
  - destruct e as [off body|size sum|].
    + destruct (is_ok (reply k) && (off =? length (dsession s))); [|inversion E; subst; congruence].
      destruct (IH _ _ _ _ E Hf) as (R & F0 & F1 & n & T & N). cbn [dsession dfinal] in *.
      rewrite <- app_assoc in F1, T, N. cbn [payload terminal]. eauto 8.
    + destruct (is_ok (reply k) && (size =? length (dsession s))) eqn:Ec; [|inversion E; subst; congruence].
      apply andb_true_iff in Ec as [_ Es]. apply Nat.eqb_eq in Es.
      destruct (beqb_spec (Hsrv (dsession s)) sum) as [<-|Hne].
      * destruct (dfinal s) eqn:Ef; [inversion E; subst; cbn in Hf; congruence|].
        destruct (is_ok (reply (S k))); inversion E; subst; cbn in Hf; [|congruence].
        cbn [payload terminal dfinal]. rewrite app_nil_r. repeat split; auto. eauto.
      * inversion E; subst. rewrite d_delete_final in Hf. cbn in Hf. congruence.
    + inversion E; subst. congruence.
Qed.

(* C05 for Dropbox: the final name changes only if the call succeeded; it then holds exactly the bodies that were
   appended, the finalisation carried their total size and the checksum the server itself computes over them *)
Theorem dropbox_final_only_if_verified : forall evs s s' res,
  dropbox evs s = (s', res) -> dfinal s' <> dfinal s ->
  res = true /\ dfinal s = None /\ dfinal s' = Some (payload evs) /\
  terminal evs = Some (length (payload evs), Hsrv (payload evs)).
Proof.
  intros evs s s' res E Hf. unfold dropbox in E. destruct (is_ok (reply 0)); [|inversion E; subst; congruence].
  destruct (d_events_final _ _ _ _ _ E Hf) as (R & F0 & F1 & n & T & N). cbn [dsession dfinal app] in *. subst n. auto.
Qed.
End D.
Print Assumptions dropbox_final_only_if_verified.
