(* PROTOTYPE (round 0): C13 second claim - runs keep a storage healthy, outside the class of finding F3 *)
From Coq Require Import List Arith NArith Lia Bool.
Import ListNotations.
Require Import Verify.

(* the condition whose violation is finding F3: when a run starts, an empty newest group (left by a run that failed or
   was killed after creating it) bears today's date *)
Definition F3free (gs : list grp) (day : nat) : Prop :=
  forall g, last gs {| g_day := 0; g_entries := [] |} = g -> gs <> [] -> finals (g_entries g) = [] -> g_day g = day.

Lemma finals_app : forall a b, finals (a ++ b) = finals a ++ finals b.
Proof. induction a as [|e a IH]; intros b; cbn [app finals]; [reflexivity|]. destruct e; cbn [app]; now rewrite ?IH. Qed.
Lemma finals_filter_temp : forall es, finals (filter (fun e => match e with GTemp => false | _ => true end) es) = finals es.
Proof. induction es as [|e es IH]; cbn [filter finals]; [reflexivity|]. destruct e; cbn [finals]; now rewrite ?IH. Qed.
Lemma In_filter_temp : forall es, ~ In GJunk es -> ~ In GJunk (filter (fun e => match e with GTemp => false | _ => true end) es).
Proof. intros es H Hc. apply filter_In in Hc as [Hc _]. contradiction. Qed.

Lemma rev_cons_last : forall (A : Type) (l : list A) x r d, rev l = x :: r -> last l d = x /\ l = rev r ++ [x].
Proof.
  intros A l x r d E. assert (El : l = rev r ++ [x]) by (rewrite <- (rev_involutive l), E; reflexivity).
  split; [|exact El]. rewrite El. clear. induction (rev r) as [|y l IH]; [reflexivity|]. cbn [app]. destruct (l ++ [x]) eqn:E; [destruct l; discriminate|exact IH].
Qed.

Theorem publish_healthy : forall gs max day time ls gs',
  Forall HealthyGroup gs -> F3free gs day ->
  (* what C02 provides: the new manifest is non-empty and recoverable after the backups the group already has *)
  (forall g, last gs {| g_day := 0; g_entries := [] |} = g -> group_recoverable [] (finals (g_entries g) ++
      [{| b_day := day; b_time := time; has_data := true; has_meta := true; manifest := Some ls |}])) ->
  ls <> [] -> lines_ok [] ls ->
  publish gs max day time ls = Some gs' -> Forall HealthyGroup gs'.
Proof.
  intros gs max day time ls gs' Hh Hf3 Hrec Hne Hok Hp. unfold publish in Hp.
  set (nbk := {| b_day := day; b_time := time; has_data := true; has_meta := true; manifest := Some ls |}) in *.
  assert (Hnew : HealthyGroup {| g_day := day; g_entries := [GFinal nbk] |}).
  { repeat split; cbn.
    - intros [E|[]]; discriminate.
    - intros b r E. inversion E; subst. reflexivity.
    - destruct H as [<-|[]]; reflexivity.
    - destruct H as [<-|[]]; reflexivity.
    - exists ls. repeat split; auto. }
  destruct (rev gs) as [|g older_rev] eqn:Er.
  - inversion Hp; subst. constructor; auto.
  - destruct (rev_cons_last _ gs g older_rev {| g_day := 0; g_entries := [] |} Er) as [Hlast Egs].
    destruct (length (kept g) <? max).
    + inversion Hp; subst gs'. clear Hp. rewrite Egs in Hh. apply Forall_app in Hh as [Hold Hg]. apply Forall_inv in Hg as HGg.
      apply Forall_app. split; [exact Hold|]. constructor; [|constructor].
      destruct HGg as (Hnj & Hfirst & Hfiles & _). repeat split; cbn [g_day g_entries].
      * intro Hc. apply in_app_or in Hc as [Hc|[Hc|[]]]; [eapply In_filter_temp; eauto|discriminate].
      * intros b r E. rewrite finals_app, finals_filter_temp in E. cbn [finals] in E.
        destruct (finals (g_entries g)) as [|b0 r0] eqn:Ef.
        -- cbn in E. inversion E; subst b. cbn. symmetry. apply (Hf3 g Hlast); [rewrite Egs; destruct (rev older_rev); discriminate|exact Ef].
        -- cbn in E. inversion E; subst. eapply Hfirst; eauto.
      * cbn [g_entries] in H. rewrite finals_app, finals_filter_temp in H. apply in_app_or in H as [H|[<-|[]]]; [apply (Hfiles b H)|reflexivity].
      * cbn [g_entries] in H. rewrite finals_app, finals_filter_temp in H. apply in_app_or in H as [H|[<-|[]]]; [apply (Hfiles b H)|reflexivity].
      * rewrite finals_app, finals_filter_temp. cbn [finals]. apply (Hrec g Hlast).
    + destruct (existsb (fun g' => g_day g' =? day) gs); [discriminate|]. inversion Hp; subst. apply Forall_app. split; auto.
Qed.

(* a failing run changes at most the set of groups by one empty group: health is kept, but F3free may be lost for later days *)
Theorem fail_keeps_healthy : forall gs max day, Forall HealthyGroup gs -> Forall HealthyGroup (fail_after_select gs max day).
Proof.
  intros gs max day Hh. unfold fail_after_select.
  assert (He : HealthyGroup {| g_day := day; g_entries := [] |}).
  { repeat split; cbn; auto; try (intros; contradiction); intros b r E; discriminate. }
  destruct (rev gs) as [|g r]; [constructor; auto|]. destruct (length (kept g) <? max); [exact Hh|].
  destruct (existsb _ gs); [exact Hh|]. apply Forall_app. split; auto.
Qed.
Print Assumptions publish_healthy.
