(* PROTOTYPE (round 0): C11 completeness for the repaired behaviour, refutations for today's *)
From Coq Require Import List Arith NArith ZArith Lia Bool.
Import ListNotations.
Require Import Restore2 Restore2Exec Restore2Plan.
Open Scope N_scope.

Theorem ok_implies_complete : forall fx group name t b older,
  fx2 fx = true -> fx5 fx = true -> fx7 fx = true ->
  split_at name (rev group) = Some (b, older) ->
  exec fx group name = Some (t, true) ->
  forall l, In l (b_manifest b) -> HasFile t (l_path l) (l_hash l) (l_size l).
Proof.
  intros fx group name t b older H2 H5 H7 Hs He l Hl. unfold exec in He.
  destruct (plan fx group name) as [[[[steps exts] missing] pok]|] eqn:Ep; [|discriminate].
  match type of He with match ?X with _ => _ end = _ => destruct X as [s|] eqn:Ed end; [|discriminate].
  destruct (apply_sched (pending s) (rev (sched s)) (tr s)) as [t'|] eqn:Ea; [|discriminate].
  inversion He as [[Ht Hok]]. subst t'. clear He.
  apply andb_true_iff in Hok as [Hok _]. apply andb_true_iff in Hok as [Hok _].
  destruct (do_steps_spec _ _ _ _ _ _ Ed) as (_ & Hmono & Hdone).
  specialize (Hmono Hok). cbn [ok] in Hmono. apply andb_true_iff in Hmono as [Hpok Hmiss].
  destruct missing as [|x missing]; [|discriminate].
  destruct (plan_cover fx H5 H7 _ _ _ _ _ _ _ Hs Ep Hpok l Hl) as (st & Hin & p & info & Hg & Hq & Hh & Hsz).
  pose proof (Hdone H2 Hok st Hin p info Hg (l_path l) Hq) as HF. rewrite Hh, Hsz in HF.
  eapply HasFile_text; [eapply apply_sched_text; eauto | exact HF].
Qed.
Print Assumptions ok_implies_complete.

(* the repaired behaviour: non-vacuity (a healthy group restores with ok = true) *)
Example repaired_nonvacuous : exists t, exec repaired [b1; b2] 2 = Some (t, true).
Proof. eexists. vm_compute. reflexivity. Qed.
