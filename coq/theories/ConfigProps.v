(* PROTOTYPE (round 0): C20 - what an accepted configuration looks like, and that unknown keys are rejected at every
   level but one (finding F4) *)
From Coq Require Import List Arith NArith ZArith Lia Bool.
Import ListNotations.
Require Import Paths Codec Duration Glob Codec2 Filter Config.
Open Scope N_scope.

Lemma list_eqb_eq : forall a b, Paths.list_eqb a b = true <-> a = b.
Proof.
  induction a as [|x a IH]; intros [|y b]; cbn [Paths.list_eqb]; split; intro H; try discriminate; auto.
  - apply andb_true_iff in H as [H1 H2]. apply N.eqb_eq in H1. apply IH in H2. now subst.
  - inversion H; subst. rewrite N.eqb_refl. cbn. now apply IH.
Qed.

Lemma all_some_In : forall A (l : list (option A)) r x, all_some l = Some r -> In x r -> In (Some x) l.
Proof.
  intros A l; induction l as [|o l IH]; intros r x E Hin; cbn [all_some] in E.
  - inversion E; subst. destruct Hin.
  - destruct o as [y|]; [|discriminate]. destruct (all_some l) as [r'|] eqn:Er; [|discriminate]. inversion E; subst.
    destruct Hin as [<-|Hin]; [now left|right; eauto].
Qed.

Lemma seq_of_In : forall A (f : yv -> option A) v r x, seq_of f v = Some r -> In x r -> exists e, f e = Some x.
Proof.
  intros A f v r x E Hin. destruct v as [l|l|m]; try discriminate. cbn [seq_of] in E.
  apply (all_some_In _ _ _ x E) in Hin. apply in_map_iff in Hin as (e & He & _). eauto.
Qed.

Lemma nonempty_ne : forall A (l : list A), nonempty l = true -> l <> [].
Proof. intros A [|x l] H; [discriminate|discriminate]. Qed.

Definition normalised (p : list N) : Prop := exists ps, p = SL :: join ps /\ Forall good_part ps.

Lemma validate_normalised : forall p r, validate_path p = Some r -> normalised r.
Proof. intros p r H. destruct (validate_path_parts p r H) as (ps & -> & Hg). exists ps. auto. Qed.

Section P.
Variable home : option (list N).

Lemma item_inv : forall v it, item v = Some it -> it_path it <> [].
Proof.
  intros v it H. unfold item in H. destruct (strict _ v) as [m|]; [|discriminate].
  destruct (req str_any (get K_path m)) as [p|]; [|discriminate].
  destruct (match get K_filter m with None => _ | Some f => _ end) as [f|]; [|discriminate].
  destruct (opt str_any (get K_before m)) as [b|]; [|discriminate]. destruct (opt str_any (get K_after m)) as [a|]; [|discriminate].
  destruct (nonempty p) eqn:E; [|discriminate]. inversion H; subst. cbn. now apply nonempty_ne.
Qed.

Lemma backup_inv : forall v b, backup v = Some b ->
  bk_items b <> [] /\ 1 <= bk_groups b /\ 1 <= bk_per_group b /\ Forall (fun it => it_path it <> []) (bk_items b).
Proof.
  intros v b H. unfold backup in H. destruct (strict _ v) as [m|]; [|discriminate].
  destruct (req (seq_of item) (get K_items m)) as [its|] eqn:Ei; [|discriminate].
  destruct (req usize (get K_mbg m)) as [g|]; [|discriminate]. destruct (req usize (get K_mbpg m)) as [p|]; [|discriminate].
  destruct (nonempty its && (1 <=? g) && (1 <=? p)) eqn:E; [|discriminate]. inversion H; subst. cbn.
  apply andb_true_iff in E as [E E3]. apply andb_true_iff in E as [E1 E2].
  repeat split; [now apply nonempty_ne|now apply N.leb_le|now apply N.leb_le|].
  apply Forall_forall. intros it Hit. unfold req in Ei. destruct (get K_items m) as [vi|]; [|discriminate].
  destruct (seq_of_In _ _ _ _ _ Ei Hit) as (e & He). eapply item_inv; eauto.
Qed.

Lemma upload_inv : forall v u, upload v = Some u ->
  normalised (up_path u) /\ 1 <= up_groups u /\ up_pass u <> [] /\
  (up_provider u = V_dropbox \/ up_provider u = V_gdrive \/ up_provider u = V_ydisk) /\
  (forall n, up_max_age u = Some n -> exists t, parse_duration t = Dur n).
Proof.
  intros v u H. unfold upload in H. destruct (strict _ v) as [m|]; [|discriminate].
  destruct (req provider (get K_provider m)) as [pr|] eqn:Epr; [|discriminate].
  destruct (req str_any (get K_path m)) as [p|]; [|discriminate]. destruct (req usize (get K_mbg m)) as [g|]; [|discriminate].
  destruct (req str_any (get K_pass m)) as [pw|]; [|discriminate].
  destruct (duration_field (get K_mtwb m)) as [d|] eqn:Ed; [|discriminate].
  destruct (nonempty p && (1 <=? g) && nonempty pw) eqn:E; [|discriminate].
  destruct (validate_path p) as [p'|] eqn:Ev; [|discriminate]. inversion H; subst. cbn.
  apply andb_true_iff in E as [E E3]. apply andb_true_iff in E as [E1 E2].
  split; [eapply validate_normalised; eauto|]. split; [now apply N.leb_le|]. split; [now apply nonempty_ne|]. split.
  - unfold req in Epr. destruct (get K_provider m) as [vp|]; [|discriminate]. unfold provider in Epr.
    destruct (strict _ vp) as [mp|]; [|discriminate].
    destruct (req str_typed (get K_name mp)) as [nm|]; [|discriminate]. destruct (req str_typed (get K_cid mp)); [|discriminate].
    destruct (req str_typed (get K_csec mp)); [|discriminate]. destruct (req str_typed (get K_rtok mp)); [|discriminate].
    destruct ((key_eqb nm V_dropbox || key_eqb nm V_gdrive || key_eqb nm V_ydisk) && nonempty l && nonempty l0 && nonempty l1) eqn:EE; [|discriminate].
    inversion Epr; subst. repeat (apply andb_true_iff in EE as [EE _]).
    apply orb_true_iff in EE as [EE|E6]; [apply orb_true_iff in EE as [E4|E5]|].
    + left; now apply list_eqb_eq in E4.
    + right; left; now apply list_eqb_eq in E5.
    + right; right; now apply list_eqb_eq in E6.
  - intros n Hn. subst d. unfold duration_field in Ed. destruct (get K_mtwb m) as [vd|]; [|discriminate].
    destruct (str_any vd) as [t|]; [|discriminate]. destruct (parse_duration t) eqn:Ep; try discriminate. inversion Ed; subst. eauto.
Qed.

Lemma spec_inv : forall v sp, spec home v = Some sp ->
  sp_name sp <> [] /\ normalised (sp_path sp) /\
  (forall b, sp_backup sp = Some b -> exists v', backup v' = Some b) /\
  (forall u, sp_upload sp = Some u -> exists v', upload v' = Some u).
Proof.
  intros v sp H. unfold spec in H. destruct (strict _ v) as [m|]; [|discriminate].
  destruct (req str_any (get K_name m)) as [n|]; [|discriminate]. destruct (req str_any (get K_path m)) as [p|]; [|discriminate].
  destruct (opt backup (get K_backup m)) as [b|] eqn:Eb; [|discriminate].
  destruct (opt (upload) (get K_upload m)) as [u|] eqn:Eu; [|discriminate].
  destruct (nonempty n && nonempty p) eqn:E; [|discriminate]. destruct (local_path home p) as [p'|] eqn:Ep; [|discriminate].
  inversion H; subst. cbn. apply andb_true_iff in E as [E1 E2]. split; [now apply nonempty_ne|].
  split; [unfold local_path in Ep; eapply validate_normalised; eauto|]. split.
  - intros b0 ->. unfold opt in Eb. destruct (get K_backup m) as [vb|]; [|discriminate]. destruct (is_null vb); [discriminate|].
    destruct (backup vb) eqn:E3; inversion Eb; subst. eauto.
  - intros u0 ->. unfold opt in Eu. destruct (get K_upload m) as [vu|]; [|discriminate]. destruct (is_null vu); [discriminate|].
    destruct (upload vu) eqn:E3; inversion Eu; subst. eauto.
Qed.

Lemma distinct_NoDup : forall l, distinct l = true -> NoDup l.
Proof.
  induction l as [|x l IH]; intro H; [constructor|]. cbn [distinct] in H. apply andb_true_iff in H as [H1 H2]. constructor; auto.
  intro Hin. apply negb_true_iff in H1. assert (existsb (key_eqb x) l = true); [|congruence].
  apply existsb_exists. exists x. split; auto. apply list_eqb_eq. reflexivity.
Qed.

(* C20: whatever document is accepted, the configuration acted upon is well formed *)
Theorem accepted_wellformed : forall doc cfg, load home doc = Some cfg ->
  NoDup (map sp_name (c_backups cfg)) /\
  (forall p, c_metrics cfg = Some p -> normalised p) /\
  forall sp, In sp (c_backups cfg) ->
    sp_name sp <> [] /\ normalised (sp_path sp) /\
    (forall b, sp_backup sp = Some b ->
       bk_items b <> [] /\ 1 <= bk_groups b /\ 1 <= bk_per_group b /\ Forall (fun it => it_path it <> []) (bk_items b)) /\
    (forall u, sp_upload sp = Some u ->
       normalised (up_path u) /\ 1 <= up_groups u /\ up_pass u <> [] /\
       (up_provider u = V_dropbox \/ up_provider u = V_gdrive \/ up_provider u = V_ydisk) /\
       (forall n, up_max_age u = Some n -> exists t, parse_duration t = Dur n)).
Proof.
  intros doc cfg H. unfold load in H. destruct doc as [v|].
  2:{ inversion H; subst. cbn. split; [constructor|]. split; [discriminate|intros sp []]. }
  destruct (strict _ v) as [m|]; [|discriminate].
  destruct (match get K_backups m with None => Some [] | Some b => seq_of (spec home) b end) as [bs|] eqn:Eb; [|discriminate].
  destruct (opt str_any (get K_metrics m)) as [mt|]; [|discriminate].
  destruct (negb (distinct (map sp_name bs))) eqn:Ed; [discriminate|]. apply negb_false_iff in Ed.
  assert (Hsp : forall sp, In sp bs -> exists e, spec home e = Some sp).
  { intros sp Hin. destruct (get K_backups m) as [vb|]; [eapply seq_of_In; eauto|inversion Eb; subst; destruct Hin]. }
  assert (Hbody : forall sp, In sp bs -> sp_name sp <> [] /\ normalised (sp_path sp) /\
     (forall b, sp_backup sp = Some b -> bk_items b <> [] /\ 1 <= bk_groups b /\ 1 <= bk_per_group b /\ Forall (fun it => it_path it <> []) (bk_items b)) /\
     (forall u, sp_upload sp = Some u -> normalised (up_path u) /\ 1 <= up_groups u /\ up_pass u <> [] /\
        (up_provider u = V_dropbox \/ up_provider u = V_gdrive \/ up_provider u = V_ydisk) /\
        (forall n, up_max_age u = Some n -> exists t, parse_duration t = Dur n))).
  { intros sp Hin. destruct (Hsp sp Hin) as (e & He). destruct (spec_inv _ _ He) as (A & B & C & D).
    split; auto. split; auto. split.
    - intros b Hb. destruct (C b Hb) as (v' & Hv'). eapply backup_inv; eauto.
    - intros u Hu. destruct (D u Hu) as (v' & Hv'). eapply upload_inv; eauto. }
  destruct mt as [p|].
  - destruct (nonempty p); [|discriminate]. destruct (local_path home p) as [p'|] eqn:Ep; [|discriminate]. inversion H; subst. cbn.
    split; [now apply distinct_NoDup|]. split; [|exact Hbody]. intros q Hq. inversion Hq; subst. unfold local_path in Ep. eapply validate_normalised; eauto.
  - inversion H; subst. cbn. split; [now apply distinct_NoDup|]. split; [discriminate|exact Hbody].
Qed.
End P.

(* unknown keys: rejected at the top level, in a backup specification, in `backup`, in an item, in `upload` ... *)
Lemma strict_unknown : forall known m k v, In (k, v) m -> existsb (key_eqb k) known = false -> strict known (YMap m) = None.
Proof.
  intros known m k v Hin Hk. unfold strict. assert (known_only known m = false) as ->; [|reflexivity].
  unfold known_only. apply not_true_is_false. intro H. rewrite forallb_forall in H. specialize (H _ Hin). cbn in H. congruence.
Qed.

Theorem unknown_top_key_rejected : forall home m k v, In (k, v) m ->
  key_eqb k K_backups = false -> key_eqb k K_metrics = false -> load home (Some (YMap m)) = None.
Proof.
  intros home m k v Hin H1 H2. unfold load. rewrite (strict_unknown _ m k v Hin); [reflexivity|]. cbn. now rewrite H1, H2.
Qed.

(* ... and, since the repair of finding F4, inside `provider` too; empty credentials are rejected as well *)
Theorem unknown_provider_key_rejected : forall m k v, In (k, v) m ->
  existsb (key_eqb k) [K_name; K_cid; K_csec; K_rtok] = false -> provider (YMap m) = None.
Proof. intros m k v Hin Hk. unfold provider. now rewrite (strict_unknown _ m k v Hin Hk). Qed.

Definition lf (t : list N) := YLeaf {| text := t; lkind := KStr |}.
Example F4_repaired :
  provider (YMap [(K_name, lf V_dropbox); (K_cid, lf [120]); (K_csec, lf [120]); (K_rtok, lf [120]); ([122;122;122], lf [49])]) = None /\
  provider (YMap [(K_name, lf V_dropbox); (K_cid, lf []); (K_csec, lf [120]); (K_rtok, lf [120])]) = None /\
  provider (YMap [(K_name, lf V_dropbox); (K_cid, lf [120]); (K_csec, lf [120]); (K_rtok, lf [120])]) = Some V_dropbox.
Proof. vm_compute. repeat split. Qed.
Print Assumptions accepted_wellformed.
