(* Wire glue for C14: PathFilter::new on a spec text and check on a list of paths.
   case: (spec paths) with spec a list of code points and every path a list of bytes
   result: (0) spec rejected | (1 verdicts) *)
From Coq Require Import List NArith Bool.
Import ListNotations.
Require Import Wire Glob Filter.
Local Open Scope N_scope.

Definition run_c14 (v : val) : val :=
  match v with
  | VL [spec; paths] =>
    match as_bytes spec, as_bytess paths with
    | Some spec, Some paths =>
      match filter_new spec with
      | None => VL [VN 0]
      | Some rules => VL [VN 1; of_list (fun p => of_bool (check rules p)) paths]
      end
    | _, _ => bad_input
    end
  | _ => bad_input
  end.
