(* PROTOTYPE (round 0): util/stream_splitter.rs::splitter as a function on the message list *)
From Coq Require Import List Arith NArith ZArith Lia Bool ZifyBool ZifyNat.
Require Import Chunk.
Import ListNotations.
Ltac Zify.zify_post_hook ::= Z.div_mod_to_equations.

Inductive msg := Payload (d : list N) | Eof (sum : list N) | MErr (e : N).
Inductive ev := EStream (off : nat) | EChunk (d : list N) | EClose
              | EEof (total : nat) (sum : list N) | EFail (e : N).
Inductive res := ROk | RSenderClosed | RReceiverClosed | RExtraMessage | ROutOfFuel.

Record st := { open : bool; ssize : nat; off : nat; budget : nat (* sends the receivers still accept *) }.

(* a send on a rendezvous channel: succeeds iff the receiver is still there *)
Definition send (s : st) (e : ev) : option (st * list ev) :=
  match budget s with
  | O => None
  | S b => Some ({| open := open s; ssize := ssize s; off := off s; budget := b |}, [e])
  end.

(* inner loop over one payload block; [max = None] means unlimited *)
Fixpoint block (fuel : nat) (max : option nat) (s : st) (d : list N) : option (st * list ev) * bool (* out of fuel *) :=
  match d with
  | [] => (Some (s, []), false)
  | _ =>
    match fuel with
    | O => (None, true)
    | S f =>
      (* open a body lazily *)
      let opened :=
        if open s then Some (s, [])
        else match send s (EStream (off s)) with
             | Some (s', e) => Some ({| open := true; ssize := 0; off := off s'; budget := budget s' |}, e)
             | None => None end in
      match opened with
      | None => (None, false)
      | Some (s1, e1) =>
        let avail := match max with Some m => m - ssize s1 | None => length d end in
        if length d <=? avail then
          match send s1 (EChunk d) with
          | Some (s2, e2) => (Some ({| open := true; ssize := ssize s2 + length d; off := off s2 + length d; budget := budget s2 |}, e1 ++ e2), false)
          | None => (None, false) end
        else if 0 <? avail then
          match send s1 (EChunk (firstn avail d)) with
          | Some (s2, e2) =>
            let s3 := {| open := false; ssize := ssize s2 + avail; off := off s2 + avail; budget := budget s2 |} in
            match block f max s3 (skipn avail d) with
            | (Some (s4, e4), oof) => (Some (s4, e1 ++ e2 ++ [EClose] ++ e4), oof)
            | (None, oof) => (None, oof) end
          | None => (None, false) end
        else
          let s3 := {| open := false; ssize := ssize s1; off := off s1; budget := budget s1 |} in
          match block f max s3 d with
          | (Some (s4, e4), oof) => (Some (s4, e1 ++ [EClose] ++ e4), oof)
          | (None, oof) => (None, oof) end
      end
    end
  end.

Definition close_if_open (s : st) : list ev := if open s then [EClose] else [].

Fixpoint run (max : option nat) (s : st) (ms : list msg) : list ev * res :=
  match ms with
  | [] => ([], RSenderClosed)
  | Payload d :: ms' =>
    match block (2 * length d + 2) max s d with
    | (Some (s', e), false) => let '(e', r) := run max s' ms' in (e ++ e', r)
    | (_, true) => ([], ROutOfFuel)
    | (None, false) => ([], RReceiverClosed)     (* events before the failed send are not needed by any theorem *)
    end
  | Eof sum :: ms' =>
    match send s (EEof (off s) sum) with
    | Some (_, e) => (close_if_open s ++ e, match ms' with [] => ROk | _ => RExtraMessage end)
    | None => (close_if_open s, RReceiverClosed) end
  | MErr x :: ms' =>
    match send s (EFail x) with
    | Some (_, e) => (close_if_open s ++ e, match ms' with [] => ROk | _ => RExtraMessage end)
    | None => (close_if_open s, RReceiverClosed) end
  end.

Definition splitter (max : option nat) (budget0 : nat) (ms : list msg) :=
  run max {| open := false; ssize := 0; off := 0; budget := budget0 |} ms.

(* what the provider sees: (announced offset, bytes) per body *)
Fixpoint bodies_aux (cur : option (nat * list N)) (es : list ev) : list (nat * list N) :=
  match es with
  | [] => match cur with Some b => [b] | None => [] end
  | EStream o :: es' => (match cur with Some b => [b] | None => [] end) ++ bodies_aux (Some (o, [])) es'
  | EChunk d :: es' => bodies_aux (match cur with Some (o, b) => Some (o, b ++ d) | None => None end) es'
  | EClose :: es' => (match cur with Some b => [b] | None => [] end) ++ bodies_aux None es'
  | _ :: es' => bodies_aux cur es'
  end.
Definition bodies es := bodies_aux None es.

Definition payload (ms : list msg) : list N :=
  concat (map (fun m => match m with Payload d => d | _ => [] end) ms).


(* ---------------- specification and proof ---------------- *)
Fixpoint from_off (o : nat) (cs : list (list N)) : list (nat * list N) :=
  match cs with [] => [] | c :: cs' => (o, c) :: from_off (o + length c) cs' end.

Definition cstart (s : st) (cur : option (nat * list N)) := match cur with Some (o, _) => o | None => off s end.
Definition cbytes (cur : option (nat * list N)) := match cur with Some (_, b) => b | None => [] end.
Definition G (m : nat) (s : st) (cur : option (nat * list N)) (x : list N) :=
  from_off (cstart s cur) (chunks m (cbytes cur ++ x)).

Definition Inv (m : nat) (s : st) (cur : option (nat * list N)) : Prop :=
  match cur with
  | Some (o, b) => open s = true /\ length b = ssize s /\ 1 <= length b <= m /\ o + length b = off s
  | None => open s = false
  end.

Lemma flush_cur : forall cur es, bodies_aux cur (EClose :: es) =
  (match cur with Some b => [b] | None => [] end) ++ bodies_aux None es.
Proof. reflexivity. Qed.


Lemma block_unfold : forall f max s d, d <> [] -> block (S f) max s d =
      let opened :=
        if open s then Some (s, [])
        else match send s (EStream (off s)) with
             | Some (s', e) => Some ({| open := true; ssize := 0; off := off s'; budget := budget s' |}, e)
             | None => None end in
      match opened with
      | None => (None, false)
      | Some (s1, e1) =>
        let avail := match max with Some m => m - ssize s1 | None => length d end in
        if length d <=? avail then
          match send s1 (EChunk d) with
          | Some (s2, e2) => (Some ({| open := true; ssize := ssize s2 + length d; off := off s2 + length d; budget := budget s2 |}, e1 ++ e2), false)
          | None => (None, false) end
        else if 0 <? avail then
          match send s1 (EChunk (firstn avail d)) with
          | Some (s2, e2) =>
            let s3 := {| open := false; ssize := ssize s2 + avail; off := off s2 + avail; budget := budget s2 |} in
            match block f max s3 (skipn avail d) with
            | (Some (s4, e4), oof) => (Some (s4, e1 ++ e2 ++ [EClose] ++ e4), oof)
            | (None, oof) => (None, oof) end
          | None => (None, false) end
        else
          let s3 := {| open := false; ssize := ssize s1; off := off s1; budget := budget s1 |} in
          match block f max s3 d with
          | (Some (s4, e4), oof) => (Some (s4, e1 ++ [EClose] ++ e4), oof)
          | (None, oof) => (None, oof) end
      end.
Proof. intros f max s d Hd. destruct d; [congruence | reflexivity]. Qed.

Lemma split_app : forall (b d x : list N) n, b ++ d ++ x = (b ++ firstn n d) ++ skipn n d ++ x.
Proof. intros. rewrite <- app_assoc. f_equal. now rewrite app_assoc, firstn_skipn. Qed.

(* one payload block *)
Lemma block_bodies : forall m, m >= 1 -> forall fuel s d cur,
  Inv m s cur -> length d + (if open s then 1 else 0) <= fuel -> 2 * length d <= budget s ->
  exists s' e cur', block fuel (Some m) s d = (Some (s', e), false) /\ Inv m s' cur' /\
    off s' = off s + length d /\ budget s - budget s' <= 2 * length d /\
    forall es x, bodies_aux cur' es = G m s' cur' x -> bodies_aux cur (e ++ es) = G m s cur (d ++ x).
Proof.
  intros m Hm fuel. induction fuel as [|f IH]; intros s d cur HI Hf Hb.
  - destruct d as [|a d]; cbn [length] in *.
    + exists s, [], cur. cbn. repeat split; auto; lia.
    + destruct (open s); lia.
  - destruct d as [|a d'].
    + exists s, [], cur. cbn. repeat split; auto; lia.
    + remember (a :: d') as d eqn:Ed. assert (Hd : 1 <= length d) by (subst d; cbn; lia).
      rewrite block_unfold by (subst d; discriminate). clear Ed a d'. cbv zeta.
      unfold send.
      destruct cur as [[o b]|]; cbn [Inv] in HI.
      * (* a body is open *)
        destruct HI as (Ho & Hlb & Hbm & Hoff). rewrite Ho in Hf |- *.
        destruct (budget s) as [|bud] eqn:Ebud; [lia|].
        cbn [ssize off budget open].
        destruct (Nat.leb_spec (length d) (m - ssize s)) as [Hfit|Hnofit].
        -- (* the whole block fits *)
           eexists _, _, (Some (o, b ++ d)). split; [reflexivity|]. cbn [Inv open ssize off budget].
           rewrite app_length. repeat split; try lia.
           intros es x Hes. cbn [app bodies_aux]. rewrite Hes. unfold G, cstart, cbytes. now rewrite <- app_assoc.
        -- destruct (Nat.ltb_spec 0 (m - ssize s)) as [Hav|Hfull].
           ++ (* fill the open body, close it, continue with the rest *)
              remember (m - ssize s) as av eqn:Eav.
              set (s3 := {| open := false; ssize := ssize s + av; off := off s + av; budget := bud |}).
              destruct (IH s3 (skipn av d) None) as (s4 & e4 & cur4 & Hblk & HI4 & Hoff4 & Hbud4 & Hbod4).
              { reflexivity. } { cbn [open s3]. rewrite skipn_length. lia. } { cbn [budget s3]. rewrite skipn_length. lia. }
              rewrite Hblk. eexists s4, _, cur4. split; [reflexivity|]. split; [exact HI4|]. split; [rewrite Hoff4; cbn [off s3]; rewrite ?skipn_length; lia|]. split.
              { cbn [budget s3] in Hbud4. rewrite skipn_length in Hbud4. lia. }
              intros es x Hes. specialize (Hbod4 es x Hes).
              cbn [app bodies_aux]. rewrite Hbod4.
              unfold G, cstart, cbytes. cbn [off s3 app].
              rewrite (split_app b d x av).
              rewrite (chunks_app (fun z => z) m (b ++ firstn av d) (skipn av d ++ x)) by (rewrite ?app_length, ?firstn_length; lia).
              cbn [from_off app]. rewrite app_length, firstn_length.
              replace (Nat.min av (length d)) with av by lia. f_equal. f_equal. lia.
           ++ (* the open body is exactly full: close it lazily *)
              set (s3 := {| open := false; ssize := ssize s; off := off s; budget := S bud |}).
              destruct (IH s3 d None) as (s4 & e4 & cur4 & Hblk & HI4 & Hoff4 & Hbud4 & Hbod4).
              { reflexivity. } { cbn [open s3]. lia. } { cbn [budget s3]. lia. }
              rewrite Hblk. eexists s4, _, cur4. split; [reflexivity|]. split; [exact HI4|]. split; [rewrite Hoff4; cbn [off s3]; rewrite ?skipn_length; lia|]. split.
              { cbn [budget s3] in Hbud4. lia. }
              intros es x Hes. specialize (Hbod4 es x Hes).
              cbn [app]. rewrite flush_cur. rewrite Hbod4.
              unfold G, cstart, cbytes. cbn [off s3 app].
              rewrite (chunks_app (fun z => z) m b (d ++ x)) by lia.
              cbn [from_off app]. f_equal. f_equal. lia.
      * (* no open body: announce a new one *)
        rewrite HI in Hf |- *. destruct (budget s) as [|bud] eqn:Ebud; [lia|].
        cbn [ssize off budget open]. destruct bud as [|bud']; [lia|].
        rewrite Nat.sub_0_r.
        destruct (Nat.leb_spec (length d) m) as [Hfit|Hnofit].
        -- eexists _, _, (Some (off s, d)). split; [reflexivity|]. cbn [Inv open ssize off budget].
           repeat split; try lia.
           intros es x Hes. cbn [app bodies_aux]. rewrite Hes. unfold G, cstart, cbytes. reflexivity.
        -- destruct (Nat.ltb_spec 0 m) as [_|]; [|lia]. cbn [ssize off budget open].
           set (s3 := {| open := false; ssize := 0 + m; off := off s + m; budget := bud' |}).
           destruct (IH s3 (skipn m d) None) as (s4 & e4 & cur4 & Hblk & HI4 & Hoff4 & Hbud4 & Hbod4).
           { reflexivity. } { cbn [open s3]. rewrite skipn_length. lia. } { cbn [budget s3]. rewrite skipn_length. lia. }
           rewrite Hblk. eexists s4, _, cur4. split; [reflexivity|]. split; [exact HI4|]. split; [rewrite Hoff4; cbn [off s3]; rewrite ?skipn_length; lia|]. split.
           { cbn [budget s3] in Hbud4. rewrite skipn_length in Hbud4. lia. }
           intros es x Hes. specialize (Hbod4 es x Hes).
           cbn [app bodies_aux]. rewrite Hbod4.
           unfold G, cstart, cbytes. cbn [off s3 app].
           replace (d ++ x) with (firstn m d ++ skipn m d ++ x) by (now rewrite app_assoc, firstn_skipn).
           rewrite (chunks_app (fun z => z) m (firstn m d) (skipn m d ++ x)) by (rewrite ?app_length, ?firstn_length; lia).
           cbn [from_off app]. rewrite firstn_length.
           replace (Nat.min m (length d)) with m by lia. reflexivity.
Qed.

Lemma chunks_nil : forall m, chunks m [] = [].
Proof. reflexivity. Qed.

Lemma run_bodies : forall m, m >= 1 -> forall sum blocks s cur,
  Inv m s cur -> 2 * length (concat blocks) + 1 <= budget s ->
  exists es0, run (Some m) s (map Payload blocks ++ [Eof sum]) =
                (es0 ++ [EEof (off s + length (concat blocks)) sum], ROk) /\
              bodies_aux cur (es0 ++ [EEof (off s + length (concat blocks)) sum]) = G m s cur (concat blocks).
Proof.
  intros m Hm sum blocks. induction blocks as [|d blocks IH]; intros s cur HI Hb.
  - cbn [map app run concat length]. unfold send. destruct (budget s) as [|b] eqn:Eb; [cbn in Hb; lia|].
    exists (close_if_open s). rewrite Nat.add_0_r. split; [reflexivity|].
    unfold G, cstart, cbytes, close_if_open. destruct cur as [[o b0]|]; cbn [Inv] in HI.
    + destruct HI as (Ho & Hl & Hbm & Hoff). rewrite Ho. cbn [app bodies_aux].
      rewrite app_nil_r. rewrite (chunks_small (fun z => z)); [reflexivity| |lia].
      destruct b0; cbn in *; [lia|discriminate].
    + rewrite HI. reflexivity.
  - cbn [map app run concat]. cbn [concat] in Hb. rewrite app_length in Hb.
    destruct (block_bodies m Hm (2 * length d + 2) s d cur HI) as (s1 & e1 & cur1 & Hblk & HI1 & Hoff1 & Hbud1 & Hbod1).
    { destruct (open s); lia. } { lia. }
    rewrite Hblk. destruct (IH s1 cur1 HI1) as (es0 & Hrun & Hbod); [lia|].
    rewrite Hrun. exists (e1 ++ es0). rewrite app_length, Hoff1, <- Nat.add_assoc, <- app_assoc.
    split; [reflexivity|]. apply Hbod1. rewrite Hoff1, <- Nat.add_assoc in Hbod. exact Hbod.
Qed.

(* C17 (data half): bodies, sizes, offsets and the terminal message, for every fragmentation *)
Theorem splitter_correct : forall m blocks sum budget0, m >= 1 ->
  2 * length (concat blocks) + 1 <= budget0 ->
  exists es0, splitter (Some m) budget0 (map Payload blocks ++ [Eof sum]) =
                (es0 ++ [EEof (length (concat blocks)) sum], ROk) /\
              bodies (es0 ++ [EEof (length (concat blocks)) sum]) = from_off 0 (chunks m (concat blocks)).
Proof.
  intros m blocks sum budget0 Hm Hb. unfold splitter, bodies.
  destruct (run_bodies m Hm sum blocks {| open := false; ssize := 0; off := 0; budget := budget0 |} None) as (es0 & Hrun & Hbod);
    [reflexivity | exact Hb |].
  exists es0. cbn [off] in *. rewrite Nat.add_0_l in *. split; [exact Hrun | exact Hbod].
Qed.
Print Assumptions splitter_correct.

(* the facts about [chunks] that turn the theorem into the property's wording *)
Lemma chunks_concat : forall m d, m >= 1 -> concat (chunks m d) = d.
Proof.
  intros m d Hm. remember (length d) as n eqn:Hn. revert d Hn.
  induction n as [n IH] using lt_wf_ind. intros d Hn. destruct d as [|a d'].
  - reflexivity.
  - rewrite (chunks_step (fun z => z)) by (try lia; discriminate). cbn [concat].
    rewrite (IH (length (skipn m (a :: d')))); try reflexivity.
    + apply firstn_skipn.
    + rewrite skipn_length. subst n. cbn [length]. lia.
Qed.

Lemma chunks_sizes : forall m d, m >= 1 ->
  Forall (fun c => 1 <= length c <= m) (chunks m d) /\
  (forall pre last, chunks m d = pre ++ [last] -> Forall (fun c => length c = m) pre).
Proof.
  intros m d Hm. remember (length d) as n eqn:Hn. revert d Hn.
  induction n as [n IH] using lt_wf_ind. intros d Hn. destruct d as [|a d'].
  - split; [constructor|]. intros pre last E. destruct pre; discriminate.
  - rewrite (chunks_step (fun z => z)) by (try lia; discriminate).
    destruct (IH (length (skipn m (a :: d')))) with (d := skipn m (a :: d')) as [IH1 IH2]; try reflexivity.
    { rewrite skipn_length. subst n. cbn [length]. lia. }
    split.
    + constructor; [|exact IH1]. rewrite firstn_length. cbn [length]. lia.
    + intros pre last E. destruct pre as [|p pre]; [constructor|].
      cbn [app] in E. injection E as E1 E2. constructor.
      * subst p. rewrite firstn_length.
        destruct (Nat.le_gt_cases m (length (a :: d'))) as [|Hlt]; [lia|].
        rewrite skipn_all2 in E2 by lia. rewrite chunks_nil in E2. destruct pre; discriminate.
      * eapply IH2; eauto.
Qed.
