(* PROTOTYPE (round 0): the manifest line codec (storage/metadata.rs) on bytes *)
From Coq Require Import List Arith NArith ZArith Lia Bool Decimal DecimalN.
Import ListNotations.
Open Scope N_scope.

Definition SP := 32. Definition NL := 10. Definition CR := 13. Definition COLON := 58. Definition MINUS := 45.

(* ---- decimal ---- *)
Fixpoint print_uint (u : uint) : list N :=
  match u with
  | Nil => [] | D0 u => 48 :: print_uint u | D1 u => 49 :: print_uint u | D2 u => 50 :: print_uint u | D3 u => 51 :: print_uint u
  | D4 u => 52 :: print_uint u | D5 u => 53 :: print_uint u | D6 u => 54 :: print_uint u | D7 u => 55 :: print_uint u
  | D8 u => 56 :: print_uint u | D9 u => 57 :: print_uint u
  end.
Fixpoint parse_uint (s : list N) : option uint :=
  match s with
  | [] => Some Nil
  | c :: r => match parse_uint r with
              | None => None
              | Some u => if c =? 48 then Some (D0 u) else if c =? 49 then Some (D1 u) else if c =? 50 then Some (D2 u)
                          else if c =? 51 then Some (D3 u) else if c =? 52 then Some (D4 u) else if c =? 53 then Some (D5 u)
                          else if c =? 54 then Some (D6 u) else if c =? 55 then Some (D7 u) else if c =? 56 then Some (D8 u)
                          else if c =? 57 then Some (D9 u) else None
              end
  end.
Lemma parse_print_uint : forall u, parse_uint (print_uint u) = Some u.
Proof. induction u; cbn [print_uint parse_uint]; rewrite ?IHu; reflexivity. Qed.

Definition print_N (n : N) : list N := print_uint (N.to_uint n).
Definition parse_N (s : list N) : option N := match s with [] => None | _ => option_map N.of_uint (parse_uint s) end.
Lemma print_N_nonempty : forall n, print_N n <> [].
Proof.
  intros n. unfold print_N. destruct n; [cbn; discriminate|]. cbn [N.to_uint].
  assert (H : forall p, Pos.to_uint p <> Nil).
  { intros q Hc. pose proof (DecimalPos.Unsigned.of_to q) as E. rewrite Hc in E. cbn in E. discriminate. }
  specialize (H p). destruct (Pos.to_uint p); cbn; try discriminate. congruence.
Qed.
Lemma parse_print_N : forall n, parse_N (print_N n) = Some n.
Proof.
  intros n. unfold parse_N. pose proof (print_N_nonempty n). destruct (print_N n) eqn:E; [congruence|].
  rewrite <- E. unfold print_N. rewrite parse_print_uint. cbn. f_equal. apply Unsigned.of_to.
Qed.
Definition is_digit (c : N) := (48 <=? c) && (c <=? 57).
Lemma print_uint_digits : forall u, forallb is_digit (print_uint u) = true.
Proof. induction u; cbn [print_uint forallb]; rewrite ?IHu; reflexivity. Qed.

(* ---- splitn(5, ' ') ---- *)
Fixpoint split_first (s : list N) : list N * option (list N) :=    (* up to the first space; rest after it if any *)
  match s with
  | [] => ([], None)
  | c :: r => if c =? SP then ([], Some r) else let '(a, b) := split_first r in (c :: a, b)
  end.
Definition splitn5 (s : list N) : option (list N * list N * list N * list N * list N) :=
  match split_first s with (f1, Some r1) =>
  match split_first r1 with (f2, Some r2) =>
  match split_first r2 with (f3, Some r3) =>
  match split_first r3 with (f4, Some r4) => Some (f1, f2, f3, f4, r4)
  | _ => None end | _ => None end | _ => None end | _ => None end.

Definition nospace (s : list N) := forallb (fun c => negb (c =? SP)) s.
Lemma split_first_app : forall a r, nospace a = true -> split_first (a ++ SP :: r) = (a, Some r).
Proof.
  induction a as [|c a IH]; intros r Hn.
  - change ([] ++ SP :: r) with (SP :: r). cbn [split_first]. now rewrite N.eqb_refl.
  - change ((c :: a) ++ SP :: r) with (c :: (a ++ SP :: r)). cbn [split_first].
    cbn [nospace forallb] in Hn. apply andb_true_iff in Hn as [Hc Ha]. apply negb_true_iff in Hc. rewrite Hc.
    fold (nospace a) in Ha. rewrite (IH r Ha). reflexivity.
Qed.
Theorem splitn5_join : forall f1 f2 f3 f4 path,
  nospace f1 = true -> nospace f2 = true -> nospace f3 = true -> nospace f4 = true ->
  splitn5 (f1 ++ SP :: f2 ++ SP :: f3 ++ SP :: f4 ++ SP :: path) = Some (f1, f2, f3, f4, path).
Proof. intros. unfold splitn5. now rewrite !split_first_app. Qed.

(* digits contain no space, so a path with spaces survives the split intact *)
Lemma digits_nospace : forall s, forallb is_digit s = true -> nospace s = true.
Proof.
  induction s as [|c s IH]; [reflexivity|]. cbn [forallb nospace]. intros H. apply andb_true_iff in H as [Hc Hs].
  fold (nospace s). rewrite (IH Hs), andb_true_r. unfold is_digit in Hc. apply andb_true_iff in Hc as [H1 H2].
  apply negb_true_iff. apply N.eqb_neq. apply N.leb_le in H1. unfold SP. lia.
Qed.
Example size_field_roundtrip : forall n path, 
  match splitn5 ([117] ++ SP :: [97] ++ SP :: [49] ++ SP :: print_N n ++ SP :: path) with
  | Some (_, _, _, f4, p) => parse_N f4 = Some n /\ p = path | None => False end.
Proof.
  intros n path. rewrite splitn5_join; try reflexivity.
  - split; [apply parse_print_N|reflexivity].
  - apply digits_nospace. apply print_uint_digits.
Qed.
