(* Wire glue for C17: the splitter model on a scripted message list.
   case: (max_opt budget_opt msgs); msg = (0 payload) | (1 sum) | (2 err)
   result: (0 events_full res_full res_limited) where events_full / res_full is the run against a receiver that
   never goes away and res_limited the run against a receiver that accepts only [budget] sends. *)
From Coq Require Import List NArith Bool.
Import ListNotations.
Require Import Wire Chunk Splitter.
Local Open Scope N_scope.

Definition dec_msg (v : val) : option msg :=
  match v with
  | VL [VN 0; d] => option_map Payload (as_bytes d)
  | VL [VN 1; s] => option_map Eof (as_bytes s)
  | VL [VN 2; VN e] => Some (MErr e)
  | _ => None
  end.

Definition enc_ev (e : ev) : val :=
  match e with
  | EStream o => VL [VN 0; of_nat o]
  | EChunk d => VL [VN 1; of_bytes d]
  | EClose => VL [VN 2]
  | EEof t s => VL [VN 3; of_nat t; of_bytes s]
  | EFail x => VL [VN 4; VN x]
  end.

Definition enc_res (r : res) : val :=
  match r with ROk => VN 0 | RSenderClosed => VN 1 | RReceiverClosed => VN 2 | RExtraMessage => VN 3 | ROutOfFuel => VN 9 end.

Definition big_budget (ms : list msg) : nat := 2 * length (payload ms) + 2 * length ms + 4.

Definition run_c17 (v : val) : val :=
  match v with
  | VL (mx :: bd :: ms :: _) =>
    match as_option as_nat mx, as_option as_nat bd, as_listof dec_msg ms with
    | Some mx, Some bd, Some ms =>
      let '(ev_full, r_full) := splitter mx (big_budget ms) ms in
      let r_lim := match bd with Some b => snd (splitter mx b ms) | None => r_full end in
      match r_full with
      | ROutOfFuel => out_of_fuel
      | _ => VL [VN 0; of_list enc_ev ev_full; enc_res r_full; enc_res r_lim]
      end
    | _, _, _ => bad_input
    end
  | _ => bad_input
  end.
