(* PROTOTYPE (round 0): plan half of the C11 completeness proof *)
From Coq Require Import List Arith NArith ZArith Lia Bool.
Import ListNotations.
Require Import Restore2.
Open Scope N_scope.

Definition covers (m : smap) (l : mline) : Prop :=
  exists p info, map_get p m = Some info /\ In (l_path l) (rf_paths info) /\ rf_hash info = l_hash l /\ rf_size info = l_size l.
Definition Cover (steps : list step) (l : mline) : Prop := exists st, In st steps /\ covers (snd st) l.

Definition In_tf (tf : tfmap) (l : mline) : Prop := exists ps, In (l_hash l, ps) tf /\ In (l_path l, l_size l) ps.
Definition tf_wf (tf : tfmap) : Prop := NoDup (map fst tf) /\ forall h ps, In (h, ps) tf -> ps <> [].

Lemma eqb_refl : forall a, list_eqb a a = true.
Proof. intros a. destruct (list_eqb_spec a a); congruence. Qed.

(* ---- tf_push ---- *)
Lemma tf_push_keys : forall h p tf x, In x (map fst (tf_push h p tf)) <-> x = h \/ In x (map fst tf).
Proof.
  intros h p tf x. induction tf as [|[h' ps] tf IH]; cbn [tf_push map fst In].
  - intuition.
  - destruct (list_eqb_spec h h') as [->|Hne]; cbn [map fst In]; [intuition|]. rewrite IH. intuition.
Qed.

Lemma tf_push_wf : forall h p tf, tf_wf tf -> tf_wf (tf_push h p tf).
Proof.
  intros h p tf [Hnd Hne]. induction tf as [|[h' ps] tf IH]; cbn [tf_push].
  - split; [cbn; constructor; [intros []|constructor] | intros h0 ps0 [E|[]]; inversion E; discriminate].
  - destruct (list_eqb_spec h h') as [->|Hneq].
    + split; [exact Hnd|]. intros h0 ps0 [E|Hin]; [inversion E; subst; destruct ps; discriminate | apply (Hne h0 ps0); now right].
    + cbn [map fst] in Hnd. inversion Hnd as [|? ? Hnotin Hnd']; subst.
      destruct IH as [IH1 IH2]; [exact Hnd'|intros h0 ps0 Hin; apply (Hne h0 ps0); now right|].
      split.
      * cbn [map fst]. constructor; [|exact IH1]. rewrite tf_push_keys. intros [E|Hin]; [congruence|contradiction].
      * intros h0 ps0 [E|Hin]; [inversion E; subst; apply (Hne h0 ps0); now left | eauto].
Qed.

Lemma tf_push_new : forall l tf, In_tf (tf_push (l_hash l) (l_path l, l_size l) tf) l.
Proof.
  intros l tf. induction tf as [|[h' ps] tf IH]; cbn [tf_push].
  - exists [(l_path l, l_size l)]. split; now left.
  - destruct (list_eqb_spec (l_hash l) h') as [<-|Hne].
    + exists (ps ++ [(l_path l, l_size l)]). split; [now left | apply in_or_app; right; now left].
    + destruct IH as (ps' & H1 & H2). exists ps'. split; [now right | auto].
Qed.

Lemma tf_push_old : forall h p tf l, In_tf tf l -> In_tf (tf_push h p tf) l.
Proof.
  intros h p tf l (ps & H1 & H2). induction tf as [|[h' ps'] tf IH]; [destruct H1|]. cbn [tf_push].
  destruct H1 as [E|Hin].
  - inversion E; subst h' ps'. destruct (list_eqb_spec h (l_hash l)) as [->|].
    + exists (ps ++ [p]). split; [now left | apply in_or_app; now left].
    + exists ps. split; [now left|auto].
  - destruct (list_eqb_spec h h').
    + exists ps. split; [now right|auto].
    + destruct (IH Hin) as (ps2 & A & B). exists ps2. split; [now right|auto].
Qed.

(* ---- tf_remove ---- *)
Lemma tf_remove_some : forall h tf ps tf', tf_wf tf -> tf_remove h tf = (Some ps, tf') ->
  In (h, ps) tf /\ tf_wf tf' /\ (forall l, In_tf tf l -> (l_hash l = h /\ In (l_path l, l_size l) ps) \/ In_tf tf' l).
Proof.
  intros h tf. induction tf as [|[h' ps'] tf IH]; intros ps tf' [Hnd Hne] Hr; cbn [tf_remove] in Hr; [discriminate|].
  cbn [map fst] in Hnd. inversion Hnd as [|? ? Hnotin Hnd']; subst.
  destruct (list_eqb_spec h h') as [->|Hneq].
  - inversion Hr; subst ps' tf'. split; [now left|]. split.
    + split; [exact Hnd'|]. intros h0 ps0 Hin. apply (Hne h0 ps0). now right.
    + intros l (ps0 & [E|Hin] & H2).
      * inversion E; subst. left; auto.
      * right. exists ps0; auto.
  - destruct (tf_remove h tf) as [r t] eqn:Er. inversion Hr; subst r tf'.
    destruct (IH ps t) as (Hin & Hwf & Hall); [split; [exact Hnd'|intros h0 ps0 Hi; apply (Hne h0 ps0); now right]|reflexivity|].
    split; [now right|]. split.
    + destruct Hwf as [Hnd2 Hne2]. split.
      * cbn [map fst]. constructor; [|exact Hnd2]. intro Hc. apply Hnotin.
        apply in_map_iff in Hc as ((h0, ps0) & <- & Hi). cbn.
        (* entries of t come from tf *)
        assert (Hsub : forall e, In e t -> In e tf).
        { clear - Er. revert ps t Er. induction tf as [|[hh pp] tf IHt]; intros ps t Er; cbn [tf_remove] in Er; [discriminate|].
          destruct (list_eqb h hh); [inversion Er; subst; intros e He; now right|].
          destruct (tf_remove h tf) as [r2 t2] eqn:E2. inversion Er; subst. intros e [<-|He]; [now left|right; eapply IHt; eauto]. }
        apply in_map_iff. exists (h0, ps0). split; auto.
      * intros h0 ps0 [E|Hi]; [inversion E; subst; apply (Hne h0 ps0); now left | eauto].
    + intros l (ps0 & [E|Hi] & H2).
      * inversion E; subst. right. exists ps0. split; [now left|auto].
      * destruct (Hall l) as [A|(ps1 & B1 & B2)]; [exists ps0; auto|left; auto|].
        right. exists ps1. split; [now right|auto].
Qed.

Lemma tf_remove_none : forall h tf tf', tf_remove h tf = (None, tf') -> tf' = tf.
Proof.
  intros h tf. induction tf as [|[h' ps'] tf IH]; intros tf' Hr; cbn [tf_remove] in Hr; [now inversion Hr|].
  destruct (list_eqb h h'); [discriminate|]. destruct (tf_remove h tf) as [r t] eqn:Er. inversion Hr; subst.
  f_equal. apply IH. reflexivity.
Qed.

(* ---- step maps ---- *)
Lemma map_insert_same : forall p f m, map_get p (map_insert p f m) = Some f.
Proof. intros. unfold map_insert. cbn [map_get]. now rewrite eqb_refl. Qed.

Lemma map_get_filter_other : forall p q m, q <> p ->
  map_get q (filter (fun e : path * rfile => let '(r, _) := e in negb (list_eqb p r)) m) = map_get q m.
Proof.
  intros p q m Hne. induction m as [|[r f] m IH]; [reflexivity|]. cbn [filter].
  destruct (list_eqb_spec p r) as [<-|Hpr]; cbn [negb map_get].
  - destruct (list_eqb_spec q p); [congruence|exact IH].
  - destruct (list_eqb_spec q r); [reflexivity|exact IH].
Qed.

Lemma map_insert_other : forall p f m q, q <> p -> map_get q (map_insert p f m) = map_get q m.
Proof.
  intros p f m q Hne. unfold map_insert. cbn [map_get]. destruct (list_eqb_spec q p); [congruence|].
  now apply map_get_filter_other.
Qed.

Lemma covers_insert : forall p f m l, map_get p m = None -> covers m l -> covers (map_insert p f m) l.
Proof.
  intros p f m l Hnone (q & info & Hg & H1 & H2 & H3). exists q, info. repeat split; auto.
  rewrite map_insert_other; auto. intro E; subst. congruence.
Qed.

(* ---- the planner's invariant ---- *)
Section Plan.
Variable fx : fixes.
Hypothesis Hfx5 : fx5 fx = true.
Hypothesis Hfx7 : fx7 fx = true.

Definition PInv (Ls : list mline) (steps : list step) (s : pst) : Prop :=
  tf_wf (p_tf s) /\
  forall l, In l Ls -> In_tf (p_tf s) l \/ (p_ok s = true -> Cover steps l \/ covers (p_map s) l).

Lemma sizes_agree_In : forall sz ps p s, sizes_agree sz ps = true -> In (p, s) ps -> s = sz.
Proof. intros sz ps p s Ha Hin. unfold sizes_agree in Ha. rewrite forallb_forall in Ha. specialize (Ha _ Hin). cbn in Ha. now apply N.eqb_eq. Qed.

Lemma resolve_ok_mono : forall own l s, p_ok (resolve fx own l s) = true -> p_ok s = true.
Proof.
  intros own l s. unfold resolve. destruct (tf_remove (l_hash l) (p_tf s)) as [r tf'].
  destruct r as [ps|]; [|destruct own]; cbn [p_ok]; auto; intros Hk; apply andb_true_iff in Hk as [Hk _]; apply andb_true_iff in Hk as [Hk _]; auto.
Qed.

Lemma resolve_inv : forall (own : bool) (l : mline) Ls steps s, PInv Ls steps s ->
  PInv (if own then l :: Ls else Ls) steps (resolve fx own l s).
Proof.
  intros own l Ls steps s [Hwf Hall]. unfold resolve.
  destruct (tf_remove (l_hash l) (p_tf s)) as [r tf'] eqn:Er.
  assert (Hcase : (r = None /\ own = false) \/ ~ (r = None /\ own = false)).
  { destruct r; [right; intros [? ?]; discriminate|]. destruct own; [right; intros [? ?]; discriminate | left; auto]. }
  destruct Hcase as [[-> ->]|Hnot]; [split; auto|].
  set (ps := match r with Some ps => ps | None => [] end).
  set (newf := {| rf_hash := l_hash l; rf_size := l_size l; rf_paths := map fst ps ++ (if own then [l_path l] else []) |}).
  set (dup := match map_get (l_path l) (p_map s) with Some _ => true | None => false end).
  assert (Hshape : forall (T : Type) (a b : T), match r, own with None, false => a | _, _ => b end = b).
  { intros T a b. destruct r; [reflexivity|]. destruct own; [reflexivity|]. exfalso; apply Hnot; auto. }
  rewrite Hshape. clear Hshape.
  assert (Htf : tf_wf tf' /\ forall l0, In_tf (p_tf s) l0 -> (l_hash l0 = l_hash l /\ In (l_path l0, l_size l0) ps) \/ In_tf tf' l0).
  { destruct r as [ps0|].
    - destruct (tf_remove_some _ _ _ _ Hwf Er) as (_ & Hwf' & Hsplit). split; auto.
    - apply tf_remove_none in Er. subst tf'. split; auto. }
  destruct Htf as [Hwf' Hsplit].
  split; [exact Hwf'|]. cbn [p_tf p_ok p_map].
  assert (Hold : forall l0, (p_ok s && (negb (fx5 fx) || sizes_agree (l_size l) ps) && (negb (fx7 fx) || negb dup)) = true ->
                 covers (p_map s) l0 -> covers (map_insert (l_path l) newf (p_map s)) l0).
  { intros l0 Hk Hc. apply andb_true_iff in Hk as [_ Hk]. rewrite Hfx7 in Hk. cbn [negb orb] in Hk.
    apply covers_insert; auto. unfold dup in Hk. destruct (map_get (l_path l) (p_map s)); [discriminate|reflexivity]. }
  intros l0 Hin0.
  assert (Hl0 : (own = true /\ l0 = l) \/ In l0 Ls).
  { destruct own; [destruct Hin0 as [<-|]; auto | auto]. }
  destruct Hl0 as [[-> ->]|HinLs].
  - (* the resolving own line itself *)
    right. intros _. right. exists (l_path l), newf. split; [apply map_insert_same|].
    repeat split; auto. unfold newf; cbn [rf_paths]. apply in_or_app. right. now left.
  - destruct (Hall l0 HinLs) as [Htf0|Hcov].
    + destruct (Hsplit l0 Htf0) as [[Hh Hp]|Hstill]; [|left; exact Hstill].
      right. intros Hk. right. exists (l_path l), newf. split; [apply map_insert_same|].
      unfold newf; cbn [rf_paths rf_hash rf_size]. repeat split; auto.
      * apply in_or_app. left. apply in_map_iff. exists (l_path l0, l_size l0). auto.
      * apply andb_true_iff in Hk as [Hk _]. apply andb_true_iff in Hk as [_ Hk]. rewrite Hfx5 in Hk. cbn [negb orb] in Hk.
        symmetry. eapply sizes_agree_In; eauto.
    + right. intros Hk. assert (Hks : p_ok s = true).
      { apply andb_true_iff in Hk as [Hk _]. apply andb_true_iff in Hk as [Hk _]. exact Hk. }
      destruct (Hcov Hks) as [Hc|Hc]; [left; exact Hc | right; apply Hold; auto].
Qed.

Lemma fold_own : forall ol Ls steps s, PInv Ls steps s ->
  PInv (rev ol ++ Ls) steps (fold_left (fun s l => resolve fx true l s) ol s).
Proof.
  induction ol as [|l ol IH]; intros Ls steps s HP; cbn [fold_left rev app]; [exact HP|].
  rewrite <- app_assoc. cbn [app]. apply IH. apply (resolve_inv true l Ls steps s HP).
Qed.

Lemma fold_push : forall ext tf done, tf_wf tf -> (forall l, In l done -> In_tf tf l) ->
  let tf' := fold_left (fun tf l => tf_push (l_hash l) (l_path l, l_size l) tf) ext tf in
  tf_wf tf' /\ forall l, In l ext \/ In l done -> In_tf tf' l.
Proof.
  induction ext as [|x ext IH]; intros tf done Hwf Hd; cbn [fold_left].
  - split; auto. intros l [[]|H]; auto.
  - destruct (IH (tf_push (l_hash x) (l_path x, l_size x) tf) (x :: done)) as [H1 H2].
    + now apply tf_push_wf.
    + intros l [<-|Hin]; [apply tf_push_new | apply tf_push_old; auto].
    + split; auto. intros l [[<-|Hin]|Hin]; apply H2; [right; now left | now left | right; now right].
Qed.

Definition RInv (Ls : list mline) (steps : list step) (s : pst) : Prop :=
  tf_wf (p_tf s) /\ forall l, In l Ls -> In_tf (p_tf s) l \/ (p_ok s = true -> Cover steps l).

Lemma plan_target_inv : forall b, RInv (b_manifest b) [(b, p_map (plan_target fx b))] (plan_target fx b).
Proof.
  intros b. unfold plan_target.
  set (own := filter is_own (b_manifest b)). set (ext := filter (fun l => negb (is_own l)) (b_manifest b)).
  destruct (fold_push ext [] []) as [Hwf0 Hin0]; [split; [constructor|intros ? ? []] | intros ? [] |].
  set (tf0 := fold_left (fun tf l => tf_push (l_hash l) (l_path l, l_size l) tf) ext []) in *.
  assert (HP0 : PInv ext [] {| p_tf := tf0; p_exts := []; p_map := []; p_ok := true |}).
  { split; [exact Hwf0|]. intros l Hl. left. apply Hin0. now left. }
  pose proof (fold_own own ext [] _ HP0) as [Hwf Hall].
  split; [exact Hwf|]. intros l Hl.
  assert (Hmem : In l (rev own ++ ext)).
  { apply in_or_app. destruct (is_own l) eqn:Eo; [left; apply in_rev; rewrite rev_involutive; apply filter_In; auto
                                                 | right; apply filter_In; rewrite Eo; auto]. }
  destruct (Hall l Hmem) as [A|B]; [left; exact A|]. right. intros Hk. destruct (B Hk) as [(st & [] & _)|C].
  exists (b, p_map (fold_left (fun s l0 => resolve fx true l0 s) own {| p_tf := tf0; p_exts := []; p_map := []; p_ok := true |})).
  split; [now left|exact C].
Qed.

Lemma plan_older_inv : forall b Ls steps s, RInv Ls steps s ->
  PInv Ls steps (plan_older fx b s) /\ (p_ok (plan_older fx b s) = true -> p_ok s = true).
Proof.
  intros b Ls steps s [Hwf Hall]. unfold plan_older.
  set (s0 := {| p_tf := p_tf s; p_exts := p_exts s; p_map := []; p_ok := p_ok s |}).
  assert (HP0 : PInv Ls steps s0 /\ (p_ok s0 = true -> p_ok s = true)).
  { split; [|auto]. split; [exact Hwf|]. intros l Hl. destruct (Hall l Hl) as [A|B]; [left; exact A | right; intros Hk; left; auto]. }
  revert HP0. generalize s0. induction (b_manifest b) as [|x xs IH]; intros s1 [HP Hk]; cbn [fold_left]; [auto|].
  apply IH. destruct (p_tf s1) eqn:Et; [auto|]. destruct (l_unique x); [|auto].
  split; [apply (resolve_inv false x Ls steps s1 HP) | intros H1; apply Hk; eapply resolve_ok_mono; eauto].
Qed.

Lemma Cover_app : forall steps extra l, Cover steps l -> Cover (steps ++ extra) l.
Proof. intros steps extra l (st & Hin & Hc). exists st. split; [apply in_or_app; now left | auto]. Qed.

Lemma plan_rest_inv : forall older Ls s steps steps' s', RInv Ls steps s ->
  plan_rest fx older s steps = (steps', s') -> RInv Ls steps' s' /\ (p_ok s' = true -> p_ok s = true).
Proof.
  induction older as [|b older IH]; intros Ls s steps steps' s' HR Hp; cbn [plan_rest] in Hp.
  - inversion Hp; subst. auto.
  - destruct (p_tf s) eqn:Et; [inversion Hp; subst; auto|].
    destruct (plan_older_inv b Ls steps s HR) as [[Hwf Hall] Hk].
    set (s1 := plan_older fx b s) in *.
    assert (HR1 : RInv Ls (match p_map s1 with [] => steps | m => steps ++ [(b, m)] end) s1).
    { split; [exact Hwf|]. intros l Hl. destruct (Hall l Hl) as [A|B]; [left; exact A|]. right. intros Hk1.
      destruct (B Hk1) as [C|C].
      - destruct (p_map s1); [exact C | apply Cover_app; exact C].
      - destruct (p_map s1) as [|e m] eqn:Em.
        + destruct C as (p0 & info & Hg & _). discriminate.
        + exists (b, e :: m). split; [apply in_or_app; right; now left | exact C]. }
    destruct (IH _ _ _ _ _ HR1 Hp) as [HR' Hk']. split; auto.
Qed.

(* C11, plan half: with the two planner repairs, a clean plan covers every manifest line of the target *)
Theorem plan_cover : forall group name b older steps exts pok,
  split_at name (rev group) = Some (b, older) ->
  plan fx group name = Some (steps, exts, [], pok) -> pok = true ->
  forall l, In l (b_manifest b) -> Cover steps l.
Proof.
  intros group name b older steps exts pok Hs Hp Hok l Hl. unfold plan in Hp. rewrite Hs in Hp.
  destruct (plan_rest fx older (plan_target fx b) [(b, p_map (plan_target fx b))]) as [steps0 s'] eqn:Er.
  inversion Hp; subst steps0 exts pok. clear Hp.
  destruct (plan_rest_inv _ _ _ _ _ _ (plan_target_inv b) Er) as [[Hwf Hall] _].
  destruct (Hall l Hl) as [(ps & Hin & Hp2)|B]; [|auto].
  exfalso. assert (Hm : In (l_path l) (map fst (concat (map snd (p_tf s'))))).
  { apply in_map_iff. exists (l_path l, l_size l). split; auto. apply in_concat. exists ps. split; auto.
    apply in_map_iff. exists (l_hash l, ps). auto. }
  rewrite H2 in Hm. destruct Hm.
Qed.
End Plan.
