(* C12 — a backup is durable before it is named and before anything older is deleted.
   Persistence model as the property prescribes it: file data persists only by fsync(file), a directory's entries only
   by fsync(directory); a crash keeps the group directory as its persisted entries with ANY sub-selection of the
   pending entry operations applied in order, and a file complete iff its entry and all its bytes are persisted. *)
From Coq Require Import List Arith NArith Lia Bool.
Import ListNotations.
Require Import Durable DurableProof DurableRun.

(* an accepted trace is crash-safe at every prefix: every crash state shows only complete final-named backups *)
Theorem C12_durable_ok_sound : forall ops s s', INV s -> run s ops = Some s' ->
  INV s' /\ forall k sk, run s (firstn k ops) = Some sk -> DurableSafe sk.
Proof. exact durable_ok_sound. Qed.
Check C12_durable_ok_sound : forall ops s s', INV s -> run s ops = Some s' ->
  INV s' /\ forall k sk, run s (firstn k ops) = Some sk -> DurableSafe sk.

(* when removal of an older group starts or success is reported, every name of the group directory is in every crash state *)
Theorem C12_report_after_persist : forall ops1 o ops2 s s1, INV s -> run s ops1 = Some s1 -> (o = RmOther \/ o = ReportOk) ->
  durable_ok s (ops1 ++ o :: ops2) = true -> forall n, lookup n (gv s1) <> None -> Published s1 n.
Proof. exact report_after_persist. Qed.
Check C12_report_after_persist : forall ops1 o ops2 s s1, INV s -> run s ops1 = Some s1 -> (o = RmOther \/ o = ReportOk) ->
  durable_ok s (ops1 ++ o :: ops2) = true -> forall n, lookup n (gv s1) <> None -> Published s1 n.

(* vsb's sequence - mkdir, two creates, any interleaving of writes, manifest fsync, further data writes, data fsync,
   directory fsync, rename, group fsync, removal, report - is accepted from every state in which the temporary and the
   final name are fresh, for all write lists; also when the run first removes any set of abandoned temporaries *)
Theorem C12_run_durable : forall s T F ws1 ws2, Fresh s T F -> durable_ok s (vsb_run T F ws1 ws2) = true.
Proof. exact run_durable. Qed.
Check C12_run_durable : forall s T F ws1 ws2, Fresh s T F -> durable_ok s (vsb_run T F ws1 ws2) = true.
Theorem C12_run_durable_reuse : forall temps s T F ws1 ws2, Fresh s T F ->
  (forall n, In n temps -> fst n = true /\ lookup n (gv s) <> None) -> NoDup temps ->
  durable_ok s (map RmTemp temps ++ vsb_run T F ws1 ws2) = true.
Proof. exact run_durable_reuse. Qed.
Check C12_run_durable_reuse : forall temps s T F ws1 ws2, Fresh s T F ->
  (forall n, In n temps -> fst n = true /\ lookup n (gv s) <> None) -> NoDup temps ->
  durable_ok s (map RmTemp temps ++ vsb_run T F ws1 ws2) = true.

(* non-vacuity and sensitivity: the full sequence is accepted; dropping either file fsync, the directory fsync or the
   group fsync is rejected; a write after publication is rejected *)
Example C12_example :
  durable_ok s_init vsb_ops = true /\
  map (fun k => durable_ok s_init (drop k vsb_ops)) [7; 9; 10; 12] = [false; false; false; false] /\
  durable_ok s_init (firstn 12 vsb_ops ++ [Write F Data 1] ++ skipn 12 vsb_ops) = false.
Proof. vm_compute. auto. Qed.

Print Assumptions C12_durable_ok_sound.
Print Assumptions C12_run_durable.
Print Assumptions C12_run_durable_reuse.
