(* C13 — verification and staleness checks flag exactly the unhealthy storages. *)
From Coq Require Import List Arith NArith Lia Bool.
Import ListNotations.
Require Import Verify VerifyRuns VerifyKill Alarm Duration F3 NameClass.

(* First claim: the verifier (listing + per-group sequential inspection, transcribed from BackupGroup::list/read/inspect
   and Backup::inspect) accepts exactly the storages satisfying the declarative Healthy predicate: no unexpected entry
   at root or group level, the first final-named backup of every group bears the group's date, every final-named
   backup has both files, a readable non-empty manifest, and every non-empty extern line is preceded in its group by a
   unique line of the same hash.  Healthy is written without reference to the verifier's traversal. *)
Theorem C13_verify_iff : forall st, verify st = true <-> Healthy st.
Proof. exact verify_iff. Qed.
Check C13_verify_iff : forall st, verify st = true <-> Healthy st.

(* Second claim, one run at a time.  Publishing run: from healthy groups, provided an empty newest group bears today's
   date (F3free - its negation is exactly the open finding F3) and the new manifest is non-empty and recoverable after
   the backups the group already has (what C02 provides), the groups after publication are healthy. *)
Theorem C13_publish_healthy : forall gs max day time ls gs',
  Forall HealthyGroup gs -> F3free gs day ->
  (forall g, last gs {| g_day := 0; g_entries := [] |} = g -> group_recoverable [] (finals (g_entries g) ++
      [{| b_day := day; b_time := time; has_data := true; has_meta := true; manifest := Some ls |}])) ->
  ls <> [] -> lines_ok [] ls ->
  publish gs max day time ls = Some gs' -> Forall HealthyGroup gs'.
Proof. exact publish_healthy. Qed.
Check C13_publish_healthy : forall gs max day time ls gs',
  Forall HealthyGroup gs -> F3free gs day ->
  (forall g, last gs {| g_day := 0; g_entries := [] |} = g -> group_recoverable [] (finals (g_entries g) ++
      [{| b_day := day; b_time := time; has_data := true; has_meta := true; manifest := Some ls |}])) ->
  ls <> [] -> lines_ok [] ls ->
  publish gs max day time ls = Some gs' -> Forall HealthyGroup gs'.

(* a run that fails after group selection, and a run killed anywhere outside old-group removal, keep every group healthy *)
Theorem C13_fail_keeps_healthy : forall gs max day, Forall HealthyGroup gs -> Forall HealthyGroup (fail_after_select gs max day).
Proof. exact fail_keeps_healthy. Qed.
Check C13_fail_keeps_healthy : forall gs max day, Forall HealthyGroup gs -> Forall HealthyGroup (fail_after_select gs max day).
Theorem C13_kill_keeps_healthy : forall gs max day gs', Forall HealthyGroup gs -> killed gs max day gs' -> Forall HealthyGroup gs'.
Proof. exact kill_keeps_healthy. Qed.
Check C13_kill_keeps_healthy : forall gs max day gs', Forall HealthyGroup gs -> killed gs max day gs' -> Forall HealthyGroup gs'.

(* the open finding F3, as a theorem about the faithful model: a failed first run on day 1, then a publishing run on
   day 2, gives a storage the verifier rejects *)
Theorem C13_F3_refuted :
  exists gs, fail_after_select [] 3 1 = gs /\
  exists gs', publish gs 3 2 0 [line] = Some gs' /\ verify (map RGroup gs') = false.
Proof. exact F3_witness. Qed.
Check C13_F3_refuted :
  exists gs, fail_after_select [] 3 1 = gs /\
  exists gs', publish gs 3 2 0 [line] = Some gs' /\ verify (map RGroup gs') = false.

(* Third claim: with a threshold and the newest backup not in the future, the age alarm is raised iff there is no backup
   or the newest one is at least `threshold` old; trailing empty groups do not hide older backups; without a threshold
   only "no backups" is reported *)
Theorem C13_alarm_iff : forall groups now thr,
  (forall t, newest_backup groups = Some t -> (t <= now)%N) ->
  is_alarm (check groups now (Some thr)) = true <->
  newest_backup groups = None \/ exists t, newest_backup groups = Some t /\ (thr <= now - t)%N.
Proof. exact alarm_iff. Qed.
Check C13_alarm_iff : forall groups now thr,
  (forall t, newest_backup groups = Some t -> (t <= now)%N) ->
  is_alarm (check groups now (Some thr)) = true <->
  newest_backup groups = None \/ exists t, newest_backup groups = Some t /\ (thr <= now - t)%N.
Theorem C13_newest_skips_empty_trailing : forall gs, newest_backup (gs ++ [[]]) = newest_backup gs.
Proof. exact newest_skips_empty_trailing. Qed.
Check C13_newest_skips_empty_trailing : forall gs, newest_backup (gs ++ [[]]) = newest_backup gs.

(* the threshold itself: value = number x {60, 3600, 86400} for exactly the strings [1-9][0-9]*[mhd] that fit u64 *)
Theorem C13_duration_value : forall c ds u k n,
  lead c = true -> forallb Codec.is_digit ds = true -> unit_of u = Some k -> Codec.parse_N (c :: ds) = Some n -> (n * k < U64)%N ->
  parse_duration (c :: ds ++ [u]) = Dur (n * k).
Proof. exact parse_duration_ok. Qed.
Check C13_duration_value : forall c ds u k n,
  lead c = true -> forallb Codec.is_digit ds = true -> unit_of u = Some k -> Codec.parse_N (c :: ds) = Some n -> (n * k < U64)%N ->
  parse_duration (c :: ds ++ [u]) = Dur (n * k).

(* The names behind the classified listing ("names are classified" in Verify): what counts as a backup, a temporary, a hidden or an
   unexpected entry of a group, as a function of the entry's name (bytes) and kind - storage/traits.rs patterns + BackupGroup::read. *)
Theorem C13_backup_name_exact : forall d s n, classify_entry d s = EBackup n ->
  d = true /\ n = s /\ length s = 19%nat /\ starts_with_dot s = false.
Proof. exact backup_name_exact. Qed.
Check C13_backup_name_exact : forall d s n, classify_entry d s = EBackup n ->
  d = true /\ n = s /\ length s = 19%nat /\ starts_with_dot s = false.
Theorem C13_extended_backup_name_is_unexpected : forall d s t n, t <> [] -> classify_entry d s = EBackup n -> classify_entry d (s ++ t) = EUnexpected.
Proof. exact extended_backup_name_is_unexpected. Qed.
Check C13_extended_backup_name_is_unexpected : forall d s t n, t <> [] -> classify_entry d s = EBackup n -> classify_entry d (s ++ t) = EUnexpected.
Theorem C13_temporary_iff : forall d s n, classify_entry d s = ETemporary n <-> (d = true /\ s = DOT :: n /\ shape_second n = true).
Proof. exact temporary_iff. Qed.
Check C13_temporary_iff : forall d s n, classify_entry d s = ETemporary n <-> (d = true /\ s = DOT :: n /\ shape_second n = true).
(* finding F13: a name holding any byte >= 128 (every byte of a UTF-8 multi-byte sequence, so every non-ASCII digit) is neither a group nor a backup *)
Theorem C13_non_ascii_is_foreign : forall d s c, In c s -> (128 <= c)%N ->
  classify_root d s <> NRGroup /\ (forall n, classify_entry d s <> EBackup n).
Proof. exact non_ascii_is_foreign. Qed.
Check C13_non_ascii_is_foreign : forall d s c, In c s -> (128 <= c)%N ->
  classify_root d s <> NRGroup /\ (forall n, classify_entry d s <> EBackup n).

Print Assumptions C13_verify_iff.
Print Assumptions C13_publish_healthy.
Print Assumptions C13_kill_keeps_healthy.
Print Assumptions C13_alarm_iff.
Print Assumptions C13_backup_name_exact.
Print Assumptions C13_temporary_iff.
Print Assumptions C13_non_ascii_is_foreign.
Print Assumptions C13_extended_backup_name_is_unexpected.
