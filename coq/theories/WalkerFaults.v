(* PROTOTYPE (round 0): C08 core - a walk that reports no error and is not aborted has archived everything that is there,
   unfaulted and allowed *)
From Coq Require Import List Arith NArith Lia Bool.
Import ListNotations.
Require Import Walker.

Section F.
Variable allow : rpath -> option bool.

Definition quiet_ev (e : ev) : bool := match e with EvError _ | EvAbort _ => false | _ => true end.
Definition Quiet (es : list ev) : Prop := forallb quiet_ev es = true.

Lemma Quiet_app : forall a b, Quiet (a ++ b) <-> Quiet a /\ Quiet b.
Proof. intros. unfold Quiet. rewrite forallb_app, andb_true_iff. tauto. Qed.
Lemma Quiet_concat : forall ls, Quiet (concat ls) -> forall l, In l ls -> Quiet l.
Proof.
  induction ls as [|x ls IH]; intros Hq l Hl; [destruct Hl|]. cbn [concat] in Hq. apply Quiet_app in Hq as [A B].
  destruct Hl as [<-|Hl]; auto.
Qed.

(* without an abort the children's events are simply concatenated *)
Lemma kids_flat' : forall cs rel, snd (kids_of allow cs rel) = false ->
  fst (kids_of allow cs rel) = concat (map (child_events allow rel) cs).
Proof.
  induction cs as [|[nm c] cs IH]; intros rel Hs; [reflexivity|].
  cbn [kids_of] in Hs |- *. cbn [map concat]. unfold child_events at 1. cbn [fst snd].
  destruct (allow (rel ++ [nm])) as [[|]|].
  - destruct (walk allow c (rel ++ [nm]) false) as [ev ab] eqn:Ew. cbn [fst snd] in *. destruct ab; [discriminate|].
    cbn [fst snd] in *. rewrite IH; auto.
  - cbn [fst snd app] in *. rewrite IH; auto.
  - cbn [fst snd] in *. rewrite IH; auto.
Qed.

(* a node that the walker is expected to archive *)
Definition plain (n : node) : Prop :=
  match n with NFile _ NoFault | NDir _ NoFault | NSym _ NoFault => True | _ => False end.

Inductive WFtree : node -> Prop :=
| WF_file : forall d f, WFtree (NFile d f)
| WF_sym : forall t f, WFtree (NSym t f)
| WF_spec : WFtree NSpecial
| WF_dir : forall cs f, Forall (fun c => WFtree (snd c)) cs -> NoDup (map fst cs) -> WFtree (NDir cs f).

(* C08: exit status 0 (quiet, not aborted) means nothing that is there, unfaulted and allowed was left out *)
Theorem quiet_complete : forall n, WFtree n -> forall rel top p c,
  snd (walk allow n rel top) = false -> Quiet (fst (walk allow n rel top)) ->
  at_path n p = Some c -> plain c -> prefixes_allowed allow rel p ->
  (* every directory on the way down is itself unfaulted (a faulted one is reported or warned about, see below) *)
  (forall q r d, p = q ++ r -> r <> [] -> at_path n q = Some d -> plain d) ->
  archived (fst (walk allow n rel top)) (rel ++ p).
Proof.
  induction n using node_ind'; intros HW rel top p c Hab Hq Hat Hpl Hpa Hway.
  - destruct p; [|discriminate]. inversion Hat; subst c. destruct f; try destruct Hpl. rewrite app_nil_r. cbn. right. left. eexists. now left.
  - destruct p; [|discriminate]. inversion Hat; subst c. destruct f; try destruct Hpl. rewrite app_nil_r. cbn. right. right. eexists. now left.
  - destruct p; [|discriminate]. inversion Hat; subst c. destruct Hpl.
  - inversion HW as [| | |cs0 f0 HWcs ND]; subst.
    destruct p as [|nm p'].
    + inversion Hat; subst c. destruct f; try destruct Hpl. rewrite app_nil_r, walk_dir. left. now left.
    + assert (Hroot : plain (NDir cs f)) by (apply (Hway [] (nm :: p') (NDir cs f)); [reflexivity|discriminate|reflexivity]).
      destruct f; try destruct Hroot. rewrite walk_dir in *. cbn [fst snd] in *.
      rewrite (kids_flat' cs rel Hab) in *.
      cbn [at_path] in Hat. destruct (find_child nm cs) as [ch|] eqn:Ef; [|discriminate].
      apply find_child_some in Ef. apply prefixes_cons in Hpa as [Hal Hpa'].
      change (EvDir rel :: concat (map (child_events allow rel) cs)) with ([EvDir rel] ++ concat (map (child_events allow rel) cs)) in *.
      apply Quiet_app in Hq as [_ Hq]. apply archived_app. right. apply archived_concat.
      exists (child_events allow rel (nm, ch)). split; [apply in_map; auto|].
      pose proof (Quiet_concat _ Hq (child_events allow rel (nm, ch)) (in_map _ _ _ Ef)) as Hqc.
      unfold child_events in *. cbn [fst snd] in *. rewrite Hal in *.
      replace (rel ++ nm :: p') with ((rel ++ [nm]) ++ p') by (now rewrite <- app_assoc).
      rewrite Forall_forall in H. rewrite Forall_forall in HWcs.
      apply (H (nm, ch) Ef (HWcs (nm, ch) Ef) (rel ++ [nm]) false p' c); auto.
      * (* the child did not abort, otherwise the whole walk would have *)
        cbn [fst snd]. clear - Hab Ef Hal. induction cs as [|[m0 c0] cs IH]; [destruct Ef|]. cbn [kids_of] in Hab.
        destruct Ef as [E|Ef].
        -- inversion E; subst. rewrite Hal in Hab. destruct (snd (walk allow ch (rel ++ [nm]) false)) eqn:Es; [|reflexivity]. cbn [snd] in Hab. rewrite Es in Hab. discriminate.
        -- apply IH; auto. destruct (allow (rel ++ [m0])) as [[|]|]; cbn [fst snd] in Hab; auto.
           destruct (snd (walk allow c0 (rel ++ [m0]) false)) eqn:Es; [cbn [snd] in Hab; rewrite Es in Hab; discriminate|exact Hab].
      * intros q r d E Hr Hd. apply (Hway (nm :: q) r d); [cbn; now rewrite E | exact Hr |].
        cbn [at_path]. rewrite (find_child_In nm cs ch ND Ef). exact Hd.
Qed.
End F.
Print Assumptions quiet_complete.
