(* PROTOTYPE (round 0): dedup model + group invariant (C02/C09/C13 core) *)
From Coq Require Import List Arith NArith ZArith Lia Bool.
Import ListNotations.
Open Scope N_scope.

Section Dedup.
Variable hash : Type.
Variable heqb : hash -> hash -> bool.
Hypothesis heqb_spec : forall a b, reflect (a = b) (heqb a b).
Variable H : list N -> hash.
Variable EMPTY : hash.

Definition path := list N.
Variable peqb : path -> path -> bool.
Hypothesis peqb_spec : forall a b, reflect (a = b) (peqb a b).
Definition fp := (N * N * Z)%type.
Definition fp_eqb (a b : fp) : bool :=
  let '(d1, i1, m1) := a in let '(d2, i2, m2) := b in (d1 =? d2) && (i1 =? i2) && (m1 =? m2)%Z.

Record mline := { l_unique : bool; l_hash : hash; l_fp : fp; l_size : N; l_path : path }.

Definition hmem (h : hash) (l : list hash) := existsb (heqb h) l.

(* repair of finding F6 (commit d28d72c): the "unchanged since the last backup" shortcut also requires the recorded
   size to equal the current one.  fx6 = false is the behaviour before the repair. *)
Variable fx6 : bool.

(* ---- verification (BackupGroup::inspect / Backup::inspect) ---- *)
Fixpoint inspect_lines (acc : list hash) (ls : list mline) : bool * list hash :=
  match ls with
  | [] => (true, acc)
  | l :: ls' =>
    if l_unique l then inspect_lines (l_hash l :: acc) ls'
    else let bad := negb (l_size l =? 0) && negb (hmem (l_hash l) acc) in
         let '(r, acc') := inspect_lines acc ls' in (negb bad && r, acc')
  end.
Fixpoint inspect_group (acc : list hash) (g : list (list mline)) : bool :=
  match g with
  | [] => true
  | b :: g' => let '(r, acc') := inspect_lines acc b in r && inspect_group acc' g'
  end.
Definition group_ok (g : list (list mline)) := inspect_group [] g.

(* ---- one backup run (BackupInstance::add_file / deduplicate / load_backups_metadata) ---- *)
Record wfile := { w_path : path; w_fp : fp; w_data : list N }.   (* static file: fstat size = |data| *)
Definition w_size f := N.of_nat (length (w_data f)).

Definition uniques (ls : list mline) : list hash := map l_hash (filter l_unique ls).
Definition load_known (g : list (list mline)) : list hash := concat (map uniques g).
(* HashMap insert: the last line for a path wins *)
Fixpoint last_lookup (p : path) (ls : list mline) : option mline :=
  match ls with
  | [] => None
  | l :: ls' => match last_lookup p ls' with Some x => Some x | None => if peqb p (l_path l) then Some l else None end
  end.

Definition shortcut (f : wfile) (l : mline) : bool :=
  fp_eqb (w_fp f) (l_fp l) && (negb fx6 || (w_size f =? l_size l)).

Definition add_file (known : list hash) (last : list mline) (f : wfile) : mline * list hash :=
  if w_size f =? 0 then
    ({| l_unique := false; l_hash := EMPTY; l_fp := w_fp f; l_size := 0; l_path := w_path f |}, known)
  else
    match last_lookup (w_path f) last with
    | Some l => if shortcut f l
                then ({| l_unique := false; l_hash := l_hash l; l_fp := w_fp f; l_size := w_size f; l_path := w_path f |}, known)
                else let h := H (w_data f) in
                     if hmem h known
                     then ({| l_unique := false; l_hash := h; l_fp := w_fp f; l_size := w_size f; l_path := w_path f |}, known)
                     else ({| l_unique := true; l_hash := h; l_fp := w_fp f; l_size := w_size f; l_path := w_path f |}, h :: known)
    | None => let h := H (w_data f) in
              if hmem h known
              then ({| l_unique := false; l_hash := h; l_fp := w_fp f; l_size := w_size f; l_path := w_path f |}, known)
              else ({| l_unique := true; l_hash := h; l_fp := w_fp f; l_size := w_size f; l_path := w_path f |}, h :: known)
    end.

Fixpoint run_lines (known : list hash) (last : list mline) (fs : list wfile) : list mline :=
  match fs with
  | [] => []
  | f :: fs' => let '(l, known') := add_file known last f in l :: run_lines known' last fs'
  end.

Definition new_backup (g : list (list mline)) (fs : list wfile) : list mline :=
  run_lines (load_known g) (last g []) fs.

(* the premise the proof forces (finding F6 lives exactly in its negation) *)
Definition FpSize (g : list (list mline)) (fs : list wfile) : Prop :=
  forall f l, In f fs -> w_size f <> 0 -> last_lookup (w_path f) (last g []) = Some l ->
              shortcut f l = true -> l_size l <> 0.

(* with the repair the premise always holds *)
Lemma FpSize_repaired : fx6 = true -> forall g fs, FpSize g fs.
Proof.
  intros Hfx g fs f l _ Hnz _ Hs. unfold shortcut in Hs. rewrite Hfx in Hs. cbn [negb orb] in Hs.
  apply andb_true_iff in Hs as [_ Hs]. apply N.eqb_eq in Hs. congruence.
Qed.

(* ---------------- proofs ---------------- *)
Lemma hmem_In : forall h l, hmem h l = true <-> In h l.
Proof.
  intros h l. unfold hmem. rewrite existsb_exists. split.
  - intros (x & Hx & He). destruct (heqb_spec h x); [subst; auto | discriminate].
  - intros Hin. exists h. split; auto. destruct (heqb_spec h h); auto.
Qed.

Lemma inspect_lines_acc : forall ls acc, snd (inspect_lines acc ls) = rev (uniques ls) ++ acc.
Proof.
  induction ls as [|l ls IH]; intros acc; cbn [inspect_lines]; [reflexivity|].
  unfold uniques in *. cbn [filter]. destruct (l_unique l).
  - rewrite IH. cbn [map rev]. now rewrite <- app_assoc.
  - destruct (inspect_lines acc ls) eqn:E. cbn [snd]. specialize (IH acc). rewrite E in IH. exact IH.
Qed.

(* declarative reading of the per-backup check *)
Definition lines_ok (acc : list hash) (ls : list mline) : Prop :=
  forall l1 x l2, ls = l1 ++ x :: l2 -> l_unique x = false -> l_size x <> 0 ->
                  In (l_hash x) (uniques l1 ++ acc).

Lemma inspect_lines_iff : forall ls acc, fst (inspect_lines acc ls) = true <-> lines_ok acc ls.
Proof.
  induction ls as [|l ls IH]; intros acc; cbn [inspect_lines].
  - split; auto. intros _ l1 x l2 E. destruct l1; discriminate.
  - destruct (l_unique l) eqn:Hu.
    + rewrite IH. unfold lines_ok. split.
      * intros Hok l1 x l2 E Hx Hs. destruct l1 as [|y l1]; inversion E; subst; [congruence|].
        specialize (Hok l1 x l2 eq_refl Hx Hs). unfold uniques in *. cbn [filter]. rewrite Hu. cbn [map app].
        apply in_app_or in Hok. destruct Hok as [Hi|[Hi|Hi]]; [right; apply in_or_app; auto | left; auto | right; apply in_or_app; auto].
      * intros Hok l1 x l2 E Hx Hs. specialize (Hok (l :: l1) x l2). cbn [app] in Hok. rewrite E in Hok.
        specialize (Hok eq_refl Hx Hs). unfold uniques in *. cbn [filter] in Hok. rewrite Hu in Hok. cbn [map app] in Hok.
        destruct Hok as [Hi|Hi]; [apply in_or_app; right; left; auto|].
        apply in_app_or in Hi. apply in_or_app. destruct Hi; [left; auto | right; right; auto].
    + destruct (inspect_lines acc ls) as [r acc'] eqn:E. cbn [fst]. specialize (IH acc). rewrite E in IH. cbn [fst] in IH.
      rewrite andb_true_iff, negb_true_iff, andb_false_iff, !negb_false_iff, IH. unfold lines_ok. split.
      * intros [Hb Hok] l1 x l2 El Hx Hs. destruct l1 as [|y l1]; inversion El; subst.
        -- cbn. destruct Hb as [Hz|Hm]; [apply N.eqb_eq in Hz; congruence | now apply hmem_In].
        -- specialize (Hok l1 x l2 eq_refl Hx Hs). unfold uniques in *. cbn [filter]. now rewrite Hu.
      * intros Hok. split.
        -- destruct (N.eqb_spec (l_size l) 0); [left; auto|right]. apply hmem_In. apply (Hok [] l ls eq_refl Hu n).
        -- intros l1 x l2 El Hx Hs. specialize (Hok (l :: l1) x l2). cbn [app] in Hok. rewrite El in Hok.
           specialize (Hok eq_refl Hx Hs). unfold uniques in *. cbn [filter] in Hok. now rewrite Hu in Hok.
Qed.

Fixpoint acc_of (acc : list hash) (g : list (list mline)) : list hash :=
  match g with [] => acc | b :: g' => acc_of (snd (inspect_lines acc b)) g' end.

Lemma acc_of_In : forall g acc h, In h (acc_of acc g) <-> In h (load_known g) \/ In h acc.
Proof.
  induction g as [|b g IH]; intros acc h; cbn [acc_of].
  - cbn. tauto.
  - rewrite IH, inspect_lines_acc. unfold load_known. cbn [map concat]. rewrite !in_app_iff, <- in_rev. tauto.
Qed.

Lemma inspect_group_app : forall g acc b,
  inspect_group acc (g ++ [b]) = inspect_group acc g && fst (inspect_lines (acc_of acc g) b).
Proof.
  induction g as [|b0 g IH]; intros acc b; cbn [app inspect_group acc_of].
  - destruct (inspect_lines acc b); cbn. now rewrite andb_true_r.
  - destruct (inspect_lines acc b0) as [r a] eqn:E. cbn [snd]. rewrite IH. now rewrite andb_assoc.
Qed.

Lemma lines_ok_ext : forall A B ls, (forall h, In h A -> In h B) -> lines_ok A ls -> lines_ok B ls.
Proof.
  unfold lines_ok. intros A B ls HAB Hok l1 x l2 E Hx Hs. specialize (Hok l1 x l2 E Hx Hs).
  rewrite in_app_iff in *. destruct Hok; auto.
Qed.

Lemma uniques_In : forall ls l, In l ls -> l_unique l = true -> In (l_hash l) (uniques ls).
Proof. intros ls l Hin Hu. unfold uniques. apply in_map. apply filter_In; auto. Qed.

(* in a verified group every non-empty record of the last backup has its hash among the group's uniques *)
Lemma last_hash_known : forall g l, group_ok g = true -> In l (last g []) -> l_size l <> 0 ->
  In (l_hash l) (load_known g).
Proof.
  intros g l Hok Hin Hs. destruct (exists_last (l := g)) as (g' & b & ->).
  { intro E; subst; cbn in Hin; contradiction. }
  rewrite last_last in Hin. unfold group_ok in Hok. rewrite inspect_group_app in Hok.
  apply andb_true_iff in Hok as [_ Hb]. apply inspect_lines_iff in Hb.
  assert (HK : forall h, In h (uniques b) \/ In h (load_known g') -> In h (load_known (g' ++ [b]))).
  { intros h Hh. unfold load_known. rewrite map_app, concat_app. cbn. rewrite app_nil_r, in_app_iff. tauto. }
  destruct (l_unique l) eqn:Hu.
  - apply HK. left. now apply uniques_In.
  - apply in_split in Hin as (l1 & l2 & ->). specialize (Hb l1 l l2 eq_refl Hu Hs).
    apply in_app_or in Hb as [Hb|Hb].
    + apply HK. left. unfold uniques in *. rewrite filter_app, map_app. apply in_or_app; auto.
    + apply acc_of_In in Hb as [Hb|[]]. apply HK; auto.
Qed.

Lemma last_lookup_In : forall p ls l, last_lookup p ls = Some l -> In l ls.
Proof.
  induction ls as [|x ls IH]; intros l; cbn [last_lookup]; [discriminate|].
  destruct (last_lookup p ls) eqn:E.
  - intros [= <-]. right; auto.
  - destruct (peqb p (l_path x)); [intros [= <-]; left; auto | discriminate].
Qed.

(* C02 core: one more run keeps the group verifiable *)
Theorem run_preserves_group_ok : forall g fs,
  group_ok g = true -> FpSize g fs -> group_ok (g ++ [new_backup g fs]) = true.
Proof.
  intros g fs Hok Hfp. unfold group_ok. rewrite inspect_group_app. apply andb_true_iff. split; [exact Hok|].
  apply inspect_lines_iff. apply (lines_ok_ext (load_known g)).
  { intros h Hh. apply acc_of_In; auto. }
  unfold new_backup.
  assert (Hgen : forall fs' K pre, (forall f, In f fs' -> In f fs) ->
            (forall h, In h K -> In h (pre ++ load_known g)) ->
            forall l1 x l2, run_lines K (last g []) fs' = l1 ++ x :: l2 -> l_unique x = false -> l_size x <> 0 ->
            In (l_hash x) (uniques l1 ++ pre ++ load_known g)).
  { induction fs' as [|f fs' IH]; intros K pre Hsub HK l1 x l2 E Hx Hs; cbn [run_lines] in E.
    - destruct l1; discriminate.
    - destruct (add_file K (last g []) f) as [l K'] eqn:Ea.
      assert (Hf : In f fs) by (apply Hsub; left; auto).
      (* facts about the emitted line and the new known set *)
      assert (Hl : (l_unique l = false -> l_size l <> 0 -> In (l_hash l) (pre ++ load_known g)) /\
                   (forall h, In h K' -> In h ((if l_unique l then [l_hash l] else []) ++ pre ++ load_known g))).
      { revert Ea. unfold add_file. destruct (N.eqb_spec (w_size f) 0) as [Hz|Hnz].
        - intros Ea; inversion Ea; subst; cbn [l_unique l_hash l_size app]. split; [congruence| auto].
        - destruct (last_lookup (w_path f) (last g [])) as [ll|] eqn:El.
          + destruct (shortcut f ll) eqn:Efp.
            * intros Ea; inversion Ea; subst; cbn [l_unique l_hash l_size app]. split; [|auto]. intros _ _. apply in_or_app. right.
              apply last_hash_known; auto. eapply last_lookup_In; eauto. eapply Hfp; eauto.
            * destruct (hmem (H (w_data f)) K) eqn:Em; intros Ea; inversion Ea; subst; cbn [l_unique l_hash l_size app].
              -- split; [intros _ _; apply HK; now apply hmem_In | auto].
              -- split; [congruence|]. intros h [<-|Hh]; [left; auto | right; auto].
          + destruct (hmem (H (w_data f)) K) eqn:Em; intros Ea; inversion Ea; subst; cbn [l_unique l_hash l_size app].
            * split; [intros _ _; apply HK; now apply hmem_In | auto].
            * split; [congruence|]. intros h [<-|Hh]; [left; auto | right; auto]. }
      destruct Hl as [Hl1 Hl2].
      destruct l1 as [|y l1]; cbn [app] in E; injection E as Ey Erest; subst l.
      + cbn [uniques filter map app]. apply Hl1; auto.
      + specialize (IH K' ((if l_unique y then [l_hash y] else []) ++ pre)).
        assert (Hsub' : forall f0, In f0 fs' -> In f0 fs) by (intros; apply Hsub; right; auto).
        specialize (IH Hsub').
        assert (HK' : forall h, In h K' -> In h (((if l_unique y then [l_hash y] else []) ++ pre) ++ load_known g)).
        { intros h Hh. rewrite <- app_assoc. auto. }
        specialize (IH HK' l1 x l2 Erest Hx Hs).
        unfold uniques in *. cbn [filter]. destruct (l_unique y); cbn [map app] in *.
        * apply in_app_or in IH. destruct IH as [IH|[IH|IH]].
          -- right. apply in_or_app. left. exact IH.
          -- left. exact IH.
          -- right. apply in_or_app. right. exact IH.
        * exact IH. }
  intros l1 x l2 E Hx Hs. specialize (Hgen fs (load_known g) [] (fun f H0 => H0)).
  cbn [app] in Hgen. apply (Hgen (fun h H0 => H0) l1 x l2 E Hx Hs).
Qed.

(* C02 with unreadable manifests: [known] and [last] are whatever could be loaded (any subset of the group's
   manifests; [last] empty when the newest one is unreadable).  Whatever they are, a non-empty extern line of the
   new backup either refers to content in [known] or stored earlier in this very backup, or repeats - same path,
   same fingerprint, same hash - a line the previous backup already had: the run adds no damage of its own. *)
Theorem run_no_new_damage : forall fs known last l1 x l2,
  run_lines known last fs = l1 ++ x :: l2 -> l_unique x = false -> l_size x <> 0 ->
  In (l_hash x) (known ++ uniques l1) \/
  (exists l', last_lookup (l_path x) last = Some l' /\ l_hash x = l_hash l' /\ fp_eqb (l_fp x) (l_fp l') = true).
Proof.
  induction fs as [|f fs IH]; intros known last l1 x l2 E Hu Hs; [destruct l1; discriminate|].
  cbn [run_lines] in E. destruct (add_file known last f) as [l known'] eqn:Ea.
  assert (Hk : (l_unique l = true /\ known' = l_hash l :: known) \/ (l_unique l = false /\ known' = known)).
  { unfold add_file in Ea. destruct (w_size f =? 0); [inversion Ea; auto|].
    destruct (last_lookup (w_path f) last) as [l0|].
    - destruct (shortcut f l0); [inversion Ea; auto|].
      destruct (hmem (H (w_data f)) known); inversion Ea; auto.
    - destruct (hmem (H (w_data f)) known); inversion Ea; auto. }
  destruct l1 as [|y l1]; cbn [app] in E; inversion E; subst.
  - (* x is the line of f *)
    clear IH E. unfold add_file in Ea. destruct (w_size f =? 0) eqn:Ez.
    + inversion Ea; subst. cbn in Hs. congruence.
    + destruct (last_lookup (w_path f) last) as [l0|] eqn:El.
      * destruct (shortcut f l0) eqn:Ef.
        -- inversion Ea; subst. cbn [l_path l_hash l_fp]. right. exists l0. unfold shortcut in Ef. apply andb_true_iff in Ef as [Ef _]. auto.
        -- destruct (hmem (H (w_data f)) known) eqn:Em; inversion Ea; subst; cbn in Hu; try discriminate.
           left. cbn [l_hash uniques]. rewrite app_nil_r. now apply hmem_In.
      * destruct (hmem (H (w_data f)) known) eqn:Em; inversion Ea; subst; cbn in Hu; try discriminate.
        left. cbn [l_hash]. rewrite app_nil_r. now apply hmem_In.
  - match goal with Hr : run_lines known' last fs = _ |- _ => destruct (IH _ _ _ _ _ Hr Hu Hs) as [Hin|Hr'] end; [|right; exact Hr'].
    left. apply in_app_iff in Hin as [Hin|Hin].
    + destruct Hk as [[Huy ->]|[_ ->]].
      * destruct Hin as [<-|Hin]; [|apply in_app_iff; auto].
        apply in_app_iff. right. unfold uniques. cbn [filter]. rewrite Huy. now left.
      * apply in_app_iff; auto.
    + apply in_app_iff. right. unfold uniques in *. cbn [filter]. destruct (l_unique y); [right|]; exact Hin.
Qed.

(* C02 over histories of one group: runs that publish append a backup, runs that fail or are killed publish nothing.
   [None] = a failed run (a stutter step). *)
Fixpoint group_history (g : list (list mline)) (runs : list (option (list wfile))) : list (list mline) :=
  match runs with
  | [] => g
  | None :: r => group_history g r
  | Some fs :: r => group_history (g ++ [new_backup g fs]) r
  end.
Fixpoint HistoryFpSize (g : list (list mline)) (runs : list (option (list wfile))) : Prop :=
  match runs with
  | [] => True
  | None :: r => HistoryFpSize g r
  | Some fs :: r => FpSize g fs /\ HistoryFpSize (g ++ [new_backup g fs]) r
  end.

Theorem history_group_ok : forall runs g, group_ok g = true -> HistoryFpSize g runs -> group_ok (group_history g runs) = true.
Proof.
  induction runs as [|[fs|] runs IH]; intros g Hok Hf; cbn [group_history HistoryFpSize] in *; auto.
  destruct Hf as [H1 H2]. apply IH; auto. now apply run_preserves_group_ok.
Qed.

Corollary history_from_empty_ok : forall runs, HistoryFpSize [] runs -> group_ok (group_history [] runs) = true.
Proof. intros. now apply history_group_ok. Qed.

(* with the repair: unconditional *)
Lemma HistoryFpSize_repaired : fx6 = true -> forall runs g, HistoryFpSize g runs.
Proof.
  intros Hfx runs; induction runs as [|[fs|] runs IH]; intro g; cbn [HistoryFpSize]; auto.
  split; [now apply FpSize_repaired | apply IH].
Qed.
Theorem run_preserves_group_ok_repaired : fx6 = true -> forall g fs,
  group_ok g = true -> group_ok (g ++ [new_backup g fs]) = true.
Proof. intros Hfx g fs Hok. apply run_preserves_group_ok; auto. now apply FpSize_repaired. Qed.
Theorem history_group_ok_repaired : fx6 = true -> forall runs g,
  group_ok g = true -> group_ok (group_history g runs) = true.
Proof. intros Hfx runs g Hok. apply history_group_ok; auto. now apply HistoryFpSize_repaired. Qed.
End Dedup.
Print Assumptions run_preserves_group_ok.
Print Assumptions run_no_new_damage.
Print Assumptions history_group_ok.

(* F6 inside the model: before the repair (fx6 = false) the run breaks the group, after it (fx6 = true) it does not
   (hash := list N, H := id) *)
Fixpoint leqb (a b : list N) : bool :=
  match a, b with [], [] => true | x :: a', y :: b' => (x =? y) && leqb a' b' | _, _ => false end.
Definition f0 : fp := (1, 2, 3%Z).
Definition g6 : list (list (mline (list N))) :=
  [[ {| l_unique := false; l_hash := []; l_fp := f0; l_size := 0; l_path := [7] |} ]].
Definition fs6 := [ {| w_path := [7]; w_fp := f0; w_data := [97; 98; 99] |} ].
Example F6_refuted :
  group_ok (list N) leqb g6 = true /\
  group_ok (list N) leqb (g6 ++ [new_backup (list N) leqb (fun d => d) [] leqb false g6 fs6]) = false /\
  group_ok (list N) leqb (g6 ++ [new_backup (list N) leqb (fun d => d) [] leqb true g6 fs6]) = true.
Proof. vm_compute. auto. Qed.
