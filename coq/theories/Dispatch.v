(* One entry point for the extracted driver and for cases.v: (tag arg) -> result. *)
From Coq Require Import List NArith.
Import ListNotations.
Require Import Wire W_C18 W_C17 W_C15 W_C14 W_C10 W_C06 W_C20 W_C11 W_Paths W_C13 W_C02 W_C12 W_C03 W_C19 W_C16 W_C05 W_Names.
Local Open Scope N_scope.

Definition dispatch (v : val) : val :=
  match v with
  | VL [VN 1800; a] => run_c18_chunked a
  | VL [VN 1801; a] => run_c18_md5 a
  | VL [VN 1700; a] => run_c17 a
  | VL [VN 1500; a] => run_c15 a
  | VL [VN 1400; a] => run_c14 a
  | VL [VN 1000; a] => run_c10_encode a
  | VL [VN 1001; a] => run_c10_decode a
  | VL [VN 600; a] => run_c06 a
  | VL [VN 2000; a] => run_c20 a
  | VL [VN 1100; a] => run_c11_exec a
  | VL [VN 1101; a] => run_restore_path a
  | VL [VN 1102; a] => run_tar_path a
  | VL [VN 2001; a] => run_validate_path a
  | VL [VN 1300; a] => run_c13_verify a
  | VL [VN 1350; a] => run_names a
  | VL [VN 1301; a] => run_c13_alarm a
  | VL [VN 700; a] => run_c07_publish a
  | VL [VN 701; a] => run_c07_fail a
  | VL [VN 200; a] => run_c02_backup a
  | VL [VN 201; a] => run_c02_group_ok a
  | VL [VN 1200; a] => run_c12 a
  | VL [VN 300; a] => run_c03 a
  | VL [VN 1900; a] => run_c19 a
  | VL [VN 1600; a] => run_c16 a
  | VL [VN 500; a] => run_c05_dropbox a
  | VL [VN 501; a] => run_c05_yandex a
  | VL [VN 502; a] => run_c05_google a
  | _ => bad_input
  end.
