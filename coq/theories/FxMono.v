(* PROTOTYPE (round 0): the repair switches only ever turn the ok flag off - so every success proved for a model with
   more checks (in particular history_restore, proved with fx5 and fx7 on) holds for today's code with the same tree *)
From Coq Require Import List Arith NArith ZArith Lia Bool.
Import ListNotations.
Require Import Restore2.

Definition weaker (fx' fx : fixes) : Prop :=
  (fx2 fx' = true -> fx2 fx = true) /\ (fx5 fx' = true -> fx5 fx = true) /\ (fx7 fx' = true -> fx7 fx = true).

(* ---------- planning ---------- *)
Definition psim (s s' : pst) : Prop :=
  p_tf s' = p_tf s /\ p_exts s' = p_exts s /\ p_map s' = p_map s /\ (p_ok s = true -> p_ok s' = true).

Lemma impl_or : forall a a' b : bool, (a' = true -> a = true) -> (negb a || b = true -> negb a' || b = true).
Proof. intros [|] [|] [|] H; cbn; auto; try (specialize (H eq_refl); discriminate). Qed.

Section Mono.
Variable fx fx' : fixes.
Hypothesis W : weaker fx' fx.

Lemma resolve_sim : forall own l s s', psim s s' -> psim (resolve fx own l s) (resolve fx' own l s').
Proof.
  intros own l s s' (A & B & C & D). unfold resolve. rewrite A, B, C.
  destruct (tf_remove (l_hash l) (p_tf s)) as [r tf'] eqn:E.
  destruct r as [ps|]; [|destruct own]; try (repeat split; auto; fail);
    (split; [reflexivity|]; split; [reflexivity|]; split; [reflexivity|]; cbn [p_ok]; intro Hk;
     apply andb_true_iff in Hk as [Hk K7]; apply andb_true_iff in Hk as [K0 K5];
     destruct W as (_ & W5 & W7); rewrite (D K0), (impl_or _ _ _ W5 K5), (impl_or _ _ _ W7 K7); reflexivity).
Qed.

Lemma plan_target_sim : forall b, psim (plan_target fx b) (plan_target fx' b).
Proof.
  intro b. unfold plan_target.
  set (s0 := {| p_tf := _; p_exts := []; p_map := []; p_ok := true |}).
  assert (H0 : psim s0 s0) by (repeat split; auto).
  revert H0. generalize s0 at 1 3. generalize s0.
  induction (filter is_own (b_manifest b)) as [|l ls IH]; intros s s' Hs; cbn [fold_left]; auto.
  apply IH. now apply resolve_sim.
Qed.

Lemma plan_older_sim : forall b s s', psim s s' -> psim (plan_older fx b s) (plan_older fx' b s').
Proof.
  intros b s s' (A & B & C & D). unfold plan_older. rewrite A, B.
  assert (H0 : psim {| p_tf := p_tf s; p_exts := p_exts s; p_map := []; p_ok := p_ok s |}
                    {| p_tf := p_tf s; p_exts := p_exts s; p_map := []; p_ok := p_ok s' |}) by (repeat split; auto).
  revert H0. generalize {| p_tf := p_tf s; p_exts := p_exts s; p_map := []; p_ok := p_ok s |}.
  generalize {| p_tf := p_tf s; p_exts := p_exts s; p_map := []; p_ok := p_ok s' |}.
  induction (b_manifest b) as [|l ls IH]; intros t' t Ht; cbn [fold_left]; auto.
  apply IH. pose proof Ht as (A' & _). rewrite A'. destruct (p_tf t) eqn:Et; [exact Ht|].
  destruct (l_unique l); [apply resolve_sim; exact Ht|exact Ht].
Qed.

Lemma plan_rest_sim : forall older s s' steps, psim s s' ->
  fst (plan_rest fx' older s' steps) = fst (plan_rest fx older s steps) /\
  psim (snd (plan_rest fx older s steps)) (snd (plan_rest fx' older s' steps)).
Proof.
  induction older as [|b older IH]; intros s s' steps Hs; cbn [plan_rest]; [split; auto|].
  pose proof Hs as (A & _). rewrite A. destruct (p_tf s); [split; auto|].
  pose proof (plan_older_sim b s s' Hs) as Ho. pose proof Ho as (_ & _ & Cm & _). rewrite Cm. apply IH. exact Ho.
Qed.

Lemma plan_sim : forall g n,
  match plan fx g n, plan fx' g n with
  | Some (st, ex, mi, ok), Some (st', ex', mi', ok') => st' = st /\ ex' = ex /\ mi' = mi /\ (ok = true -> ok' = true)
  | None, None => True
  | _, _ => False end.
Proof.
  intros g n. unfold plan. destruct (split_at n (rev g)) as [[b older]|]; [|exact I].
  pose proof (plan_target_sim b) as Ht. pose proof Ht as (_ & _ & Cm & _). rewrite Cm.
  destruct (plan_rest_sim older _ _ [(b, p_map (plan_target fx b))] Ht) as [F (A & B & C & D)].
  destruct (plan_rest fx older (plan_target fx b) _) as [st s1]. destruct (plan_rest fx' older (plan_target fx' b) _) as [st' s1'].
  cbn [fst snd] in *. subst st'. rewrite A, B. auto.
Qed.

(* ---------- execution: the state, up to the ok flag ---------- *)
Definition set_ok (s : rs) (b : bool) : rs :=
  {| tr := tr s; pre := pre s; pending := pending s; restored := restored s; sched := sched s; ok := b; seen := seen s |}.
Definition rsim (s s' : rs) : Prop := exists b, s' = set_ok s b /\ (ok s = true -> b = true).
Definition osim (x y : option rs) : Prop :=
  match x, y with Some r, Some r' => rsim r r' | None, None => True | _, _ => False end.

Lemma rsim_intro : forall s b, (ok s = true -> b = true) -> rsim s (set_ok s b).
Proof. intros. exists b. auto. Qed.

Ltac fin := first [ exact I | (eexists; split; [reflexivity|]; cbn [ok set_ok]; auto) ].

Lemma restore_one_sim : forall p out it q s s', rsim s s' -> osim (restore_one p out it q s) (restore_one p out it q s').
Proof.
  intros p out it q s s' (b & -> & Hb). unfold restore_one. cbn [set_ok tr pre pending restored sched seen ok].
  destruct (it && list_eqb q p).
  - cbn [tr set_ok]. destruct (create q (RFile out None) (tr s)); cbn [osim]; [unfold set_tr; cbn; fin|fin].
  - destruct (mem q (pending s)); [|cbn; fin]. destruct it.
    + destruct (restore_directories q (tr s)) as [[t' cr]|]; [|cbn; fin]. cbn [tr].
      destruct (create q (RFile out None) t'); cbn [osim]; [unfold set_tr; cbn; fin|fin].
    + cbn [tr]. destruct (create q (RFile out None) (tr s)); cbn [osim]; [unfold set_tr; cbn; fin|fin].
Qed.

Lemma restore_paths_sim : forall p out it qs s s', rsim s s' -> osim (restore_paths p out it qs s) (restore_paths p out it qs s').
Proof.
  intros p out it qs; induction qs as [|q qs IH]; intros s s' Hs; cbn [restore_paths]; [exact Hs|].
  pose proof (restore_one_sim p out it q s s' Hs) as H1.
  destruct (restore_one p out it q s), (restore_one p out it q s'); cbn [osim] in H1; try contradiction; auto.
Qed.

Lemma restore_files_sim : forall p m dec data info it s s', rsim s s' ->
  osim (restore_files p m dec data info it s) (restore_files p m dec data info it s').
Proof.
  intros p m dec data info it s s' Hs. unfold restore_files.
  pose proof (restore_paths_sim p (take (N.min (rf_size info) dec) data ++ repeat 0%N (N.to_nat (rf_size info) - length (take (N.min (rf_size info) dec) data))) it (rf_paths info) s s' Hs) as H1.
  destruct (restore_paths _ _ _ _ s) as [s2|], (restore_paths _ _ _ _ s') as [s2'|]; cbn [osim] in H1; try contradiction; [|exact I].
  destruct (negb _); [exact I|]. destruct (negb _); [exact I|].
  destruct H1 as (b & -> & Hb). cbn [set_ok tr].
  destruct (it && mem p (rf_paths info)); [|cbn; fin].
  destruct (t_setmeta p m (tr s2)); cbn [osim]; [unfold set_tr; cbn; fin|fin].
Qed.

Lemma do_entry_sim : forall files missing it e s s', rsim s s' -> osim (do_entry files missing it e s) (do_entry files missing it e s').
Proof.
  intros files missing it e s s' Hs. destruct e as [p m|p m dec data|p m t]; cbn [do_entry].
  - destruct it; [|exact Hs]. destruct Hs as (b & -> & Hb). cbn [set_ok tr pre pending restored sched seen ok].
    destruct (mem p (pre s)); [cbn; fin|]. destruct (create p (RDir None) (tr s)); cbn [osim]; [unfold set_tr; cbn; fin|fin].
  - destruct (map_get p files) as [info|].
    + pose proof (restore_files_sim p m dec data info it s s' Hs) as H1.
      destruct (restore_files p m dec data info it s) as [r|], (restore_files p m dec data info it s') as [r'|]; cbn [osim] in H1; try contradiction; [|exact I].
      destruct H1 as (b & -> & Hb). cbn [osim set_ok tr pre pending restored sched seen ok]. fin.
    + destruct it; [|exact Hs]. destruct Hs as (b & -> & Hb). cbn [set_ok tr pre pending restored sched seen ok].
      destruct (mem p (pending s) || mem p (restored s)).
      * cbn [osim]. eexists; split; [reflexivity|]. cbn [ok]. intro Hk. apply andb_true_iff in Hk as [K1 K2]. now rewrite (Hb K1), K2.
      * destruct (mem p missing); cbn [osim]; [fin|]. eexists; split; [reflexivity|]. cbn. discriminate.
  - destruct it; [|exact Hs]. destruct Hs as (b & -> & Hb). cbn [set_ok tr].
    destruct (create p (RSym t m) (tr s)); cbn [osim]; [unfold set_tr; cbn; fin|fin].
Qed.

Lemma do_entries_sim : forall files missing it es s s', rsim s s' -> osim (do_entries files missing it es s) (do_entries files missing it es s').
Proof.
  intros files missing it es; induction es as [|e es IH]; intros s s' Hs; cbn [do_entries]; [exact Hs|].
  pose proof (do_entry_sim files missing it e s s' Hs) as H1.
  destruct (do_entry files missing it e s), (do_entry files missing it e s'); cbn [osim] in H1; try contradiction; auto.
Qed.

Lemma do_step_sim : forall missing it st s s', rsim s s' -> osim (do_step fx missing it st s) (do_step fx' missing it st s').
Proof.
  intros missing it st s s' (b & -> & Hb). unfold do_step. cbn [set_ok tr pre pending restored sched seen ok].
  assert (H0 : rsim {| tr := tr s; pre := pre s; pending := pending s; restored := restored s; sched := sched s; ok := ok s; seen := [] |}
                    {| tr := tr s; pre := pre s; pending := pending s; restored := restored s; sched := sched s; ok := b; seen := [] |})
    by (exists b; split; [reflexivity|exact Hb]).
  pose proof (do_entries_sim (snd st) missing it (b_archive (fst st)) _ _ H0) as H1.
  destruct (do_entries _ _ _ _ _) as [r|], (do_entries _ _ _ _ _) as [r'|]; cbn [osim] in H1; try contradiction; [|exact I].
  destruct H1 as (b1 & -> & Hb1). cbn [osim set_ok tr pre pending restored sched seen ok].
  eexists; split; [reflexivity|]. cbn [ok]. intro Hk. apply andb_true_iff in Hk as [K1 K2].
  destruct W as (W2 & _ & _). now rewrite (Hb1 K1), (impl_or _ _ _ W2 K2).
Qed.

Lemma do_steps_sim : forall missing steps first s s', rsim s s' -> osim (do_steps fx missing first steps s) (do_steps fx' missing first steps s').
Proof.
  intros missing steps; induction steps as [|st steps IH]; intros first s s' Hs; cbn [do_steps]; [exact Hs|].
  pose proof (do_step_sim missing first st s s' Hs) as H1.
  destruct (do_step fx missing first st s), (do_step fx' missing first st s'); cbn [osim] in H1; try contradiction; auto.
Qed.

(* a success under more checks is the same success under fewer *)
Theorem exec_weaken : forall g n t, exec fx g n = Some (t, true) -> exec fx' g n = Some (t, true).
Proof.
  intros g n t E. unfold exec in *. pose proof (plan_sim g n) as Hp.
  destruct (plan fx g n) as [[[[st ex] mi] pok]|]; [|discriminate].
  destruct (plan fx' g n) as [[[[st' ex'] mi'] pok']|]; [|contradiction]. destruct Hp as (-> & -> & -> & Hok).
  set (s0 := {| tr := []; pre := []; pending := ex; restored := []; sched := []; ok := pok && match mi with [] => true | _ => false end; seen := [] |}) in E.
  set (s0' := {| tr := []; pre := []; pending := ex; restored := []; sched := []; ok := pok' && match mi with [] => true | _ => false end; seen := [] |}).
  assert (H0 : rsim s0 s0').
  { exists (ok s0'). split; [reflexivity|]. unfold s0, s0'. cbn [ok]. intro Hk. apply andb_true_iff in Hk as [K1 K2]. rewrite (Hok K1). exact K2. }
  pose proof (do_steps_sim mi st true s0 s0' H0) as H1.
  destruct (do_steps fx mi true st s0) as [s|]; [|discriminate].
  destruct (do_steps fx' mi true st s0') as [s'|]; [|contradiction]. destruct H1 as (b & -> & Hb).
  cbn [set_ok tr pending sched pre ok]. destruct (apply_sched (pending s) (rev (sched s)) (tr s)) as [t0|]; [|discriminate].
  injection E as Et Ek. subst t0. f_equal. f_equal.
  apply andb_true_iff in Ek as [Ek K3]. apply andb_true_iff in Ek as [K1 K2]. rewrite (Hb K1). cbn [andb]. rewrite K2. cbn [andb]. exact K3.
Qed.
End Mono.

Lemma today_weakest : forall fx, weaker today fx.
Proof. intro fx. repeat split; cbn; discriminate. Qed.

Corollary success_holds_today : forall fx g n t, exec fx g n = Some (t, true) -> exec today g n = Some (t, true).
Proof. intros fx g n t. apply exec_weaken. apply today_weakest. Qed.
Print Assumptions success_holds_today.
