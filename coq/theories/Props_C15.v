(* C15 — files changing during a run never corrupt the backup. *)
From Coq Require Import List Arith NArith Lia Bool.
Import ListNotations.
Require Import FileReader AddFileDyn W_C15 FileReaderPrefix AddFileStable.
Local Open Scope nat_scope.

(* FileReader over an ARBITRARY underlying reader (any sequence of short reads, early EOF, data after EOF; the only
   assumption is that a read never returns more than the buffer holds) and any positive buffer sizes: if the consumer
   finishes, the entry has exactly the declared size, it is the real bytes followed by zeros, and bytes_read counts
   exactly the real (= hashed) bytes.  Fuel exhaustion is impossible. *)
Theorem C15_file_reader_exact :
  forall (S : Type) (rd : S -> nat -> option (list N) * S),
  (forall s n bs s', rd s n = (Some bs, s') -> length bs <= n) ->
  forall bz : nat -> nat, (forall i, bz i >= 1) ->
  forall s size,
  match run S rd bz s size with
  | Done _ out f => length out = size /\ out = real S f ++ repeat 0%N (size - length (real S f)) /\
                    bytes_read S f = length (real S f) /\ length (real S f) <= size
  | Failed _ => True
  | OutOfFuel _ => False
  end.
Proof. exact file_reader_exact. Qed.
Check C15_file_reader_exact :
  forall (S : Type) (rd : S -> nat -> option (list N) * S),
  (forall s n bs s', rd s n = (Some bs, s') -> length bs <= n) ->
  forall bz : nat -> nat, (forall i, bz i >= 1) ->
  forall s size,
  match run S rd bz s size with
  | Done _ out f => length out = size /\ out = real S f ++ repeat 0%N (size - length (real S f)) /\
                    bytes_read S f = length (real S f) /\ length (real S f) <= size
  | Failed _ => True
  | OutOfFuel _ => False
  end.

(* add_file over a file that may change at any read (two passes, seek(0) between): a `unique` record's entry has
   exactly the declared size, its first `size` bytes hash to the recorded hash, the rest is zero padding. *)
Theorem C15_unique_record_exact :
  forall (S : Type) (rd : S -> nat -> option (list N) * S),
  (forall s n bs s', rd s n = (Some bs, s') -> length bs <= n) ->
  forall (rewind : S -> S) (bz1 bz2 : nat -> nat), (forall i, bz2 i >= 1) ->
  forall (hash : Type) (Hh : list N -> hash) (known : hash -> bool) (EMPTY : hash),
  forall s declared h size entry,
  add_file S rd rewind bz1 bz2 hash Hh known EMPTY s declared None = Unique hash h size entry ->
  length entry = declared /\ size <= declared /\ Hh (firstn size entry) = h /\
  skipn size entry = repeat 0%N (declared - size).
Proof. exact unique_record_exact. Qed.
Check C15_unique_record_exact :
  forall (S : Type) (rd : S -> nat -> option (list N) * S),
  (forall s n bs s', rd s n = (Some bs, s') -> length bs <= n) ->
  forall (rewind : S -> S) (bz1 bz2 : nat -> nat), (forall i, bz2 i >= 1) ->
  forall (hash : Type) (Hh : list N -> hash) (known : hash -> bool) (EMPTY : hash),
  forall s declared h size entry,
  add_file S rd rewind bz1 bz2 hash Hh known EMPTY s declared None = Unique hash h size entry ->
  length entry = declared /\ size <= declared /\ Hh (firstn size entry) = h /\
  skipn size entry = repeat 0%N (declared - size).

(* an `extern` record made by the first pass carries hash and length of the bytes that pass read, and that hash is
   already stored in the group *)
Theorem C15_extern_by_hash_exact :
  forall (S : Type) (rd : S -> nat -> option (list N) * S),
  (forall s n bs s', rd s n = (Some bs, s') -> length bs <= n) ->
  forall (rewind : S -> S) (bz1 bz2 : nat -> nat), (forall i, bz1 i >= 1) ->
  forall (hash : Type) (Hh : list N -> hash) (known : hash -> bool) (EMPTY : hash),
  forall s declared h size,
  add_file S rd rewind bz1 bz2 hash Hh known EMPTY s declared None = Extern hash h size -> declared <> 0 ->
  exists bytes, h = Hh bytes /\ size = length bytes /\ size <= declared /\ known h = true.
Proof. exact extern_by_hash_exact. Qed.
Check C15_extern_by_hash_exact :
  forall (S : Type) (rd : S -> nat -> option (list N) * S),
  (forall s n bs s', rd s n = (Some bs, s') -> length bs <= n) ->
  forall (rewind : S -> S) (bz1 bz2 : nat -> nat), (forall i, bz1 i >= 1) ->
  forall (hash : Type) (Hh : list N -> hash) (known : hash -> bool) (EMPTY : hash),
  forall s declared h size,
  add_file S rd rewind bz1 bz2 hash Hh known EMPTY s declared None = Extern hash h size -> declared <> 0 ->
  exists bytes, h = Hh bytes /\ size = length bytes /\ size <= declared /\ known h = true.

(* the instance the correspondence check executes *)
Theorem C15_scripted_reader_instance : forall sizes sc size,
  match run (list sitem) srd (bz_of sizes) sc size with
  | Done _ out f => length out = size /\ out = real _ f ++ repeat 0%N (size - length (real _ f)) /\
                    bytes_read _ f = length (real _ f) /\ length (real _ f) <= size
  | Failed _ => True
  | OutOfFuel _ => False
  end.
Proof. exact scripted_file_reader_exact. Qed.
Check C15_scripted_reader_instance : forall sizes sc size,
  match run (list sitem) srd (bz_of sizes) sc size with
  | Done _ out f => length out = size /\ out = real _ f ++ repeat 0%N (size - length (real _ f)) /\
                    bytes_read _ f = length (real _ f) /\ length (real _ f) <= size
  | Failed _ => True
  | OutOfFuel _ => False
  end.

(* ... and for that reader the real (hashed, counted) bytes are exactly the first `size` bytes the file delivered before
   its first end-of-file: a prefix of what was on disk for a file that shrank or grew *)
Theorem C15_real_is_prefix : forall sizes sc size out f,
  run (list sitem) srd (bz_of sizes) sc size = Done _ out f ->
  real _ f = firstn size (before_eof sc).
Proof. exact scripted_real_is_prefix. Qed.
Check C15_real_is_prefix : forall sizes sc size out f,
  run (list sitem) srd (bz_of sizes) sc size = Done _ out f ->
  real _ f = firstn size (before_eof sc).

(* non-vacuity: a file that shrinks to 2 bytes while 5 were declared *)
Example C15_example :
  match run (list sitem) srd (bz_of [4]) [SData [7;8]%N; SEof; SData [9]%N] 5 with
  | Done _ out f => out = [7;8;0;0;0]%N /\ bytes_read _ f = 2
  | _ => False end.
Proof. vm_compute. split; reflexivity. Qed.

(* a file that does not change while it is read (both read passes deliver the same content c before their first end-of-file, with any
   short reads, and the declared size is its length) gets a truthful record: size = |c|, hash = H c, and a unique entry is exactly c *)
Theorem C15_stable_file_truthful : forall (hash : Type) (Hh : list N -> hash) (known : hash -> bool) (EMPTY : hash) sizes1 sizes2 sc1 sc2 c,
  before_eof sc1 = c -> before_eof sc2 = c ->
  match add_file (list sitem) srd (fun _ => sc2) (bz_of sizes1) (bz_of sizes2) hash Hh known EMPTY sc1 (length c) None with
  | Unique _ h size entry => c <> [] /\ h = Hh c /\ size = length c /\ entry = c
  | Extern _ h size => (c = [] /\ h = EMPTY /\ size = 0) \/ (c <> [] /\ h = Hh c /\ size = length c /\ known h = true)
  | Abort _ => True
  end.
Proof. exact stable_file_truthful. Qed.
Check C15_stable_file_truthful : forall (hash : Type) (Hh : list N -> hash) (known : hash -> bool) (EMPTY : hash) sizes1 sizes2 sc1 sc2 c,
  before_eof sc1 = c -> before_eof sc2 = c ->
  match add_file (list sitem) srd (fun _ => sc2) (bz_of sizes1) (bz_of sizes2) hash Hh known EMPTY sc1 (length c) None with
  | Unique _ h size entry => c <> [] /\ h = Hh c /\ size = length c /\ entry = c
  | Extern _ h size => (c = [] /\ h = EMPTY /\ size = 0) \/ (c <> [] /\ h = Hh c /\ size = length c /\ known h = true)
  | Abort _ => True
  end.

Print Assumptions C15_file_reader_exact.
Print Assumptions C15_unique_record_exact.
Print Assumptions C15_extern_by_hash_exact.
Print Assumptions C15_stable_file_truthful.
