(* C15: for the scripted reader the correspondence check executes, the real (hashed) bytes are exactly the first
   `size` bytes the file delivered before its first end-of-file: a prefix of what was on disk for a file that shrank
   or grew. *)
From Coq Require Import List Arith NArith Lia Bool ZifyBool ZifyNat.
Import ListNotations.
Require Import FileReader W_C15.

Fixpoint before_eof (sc : list sitem) : list N :=
  match sc with
  | SData (b :: bs) :: r => (b :: bs) ++ before_eof r
  | _ => []
  end.

Section P.
Variable P : list N.
Notation fr := (fr (list sitem)).

Definition K (f : fr) : Prop :=
  if truncated _ f then real _ f = P else real _ f ++ before_eof (src _ f) = P.

Lemma read_K : forall f n bs f', K f -> read (list sitem) srd f n = RData _ bs f' -> K f'.
Proof.
  intros f n bs f' HK Hr. unfold read in Hr.
  destruct (Nat.min n (bytes_left _ f) =? 0) eqn:E0; [inversion Hr; subst; exact HK|].
  apply Nat.eqb_neq in E0.
  destruct (truncated _ f) eqn:Et.
  - inversion Hr; subst. unfold K in *. cbn [truncated real]. rewrite Et in HK. exact HK.
  - unfold K in HK. rewrite Et in HK.
    destruct (src _ f) as [|[b| |] r] eqn:Es; cbn [srd] in Hr.
    + cbn [length Nat.eqb] in Hr. inversion Hr; subst. unfold K. cbn [truncated real]. cbn [before_eof] in HK. now rewrite app_nil_r in HK.
    + destruct (length b <=? Nat.min n (bytes_left _ f)) eqn:El.
      * destruct (length b =? 0) eqn:Eb.
        -- apply Nat.eqb_eq in Eb. destruct b; [|discriminate]. cbn [before_eof] in HK. rewrite app_nil_r in HK.
           inversion Hr; subst. unfold K. cbn [truncated real]. exact HK.
        -- apply Nat.eqb_neq in Eb. destruct b as [|x b']; [cbn in Eb; lia|]. cbn [before_eof] in HK.
           inversion Hr; subst. unfold K. cbn [truncated real src]. now rewrite <- app_assoc.
      * apply Nat.leb_gt in El.
        assert (Hf : length (firstn (Nat.min n (bytes_left _ f)) b) =? 0 = false).
        { apply Nat.eqb_neq. rewrite firstn_length. lia. }
        rewrite Hf in Hr.
        destruct b as [|x b']; [cbn in El; lia|]. cbn [before_eof] in HK.
        remember (Nat.min n (bytes_left _ f)) as k.
        assert (Hs : skipn k (x :: b') <> []).
        { intro Hc. apply (f_equal (@length N)) in Hc. rewrite skipn_length in Hc. cbn [length] in *. lia. }
        inversion Hr; subst bs f'. unfold K. cbn [truncated real src].
        destruct (skipn k (x :: b')) as [|y s'] eqn:Esk; [congruence|]. cbn [before_eof]. rewrite <- Esk.
        rewrite <- HK. rewrite <- app_assoc. f_equal. rewrite app_assoc. f_equal. apply firstn_skipn.
    + cbn [length Nat.eqb] in Hr. inversion Hr; subst. unfold K. cbn [truncated real]. cbn [before_eof] in HK. now rewrite app_nil_r in HK.
    + discriminate.
Qed.

Lemma consume_K : forall bz fuel i f out out' f', K f ->
  consume (list sitem) srd bz fuel i f out = Done _ out' f' -> K f'.
Proof.
  intros bz fuel; induction fuel as [|fu IH]; intros i f out out' f' HK Hc; cbn [consume] in Hc; [discriminate|].
  destruct (read (list sitem) srd f (bz i)) as [bs f1|] eqn:Er; [|discriminate].
  pose proof (read_K _ _ _ _ HK Er) as HK1.
  destruct bs as [|b bs']; [inversion Hc; subst; exact HK1|]. eapply IH; eauto.
Qed.
End P.

Theorem scripted_real_is_prefix : forall sizes sc size out f,
  run (list sitem) srd (bz_of sizes) sc size = Done _ out f ->
  real _ f = firstn size (before_eof sc).
Proof.
  intros sizes sc size out f Hr.
  assert (HK : K (before_eof sc) f).
  { unfold run in Hr. eapply consume_K; [|exact Hr]. unfold K, new. cbn [truncated real src]. reflexivity. }
  (* the reader's own invariant at the end: out = real ++ zeros k, k = 0 unless truncated, |out| = size *)
  pose proof (consume_spec (list sitem) srd srd_len (bz_of sizes) (bz_of_pos sizes) size (size + 1) 0 (new _ sc size) []) as Hc.
  assert (HI : Inv (list sitem) size (new _ sc size) []).
  { unfold Inv, new; cbn. repeat split; auto. exists 0. split; auto. }
  specialize (Hc HI). cbn [bytes_left new] in Hc. specialize (Hc (Nat.le_refl _)).
  unfold run in Hr. rewrite Hr in Hc. destruct Hc as ((Hl & Hbr & k & Hout & Hk) & Hz).
  assert (Hlen : length out = size) by lia.
  unfold K in HK. destruct (truncated _ f) eqn:Et.
  - rewrite <- HK. symmetry. apply firstn_all2. rewrite Hout, app_length in Hlen. lia.
  - specialize (Hk eq_refl). subst k. cbn [repeat] in Hout. rewrite app_nil_r in Hout. subst out.
    rewrite <- HK. rewrite firstn_app, <- Hlen, firstn_all, Nat.sub_diag. cbn [firstn]. now rewrite app_nil_r.
Qed.
Print Assumptions scripted_real_is_prefix.
