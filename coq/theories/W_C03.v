(* Wire glue for C03: the volatile namespace of one group under a list of calls.
   case: (s0 ops); s0 = ((t k meta_len_opt data_len_opt) ...);
   op = (0 t k) mkdir | (1 t k f) create | (2 t k f n) write n bytes | (3) sync | (4 t k t' k') rename | (5 t k) remove tree
   result: (0 ((t k meta_len_opt data_len_opt) ...)) *)
From Coq Require Import List NArith Bool Arith.
Import ListNotations.
Require Import Wire Atomic2.
Local Open Scope N_scope.

Definition dname (t k : N) : name := (negb (t =? 0), N.to_nat k).
Definition dfn (f : N) : fname := if f =? 0 then Meta else Data.
Definition zeros (n : N) : list N := repeat 0 (N.to_nat n).

Definition dec_obj (v : val) : option (name * obj) :=
  match v with
  | VL [VN t; VN k; m; d] =>
    match as_option as_N m, as_option as_N d with
    | Some m, Some d => Some (dname t k, {| meta := option_map zeros m; data := option_map zeros d |})
    | _, _ => None end
  | _ => None end.
Definition dec_op (v : val) : option op :=
  match v with
  | VL [VN 0; VN t; VN k] => Some (Mkdir (dname t k))
  | VL [VN 1; VN t; VN k; VN f] => Some (Create (dname t k) (dfn f))
  | VL [VN 2; VN t; VN k; VN f; VN n] => Some (Write (dname t k) (dfn f) (zeros n))
  | VL [VN 3] => Some Sync
  | VL [VN 4; VN t; VN k; VN t'; VN k'] => Some (Rename (dname t k) (dname t' k'))
  | VL [VN 5; VN t; VN k] => Some (RmTree (dname t k))
  | _ => None end.
Definition enc_obj (e : name * obj) : val :=
  VL [of_bool (fst (fst e)); of_nat (snd (fst e));
      of_option (fun c => of_nat (length c)) (meta (snd e)); of_option (fun c => of_nat (length c)) (data (snd e))].

Definition run_c03 (v : val) : val :=
  match v with
  | VL [s0; ops] =>
    match as_listof dec_obj s0, as_listof dec_op ops with
    | Some s0, Some ops => VL [VN 0; of_list enc_obj (apply s0 ops)]
    | _, _ => bad_input end
  | _ => bad_input end.
