(* PROTOTYPE (round 0): persistence model for one backup group and the C12 checker with soundness.
   Model prescribed by the property: file data persists only by fsync(file), a directory's entries only by
   fsync(directory); a crash keeps, per object, anything between the last persisted and the current state. *)
From Coq Require Import List Arith NArith Lia Bool.
Import ListNotations.

Definition name := (bool * nat)%type.        (* (true, k) = dot-prefixed temporary ".k"; (false, k) = final "k" *)
Definition is_final (n : name) := negb (fst n).
Definition name_eqb (a b : name) := Bool.eqb (fst a) (fst b) && (snd a =? snd b).
Lemma name_eqb_spec : forall a b, reflect (a = b) (name_eqb a b).
Proof.
  intros [a1 a2] [b1 b2]. unfold name_eqb; cbn.
  destruct (Bool.eqb_spec a1 b1); cbn; [|constructor; congruence].
  destruct (Nat.eqb_spec a2 b2); constructor; congruence.
Qed.

Inductive fname := Meta | Data.
Definition fname_eqb (a b : fname) := match a, b with Meta, Meta | Data, Data => true | _, _ => false end.

(* a backup directory object: its two possible files (volatile length, persisted length, persisted-as-entry) *)
Record fobj := { exists_v : bool; vlen : nat; plen : nat; entry_p : bool (* entry persisted in its directory *) }.
Record dobj := { fmeta : fobj; fdata : fobj; pub : bool (* ghost: has been renamed to a final name *) }.
Definition nofile := {| exists_v := false; vlen := 0; plen := 0; entry_p := false |}.
Definition getf (d : dobj) (f : fname) := match f with Meta => fmeta d | Data => fdata d end.
Definition setf (d : dobj) (f : fname) (x : fobj) := match f with Meta => {| fmeta := x; fdata := fdata d; pub := pub d |} | Data => {| fmeta := fmeta d; fdata := x; pub := pub d |} end.

(* entry operations on the group directory that are not yet persisted *)
Inductive gop := GAdd (n : name) (id : nat) | GRen (a b : name) | GDel (n : name).

Record st := {
  objs : list (nat * dobj);           (* backup directory objects by id *)
  gv : list (name * nat);             (* volatile entries of the group directory *)
  gp : list (name * nat);             (* entries persisted by the last fsync of the group directory *)
  gpend : list gop;                   (* entry operations since then *)
  next : nat
}.

Inductive op :=
| Mkdir (n : name)                    (* mkdir GROUP/n *)
| Create (n : name) (f : fname)       (* O_EXCL create GROUP/n/f *)
| Write (n : name) (f : fname) (k : nat)
| Fsync (n : name) (f : fname)
| FsyncDir (n : name)                 (* fsync the backup directory GROUP/n *)
| Rename (a b : name)                 (* rename GROUP/a -> GROUP/b *)
| FsyncGroup                          (* fsync GROUP *)
| RmTemp (n : name)                    (* removal of an abandoned temporary backup directory of this group *)
| RmOther                             (* removal of an older group starts *)
| ReportOk.                           (* the run reports success *)

Fixpoint lookup {A} (n : name) (l : list (name * A)) : option A :=
  match l with [] => None | (m, x) :: l' => if name_eqb n m then Some x else lookup n l' end.
Fixpoint oget (id : nat) (l : list (nat * dobj)) : option dobj :=
  match l with [] => None | (i, d) :: l' => if i =? id then Some d else oget id l' end.
Fixpoint oset (id : nat) (d : dobj) (l : list (nat * dobj)) : list (nat * dobj) :=
  match l with [] => [(id, d)] | (i, x) :: l' => if i =? id then (i, d) :: l' else (i, x) :: oset id d l' end.
Definition remove_n {A} (n : name) (l : list (name * A)) := filter (fun e => negb (name_eqb n (fst e))) l.

(* volatile semantics; an operation that the kernel would reject leaves the state unchanged (None) *)
Definition step (s : st) (o : op) : option st :=
  match o with
  | Mkdir n => match lookup n (gv s) with Some _ => None | None =>
      Some {| objs := oset (next s) {| fmeta := nofile; fdata := nofile; pub := false |} (objs s); gv := (n, next s) :: gv s; gp := gp s;
              gpend := gpend s ++ [GAdd n (next s)]; next := S (next s) |} end
  | Create n f => match lookup n (gv s) with None => None | Some id => match oget id (objs s) with None => None | Some d =>
      if exists_v (getf d f) then None
      else Some {| objs := oset id (setf d f {| exists_v := true; vlen := 0; plen := 0; entry_p := false |}) (objs s);
                   gv := gv s; gp := gp s; gpend := gpend s; next := next s |} end end
  | Write n f k => match lookup n (gv s) with None => None | Some id => match oget id (objs s) with None => None | Some d =>
      let x := getf d f in if negb (exists_v x) then None
      else Some {| objs := oset id (setf d f {| exists_v := true; vlen := vlen x + k; plen := plen x; entry_p := entry_p x |}) (objs s);
                   gv := gv s; gp := gp s; gpend := gpend s; next := next s |} end end
  | Fsync n f => match lookup n (gv s) with None => None | Some id => match oget id (objs s) with None => None | Some d =>
      let x := getf d f in if negb (exists_v x) then None
      else Some {| objs := oset id (setf d f {| exists_v := true; vlen := vlen x; plen := vlen x; entry_p := entry_p x |}) (objs s);
                   gv := gv s; gp := gp s; gpend := gpend s; next := next s |} end end
  | FsyncDir n => match lookup n (gv s) with None => None | Some id => match oget id (objs s) with None => None | Some d =>
      let pe (x : fobj) := {| exists_v := exists_v x; vlen := vlen x; plen := plen x; entry_p := exists_v x |} in
      Some {| objs := oset id {| fmeta := pe (fmeta d); fdata := pe (fdata d); pub := pub d |} (objs s);
              gv := gv s; gp := gp s; gpend := gpend s; next := next s |} end end
  | Rename a b => match lookup a (gv s), lookup b (gv s) with
      | Some id, None =>
        match oget id (objs s) with None => None | Some d =>
        Some {| objs := oset id {| fmeta := fmeta d; fdata := fdata d; pub := true |} (objs s);
                gv := (b, id) :: remove_n a (gv s); gp := gp s; gpend := gpend s ++ [GRen a b]; next := next s |} end
      | _, _ => None end      (* a non-empty target makes rename fail; an empty one is never produced here *)
  | FsyncGroup => Some {| objs := objs s; gv := gv s; gp := gv s; gpend := []; next := next s |}
  | RmTemp n => match lookup n (gv s) with
                | Some _ => Some {| objs := objs s; gv := remove_n n (gv s); gp := gp s; gpend := gpend s ++ [GDel n]; next := next s |}
                | None => None end
  | RmOther | ReportOk => Some s
  end.

(* ---- crash semantics ---- *)
(* persisted entries of the group after a crash: the persisted ones with any sub-selection of pending ops applied in order *)
Definition apply_gop (g : list (name * nat)) (o : gop) : list (name * nat) :=
  match o with
  | GAdd n id => (n, id) :: remove_n n g
  | GRen a b => match lookup a g with Some id => (b, id) :: remove_n b (remove_n a g) | None => g end
  | GDel n => remove_n n g
  end.
Fixpoint crash_groups (g : list (name * nat)) (pend : list gop) : list (list (name * nat)) :=
  match pend with
  | [] => [g]
  | o :: pend' => crash_groups g pend' ++ crash_groups (apply_gop g o) pend'
  end.

(* a file survives a crash complete iff its entry and all its bytes are persisted *)
Definition file_sealed (x : fobj) : bool := exists_v x && entry_p x && (plen x =? vlen x).
Definition dir_sealed (d : dobj) : bool := file_sealed (fmeta d) && file_sealed (fdata d).

(* C12: in every crash state every visible final-named backup is complete *)
Definition DurableSafe (s : st) : Prop :=
  forall g n id, In g (crash_groups (gp s) (gpend s)) -> lookup n g = Some id -> is_final n = true ->
                 exists d, oget id (objs s) = Some d /\ dir_sealed d = true.
(* ... and once removal of an older group has begun or success is reported, the new name is in every crash state *)
Definition Published (s : st) (n : name) : Prop :=
  forall g, In g (crash_groups (gp s) (gpend s)) -> lookup n g <> None.

(* ---- the checker: what a trace must satisfy (all decidable on the abstract trace) ---- *)
Definition is_GRen_from (n : name) (o : gop) := match o with GRen a _ => name_eqb a n | _ => false end.
Definition is_GAdd_of (n : name) (o : gop) := match o with GAdd m _ => name_eqb m n | _ => false end.
Definition GAdd_id_is (n : name) (id : nat) (o : gop) := match o with GAdd m i => negb (name_eqb m n) || (i =? id) | _ => true end.

Definition pubof (s : st) (n : name) : bool :=
  match lookup n (gv s) with Some id => match oget id (objs s) with Some d => pub d | None => false end | None => false end.

Definition check (s : st) (o : op) : bool :=
  match o with
  | Mkdir n => fst n && negb (existsb (is_GRen_from n) (gpend s)) && negb (existsb (is_GAdd_of n) (gpend s))
  | Create n _ | Write n _ _ => negb (pubof s n)
  | Rename a b =>
    fst a && is_final b &&
    match lookup a (gp s) with Some _ => false | None => true end &&
    match lookup a (gv s) with
    | Some id => match oget id (objs s) with Some d => dir_sealed d | None => false end && forallb (GAdd_id_is a id) (gpend s)
    | None => false end
  | RmTemp n => fst n
  | RmOther | ReportOk => match gpend s with [] => true | _ => false end
  | _ => true
  end.

Fixpoint run (s : st) (ops : list op) : option st :=
  match ops with
  | [] => Some s
  | o :: ops' => if check s o then match step s o with Some s' => run s' ops' | None => None end else None
  end.
Definition durable_ok (s : st) (ops : list op) : bool := match run s ops with Some _ => true | None => false end.

(* ---- sanity: the sequence vsb issues passes; dropping or reordering an fsync is caught ---- *)
Definition sealedf := {| exists_v := true; vlen := 10; plen := 10; entry_p := true |}.
Definition s_init := {| objs := [(0, {| fmeta := sealedf; fdata := sealedf; pub := true |})];
                        gv := [((false, 1), 0)]; gp := [((false, 1), 0)]; gpend := []; next := 1 |}.
Definition T := (true, 2). Definition F := (false, 2).
Definition vsb_ops := [Mkdir T; Create T Meta; Create T Data; Write T Data 5; Write T Meta 3; Write T Data 7;
                       Write T Meta 1; Fsync T Meta; Write T Data 2; Fsync T Data; FsyncDir T; Rename T F; FsyncGroup; RmOther; ReportOk].
Example vsb_sequence_ok : durable_ok s_init vsb_ops = true. Proof. reflexivity. Qed.
Definition drop {A} (k : nat) (l : list A) := firstn k l ++ skipn (S k) l.
Example every_fsync_needed :
  map (fun k => durable_ok s_init (drop k vsb_ops)) [7; 9; 10; 12] = [false; false; false; false].
Proof. reflexivity. Qed.
Example late_write_caught : durable_ok s_init (firstn 12 vsb_ops ++ [Write F Data 1] ++ skipn 12 vsb_ops) = false.
Proof. reflexivity. Qed.
