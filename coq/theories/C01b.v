(* PROTOTYPE (round 0): towards C01, stage 2 - the target pass over a well-formed archive *)
From Coq Require Import List Arith NArith ZArith Lia Bool.
Import ListNotations.
Require Import Restore2 Restore2Exec Restore2Plan C01a.
Open Scope N_scope.

Inductive snode := SDir (m : meta) | SFile (m : meta) (d : bytes) | SSym (m : meta) (t : bytes).
Definition snapshot := list (path * snode).

Lemma In_remove_p : forall x p l, In x (remove_p p l) <-> In x l /\ x <> p.
Proof.
  intros x p l. unfold remove_p. rewrite filter_In. split.
  - intros [Hin Hn]. split; auto. intro; subst. destruct (list_eqb_spec p p); [discriminate|congruence].
  - intros [Hin Hne]. split; auto. destruct (list_eqb_spec p x); [congruence|reflexivity].
Qed.

Section Target.
Variable sn : snapshot.
Variable uniq : path -> bool.                          (* files whose bytes are stored in the target backup *)
Hypothesis sn_nodup : NoDup (map fst sn).
Hypothesis sn_nonroot : forall p n, In (p, n) sn -> p <> [].
(* pre-order: the parent of every entry is the root or a directory that comes earlier *)
Hypothesis sn_parents : forall pre p n suf, sn = pre ++ (p, n) :: suf -> parent p = [] \/ exists m, In (parent p, SDir m) pre.

Definition fsize (d : bytes) : N := N.of_nat (length d).
Definition own (p : path) (d : bytes) : bool := uniq p || (fsize d =? 0).
Definition entry_of (e : path * snode) : entry :=
  match e with
  | (p, SDir m) => EDir p m
  | (p, SSym m t) => ESym p m t
  | (p, SFile m d) => if uniq p then EReg p m (fsize d) d else EReg p m 0 []
  end.

(* what the planner must provide for the target step (discharged from the planner's definition elsewhere) *)
Variable files : smap.
Variable missing : list path.
Variable exts : list path.
Definition is_ext (q : path) : Prop := exists m d, In (q, SFile m d) sn /\ own q d = false.
Hypothesis files_own : forall p m d, In (p, SFile m d) sn -> own p d = true ->
  exists fo, map_get p files = Some {| rf_hash := H d; rf_size := fsize d; rf_paths := fo ++ [p] |} /\
             forall q, In q fo -> exists mq, In (q, SFile mq d) sn /\ own q d = false.
Hypothesis files_only_own : forall p info, map_get p files = Some info -> exists m d, In (p, SFile m d) sn /\ own p d = true.
Hypothesis exts_ext : forall q, In q exts <-> is_ext q.
(* fan-out lists of distinct own files are disjoint, and have no repetitions *)
Hypothesis fo_disjoint : forall p1 p2 i1 i2 q, map_get p1 files = Some i1 -> map_get p2 files = Some i2 ->
  In q (rf_paths i1) -> In q (rf_paths i2) -> p1 = p2.
Hypothesis fo_nodup : forall p i, map_get p files = Some i -> NoDup (rf_paths i).
Hypothesis uniq_nonempty : forall p m d, In (p, SFile m d) sn -> uniq p = true -> fsize d <> 0.

Lemma sn_functional : forall p n1 n2, In (p, n1) sn -> In (p, n2) sn -> n1 = n2.
Proof.
  intros p n1 n2 H1 H2. clear - sn_nodup H1 H2. induction sn as [|[q n] l IH]; [destruct H1|].
  cbn [map fst] in sn_nodup. inversion sn_nodup as [|? ? Hnot Hnd]; subst.
  destruct H1 as [E1|H1], H2 as [E2|H2].
  - congruence.
  - inversion E1; subst. exfalso. apply Hnot. apply in_map_iff. exists (p, n2). auto.
  - inversion E2; subst. exfalso. apply Hnot. apply in_map_iff. exists (p, n1). auto.
  - auto.
Qed.

(* ---- the invariant of the target pass: [done] processed, [suf] still to come ---- *)
Record TI (ex : list path) (s : rs) (done suf : snapshot) : Prop := {
  ti_split : sn = done ++ suf;
  ti_closed : PClosed (tr s);
  ti_shape : forall p n, t_get p (tr s) = Some n ->
      (exists m mo, In (p, SDir m) sn /\ n = RDir mo) \/
      (exists m d, In (p, SFile m d) done /\ own p d = true /\ n = RFile d (Some m)) \/
      (exists m d, In (p, SFile m d) sn /\ own p d = false /\ n = RFile d None) \/
      (exists m t, In (p, SSym m t) done /\ n = RSym t m);
  ti_dirs : forall p m, In (p, SDir m) done -> is_dir_in (tr s) p /\ ~ In p (pre s);
  ti_files : forall p m d, In (p, SFile m d) done -> own p d = true -> t_get p (tr s) = Some (RFile d (Some m));
  ti_syms : forall p m t, In (p, SSym m t) done -> t_get p (tr s) = Some (RSym t m);
  ti_pre : forall p, In p (pre s) <-> (exists m, In (p, SDir m) suf) /\ t_get p (tr s) <> None;
  ti_ext : forall q, is_ext q ->
      (In q (pending s) /\ t_get q (tr s) = None /\ ~ In q (restored s)) \/
      (~ In q (pending s) /\ In q (restored s) /\ exists m d, In (q, SFile m d) sn /\ t_get q (tr s) = Some (RFile d None));
  ti_pending : forall q, In q (pending s) -> is_ext q;
  ti_restored : forall q, In q (restored s) -> is_ext q;
  ti_todo : forall p m d info q, In (p, SFile m d) suf -> map_get p files = Some info -> In q (rf_paths info) -> q <> p -> In q (pending s) \/ In q ex;
  ti_ok : ok s = true;
  ti_seen : forall p m d, In (p, SFile m d) done -> own p d = true -> In p (seen s);
  ti_sched : forall p m, In (p, m) (sched s) -> In (p, SDir m) sn \/ exists d, In (p, SFile m d) sn /\ own p d = false;
  ti_sched_c : (forall p m, In (p, SDir m) done -> In (p, m) (sched s)) /\
               (forall p m d, In (p, SFile m d) done -> own p d = false -> In (p, m) (sched s));
  ti_rest_fo : forall q, In q (restored s) -> exists p info, map_get p files = Some info /\ In q (rf_paths info) /\ q <> p;
  ti_done_fo : forall p m d info q, In (p, SFile m d) done -> map_get p files = Some info -> In q (rf_paths info) -> q <> p -> In q (restored s)
}.

Lemma split_mid : forall (done suf : snapshot) e, done ++ e :: suf = (done ++ [e]) ++ suf.
Proof. intros. now rewrite <- app_assoc. Qed.

Lemma in_sn_done : forall done suf e, sn = done ++ suf -> In e done -> In e sn.
Proof. intros done suf e E H. rewrite E. apply in_or_app. now left. Qed.
Lemma in_sn_suf : forall done suf e, sn = done ++ suf -> In e suf -> In e sn.
Proof. intros done suf e E H. rewrite E. apply in_or_app. now right. Qed.

(* an entry of the suffix is not in the processed part (paths are distinct) *)
Lemma done_suf_disjoint : forall done suf p n1 n2, sn = done ++ suf -> In (p, n1) done -> In (p, n2) suf -> False.
Proof.
  intros done suf p n1 n2 E H1 H2. pose proof sn_nodup as ND. rewrite E, map_app in ND.
  assert (Hd : forall x, In x (map fst done) -> ~ In x (map fst suf)).
  { clear - ND. induction (map fst done) as [|a l IH]; intros x Hx; [destruct Hx|]. cbn [app] in ND. inversion ND as [|? ? Hn Hnd]; subst.
    destruct Hx as [<-|Hx]; [intro Hc; apply Hn; apply in_or_app; now right | apply IH; auto]. }
  apply (Hd p); apply in_map_iff; [exists (p, n1) | exists (p, n2)]; auto.
Qed.

Lemma step_dir : forall s done p m suf, TI [] s done ((p, SDir m) :: suf) ->
  exists s', do_entry files missing true (EDir p m) s = Some s' /\ TI [] s' (done ++ [(p, SDir m)]) suf.
Proof.
  intros s done p m suf I. pose proof (ti_split _ _ _ _ I) as Esn.
  assert (Hin : In (p, SDir m) sn) by (rewrite Esn; apply in_or_app; right; now left).
  assert (Hpar : parent p = [] \/ is_dir_in (tr s) (parent p)).
  { destruct (sn_parents done p (SDir m) suf Esn) as [E|(m' & Hm')]; [now left|right]. apply (ti_dirs _ _ _ _ I _ _ Hm'). }
  cbn [do_entry]. destruct (mem p (pre s)) eqn:Epre.
  - (* pre-created earlier for a fanned-out file *)
    eexists. split; [reflexivity|]. apply mem_In in Epre.
    pose proof (proj1 (ti_pre _ _ _ _ I p) Epre) as [_ Hex].
    constructor; cbn [tr pre pending restored sched ok seen].
    + rewrite Esn. apply split_mid.
    + apply (ti_closed _ _ _ _ I).
    + intros q n Hq. destruct (ti_shape _ _ _ _ I q n Hq) as [A|[(m0 & d & Hd & B)|[C|(m0 & t & Ht & D)]]]; auto.
      * right; left. exists m0, d. split; [apply in_or_app; now left|auto].
      * right; right; right. exists m0, t. split; [apply in_or_app; now left|auto].
    + intros q mq Hq. apply in_app_or in Hq as [Hq|[E|[]]].
      * destruct (ti_dirs _ _ _ _ I q mq Hq) as [A B]. split; auto. rewrite In_remove_p. tauto.
      * inversion E; subst q mq. split.
        -- destruct (t_get p (tr s)) as [n|] eqn:Eg; [|congruence].
           destruct (ti_shape _ _ _ _ I p n Eg) as [(m0 & mo & _ & ->)|[(m0 & d & Hd & _)|[(m0 & d & Hd & _)|(m0 & t & Ht & _)]]].
           ++ exists mo. exact Eg.
           ++ exfalso. apply (in_sn_done _ _ _ Esn) in Hd. pose proof (sn_functional _ _ _ Hin Hd). discriminate.
           ++ exfalso. pose proof (sn_functional _ _ _ Hin Hd). discriminate.
           ++ exfalso. apply (in_sn_done _ _ _ Esn) in Ht. pose proof (sn_functional _ _ _ Hin Ht). discriminate.
        -- rewrite In_remove_p. tauto.
    + intros q mq d Hq Ho. apply in_app_or in Hq as [Hq|[E|[]]]; [|discriminate]. eapply (ti_files _ _ _ _ I); eauto.
    + intros q mq t Hq. apply in_app_or in Hq as [Hq|[E|[]]]; [|discriminate]. eapply (ti_syms _ _ _ _ I); eauto.
    + intros q. rewrite In_remove_p, (ti_pre _ _ _ _ I q). split.
      * intros [[(mq & [E|Hq]) Hn] Hne]; [inversion E; congruence | split; eauto].
      * intros [(mq & Hq) Hn]. split; [split; [exists mq; now right|auto]|].
        intro; subst q. eapply (done_suf_disjoint (done ++ [(p, SDir m)]) suf p); [rewrite Esn; apply split_mid | apply in_or_app; right; now left | eauto].
    + apply (ti_ext _ _ _ _ I).
    + apply (ti_pending _ _ _ _ I).
    + apply (ti_restored _ _ _ _ I).
    + intros q mq d info r Hq Hg Hr Hne. apply (ti_todo _ _ _ _ I q mq d info r); auto. now right.
    + apply (ti_ok _ _ _ _ I).
    + intros q mq d Hq Ho. apply in_app_or in Hq as [Hq|[E|[]]]; [|discriminate]. eapply (ti_seen _ _ _ _ I); eauto.
    + intros q mq Hq. apply in_app_or in Hq as [Hq|[E|[]]]; [eapply (ti_sched _ _ _ _ I); eauto | inversion E; subst; now left].
    + destruct (ti_sched_c _ _ _ _ I) as [S1 S2]. split.
      * intros q mq Hq. apply in_or_app. apply in_app_or in Hq as [Hq|[E|[]]]; [left; auto | right; inversion E; now left].
      * intros q mq d Hq Ho. apply in_or_app. apply in_app_or in Hq as [Hq|[E|[]]]; [left; eauto | discriminate].
    + apply (ti_rest_fo _ _ _ _ I).
    + intros q0 m0 d0 info0 r Hq0 Hg0 Hr Hne0. apply in_app_or in Hq0 as [Hq0|[E|[]]]; [|discriminate]. eapply (ti_done_fo _ _ _ _ I); eauto.
  - (* created now *)
    apply mem_false in Epre.
    assert (Hnone : t_get p (tr s) = None).
    { destruct (t_get p (tr s)) eqn:Eg; auto. exfalso. apply Epre. apply (ti_pre _ _ _ _ I). split; [exists m; now left|congruence]. }
    destruct (create_ok p (RDir None) (tr s) (sn_nonroot _ _ Hin) Hnone) as (t' & Hc).
    { destruct Hpar as [E|(mm & E)]; [now left | right; eauto]. }
    rewrite Hc. eexists. split; [reflexivity|].
    pose proof (fun q => t_get_create _ _ _ _ q Hc) as Hget.
    assert (Hkeep : forall q n, t_get q (tr s) = Some n -> t_get q t' = Some n).
    { intros q n Hq. rewrite Hget. destruct (list_eqb_spec q p); [congruence|auto]. }
    assert (Hdirk : forall q, is_dir_in (tr s) q -> is_dir_in t' q) by (intros q (mm & Hq); exists mm; auto).
    constructor; cbn [tr pre pending restored sched ok seen set_tr].
    + rewrite Esn. apply split_mid.
    + intros q n Hq. rewrite Hget in Hq. destruct (list_eqb_spec q p) as [->|Hne].
      * destruct Hpar as [E|Hd]; [now left | right; auto].
      * destruct (ti_closed _ _ _ _ I q n Hq) as [E|Hd]; [now left | right; auto].
    + intros q n Hq. rewrite Hget in Hq. destruct (list_eqb_spec q p) as [->|Hne].
      * inversion Hq; subst n. left. exists m, None. auto.
      * destruct (ti_shape _ _ _ _ I q n Hq) as [A|[(m0 & d & Hd & B)|[C|(m0 & t & Ht & D)]]]; auto.
        -- right; left. exists m0, d. split; [apply in_or_app; now left|auto].
        -- right; right; right. exists m0, t. split; [apply in_or_app; now left|auto].
    + intros q mq Hq. apply in_app_or in Hq as [Hq|[E|[]]].
      * destruct (ti_dirs _ _ _ _ I q mq Hq) as [A B]. split; auto.
      * inversion E; subst q mq. split; [exists None; rewrite Hget; destruct (list_eqb_spec p p); congruence | exact Epre].
    + intros q mq d Hq Ho. apply in_app_or in Hq as [Hq|[E|[]]]; [|discriminate]. apply Hkeep. eapply (ti_files _ _ _ _ I); eauto.
    + intros q mq t Hq. apply in_app_or in Hq as [Hq|[E|[]]]; [|discriminate]. apply Hkeep. eapply (ti_syms _ _ _ _ I); eauto.
    + intros q. rewrite (ti_pre _ _ _ _ I q). rewrite Hget. split.
      * intros [(mq & [E|Hq]) Hn]; [inversion E; subst q; congruence|]. split; [eauto|].
        destruct (list_eqb_spec q p); [discriminate|auto].
      * intros [(mq & Hq) Hn]. destruct (list_eqb_spec q p) as [->|Hne].
        -- exfalso. eapply (done_suf_disjoint (done ++ [(p, SDir m)]) suf p); [rewrite Esn; apply split_mid | apply in_or_app; right; now left | eauto].
        -- split; [exists mq; now right | auto].
    + intros q Hq. assert (Hqp : q <> p).
      { intro; subst q. destruct Hq as (mq & d & Hd & _). pose proof (sn_functional _ _ _ Hin Hd). discriminate. }
      rewrite Hget. destruct (list_eqb_spec q p); [congruence|]. apply (ti_ext _ _ _ _ I q Hq).
    + apply (ti_pending _ _ _ _ I).
    + apply (ti_restored _ _ _ _ I).
    + intros q mq d info r Hq Hg Hr Hne. apply (ti_todo _ _ _ _ I q mq d info r); auto. now right.
    + apply (ti_ok _ _ _ _ I).
    + intros q mq d Hq Ho. apply in_app_or in Hq as [Hq|[E|[]]]; [|discriminate]. eapply (ti_seen _ _ _ _ I); eauto.
    + intros q mq Hq. apply in_app_or in Hq as [Hq|[E|[]]]; [eapply (ti_sched _ _ _ _ I); eauto | inversion E; subst; now left].
    + destruct (ti_sched_c _ _ _ _ I) as [S1 S2]. split.
      * intros q mq Hq. apply in_or_app. apply in_app_or in Hq as [Hq|[E|[]]]; [left; auto | right; inversion E; now left].
      * intros q mq d Hq Ho. apply in_or_app. apply in_app_or in Hq as [Hq|[E|[]]]; [left; eauto | discriminate].
    + apply (ti_rest_fo _ _ _ _ I).
    + intros q0 m0 d0 info0 r Hq0 Hg0 Hr Hne0. apply in_app_or in Hq0 as [Hq0|[E|[]]]; [|discriminate]. eapply (ti_done_fo _ _ _ _ I); eauto.
Qed.

Lemma ancestor_is_dir : forall f q n, In (q, n) sn -> forall a, In a (ancestors f q) -> exists m, In (a, SDir m) sn.
Proof.
  induction f as [|f IH]; intros q n Hq a Ha; [destruct Ha|]. cbn [ancestors] in Ha.
  destruct (parent q) as [|x r] eqn:Ep; [destruct Ha|].
  apply in_split in Hq as (pre0 & suf0 & E). destruct (sn_parents _ _ _ _ E) as [E0|(m & Hm)]; [congruence|].
  rewrite Ep in Hm. assert (Hin : In (x :: r, SDir m) sn) by (rewrite E; apply in_or_app; now left).
  destruct Ha as [<-|Ha]; [eauto | eapply IH; eauto].
Qed.

Lemma unprocessed_none : forall ex s done suf p n, TI ex s done suf -> In (p, n) suf ->
  (exists m t, n = SSym m t) \/ (exists m d, n = SFile m d /\ own p d = true) -> t_get p (tr s) = None.
Proof.
  intros ex s done suf p n I Hin Hk. pose proof (ti_split _ _ _ _ I) as Esn.
  pose proof (in_sn_suf _ _ _ Esn Hin) as Hsn.
  destruct (t_get p (tr s)) as [x|] eqn:Eg; auto. exfalso.
  destruct (ti_shape _ _ _ _ I p x Eg) as [(m0 & mo & Hd & _)|[(m0 & d0 & Hd & _)|[(m0 & d0 & Hd & Ho & _)|(m0 & t0 & Hd & _)]]].
  - pose proof (sn_functional _ _ _ Hsn Hd). destruct Hk as [(? & ? & ->)|(? & ? & -> & _)]; discriminate.
  - eapply done_suf_disjoint; eauto.
  - pose proof (sn_functional _ _ _ Hsn Hd). destruct Hk as [(? & ? & ->)|(? & ? & -> & Ho2)]; [discriminate|]. inversion H; subst. congruence.
  - eapply done_suf_disjoint; eauto.
Qed.

Lemma step_sym : forall s done p m t suf, TI [] s done ((p, SSym m t) :: suf) ->
  exists s', do_entry files missing true (ESym p m t) s = Some s' /\ TI [] s' (done ++ [(p, SSym m t)]) suf.
Proof.
  intros s done p m t suf I. pose proof (ti_split _ _ _ _ I) as Esn.
  assert (Hin : In (p, SSym m t) sn) by (rewrite Esn; apply in_or_app; right; now left).
  assert (Hpar : parent p = [] \/ is_dir_in (tr s) (parent p)).
  { destruct (sn_parents done p (SSym m t) suf Esn) as [E|(m' & Hm')]; [now left|right]. apply (ti_dirs _ _ _ _ I _ _ Hm'). }
  assert (Hnone : t_get p (tr s) = None).
  { apply (unprocessed_none [] s done ((p, SSym m t) :: suf) p (SSym m t) I); [now left | left; eauto]. }
  cbn [do_entry]. destruct (create_ok p (RSym t m) (tr s) (sn_nonroot _ _ Hin) Hnone) as (t' & Hc).
  { destruct Hpar as [E|(mm & E)]; [now left | right; eauto]. }
  rewrite Hc. eexists. split; [reflexivity|].
  pose proof (fun q => t_get_create _ _ _ _ q Hc) as Hget.
  assert (Hkeep : forall q n, t_get q (tr s) = Some n -> t_get q t' = Some n).
  { intros q n Hq. rewrite Hget. destruct (list_eqb_spec q p); [congruence|auto]. }
  assert (Hdirk : forall q, is_dir_in (tr s) q -> is_dir_in t' q) by (intros q (mm & Hq); exists mm; auto).
  constructor; cbn [tr pre pending restored sched ok seen set_tr].
  - rewrite Esn. apply split_mid.
  - intros q n Hq. rewrite Hget in Hq. destruct (list_eqb_spec q p) as [->|Hne].
    + destruct Hpar as [E|Hd]; [now left | right; auto].
    + destruct (ti_closed _ _ _ _ I q n Hq) as [E|Hd]; [now left | right; auto].
  - intros q n Hq. rewrite Hget in Hq. destruct (list_eqb_spec q p) as [->|Hne].
    + inversion Hq; subst n. right; right; right. exists m, t. split; [apply in_or_app; right; now left|auto].
    + destruct (ti_shape _ _ _ _ I q n Hq) as [A|[(m0 & d & Hd & B)|[C|(m0 & t0 & Ht & D)]]]; auto.
      * right; left. exists m0, d. split; [apply in_or_app; now left|auto].
      * right; right; right. exists m0, t0. split; [apply in_or_app; now left|auto].
  - intros q mq Hq. apply in_app_or in Hq as [Hq|[E|[]]]; [|discriminate].
    destruct (ti_dirs _ _ _ _ I q mq Hq) as [A B]. split; auto.
  - intros q mq d Hq Ho. apply in_app_or in Hq as [Hq|[E|[]]]; [|discriminate]. apply Hkeep. eapply (ti_files _ _ _ _ I); eauto.
  - intros q mq t0 Hq. apply in_app_or in Hq as [Hq|[E|[]]].
    + apply Hkeep. eapply (ti_syms _ _ _ _ I); eauto.
    + inversion E; subst q mq t0. rewrite Hget. destruct (list_eqb_spec p p); congruence.
  - intros q. rewrite (ti_pre _ _ _ _ I q). rewrite Hget. split.
    + intros [(mq & [E|Hq]) Hn]; [discriminate|]. split; [eauto|]. destruct (list_eqb_spec q p); [discriminate|auto].
    + intros [(mq & Hq) Hn]. destruct (list_eqb_spec q p) as [->|Hne].
      * exfalso. pose proof (in_sn_suf _ _ _ Esn (or_intror Hq)) as H1. pose proof (sn_functional _ _ _ Hin H1). discriminate.
      * split; [exists mq; now right | auto].
  - intros q Hq. assert (Hqp : q <> p).
    { intro; subst q. destruct Hq as (mq & d & Hd & _). pose proof (sn_functional _ _ _ Hin Hd). discriminate. }
    rewrite Hget. destruct (list_eqb_spec q p); [congruence|]. apply (ti_ext _ _ _ _ I q Hq).
  - apply (ti_pending _ _ _ _ I).
  - apply (ti_restored _ _ _ _ I).
  - intros q mq d info r Hq Hg Hr Hne. apply (ti_todo _ _ _ _ I q mq d info r); auto. now right.
  - apply (ti_ok _ _ _ _ I).
  - intros q mq d Hq Ho. apply in_app_or in Hq as [Hq|[E|[]]]; [|discriminate]. eapply (ti_seen _ _ _ _ I); eauto.
  - apply (ti_sched _ _ _ _ I).
  - destruct (ti_sched_c _ _ _ _ I) as [S1 S2]. split.
    + intros q mq Hq. apply in_app_or in Hq as [Hq|[E|[]]]; [auto | discriminate].
    + intros q mq d Hq Ho. apply in_app_or in Hq as [Hq|[E|[]]]; [eauto | discriminate].
  - apply (ti_rest_fo _ _ _ _ I).
  - intros q0 m0 d0 info0 r Hq0 Hg0 Hr Hne0. apply in_app_or in Hq0 as [Hq0|[E|[]]]; [|discriminate]. eapply (ti_done_fo _ _ _ _ I); eauto.
Qed.

(* a file whose bytes live elsewhere: only its metadata is scheduled *)
Lemma step_ext : forall s done p m d suf, TI [] s done ((p, SFile m d) :: suf) -> own p d = false ->
  exists s', do_entry files missing true (entry_of (p, SFile m d)) s = Some s' /\ TI [] s' (done ++ [(p, SFile m d)]) suf.
Proof.
  intros s done p m d suf I Ho. pose proof (ti_split _ _ _ _ I) as Esn.
  assert (Hin : In (p, SFile m d) sn) by (rewrite Esn; apply in_or_app; right; now left).
  assert (Hu : uniq p = false) by (unfold own in Ho; apply orb_false_iff in Ho; tauto).
  assert (Hext : is_ext p) by (exists m, d; auto).
  cbn [entry_of]. rewrite Hu. cbn [do_entry].
  destruct (map_get p files) as [info|] eqn:Eg.
  { exfalso. destruct (files_only_own _ _ Eg) as (m1 & d1 & H1 & Ho1). pose proof (sn_functional _ _ _ Hin H1) as E. inversion E; subst. congruence. }
  assert (Hmem : mem p (pending s) || mem p (restored s) = true).
  { apply orb_true_iff. destruct (ti_ext _ _ _ _ I p Hext) as [(A & _)|(_ & B & _)]; [left|right]; now apply mem_In. }
  rewrite Hmem. eexists. split; [reflexivity|].
  constructor; cbn [tr pre pending restored sched ok seen].
  - rewrite Esn. apply split_mid.
  - apply (ti_closed _ _ _ _ I).
  - intros q n Hq. destruct (ti_shape _ _ _ _ I q n Hq) as [A|[(m0 & d0 & Hd & B)|[C|(m0 & t0 & Ht & D)]]]; auto.
    + right; left. exists m0, d0. split; [apply in_or_app; now left|auto].
    + right; right; right. exists m0, t0. split; [apply in_or_app; now left|auto].
  - intros q mq Hq. apply in_app_or in Hq as [Hq|[E|[]]]; [|discriminate]. apply (ti_dirs _ _ _ _ I q mq Hq).
  - intros q mq d0 Hq Ho0. apply in_app_or in Hq as [Hq|[E|[]]]; [eapply (ti_files _ _ _ _ I); eauto | inversion E; subst; congruence].
  - intros q mq t0 Hq. apply in_app_or in Hq as [Hq|[E|[]]]; [|discriminate]. eapply (ti_syms _ _ _ _ I); eauto.
  - intros q. rewrite (ti_pre _ _ _ _ I q). split.
    + intros [(mq & [E|Hq]) Hn]; [discriminate|]. split; eauto.
    + intros [(mq & Hq) Hn]. split; [exists mq; now right | auto].
  - apply (ti_ext _ _ _ _ I).
  - apply (ti_pending _ _ _ _ I).
  - apply (ti_restored _ _ _ _ I).
  - intros q mq d0 info r Hq Hg Hr Hne. apply (ti_todo _ _ _ _ I q mq d0 info r); auto. now right.
  - rewrite (ti_ok _ _ _ _ I). reflexivity.
  - intros q mq d0 Hq Ho0. apply in_app_or in Hq as [Hq|[E|[]]]; [eapply (ti_seen _ _ _ _ I); eauto | inversion E; subst; congruence].
  - intros q mq Hq. apply in_app_or in Hq as [Hq|[E|[]]]; [eapply (ti_sched _ _ _ _ I); eauto | inversion E; subst; right; eauto].
  - destruct (ti_sched_c _ _ _ _ I) as [S1 S2]. split.
    + intros q mq Hq. apply in_or_app. apply in_app_or in Hq as [Hq|[E|[]]]; [left; auto | discriminate].
    + intros q mq d0 Hq Ho0. apply in_or_app. apply in_app_or in Hq as [Hq|[E|[]]]; [left; eauto | right; inversion E; now left].
  - apply (ti_rest_fo _ _ _ _ I).
  - intros q0 m0 d0 info0 r Hq0 Hg0 Hr Hne0. apply in_app_or in Hq0 as [Hq0|[E|[]]]; [eapply (ti_done_fo _ _ _ _ I); eauto|].
    inversion E; subst q0 m0 d0. congruence.
Qed.

Lemma parent_in_ancestors : forall q : path, parent q <> [] -> In (parent q) (ancestors (length q) q).
Proof.
  intros q Hp. destruct q as [|x q']; [cbn in Hp; congruence|]. cbn [length ancestors].
  destruct (parent (x :: q')) eqn:E; [congruence|]. now left.
Qed.

(* restoring one fanned-out path of the file currently being processed *)
Lemma fanout_one : forall ex s done p m d suf q mq info,
  map_get p files = Some info -> In q (rf_paths info) ->
  TI ex s done ((p, SFile m d) :: suf) -> In (q, SFile mq d) sn -> own q d = false -> q <> p -> In q (pending s) ->
  exists s', restore_one p d true q s = Some s' /\ TI (q :: ex) s' done ((p, SFile m d) :: suf) /\ seen s' = seen s /\ restored s' = q :: restored s.
Proof.
  intros ex s done p m d suf q mq info Hginfo Hqinfo I Hq Hoq Hne Hpend. pose proof (ti_split _ _ _ _ I) as Esn.
  assert (Hext : is_ext q) by (exists mq, d; auto).
  unfold restore_one. destruct (list_eqb_spec q p) as [|_]; [congruence|]. cbn [andb].
  pose proof (proj2 (mem_In q (pending s)) Hpend) as Hmem. rewrite Hmem.
  assert (Hqnone : t_get q (tr s) = None).
  { destruct (ti_ext _ _ _ _ I q Hext) as [(_ & A & _)|(A & _)]; [auto|contradiction]. }
  (* ancestors of q are directories of the snapshot, hence absent or directories in the tree *)
  assert (Hanc : forall a, In a (ancestors (length q) q) -> t_get a (tr s) = None \/ is_dir_in (tr s) a).
  { intros a Ha. destruct (ancestor_is_dir _ _ _ Hq a Ha) as (ma & Hma).
    destruct (t_get a (tr s)) as [n|] eqn:Eg; [right|now left].
    destruct (ti_shape _ _ _ _ I a n Eg) as [(m0 & mo & _ & ->)|[(m0 & d0 & Hd & _)|[(m0 & d0 & Hd & _)|(m0 & t0 & Hd & _)]]].
    - exists mo. exact Eg.
    - apply (in_sn_done _ _ _ Esn) in Hd. pose proof (sn_functional _ _ _ Hma Hd). discriminate.
    - pose proof (sn_functional _ _ _ Hma Hd). discriminate.
    - apply (in_sn_done _ _ _ Esn) in Hd. pose proof (sn_functional _ _ _ Hma Hd). discriminate. }
  destruct (restore_directories_ok (length q) q (tr s) (Nat.le_refl _) Hanc (ti_closed _ _ _ _ I))
    as (t1 & cr & Hrd & Hg1 & Hcr & Hpc1 & Hd1).
  unfold restore_directories. rewrite Hrd.
  assert (Hqcr : ~ In q cr).
  { intro Hc. apply Hcr in Hc as [Hc _]. apply ancestors_shorter in Hc. lia. }
  assert (Hq1 : t_get q t1 = None).
  { rewrite Hg1. destruct (mem q cr) eqn:Em; [apply mem_In in Em; contradiction|exact Hqnone]. }
  destruct (create_ok q (RFile d None) t1 (sn_nonroot _ _ Hq) Hq1) as (t2 & Hc2).
  { destruct (parent q) as [|x r] eqn:Ep; [now left|right]. destruct (Hd1 (x :: r)) as (mm & Hmm); [rewrite <- Ep; apply parent_in_ancestors; congruence|eauto]. }
  cbn [tr]. rewrite Hc2. eexists. split; [reflexivity|]. split; [|split; reflexivity].
  pose proof (fun x => t_get_create _ _ _ _ x Hc2) as Hget2.
  assert (Hget : forall x, t_get x t2 = if list_eqb x q then Some (RFile d None) else if mem x cr then Some (RDir None) else t_get x (tr s)).
  { intros x. rewrite Hget2, Hg1. reflexivity. }
  assert (Hcrnone : forall x, In x cr -> t_get x (tr s) = None) by (intros x Hx; apply Hcr in Hx; tauto).
  assert (Hkeep : forall x n, t_get x (tr s) = Some n -> t_get x t2 = Some n).
  { intros x n Hx. rewrite Hget. destruct (list_eqb_spec x q) as [->|]; [congruence|].
    destruct (mem x cr) eqn:Em; [apply mem_In in Em; apply Hcrnone in Em; congruence|exact Hx]. }
  assert (Hdirk : forall x, is_dir_in (tr s) x -> is_dir_in t2 x) by (intros x (mm & Hx); exists mm; auto).
  assert (Hcrdir : forall x, In x cr -> exists mx, In (x, SDir mx) sn).
  { intros x Hx. apply Hcr in Hx as [Hx _]. eapply ancestor_is_dir; eauto. }
  constructor; cbn [tr pre pending restored sched ok seen set_tr].
  - exact Esn.
  - intros x n Hx. rewrite Hget2 in Hx. destruct (list_eqb_spec x q) as [->|Hxq].
    + destruct (parent q) as [|y r] eqn:Ep; [now left|right]. destruct (Hd1 (y :: r)) as (mm & Hmm); [rewrite <- Ep; apply parent_in_ancestors; congruence|].
      exists mm. rewrite Hget2. destruct (list_eqb_spec (y :: r) q) as [E|]; [|exact Hmm]. exfalso. rewrite E in Hmm. congruence.
    + destruct (Hpc1 x n Hx) as [E|(mm & Hmm)]; [now left|right]. exists mm. rewrite Hget2.
      destruct (list_eqb_spec (parent x) q) as [E|]; [rewrite E in Hmm; congruence|exact Hmm].
  - intros x n Hx. rewrite Hget in Hx. destruct (list_eqb_spec x q) as [->|Hxq].
    + inversion Hx; subst n. right; right; left. exists mq, d. auto.
    + destruct (mem x cr) eqn:Em.
      * inversion Hx; subst n. apply mem_In in Em. destruct (Hcrdir x Em) as (mx & Hmx). left. exists mx, None. auto.
      * apply (ti_shape _ _ _ _ I x n Hx).
  - intros x mx Hx. destruct (ti_dirs _ _ _ _ I x mx Hx) as [A B]. split; [auto|].
    intro Hc. apply in_app_or in Hc as [Hc|Hc]; [contradiction|]. apply Hcrnone in Hc. destruct A as (mm & A). congruence.
  - intros x mx dx Hx Ho. apply Hkeep. eapply (ti_files _ _ _ _ I); eauto.
  - intros x mx tx Hx. apply Hkeep. eapply (ti_syms _ _ _ _ I); eauto.
  - intros x. rewrite in_app_iff, (ti_pre _ _ _ _ I x). split.
    + intros [[Hd Hn]|Hc].
      * split; [exact Hd|]. destruct (t_get x (tr s)) as [n|] eqn:Eg; [|congruence]. rewrite (Hkeep _ _ Eg). discriminate.
      * split.
        -- destruct (Hcrdir x Hc) as (mx & Hmx). exists mx. rewrite Esn in Hmx. apply in_app_or in Hmx as [Hmx|Hmx]; [|exact Hmx].
           exfalso. destruct (ti_dirs _ _ _ _ I x mx Hmx) as [(mm & A) _]. apply Hcrnone in Hc. congruence.
        -- rewrite Hget. destruct (list_eqb_spec x q); [discriminate|]. apply (proj2 (mem_In x cr)) in Hc. rewrite Hc. discriminate.
    + intros [Hd Hn]. rewrite Hget in Hn. destruct (list_eqb_spec x q) as [->|Hxq].
      * exfalso. destruct Hd as (mx & Hmx). apply (in_sn_suf _ _ _ Esn) in Hmx. pose proof (sn_functional _ _ _ Hq Hmx). discriminate.
      * destruct (mem x cr) eqn:Em; [right; now apply mem_In | left; auto].
  - intros y Hy. destruct (list_eqb_spec y q) as [->|Hyq].
    + right. split; [rewrite In_remove_p; tauto|]. split; [now left|]. exists mq, d. split; auto.
      rewrite Hget. destruct (list_eqb_spec q q); congruence.
    + assert (Hycr : mem y cr = false).
      { apply mem_false. intro Hc. destruct (Hcrdir y Hc) as (my & Hmy). destruct Hy as (m1 & d1 & H1 & _). pose proof (sn_functional _ _ _ Hmy H1). discriminate. }
      destruct (ti_ext _ _ _ _ I y Hy) as [(A & B & C)|(A & B & m1 & d1 & D & E)].
      * left. split; [rewrite In_remove_p; auto|]. split; [|intros [Hc|Hc]; [congruence|contradiction]].
        rewrite Hget. destruct (list_eqb_spec y q); [congruence|]. rewrite Hycr. exact B.
      * right. split; [rewrite In_remove_p; tauto|]. split; [now right|]. exists m1, d1. split; auto.
  - intros y Hy. apply In_remove_p in Hy as [Hy _]. apply (ti_pending _ _ _ _ I y Hy).
  - intros y [<-|Hy]; [exact Hext | apply (ti_restored _ _ _ _ I y Hy)].
  - intros p0 m0 d0 info0 r Hp0 Hg Hr Hnp. destruct (list_eqb_spec r q) as [->|Hrq]; [right; now left|].
    destruct (ti_todo _ _ _ _ I p0 m0 d0 info0 r Hp0 Hg Hr Hnp) as [A|A]; [left; rewrite In_remove_p; auto | right; now right].
  - apply (ti_ok _ _ _ _ I).
  - apply (ti_seen _ _ _ _ I).
  - apply (ti_sched _ _ _ _ I).
  - apply (ti_sched_c _ _ _ _ I).
  - intros y [<-|Hy]; [exists p, info; auto | apply (ti_rest_fo _ _ _ _ I y Hy)].
  - intros p0 m0 d0 info0 r Hp0 Hg0 Hr Hne0. right. eapply (ti_done_fo _ _ _ _ I); eauto.
Qed.

Lemma restore_paths_app : forall p out it a b s,
  restore_paths p out it (a ++ b) s = match restore_paths p out it a s with Some s1 => restore_paths p out it b s1 | None => None end.
Proof.
  intros p out it a. induction a as [|q a IH]; intros b s; cbn [app restore_paths]; [reflexivity|].
  destruct (restore_one p out it q s); [apply IH|reflexivity].
Qed.

Lemma fanout_all : forall done p m d suf info fo ex s,
  TI ex s done ((p, SFile m d) :: suf) -> map_get p files = Some info ->
  (forall q, In q fo -> In q (rf_paths info) /\ q <> p /\ exists mq, In (q, SFile mq d) sn /\ own q d = false) ->
  NoDup fo -> (forall q, In q fo -> ~ In q ex) ->
  exists s' ex', restore_paths p d true fo s = Some s' /\ TI ex' s' done ((p, SFile m d) :: suf) /\ seen s' = seen s /\
                 (forall x, In x ex' -> In x fo \/ In x ex) /\ (forall x, In x fo \/ In x (restored s) -> In x (restored s')).
Proof.
  intros done p m d suf info fo. induction fo as [|q fo IH]; intros ex s I Hg Hfo Hnd Hex; cbn [restore_paths].
  - exists s, ex. split; [reflexivity|]. split; [exact I|]. split; [reflexivity|]. split; [intros x Hx; now right | intros x [[]|Hx]; exact Hx].
  - destruct (Hfo q (or_introl eq_refl)) as (Hr & Hne & mq & Hq & Hoq). inversion Hnd as [|? ? Hnq Hnd']; subst.
    assert (Hpend : In q (pending s)).
    { destruct (ti_todo _ _ _ _ I p m d info q (or_introl eq_refl) Hg Hr Hne) as [A|A]; [auto|]. exfalso. eapply Hex; eauto. now left. }
    destruct (fanout_one ex s done p m d suf q mq info Hg Hr I Hq Hoq Hne Hpend) as (s1 & Hs1 & I1 & Hseen1 & Hrest1). rewrite Hs1.
    destruct (IH (q :: ex) s1 I1 Hg) as (s' & ex' & Hs' & I' & Hseen' & Hsub & Hrest'); auto.
    { intros x Hx. apply Hfo. now right. }
    { intros x Hx [<-|Hc]; [contradiction | eapply Hex; eauto; now right]. }
    exists s', ex'. split; [exact Hs'|]. split; [exact I'|]. split; [congruence|]. split.
    + intros x Hx. destruct (Hsub x Hx) as [A|[<-|A]]; [left; now right | left; now left | now right].
    + intros x Hx. apply Hrest'. rewrite Hrest1. destruct Hx as [[<-|Hx]|Hx]; [right; now left | now left | right; now right].
Qed.

Lemma NoDup_app_l : forall (A : Type) (a b : list A), NoDup (a ++ b) -> NoDup a.
Proof.
  intros A a b. induction a as [|x a IH]; intros Hn; [constructor|]. cbn [app] in Hn. inversion Hn as [|? ? Hx Hn']; subst.
  constructor; [intro Hc; apply Hx; apply in_or_app; now left | auto].
Qed.

Lemma fsize_zero : forall d, fsize d = 0 -> d = [].
Proof. intros d H. unfold fsize in H. destruct d; [reflexivity|cbn in H; lia]. Qed.
Lemma take_all : forall d, take (fsize d) d = d.
Proof. intros d. unfold take, fsize. rewrite Nat2N.id. apply firstn_all. Qed.

(* a file whose bytes are in this archive (or an empty file): restored with its fan-out, verified, metadata set *)
Lemma step_own : forall s done p m d suf, TI [] s done ((p, SFile m d) :: suf) -> own p d = true ->
  exists s', do_entry files missing true (entry_of (p, SFile m d)) s = Some s' /\ TI [] s' (done ++ [(p, SFile m d)]) suf.
Proof.
  intros s done p m d suf I Ho. pose proof (ti_split _ _ _ _ I) as Esn.
  assert (Hin : In (p, SFile m d) sn) by (rewrite Esn; apply in_or_app; right; now left).
  destruct (files_own p m d Hin Ho) as (fo & Hg & Hfo).
  set (info := {| rf_hash := H d; rf_size := fsize d; rf_paths := fo ++ [p] |}) in *.
  (* the entry and what the reader takes from it *)
  assert (Hentry : exists decl data, entry_of (p, SFile m d) = EReg p m decl data /\ take (N.min (fsize d) decl) data = d).
  { cbn [entry_of]. destruct (uniq p) eqn:Eu.
    - exists (fsize d), d. split; [reflexivity|]. rewrite N.min_id. apply take_all.
    - unfold own in Ho. rewrite Eu in Ho. cbn [orb] in Ho. apply N.eqb_eq in Ho.
      exists 0, []. split; [reflexivity|]. rewrite (fsize_zero d Ho). reflexivity. }
  destruct Hentry as (decl & data & -> & Htake). cbn [do_entry]. rewrite Hg.
  unfold restore_files. cbn [rf_size rf_hash rf_paths info]. rewrite Htake.
  assert (Hout : d ++ repeat 0 (N.to_nat (fsize d) - length d) = d).
  { unfold fsize. rewrite Nat2N.id, Nat.sub_diag. apply app_nil_r. }
  rewrite Hout. rewrite restore_paths_app.
  pose proof (fo_nodup p info Hg) as Hnd. cbn [rf_paths info] in Hnd.
  assert (Hnd_fo : NoDup fo /\ ~ In p fo).
  { split; [eapply NoDup_app_l; eauto|]. intro Hc. apply NoDup_remove_2 in Hnd. rewrite app_nil_r in Hnd. contradiction. }
  destruct Hnd_fo as [Hndfo Hpfo].
  destruct (fanout_all done p m d suf info fo [] s I Hg) as (s1 & ex1 & Hs1 & I1 & Hseen1 & Hsub1 & Hrest1); auto.
  { intros q Hq. split; [cbn [rf_paths info]; apply in_or_app; now left|]. split; [intro; subst; contradiction|]. apply Hfo; auto. }
  rewrite Hs1. cbn [restore_paths]. unfold restore_one. destruct (list_eqb_spec p p) as [_|]; [|congruence]. cbn [andb].
  assert (Hnone : t_get p (tr s1) = None).
  { apply (unprocessed_none ex1 s1 done ((p, SFile m d) :: suf) p (SFile m d) I1); [now left | right; eauto]. }
  assert (Hpar : parent p = [] \/ is_dir_in (tr s1) (parent p)).
  { destruct (sn_parents done p (SFile m d) suf Esn) as [E|(m' & Hm')]; [now left|right]. apply (ti_dirs _ _ _ _ I1 _ _ Hm'). }
  destruct (create_ok p (RFile d None) (tr s1) (sn_nonroot _ _ Hin) Hnone) as (t2 & Hc2).
  { destruct Hpar as [E|(mm & E)]; [now left | right; eauto]. }
  rewrite Hc2. cbn [tr set_tr].
  replace (N.of_nat (length d) =? fsize d) with true by (symmetry; apply N.eqb_refl). cbn [negb].
  destruct (list_eqb_spec (H d) (H d)) as [_|]; [|congruence]. cbn [negb].
  assert (Hmemp : mem p (fo ++ [p]) = true) by (apply mem_In; apply in_or_app; right; now left).
  rewrite Hmemp. cbn [andb].
  pose proof (fun x => t_get_create _ _ _ _ x Hc2) as Hget2.
  destruct (setmeta_ok p m t2 (RFile d None)) as (t3 & Hs3); [rewrite Hget2; destruct (list_eqb_spec p p); congruence|].
  rewrite Hs3. eexists. split; [reflexivity|].
  pose proof (fun x => t_get_setmeta _ _ _ _ x Hs3) as Hget3.
  assert (Hget : forall x, t_get x t3 = if list_eqb x p then Some (RFile d (Some m)) else t_get x (tr s1)).
  { intros x. rewrite Hget3, Hget2. destruct (list_eqb_spec x p); reflexivity. }
  assert (Hkeep : forall x n, t_get x (tr s1) = Some n -> t_get x t3 = Some n).
  { intros x n Hx. rewrite Hget. destruct (list_eqb_spec x p); [congruence|auto]. }
  assert (Hdirk : forall x, is_dir_in (tr s1) x -> is_dir_in t3 x) by (intros x (mm & Hx); exists mm; auto).
  assert (Hnotdir : forall mx, ~ In (p, SDir mx) sn) by (intros mx Hc; pose proof (sn_functional _ _ _ Hin Hc); discriminate).
  constructor; cbn [tr pre pending restored sched ok seen set_tr].
  - rewrite Esn. apply split_mid.
  - intros x n Hx. rewrite Hget in Hx. destruct (list_eqb_spec x p) as [->|Hxp].
    + destruct Hpar as [E|Hd]; [now left | right; auto].
    + destruct (ti_closed _ _ _ _ I1 x n Hx) as [E|Hd]; [now left | right; auto].
  - intros x n Hx. rewrite Hget in Hx. destruct (list_eqb_spec x p) as [->|Hxp].
    + inversion Hx; subst n. right; left. exists m, d. split; [apply in_or_app; right; now left|auto].
    + destruct (ti_shape _ _ _ _ I1 x n Hx) as [A|[(m0 & d0 & Hd & B)|[C|(m0 & t0 & Ht & D)]]]; auto.
      * right; left. exists m0, d0. split; [apply in_or_app; now left|auto].
      * right; right; right. exists m0, t0. split; [apply in_or_app; now left|auto].
  - intros x mx Hx. apply in_app_or in Hx as [Hx|[E|[]]]; [|discriminate].
    destruct (ti_dirs _ _ _ _ I1 x mx Hx) as [A B]. split; auto.
  - intros x mx dx Hx Hox. apply in_app_or in Hx as [Hx|[E|[]]].
    + apply Hkeep. eapply (ti_files _ _ _ _ I1); eauto.
    + inversion E; subst x mx dx. rewrite Hget. destruct (list_eqb_spec p p); congruence.
  - intros x mx tx Hx. apply in_app_or in Hx as [Hx|[E|[]]]; [|discriminate]. apply Hkeep. eapply (ti_syms _ _ _ _ I1); eauto.
  - intros x. rewrite (ti_pre _ _ _ _ I1 x). rewrite Hget. split.
    + intros [(mx & [E|Hx]) Hn]; [discriminate|]. split; [eauto|]. destruct (list_eqb_spec x p); [discriminate|auto].
    + intros [(mx & Hx) Hn]. destruct (list_eqb_spec x p) as [->|Hxp].
      * exfalso. eapply Hnotdir. eapply in_sn_suf; [exact Esn|]. right. exact Hx.
      * split; [exists mx; now right | auto].
  - intros y Hy. assert (Hyp : y <> p).
    { intro; subst y. destruct Hy as (m1 & d1 & H1 & Ho1). pose proof (sn_functional _ _ _ Hin H1) as E. inversion E; subst. congruence. }
    rewrite Hget. destruct (list_eqb_spec y p); [congruence|]. apply (ti_ext _ _ _ _ I1 y Hy).
  - apply (ti_pending _ _ _ _ I1).
  - apply (ti_restored _ _ _ _ I1).
  - intros p0 m0 d0 info0 r Hp0 Hg0 Hr Hnp. left.
    destruct (ti_todo _ _ _ _ I1 p0 m0 d0 info0 r (or_intror Hp0) Hg0 Hr Hnp) as [A|A]; [exact A|]. exfalso.
    destruct (Hsub1 r A) as [B|[]].
    assert (Hr1 : In r (rf_paths info)) by (cbn [rf_paths info]; apply in_or_app; now left).
    pose proof (fo_disjoint p0 p info0 info r Hg0 Hg Hr Hr1) as E. subst p0.
    eapply (done_suf_disjoint (done ++ [(p, SFile m d)]) suf p); [rewrite Esn; apply split_mid | apply in_or_app; right; now left | exact Hp0].
  - apply (ti_ok _ _ _ _ I1).
  - intros x mx dx Hx Hox. apply in_app_or in Hx as [Hx|[E|[]]].
    + right. rewrite Hseen1. eapply (ti_seen _ _ _ _ I); eauto.
    + inversion E; subst. now left.
  - apply (ti_sched _ _ _ _ I1).
  - destruct (ti_sched_c _ _ _ _ I1) as [S1 S2]. split.
    + intros x mx Hx. apply in_app_or in Hx as [Hx|[E|[]]]; [auto | discriminate].
    + intros x mx dx Hx Hox. apply in_app_or in Hx as [Hx|[E|[]]]; [eauto | inversion E; subst; congruence].
  - apply (ti_rest_fo _ _ _ _ I1).
  - intros p0 m0 d0 info0 r Hp0 Hg0 Hr Hne0. apply in_app_or in Hp0 as [Hp0|[E|[]]].
    + eapply (ti_done_fo _ _ _ _ I1); eauto.
    + inversion E; subst p0 m0 d0. rewrite Hg in Hg0. inversion Hg0; subst info0. cbn [rf_paths info] in Hr.
      apply in_app_or in Hr as [Hr|[Er|[]]]; [apply Hrest1; now left | congruence].
Qed.

(* the whole target pass *)
Theorem target_pass : forall suf s done, TI [] s done suf ->
  exists s', do_entries files missing true (map entry_of suf) s = Some s' /\ TI [] s' sn [].
Proof.
  induction suf as [|[p n] suf IH]; intros s done I; cbn [map do_entries].
  - exists s. split; [reflexivity|]. pose proof (ti_split _ _ _ _ I) as E. rewrite app_nil_r in E. subst done. exact I.
  - assert (Hstep : exists s1, do_entry files missing true (entry_of (p, n)) s = Some s1 /\ TI [] s1 (done ++ [(p, n)]) suf).
    { destruct n as [m|m d|m t].
      - apply step_dir; auto.
      - destruct (own p d) eqn:Eo; [apply step_own | apply step_ext]; auto.
      - apply step_sym; auto. }
    destruct Hstep as (s1 & Hs1 & I1). rewrite Hs1. apply (IH s1 _ I1).
Qed.

Lemma In_map_get_some : forall p info (m : smap), In (p, info) m -> map_get p m <> None.
Proof.
  intros p info m. induction m as [|[q f] m IH]; intros Hin; [destruct Hin|]. cbn [map_get].
  destruct (list_eqb_spec p q); [discriminate|]. destruct Hin as [E|Hin]; [inversion E; congruence|auto].
Qed.

Definition s_init : rs := {| tr := []; pre := []; pending := exts; restored := []; sched := []; ok := true; seen := [] |}.

Lemma TI_init : TI [] s_init [] sn.
Proof.
  constructor; cbn [tr pre pending restored sched ok seen s_init].
  - reflexivity.
  - intros p n H. discriminate.
  - intros p n H. discriminate.
  - intros p m [].
  - intros p m d [].
  - intros p m t [].
  - intros p. split; [intros [] | intros [_ Hn]; cbn in Hn; congruence].
  - intros q Hq. left. repeat split; auto. now apply exts_ext.
  - intros q Hq. now apply exts_ext.
  - intros q [].
  - intros p m d info q Hp Hg Hq Hne. left. apply exts_ext.
    destruct (files_only_own _ _ Hg) as (m1 & d1 & H1 & Ho1). destruct (files_own p m1 d1 H1 Ho1) as (fo & Hg' & Hfo).
    rewrite Hg in Hg'. inversion Hg'; subst info. cbn [rf_paths] in Hq. apply in_app_or in Hq as [Hq|[E|[]]]; [|congruence].
    destruct (Hfo q Hq) as (mq & A & B). exists mq, d1. auto.
  - reflexivity.
  - intros p m d [].
  - intros p m [].
  - split; [intros p m [] | intros p m d []].
  - intros q [].
  - intros p m d info q [].
Qed.

(* ---------------- after the target pass: older archives only add the files whose bytes they hold ---------------- *)
Record PI (s : rs) : Prop := {
  pi_shape : forall p n, t_get p (tr s) = Some n ->
      (exists m mo, In (p, SDir m) sn /\ n = RDir mo) \/
      (exists m d, In (p, SFile m d) sn /\ own p d = true /\ n = RFile d (Some m)) \/
      (exists m d, In (p, SFile m d) sn /\ own p d = false /\ n = RFile d None) \/
      (exists m t, In (p, SSym m t) sn /\ n = RSym t m);
  pi_dirs : forall p m, In (p, SDir m) sn -> is_dir_in (tr s) p;
  pi_files : forall p m d, In (p, SFile m d) sn -> own p d = true -> t_get p (tr s) = Some (RFile d (Some m));
  pi_syms : forall p m t, In (p, SSym m t) sn -> t_get p (tr s) = Some (RSym t m);
  pi_pre : pre s = [];
  pi_ext : forall q, is_ext q ->
      (In q (pending s) /\ t_get q (tr s) = None /\ ~ In q (restored s)) \/
      (~ In q (pending s) /\ In q (restored s) /\ exists m d, In (q, SFile m d) sn /\ t_get q (tr s) = Some (RFile d None));
  pi_pending : forall q, In q (pending s) -> is_ext q;
  pi_ok : ok s = true;
  pi_sched : forall p m, In (p, m) (sched s) -> In (p, SDir m) sn \/ exists d, In (p, SFile m d) sn /\ own p d = false;
  pi_sched_c : (forall p m, In (p, SDir m) sn -> In (p, m) (sched s)) /\
               (forall p m d, In (p, SFile m d) sn -> own p d = false -> In (p, m) (sched s))
}.

Lemma TI_PI : forall s, TI [] s sn [] -> PI s.
Proof.
  intros s I. constructor.
  - intros p n Hp. destruct (ti_shape _ _ _ _ I p n Hp) as [A|[B|[C|D]]]; auto.
  - intros p m Hp. apply (ti_dirs _ _ _ _ I p m Hp).
  - apply (ti_files _ _ _ _ I).
  - apply (ti_syms _ _ _ _ I).
  - destruct (pre s) as [|x l] eqn:E; [reflexivity|]. exfalso.
    assert (Hx : In x (pre s)) by (rewrite E; now left). apply (ti_pre _ _ _ _ I) in Hx. destruct Hx as [(m & []) _].
  - apply (ti_ext _ _ _ _ I).
  - apply (ti_pending _ _ _ _ I).
  - apply (ti_ok _ _ _ _ I).
  - apply (ti_sched _ _ _ _ I).
  - apply (ti_sched_c _ _ _ _ I).
Qed.

(* the fields an archive pass of an older backup may change *)
Definition same_but_files (s s' : rs) : Prop :=
  pre s' = pre s /\ sched s' = sched s /\ ok s' = ok s.

(* restoring one path from an older archive *)
Lemma older_one : forall s p' data q mq, PI s -> In (q, SFile mq data) sn -> own q data = false -> In q (pending s) ->
  exists s', restore_one p' data false q s = Some s' /\ PI s' /\ seen s' = seen s /\
             (forall x, In x (pending s') <-> In x (pending s) /\ x <> q).
Proof.
  intros s p' data q mq I Hq Hoq Hpend. assert (Hext : is_ext q) by (exists mq, data; auto).
  unfold restore_one. cbn [andb]. rewrite (proj2 (mem_In q (pending s)) Hpend). cbn [tr].
  assert (Hqnone : t_get q (tr s) = None).
  { destruct (pi_ext _ I q Hext) as [(_ & A & _)|(A & _)]; [auto|contradiction]. }
  destruct (create_ok q (RFile data None) (tr s) (sn_nonroot _ _ Hq) Hqnone) as (t2 & Hc2).
  { apply in_split in Hq as (pre0 & suf0 & E). destruct (sn_parents _ _ _ _ E) as [E0|(m & Hm)]; [now left|right].
    destruct (pi_dirs _ I (parent q) m) as (mm & Hmm); [rewrite E; apply in_or_app; now left|eauto]. }
  rewrite Hc2. eexists. split; [reflexivity|]. cbn [set_tr tr pre pending restored sched ok seen].
  pose proof (fun x => t_get_create _ _ _ _ x Hc2) as Hget.
  assert (Hkeep : forall x n, t_get x (tr s) = Some n -> t_get x t2 = Some n).
  { intros x n Hx. rewrite Hget. destruct (list_eqb_spec x q); [congruence|auto]. }
  split; [|split; [reflexivity|intros x; apply In_remove_p]].
  constructor; cbn [set_tr tr pre pending restored sched ok seen].
  - intros x n Hx. rewrite Hget in Hx. destruct (list_eqb_spec x q) as [->|Hxq].
    + inversion Hx; subst. right; right; left. exists mq, data. auto.
    + apply (pi_shape _ I x n Hx).
  - intros x m Hx. destruct (pi_dirs _ I x m Hx) as (mm & Hmm). exists mm. auto.
  - intros x m d Hx Ho. apply Hkeep. eapply pi_files; eauto.
  - intros x m t Hx. apply Hkeep. eapply pi_syms; eauto.
  - apply (pi_pre _ I).
  - intros y Hy. destruct (list_eqb_spec y q) as [->|Hyq].
    + right. split; [rewrite In_remove_p; tauto|]. split; [now left|]. exists mq, data. split; auto.
      rewrite Hget. destruct (list_eqb_spec q q); congruence.
    + destruct (pi_ext _ I y Hy) as [(A & B & C)|(A & B & m1 & d1 & D & E)].
      * left. split; [rewrite In_remove_p; auto|]. split; [|intros [Hc|Hc]; [congruence|contradiction]].
        rewrite Hget. destruct (list_eqb_spec y q); [congruence|exact B].
      * right. split; [rewrite In_remove_p; tauto|]. split; [now right|]. exists m1, d1. split; auto.
  - intros y Hy. apply In_remove_p in Hy as [Hy _]. apply (pi_pending _ I y Hy).
  - apply (pi_ok _ I).
  - apply (pi_sched _ I).
  - apply (pi_sched_c _ I).
Qed.

Lemma older_paths : forall p' data qs s, PI s -> NoDup qs ->
  (forall q, In q qs -> In q (pending s) /\ exists mq, In (q, SFile mq data) sn /\ own q data = false) ->
  exists s', restore_paths p' data false qs s = Some s' /\ PI s' /\ seen s' = seen s /\
             (forall x, In x (pending s') <-> In x (pending s) /\ ~ In x qs).
Proof.
  intros p' data qs. induction qs as [|q qs IH]; intros s I Hnd Hqs; cbn [restore_paths].
  - exists s. split; [reflexivity|]. split; [exact I|]. split; [reflexivity|]. intros x. cbn. tauto.
  - inversion Hnd as [|? ? Hnq Hnd']; subst.
    destruct (Hqs q (or_introl eq_refl)) as (Hpend & mq & Hq & Hoq).
    destruct (older_one s p' data q mq I Hq Hoq Hpend) as (s1 & Hs1 & I1 & Hseen1 & Hp1). rewrite Hs1.
    destruct (IH s1 I1 Hnd') as (s' & Hs' & I' & Hseen' & Hp').
    { intros x Hx. destruct (Hqs x (or_intror Hx)) as (A & B). split; auto. apply Hp1. split; auto. intro; subst; contradiction. }
    exists s'. split; [exact Hs'|]. split; [exact I'|]. split; [congruence|].
    intros x. rewrite Hp', Hp1. cbn [In]. split; [intros [[A B] C]; split; auto; intros [E|E]; [congruence|contradiction] | intros [A B]; split; [split; auto|auto]].
Qed.


Definition reg_paths (es : list entry) : list path :=
  flat_map (fun e => match e with EReg p _ _ _ => [p] | _ => [] end) es.
Definition FO (m' : smap) (x : path) : Prop := exists p' info, map_get p' m' = Some info /\ In x (rf_paths info).

Record OStepOK (st : step) : Prop := {
  oa : forall p' info, map_get p' (snd st) = Some info ->
        exists mm data, In (EReg p' mm (fsize data) data) (b_archive (fst st)) /\ rf_size info = fsize data /\ rf_hash info = H data /\
          NoDup (rf_paths info) /\ forall q, In q (rf_paths info) -> exists mq, In (q, SFile mq data) sn /\ own q data = false;
  ob : NoDup (reg_paths (b_archive (fst st)));
  oc : forall p1 p2 i1 i2 q, map_get p1 (snd st) = Some i1 -> map_get p2 (snd st) = Some i2 ->
        In q (rf_paths i1) -> In q (rf_paths i2) -> p1 = p2
}.

Lemma reg_paths_In : forall p a b c es, In (EReg p a b c) es -> In p (reg_paths es).
Proof. intros p a b c es H. unfold reg_paths. apply in_flat_map. exists (EReg p a b c). split; [auto|now left]. Qed.

Lemma reg_unique : forall es p a b c a' b' c', NoDup (reg_paths es) ->
  In (EReg p a b c) es -> In (EReg p a' b' c') es -> EReg p a b c = EReg p a' b' c'.
Proof.
  induction es as [|e es IH]; intros p a b c a' b' c' Hnd H1 H2; [destruct H1|].
  assert (Hsplit : reg_paths (e :: es) = (match e with EReg q _ _ _ => [q] | _ => [] end) ++ reg_paths es) by reflexivity.
  rewrite Hsplit in Hnd.
  destruct H1 as [E1|H1], H2 as [E2|H2].
  - congruence.
  - subst e. cbn [app] in Hnd. inversion Hnd as [|? ? Hn _]; subst. exfalso. apply Hn. eapply reg_paths_In; eauto.
  - subst e. cbn [app] in Hnd. inversion Hnd as [|? ? Hn _]; subst. exfalso. apply Hn. eapply reg_paths_In; eauto.
  - eapply IH; eauto. destruct e; cbn [app] in Hnd; auto. now inversion Hnd.
Qed.

Lemma older_entries : forall st, OStepOK st -> forall es s, PI s ->
  (forall e, In e es -> In e (b_archive (fst st))) -> NoDup (reg_paths es) ->
  (forall p' info q, map_get p' (snd st) = Some info -> In p' (reg_paths es) -> In q (rf_paths info) -> In q (pending s)) ->
  exists s', do_entries (snd st) missing false es s = Some s' /\ PI s' /\
    (forall p', (In p' (reg_paths es) /\ map_get p' (snd st) <> None) -> In p' (seen s')) /\
    (forall p', In p' (seen s) -> In p' (seen s')) /\
    (forall x, In x (pending s') <-> In x (pending s) /\ ~ (exists p' info, In p' (reg_paths es) /\ map_get p' (snd st) = Some info /\ In x (rf_paths info))).
Proof.
  intros st OK. induction es as [|e es IH]; intros s I Harch Hnd Htodo; cbn [do_entries].
  - exists s. split; [reflexivity|]. split; [exact I|]. split; [intros p' [[] _]|]. split; [auto|].
    intros x. split; [intros Hx; split; [auto|intros (p' & info & [] & _)] | tauto].
  - assert (Hsplit : reg_paths (e :: es) = (match e with EReg q _ _ _ => [q] | _ => [] end) ++ reg_paths es) by reflexivity.
    assert (Hnoop : forall s1, do_entry (snd st) missing false e s = Some s1 -> s1 = s ->
              (match e with EReg q _ _ _ => map_get q (snd st) = None | _ => True end) ->
              exists s', match do_entry (snd st) missing false e s with Some s'0 => do_entries (snd st) missing false es s'0 | None => None end = Some s' /\ PI s' /\
                (forall p', (In p' (reg_paths (e :: es)) /\ map_get p' (snd st) <> None) -> In p' (seen s')) /\
                (forall p', In p' (seen s) -> In p' (seen s')) /\
                (forall x, In x (pending s') <-> In x (pending s) /\ ~ (exists p' info, In p' (reg_paths (e :: es)) /\ map_get p' (snd st) = Some info /\ In x (rf_paths info)))).
    { intros s1 He -> Hnone. rewrite He.
      destruct (IH s I) as (s' & Hs' & I' & Hseen' & Hmono' & Hpend').
      { intros e0 H0. apply Harch. now right. }
      { rewrite Hsplit in Hnd. destruct e; cbn [app] in Hnd; auto. now inversion Hnd. }
      { intros p' info q Hg Hp Hq. eapply Htodo; eauto. rewrite Hsplit. apply in_or_app. now right. }
      exists s'. split; [exact Hs'|]. split; [exact I'|]. split; [|split; [exact Hmono'|]].
      - intros p' [Hp Hg]. rewrite Hsplit in Hp. apply in_app_or in Hp as [Hp|Hp]; [|apply Hseen'; auto].
        destruct e as [? ?|q0 ? ? ?|? ? ?]; cbn in Hp; try contradiction. destruct Hp as [<-|[]]. congruence.
      - intros x. rewrite Hpend'. split; intros [A B]; split; auto.
        + intros (p' & info & Hp & Hg & Hx). apply B. rewrite Hsplit in Hp. apply in_app_or in Hp as [Hp|Hp]; [|eauto].
          destruct e as [? ?|q0 ? ? ?|? ? ?]; cbn in Hp; try contradiction. destruct Hp as [<-|[]]. congruence.
        + intros (p' & info & Hp & Hg & Hx). apply B. exists p', info. split; [rewrite Hsplit; apply in_or_app; now right|auto]. }
    destruct e as [p m|p m decl data|p m t].
    + apply (Hnoop s); auto.
    + destruct (map_get p (snd st)) as [info|] eqn:Eg.
      2:{ apply (Hnoop s); [cbn [do_entry]; rewrite Eg; reflexivity | reflexivity | reflexivity]. }
      clear Hnoop. cbn [do_entry]. rewrite Eg.
      destruct (oa _ OK p info Eg) as (mm & data0 & Hin0 & Hsz & Hh & Hndp & Hqs).
      assert (He : EReg p m decl data = EReg p mm (fsize data0) data0).
      { eapply reg_unique; [apply (ob _ OK) | apply Harch; now left | exact Hin0]. }
      inversion He; subst mm decl data. clear He.
      unfold restore_files. rewrite Hsz, N.min_id, take_all.
      assert (Hout : data0 ++ repeat 0 (N.to_nat (fsize data0) - length data0) = data0).
      { unfold fsize. rewrite Nat2N.id, Nat.sub_diag. apply app_nil_r. }
      rewrite Hout.
      destruct (older_paths p data0 (rf_paths info) s I Hndp) as (s1 & Hs1 & I1 & Hseen1 & Hp1).
      { intros q Hq. split; [eapply Htodo; eauto; rewrite Hsplit; now left | apply Hqs; auto]. }
      rewrite Hs1.
      replace (N.of_nat (length data0) =? fsize data0) with true by (symmetry; apply N.eqb_refl). cbn [negb].
      rewrite Hh. destruct (list_eqb_spec (H data0) (H data0)) as [_|]; [|congruence]. cbn [negb andb].
      set (s2 := {| tr := tr s1; pre := pre s1; pending := pending s1; restored := restored s1; sched := sched s1; ok := ok s1; seen := p :: seen s1 |}).
      assert (I2 : PI s2) by (destruct I1; constructor; auto).
      rewrite Hsplit in Hnd. cbn [app] in Hnd. inversion Hnd as [|? ? Hpn Hnd']; subst.
      destruct (IH s2 I2) as (s' & Hs' & I' & Hseen' & Hmono' & Hpend').
      { intros e0 H0. apply Harch. now right. }
      { exact Hnd'. }
      { intros p' info' q Hg' Hp' Hq'. cbn [pending s2]. apply Hp1. split.
        - eapply Htodo; eauto. rewrite Hsplit. apply in_or_app. now right.
        - intro Hc. assert (p' = p) by (eapply (oc _ OK); eauto). subst p'. contradiction. }
      exists s'. split; [exact Hs'|]. split; [exact I'|]. split; [|split].
      * intros p' [Hp Hg]. rewrite Hsplit in Hp. cbn [app] in Hp. destruct Hp as [<-|Hp]; [apply Hmono'; now left | apply Hseen'; auto].
      * intros p' Hp. apply Hmono'. right. rewrite Hseen1. exact Hp.
      * intros x. rewrite Hpend'. cbn [pending s2]. rewrite Hp1. split.
        -- intros [[A B] C]. split; auto. intros (p' & info' & Hp & Hg' & Hx). rewrite Hsplit in Hp. cbn [app] in Hp.
           destruct Hp as [<-|Hp]; [rewrite Eg in Hg'; inversion Hg'; subst; contradiction | apply C; eauto].
        -- intros [A B]. split; [split; auto|].
           ++ intro Hc. apply B. exists p, info. split; [rewrite Hsplit; now left|auto].
           ++ intros (p' & info' & Hp & Hg' & Hx). apply B. exists p', info'. split; [rewrite Hsplit; apply in_or_app; now right|auto].
    + apply (Hnoop s); auto.
Qed.


Lemma PI_fields : forall s s', PI s -> tr s' = tr s -> pre s' = pre s -> pending s' = pending s -> restored s' = restored s ->
  sched s' = sched s -> ok s' = true -> PI s'.
Proof.
  intros s s' I Ht Hp Hpe Hr Hs Ho. destruct I. constructor; rewrite ?Ht, ?Hp, ?Hpe, ?Hr, ?Hs; auto.
Qed.

Lemma older_step : forall fx st s, OStepOK st -> PI s -> (forall x, FO (snd st) x -> In x (pending s)) ->
  exists s', do_step fx missing false st s = Some s' /\ PI s' /\ (forall x, In x (pending s') <-> In x (pending s) /\ ~ FO (snd st) x).
Proof.
  intros fx st s OK I Hfo. unfold do_step.
  set (s0 := {| tr := tr s; pre := pre s; pending := pending s; restored := restored s; sched := sched s; ok := ok s; seen := [] |}).
  assert (I0 : PI s0) by (apply (PI_fields s s0 I); auto; apply (pi_ok _ I)).
  destruct (older_entries st OK (b_archive (fst st)) s0 I0) as (s1 & Hs1 & I1 & Hseen1 & _ & Hpend1); auto.
  { apply (ob _ OK). }
  { intros p' info q Hg _ Hq. cbn [pending s0]. apply Hfo. exists p', info. auto. }
  rewrite Hs1. eexists. split; [reflexivity|].
  assert (Hkey : forall p' info, map_get p' (snd st) = Some info -> In p' (reg_paths (b_archive (fst st)))).
  { intros p' info Hg. destruct (oa _ OK p' info Hg) as (mm & data & Hin & _). eapply reg_paths_In; eauto. }
  assert (Hall : forallb (fun '(p, _) => mem p (seen s1)) (snd st) = true).
  { apply forallb_forall. intros [p info] Hin. apply mem_In. apply Hseen1.
    destruct (map_get p (snd st)) as [i0|] eqn:Eg; [|exfalso; eapply In_map_get_some; eauto].
    split; [eapply Hkey; eauto | congruence]. }
  split.
  - apply (PI_fields s1); auto. cbn [ok]. rewrite Hall, (pi_ok _ I1). destruct (fx2 fx); reflexivity.
  - intros x. cbn [pending]. rewrite Hpend1. cbn [pending s0]. split; intros [A B]; split; auto.
    + intros (p' & info & Hg & Hx). apply B. exists p', info. split; [eapply Hkey; eauto|auto].
    + intros (p' & info & _ & Hg & Hx). apply B. exists p', info. auto.
Qed.

Lemma older_steps : forall fx osteps s, Forall OStepOK osteps -> PI s ->
  (forall st x, In st osteps -> FO (snd st) x -> In x (pending s)) ->
  (* fan-outs of different older steps do not overlap *)
  (forall pre st post x, osteps = pre ++ st :: post -> FO (snd st) x -> forall st', In st' post -> ~ FO (snd st') x) ->
  exists s', do_steps fx missing false osteps s = Some s' /\ PI s' /\
    (forall x, In x (pending s') <-> In x (pending s) /\ ~ (exists st, In st osteps /\ FO (snd st) x)).
Proof.
  intros fx osteps. induction osteps as [|st osteps IH]; intros s HOK I Hfo Hdisj; cbn [do_steps].
  - exists s. split; [reflexivity|]. split; [exact I|]. intros x. split; [intros Hx; split; [auto|intros (st & [] & _)] | tauto].
  - inversion HOK as [|? ? OK1 OKs]; subst.
    destruct (older_step fx st s OK1 I) as (s1 & Hs1 & I1 & Hp1); [intros x Hx; eapply Hfo; eauto; now left|].
    rewrite Hs1. destruct (IH s1 OKs I1) as (s' & Hs' & I' & Hp').
    { intros st' x Hst' Hx. apply Hp1. split; [eapply Hfo; eauto; now right|].
      intro Hc. eapply (Hdisj [] st osteps x eq_refl Hc st' Hst'); eauto. }
    { intros pre0 st0 post x E Hx st' Hst'. eapply (Hdisj (st :: pre0) st0 post x); [cbn; now rewrite E | exact Hx | exact Hst']. }
    exists s'. split; [exact Hs'|]. split; [exact I'|].
    intros x. rewrite Hp', Hp1. split.
    + intros [[A B] C]. split; auto. intros (st' & [<-|Hin] & Hx); [contradiction | apply C; eauto].
    + intros [A B]. split; [split; auto|].
      * intro Hc. apply B. exists st. split; [now left|auto].
      * intros (st' & Hin & Hx). apply B. exists st'. split; [now right|auto].
Qed.

(* ---------------- the deferred metadata and the final tree ---------------- *)
Lemma apply_sched_ok : forall sc t,
  (forall p m, In (p, m) sc -> t_get p t <> None) ->
  exists t', apply_sched [] sc t = Some t' /\
    forall q, t_get q t' = match t_get q t with
                           | Some n => Some (fold_left (fun n '(p, m) => if list_eqb q p then setm n m else n) sc n)
                           | None => None end.
Proof.
  induction sc as [|[p m] sc IH]; intros t Hall; cbn [apply_sched].
  - exists t. split; [reflexivity|]. intros q. destruct (t_get q t); reflexivity.
  - cbn [mem existsb]. destruct (t_get p t) as [n|] eqn:Eg; [|exfalso; eapply Hall; [now left|exact Eg]].
    destruct (setmeta_ok p m t n Eg) as (t1 & Hs1). rewrite Hs1.
    pose proof (fun q => t_get_setmeta _ _ _ _ q Hs1) as Hget.
    destruct (IH t1) as (t' & Ht' & Hq').
    { intros p0 m0 Hin. rewrite Hget. destruct (list_eqb_spec p0 p) as [->|]; [rewrite Eg; cbn; discriminate | apply (Hall p0 m0); right; exact Hin]. }
    exists t'. split; [exact Ht'|]. intros q. rewrite Hq', Hget. cbn [fold_left].
    destruct (list_eqb_spec q p) as [->|]; destruct (t_get _ t); reflexivity.
Qed.


Lemma setm_idem : forall n m, setm (setm n m) m = setm n m.
Proof. intros [d o|o|t m0] m; reflexivity. Qed.

Lemma fold_setm : forall sc q m n, (forall m', In (q, m') sc -> m' = m) ->
  fold_left (fun n '(p, m0) => if list_eqb q p then setm n m0 else n) sc n =
  if existsb (fun e : path * meta => list_eqb q (fst e)) sc then setm n m else n.
Proof.
  induction sc as [|[p m0] sc IH]; intros q m n Hall; cbn [fold_left existsb fst]; [reflexivity|].
  destruct (list_eqb_spec q p) as [->|Hne]; cbn [orb].
  - assert (m0 = m) by (apply Hall; now left). subst m0. rewrite (IH p m (setm n m)); [|intros m' Hin; apply Hall; now right].
    destruct (existsb (fun e : path * meta => list_eqb p (fst e)) sc); [apply setm_idem|reflexivity].
  - apply IH. intros m' Hin. apply Hall. now right.
Qed.

(* ---------------- C01 (success half) for one target backup and the older steps the plan selected ---------------- *)
Section Final.
Variable fx : fixes.
Variable b : backup.
Hypothesis b_arch : b_archive b = map entry_of sn.
Variable osteps : list step.
Hypothesis osteps_ok : Forall OStepOK osteps.
Definition TFO (x : path) : Prop := exists p info, map_get p files = Some info /\ In x (rf_paths info) /\ x <> p.
Hypothesis older_vs_target : forall st x, In st osteps -> FO (snd st) x -> ~ TFO x.
Hypothesis older_disjoint : forall pre st post x, osteps = pre ++ st :: post -> FO (snd st) x -> forall st', In st' post -> ~ FO (snd st') x.
Hypothesis coverage : forall q, is_ext q -> TFO q \/ exists st, In st osteps /\ FO (snd st) q.

Theorem restore_success :
  exists s t, do_steps fx missing true ((b, files) :: osteps) s_init = Some s /\
    ok s = true /\ pending s = [] /\ pre s = [] /\
    apply_sched (pending s) (rev (sched s)) (tr s) = Some t /\
    (forall p m, In (p, SDir m) sn -> t_get p t = Some (RDir (Some m))) /\
    (forall p m d, In (p, SFile m d) sn -> t_get p t = Some (RFile d (Some m))) /\
    (forall p m tg, In (p, SSym m tg) sn -> t_get p t = Some (RSym tg m)) /\
    (forall p n, t_get p t = Some n -> exists x, In (p, x) sn).
Proof.
  (* target step *)
  cbn [do_steps]. unfold do_step at 1. cbn [fst snd]. rewrite b_arch.
  destruct (target_pass sn s_init [] TI_init) as (s1 & Hs1 & I1).
  change {| tr := tr s_init; pre := pre s_init; pending := pending s_init; restored := restored s_init; sched := sched s_init; ok := ok s_init; seen := [] |} with s_init.
  rewrite Hs1.
  assert (Hall : forallb (fun '(p, _) => mem p (seen s1)) files = true).
  { apply forallb_forall. intros [p info] Hin. apply mem_In.
    destruct (map_get p files) as [i0|] eqn:Eg; [|exfalso; eapply In_map_get_some; eauto].
    destruct (files_only_own _ _ Eg) as (m & d & Hd & Ho). eapply (ti_seen _ _ _ _ I1); eauto. }
  set (s1' := {| tr := tr s1; pre := pre s1; pending := pending s1; restored := restored s1; sched := sched s1;
                 ok := ok s1 && (negb (fx2 fx) || forallb (fun '(p, _) => mem p (seen s1)) files); seen := [] |}).
  assert (P1 : PI s1').
  { apply (PI_fields s1 s1' (TI_PI s1 I1)); auto. cbn [ok s1']. rewrite Hall, (ti_ok _ _ _ _ I1). destruct (fx2 fx); reflexivity. }
  (* fan-outs of older steps are still pending *)
  assert (Hopend : forall st x, In st osteps -> FO (snd st) x -> In x (pending s1')).
  { intros st x Hst Hx. cbn [pending s1'].
    assert (Hext : is_ext x).
    { destruct Hx as (p' & info & Hg & Hin). rewrite Forall_forall in osteps_ok.
      destruct (oa _ (osteps_ok st Hst) p' info Hg) as (mm & data & _ & _ & _ & _ & Hq). destruct (Hq x Hin) as (mq & A & B). exists mq, data. auto. }
    destruct (ti_ext _ _ _ _ I1 x Hext) as [(A & _)|(_ & B & _)]; [exact A|]. exfalso.
    destruct (ti_rest_fo _ _ _ _ I1 x B) as (p & info & Hg & Hin & Hne). eapply older_vs_target; eauto. exists p, info. auto. }
  destruct (older_steps fx osteps s1' osteps_ok P1 Hopend older_disjoint) as (s2 & Hs2 & P2 & Hpend2).
  rewrite Hs2.
  (* nothing is left pending *)
  assert (Hpe : pending s2 = []).
  { destruct (pending s2) as [|x l] eqn:E; [reflexivity|]. exfalso.
    assert (Hx : In x (x :: l)) by now left. apply Hpend2 in Hx as [Hx1 Hno]. cbn [pending s1'] in Hx1.
    pose proof (ti_pending _ _ _ _ I1 x Hx1) as Hext. destruct (coverage x Hext) as [(p & info & Hg & Hin & Hne)|Hc]; [|contradiction].
    destruct (files_only_own _ _ Hg) as (m & d & Hd & Ho).
    pose proof (ti_done_fo _ _ _ _ I1 p m d info x Hd Hg Hin Hne) as Hr.
    destruct (ti_ext _ _ _ _ I1 x Hext) as [(_ & _ & C)|(C & _)]; contradiction. }
  destruct (apply_sched_ok (rev (sched s2)) (tr s2)) as (t & Ht & Hget).
  { intros p m Hin. apply in_rev in Hin. destruct (pi_sched _ P2 p m Hin) as [Hd|(d & Hd & Ho)].
    - destruct (pi_dirs _ P2 p m Hd) as (mm & Hmm). congruence.
    - assert (Hext : is_ext p) by (exists m, d; auto).
      destruct (pi_ext _ P2 p Hext) as [(A & _)|(_ & _ & m1 & d1 & _ & B)]; [rewrite Hpe in A; destruct A | congruence]. }
  exists s2, t. split; [reflexivity|]. split; [apply (pi_ok _ P2)|]. split; [exact Hpe|]. split; [apply (pi_pre _ P2)|].
  split; [rewrite Hpe; exact Ht|].
  assert (Hsame : forall q m, (In (q, SDir m) sn \/ exists d, In (q, SFile m d) sn /\ own q d = false) -> forall m', In (q, m') (rev (sched s2)) -> m' = m).
  { intros q m Hq m' Hin. apply in_rev in Hin. destruct (pi_sched _ P2 q m' Hin) as [Hd|(d' & Hd & _)]; destruct Hq as [Hq|(d & Hq & _)];
      pose proof (sn_functional _ _ _ Hd Hq) as E; inversion E; reflexivity. }
  assert (Hex : forall q m, In (q, m) (sched s2) -> existsb (fun e : path * meta => list_eqb q (fst e)) (rev (sched s2)) = true).
  { intros q m Hin. apply existsb_exists. exists (q, m). split; [now apply -> in_rev|]. cbn. destruct (list_eqb_spec q q); congruence. }
  assert (Hnoex : forall q, (forall m, ~ In (q, m) (sched s2)) -> existsb (fun e : path * meta => list_eqb q (fst e)) (rev (sched s2)) = false).
  { intros q Hno. destruct (existsb _ _) eqn:E; [|reflexivity]. apply existsb_exists in E as ([p m] & Hin & Heq). cbn in Heq.
    destruct (list_eqb_spec q p) as [->|]; [|discriminate]. apply in_rev in Hin. exfalso. eapply Hno; eauto. }
  repeat split.
  - intros p m Hd. rewrite Hget. destruct (pi_dirs _ P2 p m Hd) as (mm & Hmm). rewrite Hmm.
    rewrite (fold_setm _ p m); [|apply Hsame; now left]. rewrite (Hex p m); [reflexivity|]. apply (proj1 (pi_sched_c _ P2)); auto.
  - intros p m d Hd. rewrite Hget. destruct (own p d) eqn:Eo.
    + rewrite (pi_files _ P2 p m d Hd Eo). rewrite (fold_setm _ p m); [|].
      * rewrite Hnoex; [reflexivity|]. intros m' Hin. destruct (pi_sched _ P2 p m' Hin) as [Hc|(d' & Hc & Ho')].
        -- pose proof (sn_functional _ _ _ Hd Hc). discriminate.
        -- pose proof (sn_functional _ _ _ Hd Hc) as E. inversion E; subst. congruence.
      * intros m' Hin. apply in_rev in Hin. destruct (pi_sched _ P2 p m' Hin) as [Hc|(d' & Hc & Ho')]; pose proof (sn_functional _ _ _ Hd Hc) as E; inversion E; reflexivity.
    + assert (Hext : is_ext p) by (exists m, d; auto).
      destruct (pi_ext _ P2 p Hext) as [(A & _)|(_ & _ & m1 & d1 & Hd1 & B)]; [rewrite Hpe in A; destruct A|].
      pose proof (sn_functional _ _ _ Hd Hd1) as E. inversion E; subst m1 d1. rewrite B.
      rewrite (fold_setm _ p m); [|apply Hsame; right; eauto]. rewrite (Hex p m); [reflexivity|]. eapply (proj2 (pi_sched_c _ P2)); eauto.
  - intros p m tg Hd. rewrite Hget, (pi_syms _ P2 p m tg Hd). rewrite (fold_setm _ p m).
    + rewrite Hnoex; [reflexivity|]. intros m' Hin. destruct (pi_sched _ P2 p m' Hin) as [Hc|(d' & Hc & _)]; pose proof (sn_functional _ _ _ Hd Hc); discriminate.
    + intros m' Hin. apply in_rev in Hin. destruct (pi_sched _ P2 p m' Hin) as [Hc|(d' & Hc & _)]; pose proof (sn_functional _ _ _ Hd Hc); discriminate.
  - intros p n Hp. rewrite Hget in Hp. destruct (t_get p (tr s2)) as [n0|] eqn:Eg; [|discriminate].
    destruct (pi_shape _ P2 p n0 Eg) as [(m & mo & Hd & _)|[(m & d & Hd & _)|[(m & d & Hd & _)|(m & tg & Hd & _)]]]; eauto.
Qed.
End Final.

End Target.

Print Assumptions restore_success.
