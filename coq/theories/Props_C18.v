(* C18 — upload checksums equal the providers' definitions for every fragmentation.
   This file holds only property theorems closed by [exact], the [Check]s that pin their statements,
   non-vacuity examples and [Print Assumptions]. *)
From Coq Require Import List Arith NArith Lia Bool.
Import ListNotations.
Require Import Chunk Splitter Md5 Codec Codec2.
Local Open Scope nat_scope.

(* Dropbox: for every digest function H, block size bs >= 1 and every sequence of write calls, feeding the
   writes through write_all always terminates in a state whose digest is H of the concatenated digests of the
   consecutive bs-sized blocks of the concatenated input. *)
Theorem C18_chunked_any_fragmentation :
  forall (H : list N -> list N) (bs : nat) (ws : list (list N)), bs > 0 ->
  exists s, feed H bs init ws = Some s /\ finish H s = H (concat (map H (chunks bs (concat ws)))).
Proof. exact chunked_sha256_correct. Qed.
Check C18_chunked_any_fragmentation :
  forall (H : list N -> list N) (bs : nat) (ws : list (list N)), bs > 0 ->
  exists s, feed H bs init ws = Some s /\ finish H s = H (concat (map H (chunks bs (concat ws)))).

(* [chunks] is "consecutive blocks of bs bytes": they concatenate to the input, each holds 1..bs bytes and
   all but the last exactly bs.  (So the empty input has no block, a short input one short block and an exact
   multiple no trailing empty block.) *)
Theorem C18_blocks_are_consecutive : forall bs d, bs >= 1 ->
  concat (chunks bs d) = d /\
  Forall (fun c => 1 <= length c <= bs) (chunks bs d) /\
  (forall pre last, chunks bs d = pre ++ [last] -> Forall (fun c => length c = bs) pre).
Proof. intros bs d Hbs. split; [exact (chunks_concat bs d Hbs) | exact (chunks_sizes bs d Hbs)]. Qed.
Check C18_blocks_are_consecutive : forall bs d, bs >= 1 ->
  concat (chunks bs d) = d /\
  Forall (fun c => 1 <= length c <= bs) (chunks bs d) /\
  (forall pre last, chunks bs d = pre ++ [last] -> Forall (fun c => length c = bs) pre).

(* Yandex Disk / Google Drive: the wrapper forwards every write completely, the digest is that of the
   concatenation, whatever the fragmentation. *)
Theorem C18_md5_any_fragmentation : forall (Hmd5 : list N -> list N) ws,
  md5_finish Hmd5 (md5_feed ws) = Hmd5 (concat ws).
Proof. exact md5_any_fragmentation. Qed.
Check C18_md5_any_fragmentation : forall (Hmd5 : list N -> list N) ws,
  md5_finish Hmd5 (md5_feed ws) = Hmd5 (concat ws).

(* rendering: lower-case hex digits only *)
Theorem C18_rendering_lower_hex : forall digest, bytes digest -> forallb is_lower_hex (encode_hex digest) = true.
Proof. exact rendering_lower_hex. Qed.
Check C18_rendering_lower_hex : forall digest, bytes digest -> forallb is_lower_hex (encode_hex digest) = true.

(* non-vacuity: an exact multiple, fed in awkward fragments, has exactly two blocks and no empty third *)
Example C18_example : chunks 2 (concat [[1;2;3]; []; [4]]%N) = [[1;2]; [3;4]]%N.
Proof. vm_compute. reflexivity. Qed.

Print Assumptions C18_chunked_any_fragmentation.
Print Assumptions C18_blocks_are_consecutive.
Print Assumptions C18_md5_any_fragmentation.
Print Assumptions C18_rendering_lower_hex.
