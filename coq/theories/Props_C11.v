(* C11 — restore verifies what it writes, reports what it cannot, and stays confined. *)
From Coq Require Import List Arith NArith ZArith Lia Bool.
Import ListNotations.
Require Import Restore2 Restore2Exec Restore2Main Paths Paths2.
Local Open Scope N_scope.

(* For ARBITRARY Layer-A storages (no well-formedness assumed: any manifests, any archives, any corruption that
   still decodes): if restore ends with ok = true (exit 0), every line of the target's manifest has a file in the
   restored tree with exactly the recorded size and hash.  Stated for the behaviour with the three repairs
   (fx2, fx5, fx7) that /repo now contains; for the earlier behaviour the statement is refuted (Restore2.refuted_today). *)
Theorem C11_ok_implies_complete : forall group name t b older,
  split_at name (rev group) = Some (b, older) ->
  exec repaired group name = Some (t, true) ->
  forall l, In l (b_manifest b) -> HasFile t (l_path l) (l_hash l) (l_size l).
Proof. intros group name t b older. exact (ok_implies_complete repaired group name t b older eq_refl eq_refl eq_refl). Qed.
Check C11_ok_implies_complete : forall group name t b older,
  split_at name (rev group) = Some (b, older) ->
  exec repaired group name = Some (t, true) ->
  forall l, In l (b_manifest b) -> HasFile t (l_path l) (l_hash l) (l_size l).

(* confinement: an accepted manifest path is the restore directory followed by one or more good components
   (non-empty, not ".", not "..", slash-free); relative paths and paths with ".." are rejected; archive paths that are
   absolute or contain ".." are rejected; an accepted archive path restores below the directory *)
Theorem C11_restore_path_below : forall dir s r, restore_path dir s = Some r ->
  exists ps, ps <> [] /\ Forall good_part ps /\ r = dir ++ SL :: join ps.
Proof. exact restore_path_below. Qed.
Check C11_restore_path_below : forall dir s r, restore_path dir s = Some r ->
  exists ps, ps <> [] /\ Forall good_part ps /\ r = dir ++ SL :: join ps.
Theorem C11_relative_rejected : forall dir s, has_root s = false -> restore_path dir s = None.
Proof. exact restore_path_relative_rejected. Qed.
Check C11_relative_rejected : forall dir s, has_root s = false -> restore_path dir s = None.
Theorem C11_dotdot_rejected : forall dir s, In [DOT; DOT] (split s) -> restore_path dir s = None.
Proof. exact restore_path_dotdot_rejected. Qed.
Check C11_dotdot_rejected : forall dir s, In [DOT; DOT] (split s) -> restore_path dir s = None.
Theorem C11_tar_dotdot_rejected : forall s, In [DOT; DOT] (split s) -> file_path_from_tar s = None.
Proof. exact tar_path_dotdot_rejected. Qed.
Check C11_tar_dotdot_rejected : forall s, In [DOT; DOT] (split s) -> file_path_from_tar s = None.
Theorem C11_tar_absolute_rejected : forall s, has_root s = true -> file_path_from_tar s = None.
Proof. exact tar_path_absolute_rejected. Qed.
Check C11_tar_absolute_rejected : forall s, has_root s = true -> file_path_from_tar s = None.
Theorem C11_tar_path_restores_below : forall dir s r, file_path_from_tar s = Some r ->
  exists ps, ps <> [] /\ Forall good_part ps /\ r = SL :: join ps /\ restore_path dir r = Some (dir ++ SL :: join ps).
Proof. exact tar_path_restores_below. Qed.
Check C11_tar_path_restores_below : forall dir s r, file_path_from_tar s = Some r ->
  exists ps, ps <> [] /\ Forall good_part ps /\ r = SL :: join ps /\ restore_path dir r = Some (dir ++ SL :: join ps).

(* non-vacuity: a healthy two-backup group restores completely; each of the three corruptions is reported *)
Example C11_example :
  exec repaired [b1; b2] 2 = Some ([([1;2], RFile [97;98;99] (Some m0)); ([1], RDir (Some m0))], true) /\
  option_map snd (exec repaired [b1_F2] 1) = Some false /\
  option_map snd (exec repaired [b1; b2_F5] 2) = Some false /\
  option_map snd (exec repaired [b1_F7] 1) = Some false.
Proof. vm_compute. auto. Qed.

Print Assumptions C11_ok_implies_complete.
Print Assumptions C11_restore_path_below.
Print Assumptions C11_tar_path_restores_below.
