(* PROTOTYPE (round 0): finite-control abstraction of the upload pipeline (archiver thread, gpg, stdout-reader thread,
   splitter thread, uploader = main thread) and its three channels; data abstracted to "a block".
   Goal: no reachable non-terminal state is stuck; every terminal state has all threads finished and gpg gone. *)
From Coq Require Import List Arith NArith Lia Bool.
Import ListNotations.

Inductive A := AW | AF | AE | AJok | AJerr | ASeof | ASerr | AD.
Inductive G := GR | GXok | GD.
Inductive R := RR | RS | RW | RDok | RDerr.
Inductive S := SR | SP | SC | STeof | STerr | SF | SDok | SDerr.
Inductive U := UN | UB | UQ | UF | UDok | UDerr.
Inductive M := MP | ME | MX.                       (* payload / eof-with-checksum / error *)

Record st := {
  a : A; g : G; r : R; s : S; u : U;
  pin : bool;          (* a block sits in gpg's stdin pipe *)
  pin_closed : bool;   (* the archiver closed gpg's stdin *)
  pout : bool;         (* a block sits in gpg's stdout pipe *)
  q : list M;          (* sync_channel(2) from reader/encryptor to splitter *)
  body : bool          (* a request body is open between splitter and uploader *)
}.

Definition a_holds_tx (x : A) := match x with AD => false | _ => true end.
Definition r_holds_tx (x : R) := match x with RDok | RDerr => false | _ => true end.
Definition s_alive (x : S) := match x with SDok | SDerr => false | _ => true end.
Definition u_alive (x : U) := match x with UDok | UDerr => false | _ => true end.
Definition g_alive (x : G) := match x with GR => true | _ => false end.
Definition r_attached (x : R) := match x with RR | RS => true | _ => false end.   (* still owns gpg's stdout *)

Definition upd_a x (t : st) := {| a := x; g := g t; r := r t; s := s t; u := u t; pin := pin t; pin_closed := pin_closed t; pout := pout t; q := q t; body := body t |}.
Definition upd_g x (t : st) := {| a := a t; g := x; r := r t; s := s t; u := u t; pin := pin t; pin_closed := pin_closed t; pout := pout t; q := q t; body := body t |}.
Definition upd_r x (t : st) := {| a := a t; g := g t; r := x; s := s t; u := u t; pin := pin t; pin_closed := pin_closed t; pout := pout t; q := q t; body := body t |}.
Definition upd_s x (t : st) := {| a := a t; g := g t; r := r t; s := x; u := u t; pin := pin t; pin_closed := pin_closed t; pout := pout t; q := q t; body := body t |}.
Definition upd_u x (t : st) := {| a := a t; g := g t; r := r t; s := s t; u := x; pin := pin t; pin_closed := pin_closed t; pout := pout t; q := q t; body := body t |}.
Definition upd_pin x (t : st) := {| a := a t; g := g t; r := r t; s := s t; u := u t; pin := x; pin_closed := pin_closed t; pout := pout t; q := q t; body := body t |}.
Definition upd_pc x (t : st) := {| a := a t; g := g t; r := r t; s := s t; u := u t; pin := pin t; pin_closed := x; pout := pout t; q := q t; body := body t |}.
Definition upd_pout x (t : st) := {| a := a t; g := g t; r := r t; s := s t; u := u t; pin := pin t; pin_closed := pin_closed t; pout := x; q := q t; body := body t |}.
Definition upd_q x (t : st) := {| a := a t; g := g t; r := r t; s := s t; u := u t; pin := pin t; pin_closed := pin_closed t; pout := pout t; q := x; body := body t |}.
Definition upd_body x (t : st) := {| a := a t; g := g t; r := r t; s := s t; u := u t; pin := pin t; pin_closed := pin_closed t; pout := pout t; q := q t; body := x |}.

Definition room (t : st) := length (q t) <? 2.

(* successor states, one list per party *)
Definition succ_a (t : st) : list st :=
  match a t with
  | AW => (if g_alive (g t) then (if pin t then [] else [upd_pin true t]) else [upd_pc true (upd_a AJerr t)])   (* write / EPIPE *)
          ++ [upd_a AF t; upd_a AE t]
  | AF => [upd_pc true (upd_a AJok t)]
  | AE => [upd_pc true (upd_a AJerr t)]
  | AJok => match r t with RDok => [upd_a ASeof t] | RDerr => [upd_g (match g t with GR => GD | x => x end) (upd_a ASerr t)] | _ => [] end
  | AJerr => match r t with RDok => [upd_a ASerr t] | RDerr => [upd_g (match g t with GR => GD | x => x end) (upd_a ASerr t)] | _ => [] end
  | ASeof => if s_alive (s t) then (if room t then [upd_q (q t ++ [ME]) (upd_a AD t)] else []) else [upd_a AD t]
  | ASerr => if s_alive (s t) then (if room t then [upd_q (q t ++ [MX]) (upd_a AD t)] else []) else [upd_a AD t]
  | AD => []
  end.

Definition succ_g (t : st) : list st :=
  match g t with
  | GR => [upd_g GD t]                                                           (* gpg may die at any time *)
          ++ (if pin t then [upd_pin false t] else [])                            (* consume input *)
          ++ (if r_attached (r t) then (if pout t then [] else [upd_pout true t]) else [upd_g GD t])   (* emit output / EPIPE *)
          ++ (if pin_closed t && negb (pin t) then [upd_g GXok t] else [])        (* EOF on stdin: finish *)
  | _ => []
  end.

Definition succ_r (t : st) : list st :=
  match r t with
  | RR => if pout t then [upd_pout false (upd_r RS t)]
          else if g_alive (g t) then [] else [upd_r RW t]                          (* EOF on gpg's stdout *)
  | RS => if s_alive (s t) then (if room t then [upd_q (q t ++ [MP]) (upd_r RR t)] else [])
          else [upd_g (match g t with GR => GD | x => x end) (upd_r RDerr t)]      (* send error: terminate gpg *)
  | RW => match g t with GXok => [upd_r RDok t] | GD => [upd_r RDerr t] | GR => [] end
  | _ => []
  end.

Definition succ_s (t : st) : list st :=
  match s t with
  | SR => match q t with
          | MP :: q' => [upd_q q' (upd_s SP t)]
          | ME :: q' => [upd_q q' (upd_s STeof t)]
          | MX :: q' => [upd_q q' (upd_s STerr t)]
          | [] => if a_holds_tx (a t) || r_holds_tx (r t) then [] else [upd_body false (upd_s SDerr t)]
          end
  | SP => if body t then [upd_s SC t]
          else if u_alive (u t) then (match u t with UN => [upd_body true (upd_u UB (upd_s SC t))] | _ => [] end)
          else [upd_s SDerr t]
  | SC => if u_alive (u t) then (match u t with UB => [upd_s SR t; upd_body false (upd_s SR t)] | _ => [] end)
          else [upd_body false (upd_s SDerr t)]
  | STeof => if body t then [upd_body false t]
             else if u_alive (u t) then (match u t with UN => [upd_u UF (upd_s SF t)] | _ => [] end) else [upd_s SDerr t]
  | STerr => if body t then [upd_body false t]
             else if u_alive (u t) then (match u t with UN => [upd_u UDerr (upd_s SF t)] | _ => [] end) else [upd_s SDerr t]
  | SF => match q t with
          | _ :: _ => [upd_s SDerr t]
          | [] => if a_holds_tx (a t) || r_holds_tx (r t) then [] else [upd_s SDok t]
          end
  | _ => []
  end.

Definition succ_u (t : st) : list st :=
  match u t with
  | UN => [upd_u UDerr t] ++ (if s_alive (s t) then [] else [upd_u UDerr t])      (* provider error / stream ended without terminal *)
  | UB => [upd_u UDerr t] ++ (if body t then [] else [upd_u UQ t])                 (* body ends when its sender is dropped *)
  | UQ => [upd_u UN t; upd_u UDerr t]
  | UF => [upd_u UDok t; upd_u UDerr t]
  | _ => []
  end.

Definition succ (t : st) : list st := succ_a t ++ succ_g t ++ succ_r t ++ succ_s t ++ succ_u t.

Definition terminal (t : st) : bool :=
  negb (a_holds_tx (a t)) && negb (s_alive (s t)) && negb (u_alive (u t)).
Definition clean (t : st) : bool :=                 (* what must hold when everything the main thread joins is done *)
  negb (g_alive (g t)) && negb (r_holds_tx (r t)).

Definition init := {| a := AW; g := GR; r := RR; s := SR; u := UN; pin := false; pin_closed := false; pout := false; q := []; body := false |}.

(* ---- state encoding and reachability ---- *)
From Coq Require Import MSets.MSetPositive.
Open Scope N_scope.
Definition nA x : N := match x with AW => 0 | AF => 1 | AE => 2 | AJok => 3 | AJerr => 4 | ASeof => 5 | ASerr => 6 | AD => 7 end.
Definition nG x : N := match x with GR => 0 | GXok => 1 | GD => 2 end.
Definition nR x : N := match x with RR => 0 | RS => 1 | RW => 2 | RDok => 3 | RDerr => 4 end.
Definition nS x : N := match x with SR => 0 | SP => 1 | SC => 2 | STeof => 3 | STerr => 4 | SF => 5 | SDok => 6 | SDerr => 7 end.
Definition nU x : N := match x with UN => 0 | UB => 1 | UQ => 2 | UF => 3 | UDok => 4 | UDerr => 5 end.
Definition nM x : N := match x with MP => 0 | ME => 1 | MX => 2 end.
Definition nb (b : bool) : N := if b then 1 else 0.
Definition code (t : st) : positive :=
  let qc := match q t with [] => 0 | [x] => 1 + nM x | [x; y] => 4 + 3 * nM x + nM y | _ => 13 end in
  N.succ_pos (nA (a t) + 8 * (nG (g t) + 3 * (nR (r t) + 5 * (nS (s t) + 8 * (nU (u t) + 6 * (nb (pin t) + 2 * (nb (pin_closed t) + 2 * (nb (pout t) + 2 * (nb (body t) + 2 * qc))))))))).
Close Scope N_scope.

Fixpoint explore (fuel : nat) (work : list st) (seen : PositiveSet.t) (acc : list st) : list st * bool :=
  match fuel with
  | O => (acc, match work with [] => true | _ => false end)
  | Datatypes.S f =>
    match work with
    | [] => (acc, true)
    | t :: work' =>
      if PositiveSet.mem (code t) seen then explore f work' seen acc
      else explore f (succ t ++ work') (PositiveSet.add (code t) seen) (t :: acc)
    end
  end.

Definition reach := explore (400 * 1000) [init] PositiveSet.empty [].
