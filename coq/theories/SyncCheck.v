(* scratch: exhaustive check of convergence / idempotence of the sync model over a small universe (validation, not proof) *)
From Coq Require Import List Arith NArith Bool.
Import ListNotations.
Require Import Sync.
Open Scope N_scope.

Definition apply1 (c : gmap) (a : action) : gmap :=
  match a with
  | Create g => insert g [] c
  | Upload g b => insert g [b] c
  | Delete g => filter (fun e => negb (fst e =? g)) c
  end.
Definition apply (c : gmap) (acts : list action) := fold_left apply1 acts c.

Definition opts : list (option (list N)) := [None; Some []; Some [10]; Some [10; 11]].
Fixpoint all_maps (names : list N) : list gmap :=
  match names with
  | [] => [[]]
  | g :: r => flat_map (fun m => map (fun o => match o with None => m | Some bs => (g, bs) :: m end) opts) (all_maps r)
  end.
Definition sorted_maps := map (fun m => fold_left (fun acc '(g, bs) => insert g bs acc) m []) (all_maps [1; 2; 3]).

Definition ok_all := fun (_ : N) => true. Definition ok_all2 := fun (_ _ : N) => true.
Definition subset (a b : list N) := forallb (fun x => existsb (N.eqb x) b) a.

(* after an error-free run: every local backup of a target group is in the cloud; a second run does nothing *)
Definition check_pair (l c : gmap) (max : nat) : bool :=
  let '(acts, ok) := sync ok_all ok_all2 l c true max in
  let c' := apply c acts in
  let '(acts2, ok2) := sync ok_all ok_all2 l c' true max in
  (negb ok ||
   (forallb (fun '(g, tb) => match lookup g l with
                             | Some lb => match lookup g c' with Some cb => subset lb cb | None => match lb with [] => true | _ => false end end
                             | None => true end) (target l c max)
    && match acts2 with [] => true | _ => false end)).

Definition all_ok := forallb (fun l => forallb (fun c => forallb (fun mx => check_pair l c mx) [1; 2; 3]%nat) sorted_maps) sorted_maps.
Definition bad := flat_map (fun l => flat_map (fun c => flat_map (fun mx => if check_pair l c mx then [] else [(l, c, mx)]) [1; 2; 3]%nat) sorted_maps) sorted_maps.
Time Eval vm_compute in (length sorted_maps, all_ok).
Eval vm_compute in firstn 3 bad.
