(* Wire glue for C06: the sync planner.
   case: (local cloud ok0 max create_fail upload_fail); local / cloud = ((g (b ...)) ...) sorted by g;
         create_fail = (g ...), upload_fail = ((g b) ...)
   result: (0 actions ok); action = (0 g) create | (1 g b) upload | (2 g) delete *)
From Coq Require Import List NArith Bool.
Import ListNotations.
Require Import Wire Sync.
Local Open Scope N_scope.

Definition dec_group (v : val) : option (N * list N) :=
  match v with
  | VL [VN g; bs] => option_map (fun bs => (g, bs)) (as_listof as_N bs)
  | _ => None
  end.
Definition dec_pair (v : val) : option (N * N) :=
  match v with VL [VN a; VN b] => Some (a, b) | _ => None end.

Definition enc_action (a : action) : val :=
  match a with
  | Create g => VL [VN 0; VN g]
  | Upload g b => VL [VN 1; VN g; VN b]
  | Delete g => VL [VN 2; VN g]
  end.

Definition run_c06 (v : val) : val :=
  match v with
  | VL [l; c; ok0; VN mx; cf; uf] =>
    match as_listof dec_group l, as_listof dec_group c, as_bool ok0, as_listof as_N cf, as_listof dec_pair uf with
    | Some l, Some c, Some ok0, Some cf, Some uf =>
      let create_ok g := negb (memN g cf) in
      let upload_ok g b := negb (existsb (fun p => (fst p =? g) && (snd p =? b)) uf) in
      let '(acts, ok) := sync create_ok upload_ok l c ok0 (N.to_nat mx) in
      VL [VN 0; of_list enc_action acts; of_bool ok]
    | _, _, _, _, _ => bad_input
    end
  | _ => bad_input
  end.
