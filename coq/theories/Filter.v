(* PROTOTYPE (round 0): backuping/filter.rs - rule lines, PathFilter::new and PathFilter::check on top of the glob model *)
From Coq Require Import List Arith NArith Lia Bool.
Import ListNotations.
Require Import Glob Codec2.
Open Scope N_scope.

Definition is_ws (c : N) := (c =? 32) || (c =? 9).
Fixpoint trim_start (l : list N) : list N := match l with c :: r => if is_ws c then trim_start r else l | [] => [] end.
(* on the reversed line: drop trailing blanks, but stop at one that is preceded by a backslash *)
Fixpoint trim_rev (r : list N) : list N :=
  match r with
  | c :: r' => if is_ws c then match r' with p :: _ => if p =? 92 then r else trim_rev r' | [] => r end else r
  | [] => []
  end.
Definition trim_end (l : list N) := rev (trim_rev (rev l)).

Definition parse_rule (rule : list N) : option (list N * bool) :=
  match rule with
  | a :: b :: g =>
      if negb (b =? 32) then None else
      match g with [] => None | _ =>
        if a =? 43 then Some (g, true) else if a =? 45 then Some (g, false) else None end
  | _ => None
  end.

Inductive lres := LNone | LRule (g : list N) (allow : bool) | LErr.
Definition parse_rule_line (line : list N) : lres :=
  match trim_start line with
  | [] => LNone
  | c :: r => if c =? 35 then LNone else
              match parse_rule (trim_end (c :: r)) with Some (g, a) => LRule g a | None => LErr end
  end.

(* str::lines on the spec (the same splitting as BufRead::lines) *)
Definition spec_lines (s : list N) := lines s.

Fixpoint parse_spec (ls : list (list N)) : option (list (list N * bool)) :=
  match ls with
  | [] => Some []
  | l :: r => match parse_rule_line l with
              | LErr => None
              | LNone => parse_spec r
              | LRule g a => match parse_glob (vsb_unescape g) with
                             | None => None                            (* invalid glob: PathFilter::new fails *)
                             | Some _ => option_map (cons (g, a)) (parse_spec r) end
              end
  end.
Definition filter_new (spec : list N) := parse_spec (spec_lines spec).

Fixpoint check (rules : list (list N * bool)) (path : list N) : bool :=
  match rules with
  | [] => true
  | (g, a) :: r => match rule_match g path with Some true => a | _ => check r path end
  end.

(* ---- facts ---- *)
(* first matching rule wins, default allow *)
Theorem check_first_match : forall rules path,
  (exists pre g a post, rules = pre ++ (g, a) :: post /\ rule_match g path = Some true /\
     Forall (fun r => rule_match (fst r) path <> Some true) pre /\ check rules path = a)
  \/ (Forall (fun r => rule_match (fst r) path <> Some true) rules /\ check rules path = true).
Proof.
  intros rules path; induction rules as [|[g a] rules IH]; [right; split; [constructor|reflexivity]|].
  cbn [check]. destruct (rule_match g path) as [[|]|] eqn:E.
  - left. exists [], g, a, rules. repeat split; auto.
  - destruct IH as [(pre & g' & a' & post & -> & Hm & Hp & Hc)|[Hn Hc]].
    + left. exists ((g, a) :: pre), g', a', post. repeat split; auto. constructor; auto. cbn. congruence.
    + right. split; auto. constructor; auto. cbn. congruence.
  - destruct IH as [(pre & g' & a' & post & -> & Hm & Hp & Hc)|[Hn Hc]].
    + left. exists ((g, a) :: pre), g', a', post. repeat split; auto. constructor; auto. cbn. congruence.
    + right. split; auto. constructor; auto. cbn. congruence.
Qed.

(* blank lines and comments are ignored, and nothing else is *)
Theorem ignored_iff : forall line, parse_rule_line line = LNone <->
  trim_start line = [] \/ exists r, trim_start line = 35 :: r.
Proof.
  intro line. unfold parse_rule_line. destruct (trim_start line) as [|c r] eqn:E.
  - split; auto.
  - destruct (N.eqb_spec c 35) as [->|Hne].
    + split; eauto.
    + split.
      * destruct (parse_rule (trim_end (c :: r))) as [[g a]|]; discriminate.
      * intros [H|[r' H]]; [discriminate|inversion H; congruence].
Qed.

(* writing a rule down and reading it back: "+ glob" / "- glob" with any indentation and trailing blanks *)
Lemma trim_start_ws : forall pad l, forallb is_ws pad = true -> trim_start (pad ++ l) = trim_start l.
Proof. induction pad as [|c pad IH]; intros l H; [reflexivity|]. cbn [forallb] in H. apply andb_true_iff in H as [Hc Hp]. cbn [app trim_start]. rewrite Hc. auto. Qed.

Lemma trim_rev_ws : forall pad r x, forallb is_ws pad = true -> is_ws x = false -> x <> 92 ->
  trim_rev (pad ++ x :: r) = x :: r.
Proof.
  induction pad as [|c pad IH]; intros r x Hp Hx Hb.
  - cbn [app trim_rev]. now rewrite Hx.
  - cbn [forallb] in Hp. apply andb_true_iff in Hp as [Hc Hp]. cbn [app trim_rev]. rewrite Hc.
    destruct pad as [|c2 pad'].
    + cbn [app]. assert (x =? 92 = false) as -> by now apply N.eqb_neq. cbn [trim_rev]. now rewrite Hx.
    + cbn [app]. cbn [forallb] in Hp. apply andb_true_iff in Hp as [Hc2 Hp'].
      assert (c2 =? 92 = false) as ->. { unfold is_ws in Hc2. apply N.eqb_neq. intro; subst. discriminate. }
      apply (IH r x); auto. cbn [forallb]. now rewrite Hc2.
Qed.

Theorem rule_line_roundtrip : forall ind trail sign glob x a,
  forallb is_ws ind = true -> forallb is_ws trail = true ->
  (sign = 43 /\ a = true \/ sign = 45 /\ a = false) ->
  is_ws x = false -> x <> 92 ->                      (* the glob ends in a visible character other than a backslash *)
  parse_rule_line (ind ++ sign :: 32 :: glob ++ x :: trail) = LRule (glob ++ [x]) a.
Proof.
  intros ind trail sign glob x a Hi Ht Hs Hx Hb. unfold parse_rule_line. rewrite trim_start_ws by auto.
  assert (Hsw : is_ws sign = false) by (destruct Hs as [[-> _]|[-> _]]; reflexivity).
  cbn [trim_start]. rewrite Hsw.
  assert (sign =? 35 = false) as -> by (destruct Hs as [[-> _]|[-> _]]; reflexivity).
  assert (Ht' : trim_end (sign :: 32 :: glob ++ x :: trail) = sign :: 32 :: glob ++ [x]).
  { unfold trim_end.
    assert (Hr : rev (sign :: 32 :: glob ++ x :: trail) = rev trail ++ x :: rev glob ++ [32; sign]).
    { cbn [rev]. rewrite rev_app_distr. cbn [rev]. repeat rewrite <- app_assoc. reflexivity. }
    rewrite Hr, trim_rev_ws; auto.
    - cbn [rev]. rewrite rev_app_distr, rev_involutive. cbn [rev app]. reflexivity.
    - rewrite forallb_forall in *. intros c Hc. apply Ht. now apply in_rev. }
  rewrite Ht'. unfold parse_rule. cbn [N.eqb negb]. destruct (glob ++ [x]) eqn:Eg; [destruct glob; discriminate|].
  rewrite <- Eg. destruct Hs as [[-> ->]|[-> ->]]; reflexivity.
Qed.
Print Assumptions check_first_match.
Print Assumptions rule_line_roundtrip.
