(* PROTOTYPE (round 0): from the walker to C01's run model - for one item, the ancestors of the item root followed by
   the archive events of an unfaulted walk form a well-formed item list (WFws), which is the premise of run_HOK /
   history_restore *)
From Coq Require Import List Arith NArith ZArith Lia Bool Permutation.
Import ListNotations.
Require Import Restore2 Restore2Exec Restore2Plan C01a C01b C01c C01d C01e Walker WalkerFaults WalkerOrder.

Local Open Scope nat_scope.
Section B.
Variable allow : rpath -> option bool.
Variable mt : path -> meta.              (* lstat of each path at the time the run reads it *)
Variable fpf : path -> fp.

Definition item_of (e : ev) : list witem :=
  match e with
  | EvDir p => [WDir p (mt p)] | EvFile p d => [WFile p (mt p) (fpf p) d] | EvSym p t => [WSym p (mt p) t]
  | _ => [] end.
Definition items_of (es : list ev) : list witem := flat_map item_of es.

(* backup_parent_directories: "/a", "/a/b", ... for the proper ancestors of the root *)
Definition ancestors (root : path) : list path := map (fun k => firstn k root) (seq 1 (length root - 1)).
Definition item_ws (n : node) (root : path) : list witem :=
  map (fun p => WDir p (mt p)) (ancestors root) ++ items_of (fst (walk allow n root true)).

Lemma item_path : forall e w, In w (item_of e) -> fst (sn_of_item w) = ev_path e.
Proof. intros [p|p d|p t|p|p|p] w H; cbn in H; try contradiction; destruct H as [<-|[]]; reflexivity. Qed.

Lemma items_paths_incl : forall es p, In p (map fst (sn_of (items_of es))) -> In p (map ev_path es).
Proof.
  intros es p H. unfold sn_of in H. rewrite map_map in H. apply in_map_iff in H as (w & <- & Hw).
  unfold items_of in Hw. apply in_flat_map in Hw as (e & He & Hw). apply in_map_iff. exists e. split; auto.
  symmetry. now apply item_path.
Qed.

Lemma items_nodup : forall es, NoDup (map ev_path es) -> NoDup (map fst (sn_of (items_of es))).
Proof.
  induction es as [|e es IH]; intro H; [constructor|]. cbn [map] in H. inversion H as [|? ? Hn Hd]; subst.
  unfold items_of. cbn [flat_map]. fold (items_of es). unfold sn_of. rewrite map_app, map_app.
  destruct e; cbn [item_of map app]; try (apply IH; exact Hd);
    (constructor; [|apply IH; exact Hd]); intro Hin; apply Hn; apply (items_paths_incl es _ Hin).
Qed.

(* a decomposition of the item list comes from a decomposition of the event list *)
Lemma items_split : forall es pre w suf, items_of es = pre ++ w :: suf ->
  exists pre_e e suf_e, es = pre_e ++ e :: suf_e /\ item_of e = [w] /\ pre = items_of pre_e /\ suf = items_of suf_e.
Proof.
  induction es as [|e es IH]; intros pre w suf E; [destruct pre; discriminate|].
  unfold items_of in E. cbn [flat_map] in E. fold (items_of es) in E.
  assert (Hc : item_of e = [] \/ exists w0, item_of e = [w0]) by (destruct e; cbn; eauto).
  destruct Hc as [Hc|(w0 & Hc)]; rewrite Hc in E; cbn [app] in E.
  - destruct (IH _ _ _ E) as (pe & e' & se & -> & A & -> & ->). exists (e :: pe), e', se. repeat split; auto.
    unfold items_of. cbn [flat_map]. now rewrite Hc.
  - destruct pre as [|y pre]; cbn [app] in E; inversion E; subst.
    + exists [], e, es. repeat split; auto.
    + match goal with Hr : items_of es = _ |- _ => destruct (IH _ _ _ Hr) as (pe & e' & se & -> & A & -> & ->) end.
      exists (e :: pe), e', se. repeat split; auto. unfold items_of. cbn [flat_map]. now rewrite Hc.
Qed.

Lemma firstn_parent : forall k (root : path), 1 <= k -> k <= length root -> parent (firstn k root) = firstn (k - 1) root.
Proof.
  intros k root H1 H2. unfold parent. rewrite <- (firstn_skipn (k - 1) (firstn k root)) at 1.
  rewrite firstn_firstn. replace (Nat.min (k - 1) k) with (k - 1) by lia.
  assert (Hs : exists x, skipn (k - 1) (firstn k root) = [x]).
  { assert (Hl : length (skipn (k - 1) (firstn k root)) = 1) by (rewrite skipn_length, firstn_length; lia).
    destruct (skipn (k - 1) (firstn k root)) as [|x [|y r]]; try discriminate. eauto. }
  destruct Hs as (x & ->). apply removelast_last.
Qed.

Lemma NoDup_map_inj_in : forall (A B : Type) (f : A -> B) l,
  (forall a b, In a l -> In b l -> f a = f b -> a = b) -> NoDup l -> NoDup (map f l).
Proof.
  intros A B f l; induction l as [|x l IH]; intros Hi Hn; [constructor|]. inversion Hn as [|? ? Hx Hl]; subst. cbn [map]. constructor.
  - intro Hin. apply in_map_iff in Hin as (y & E & Hy). apply Hx. rewrite <- (Hi y x); auto; [now right|now left].
  - apply IH; auto. intros a b Ha Hb. apply Hi; now right.
Qed.

Lemma split_unique : forall (A : Type) (a b a' b' : list A) x,
  a ++ x :: b = a' ++ x :: b' -> ~ In x a -> ~ In x a' -> a = a'.
Proof.
  intros A a; induction a as [|y a IH]; intros b a' b' x E Ha Ha'.
  - destruct a' as [|z a']; [reflexivity|]. cbn [app] in E. inversion E; subst. exfalso. apply Ha'. now left.
  - destruct a' as [|z a']; cbn [app] in E; inversion E; subst.
    + exfalso. apply Ha. now left.
    + f_equal. eapply IH; eauto; intro; [apply Ha|apply Ha']; now right.
Qed.

Theorem item_ws_WF : forall n root, FaultFree n -> root <> [] -> WFws (item_ws n root).
Proof.
  intros n root HF Hroot. set (es := fst (walk allow n root true)).
  assert (Hlen : 1 <= length root) by (destruct root; [congruence|cbn; lia]).
  assert (Hev : forall e, In e es -> exists q, ev_path e = root ++ q).
  { intros e He. destruct (walk_ff_events allow n HF root true e He) as [_ Hq]. exact Hq. }
  assert (Hsn : sn_of (item_ws n root) = map (fun p => (p, SDir (mt p))) (ancestors root) ++ sn_of (items_of es)).
  { unfold item_ws, sn_of. rewrite map_app, map_map. reflexivity. }
  constructor.
  - (* no path twice *)
    rewrite Hsn, map_app, map_map. cbn [fst]. rewrite map_id. apply NoDup_app_intro'.
    + unfold ancestors. apply NoDup_map_inj_in; [|apply seq_NoDup].
      intros a b Ha Hb E. apply in_seq in Ha, Hb. apply (f_equal (@length _)) in E. rewrite !firstn_length in E. lia.
    + apply items_nodup. apply walk_nodup. exact HF.
    + intros p Ha Hb. unfold ancestors in Ha. apply in_map_iff in Ha as (k & <- & Hk). apply in_seq in Hk.
      apply items_paths_incl, in_map_iff in Hb as (e & Ee & He). destruct (Hev e He) as (q & Eq).
      rewrite Eq in Ee. apply (f_equal (@length _)) in Ee. rewrite app_length, firstn_length in Ee. lia.
  - (* never the root of the file system *)
    intros p sn Hin. rewrite Hsn in Hin. apply in_app_iff in Hin as [Hin|Hin].
    + apply in_map_iff in Hin as (a & Ea & Ha). inversion Ea; subst. unfold ancestors in Ha.
      apply in_map_iff in Ha as (k & <- & Hk). apply in_seq in Hk. destruct root; [congruence|]. destruct k; [lia|]. discriminate.
    + assert (Hp : In p (map fst (sn_of (items_of es)))) by (apply in_map_iff; exists (p, sn); auto).
      apply items_paths_incl, in_map_iff in Hp as (e & Ee & He). destruct (Hev e He) as (q & Eq). rewrite Eq in Ee.
      intro; subst p. destruct root; [congruence|discriminate].
  - (* parents first *)
    intros pre p sn suf E. rewrite Hsn in E. apply app_split_mid in E as [(pre2 & -> & E)|(suf2 & E & ->)].
    + (* an entry of the walk *)
      unfold sn_of in E. apply map_eq_app in E as (l1 & l2 & Eit & <- & E2).
      destruct l2 as [|w l2]; [discriminate|]. cbn [map] in E2. inversion E2 as [[Ew El2]]. clear E2.
      destruct (items_split _ _ _ _ Eit) as (pe & e & se & Ees & Hw & -> & ->).
      assert (Hp : p = ev_path e). { pose proof (item_path e w) as Hi. rewrite Hw in Hi. specialize (Hi (or_introl eq_refl)). rewrite Ew in Hi. exact Hi. }
      assert (Ha : is_arch e = true) by (destruct e; cbn in Hw; try discriminate; reflexivity).
      destruct (walk_parents allow n HF root true pe e se Ees Ha) as [Er|Hd].
      * (* the item root itself: its parent is the last ancestor, or "/" *)
        rewrite Hp, Er. destruct (Nat.eq_dec (length root) 1) as [H1|H1].
        -- left. destruct root as [|a [|b r]]; try discriminate; try congruence. reflexivity.
        -- right. exists (mt (parent root)). apply in_or_app. left. apply in_map_iff. exists (parent root). split; [reflexivity|].
           unfold ancestors. apply in_map_iff. exists (length root - 1). split.
           ++ rewrite <- (firstn_parent (length root) root) by lia. now rewrite firstn_all.
           ++ apply in_seq. lia.
      * right. exists (mt (parent p)). apply in_or_app. right. rewrite Hp. unfold parent.
        apply in_map_iff. exists (WDir (removelast (ev_path e)) (mt (removelast (ev_path e)))). split; [reflexivity|].
        unfold items_of. apply in_flat_map. exists (EvDir (removelast (ev_path e))). split; [exact Hd|now left].
    + (* an ancestor *)
      apply map_eq_app in E as (l1 & l2 & Ea & <- & E2). destruct l2 as [|a l2]; [discriminate|]. cbn [map] in E2.
      inversion E2 as [[Ep Esn El2]]. subst a. clear E2.
      unfold ancestors in Ea. apply map_eq_app in Ea as (k1 & k2 & Es & <- & E3). destruct k2 as [|k k2]; [discriminate|].
      cbn [map] in E3. inversion E3 as [[Ek Ek2]]. clear E3.
      assert (Hk : In k (seq 1 (length root - 1))) by (rewrite Es; apply in_or_app; right; now left).
      apply in_seq in Hk. destruct (Nat.eq_dec k 1) as [->|Hk1].
      * left. try rewrite <- Ek. rewrite firstn_parent by lia. reflexivity.
      * right. try rewrite <- Ek. exists (mt (parent (firstn k root))). rewrite firstn_parent by lia. apply in_map_iff. exists (firstn (k - 1) root). split; [reflexivity|].
        apply in_map_iff. exists (k - 1). split; auto.
        (* k - 1 stands before k in seq *)
        assert (Hseq : seq 1 (length root - 1) = seq 1 (k - 1) ++ seq k (length root - k)).
        { replace (length root - 1) with ((k - 1) + (length root - k)) by lia. rewrite seq_app. f_equal. f_equal. lia. }
        rewrite Hseq in Es.
        assert (Hk1s : k1 = seq 1 (k - 1)).
        { assert (Hnd : NoDup (k1 ++ k :: k2)) by (rewrite <- Es, <- Hseq; apply seq_NoDup).
          destruct (length root - k) as [|m] eqn:Em; [lia|]. cbn [seq] in Es. symmetry.
          apply (split_unique _ _ _ _ _ _ Es).
          - intro Hin. apply in_seq in Hin. lia.
          - apply NoDup_remove_2 in Hnd. intro Hin. apply Hnd. apply in_or_app. now left. }
        rewrite Hk1s. apply in_seq. lia.
Qed.
End B.
Print Assumptions item_ws_WF.
