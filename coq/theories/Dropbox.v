(* PROTOTYPE (round 0): providers/dropbox.rs::upload_file as a function of the chunk-stream events and the server's
   replies; the emulator's namespace machine; C05 for this provider *)
From Coq Require Import List Arith NArith Lia Bool.
Import ListNotations.

Definition bytes := list N.
Inductive cev := CStream (off : nat) (body : bytes) | CEof (size : nat) (sum : bytes) | CErr.
Inductive req := RStart | RAppend (off : nat) (body : bytes) | RFinish (size : nat) | RDeleteTemp | RMove.

(* the k-th request succeeds iff [ok k]; the finish reply carries [srv_hash] *)
Section Upload.
Variable ok : nat -> bool.
Variable srv_hash : bytes.
Variable beqb : bytes -> bytes -> bool.
Hypothesis beqb_spec : forall a b, reflect (a = b) (beqb a b).

(* events after the start request; k = index of the next request; returns the requests issued and the result *)
Fixpoint events (evs : list cev) (k : nat) : list req * bool :=
  match evs with
  | [] => ([], false)                                         (* sender closed without a terminal message *)
  | CStream off body :: r => if ok k then let '(rs, res) := events r (S k) in (RAppend off body :: rs, res)
                             else ([RAppend off body], false)
  | CEof size sum :: _ =>
      if ok k then
        if beqb srv_hash sum then ([RFinish size; RMove], ok (S k))
        else ([RFinish size; RDeleteTemp], false)             (* checksum mismatch: delete the temporary, fail *)
      else ([RFinish size], false)
  | CErr :: _ => ([], false)
  end.
Definition upload (evs : list cev) : list req * bool :=
  if ok 0 then let '(rs, res) := events evs 1 in (RStart :: rs, res) else ([RStart], false).

(* ---- the emulated server: an upload session, the temporary object and the final object ---- *)
Record srv := { session : option bytes; temp : option bytes; final : option bytes }.
Definition srv0 (old_final : option bytes) := {| session := None; temp := None; final := old_final |}.
Definition apply1 (s : srv) (r : req) : srv :=
  match r with
  | RStart => {| session := Some []; temp := temp s; final := final s |}
  | RAppend off body => match session s with
                        | Some d => {| session := Some (d ++ body); temp := temp s; final := final s |}
                        | None => s end
  | RFinish _ => match session s with
                 | Some d => {| session := None; temp := Some d; final := final s |}
                 | None => s end
  | RDeleteTemp => {| session := session s; temp := None; final := final s |}
  | RMove => match temp s with Some d => {| session := session s; temp := None; final := Some d |} | None => s end
  end.
(* only successful requests take effect *)
Fixpoint serve (s : srv) (rs : list req) (k : nat) : srv :=
  match rs with [] => s | r :: rs' => serve (if ok k then apply1 s r else s) rs' (S k) end.

Fixpoint payload (evs : list cev) : bytes :=
  match evs with CStream _ b :: r => b ++ payload r | _ => [] end.
Fixpoint terminal (evs : list cev) : option (nat * bytes) :=
  match evs with CStream _ _ :: r => terminal r | CEof n s :: _ => Some (n, s) | _ => None end.

(* C05 for Dropbox: the final name changes only if every request succeeded, the stream ended with the checksum
   message, and the server's checksum equals it; it then holds exactly the concatenation of the bodies *)
Lemma events_final : forall evs k s d0,
  session s = Some d0 ->
  final (serve s (fst (events evs k)) k) <> final s ->
  snd (events evs k) = true /\ (exists n, terminal evs = Some (n, srv_hash)) /\
  final (serve s (fst (events evs k)) k) = Some (d0 ++ payload evs).
Proof.
  induction evs as [|e evs IH]; intros k s d0 Hs Hf; cbn [events] in *.
  - cbn in Hf. congruence.
  - destruct e as [off body|size sum|].
    + destruct (ok k) eqn:Ek.
      * destruct (events evs (S k)) as [rs res] eqn:Ee. cbn [fst snd serve] in *. rewrite Ek in *.
        cbn [apply1] in *. rewrite Hs in *. 
        specialize (IH (S k) {| session := Some (d0 ++ body); temp := temp s; final := final s |} (d0 ++ body) eq_refl).
        rewrite Ee in IH. cbn [fst snd final] in IH. destruct (IH Hf) as (A & B & C). cbn [payload terminal]. rewrite <- app_assoc in C. auto.
      * cbn [fst serve] in Hf. rewrite Ek in Hf. cbn in Hf. congruence.
    + destruct (ok k) eqn:Ek.
      * destruct (beqb_spec srv_hash sum) as [<-|Hne].
        -- cbn [fst snd serve] in *. rewrite Ek in *. cbn [apply1] in *. rewrite Hs in *. cbn [temp] in *.
           destruct (ok (S k)) eqn:Ek1; [|cbn in Hf; congruence]. cbn [apply1 temp final] in *.
           split; [reflexivity|]. split; [eexists; reflexivity|]. cbn [payload]. now rewrite app_nil_r.
        -- exfalso. cbn [fst serve] in Hf. rewrite Ek in Hf. cbn [apply1] in Hf. rewrite Hs in Hf.
           destruct (ok (S k)); cbn in Hf; congruence.
      * exfalso. cbn [fst serve] in Hf. rewrite Ek in Hf. cbn in Hf. congruence.
    + cbn in Hf. congruence.
Qed.

Theorem final_only_if_verified : forall evs old,
  final (serve (srv0 old) (fst (upload evs)) 0) <> old ->
  snd (upload evs) = true /\ (exists n, terminal evs = Some (n, srv_hash)) /\
  final (serve (srv0 old) (fst (upload evs)) 0) = Some (payload evs).
Proof.
  intros evs old Hf. unfold upload in *. destruct (ok 0) eqn:E0.
  - destruct (events evs 1) as [rs res] eqn:Ee. cbn [fst snd serve] in *. rewrite E0 in *. cbn [apply1 srv0 temp final] in *.
    pose proof (events_final evs 1 {| session := Some []; temp := None; final := old |} [] eq_refl) as Hx.
    rewrite Ee in Hx. cbn [fst snd final] in Hx. apply Hx. exact Hf.
  - cbn [fst serve] in Hf. rewrite E0 in Hf. cbn in Hf. congruence.
Qed.
End Upload.
Print Assumptions final_only_if_verified.
