(* PROTOTYPE (round 0): Backuper::run - items in configuration order, before/after hooks (C19) *)
From Coq Require Import List Arith NArith Lia Bool.
Import ListNotations.
Require Import Walker.

Record item := {
  it_before : option bool;          (* Some ok = a before command is configured and exits with success = ok *)
  it_after : option bool;
  it_tree : option node;            (* None = the item cannot be prepared (missing, overlapping, ...) *)
  it_filter : rpath -> option bool
}.
Inductive iev := IBefore (i : nat) (ok : bool) | IWalk (i : nat) (es : list ev) | IPrepErr (i : nat) | IAfter (i : nat) (ok : bool).

Definition hook_ev (mk : bool -> iev) (h : option bool) : list iev := match h with Some ok => [mk ok] | None => [] end.
Definition body (i : nat) (it : item) : list iev * bool :=
  match it_tree it with
  | Some n => let r := walk (it_filter it) n [] true in ([IWalk i (fst r)], snd r)
  | None => ([IPrepErr i], false)
  end.
Definition one_item (i : nat) (it : item) : list iev * bool :=
  let b := body i it in (hook_ev (IBefore i) (it_before it) ++ fst b ++ hook_ev (IAfter i) (it_after it), snd b).

(* returns the trace and whether the run was aborted by a fatal error *)
Fixpoint run_items (i : nat) (its : list item) : list iev * bool :=
  match its with
  | [] => ([], false)
  | it :: r => let '(e, abort) := one_item i it in
               if abort then (e, true) else let '(e', a') := run_items (S i) r in (e ++ e', a')
  end.

(* the run's ok flag: no hook failed, no item failed to prepare, no walk reported an error *)
Definition iev_ok (e : iev) : bool :=
  match e with
  | IBefore _ ok | IAfter _ ok => ok
  | IPrepErr _ => false
  | IWalk _ es => forallb (fun x => match x with EvError _ | EvAbort _ => false | _ => true end) es
  end.

(* C19: the trace is the concatenation, over a prefix of the items in order, of before - work - after;
   the prefix is everything unless an item aborted, and then it ends with that item including its after hook *)
Definition dflt := Build_item None None None (fun _ => None).
Theorem hooks_bracket : forall its i,
  exists k, k <= length its /\
    fst (run_items i its) = concat (map (fun j => fst (one_item (i + j) (nth j its dflt))) (seq 0 k)) /\
    (snd (run_items i its) = false -> k = length its) /\
    (snd (run_items i its) = true -> k >= 1 /\ snd (one_item (i + (k - 1)) (nth (k - 1) its dflt)) = true).
Proof.
  induction its as [|it its IH]; intros i; cbn [run_items].
  - exists 0. cbn. split; [lia|]. split; [reflexivity|]. split; [reflexivity|intros Hc; discriminate].
  - remember (one_item i it) as oi eqn:E1. destruct oi as [e abort]. destruct abort.
    + exists 1. cbn [length seq map concat nth fst snd]. rewrite Nat.add_0_r, <- E1. cbn [fst snd]. rewrite app_nil_r.
      split; [lia|]. split; [reflexivity|]. split; [intros Hc; discriminate|]. intros _. split; [lia|].
      cbn [Nat.sub nth]. rewrite Nat.add_0_r, <- E1. reflexivity.
    + destruct (IH (S i)) as (k & Hk & Htr & Hf & Ht). destruct (run_items (S i) its) as [e' a'] eqn:E2. cbn [fst snd] in *.
      exists (S k). split; [cbn; lia|]. split; [|split].
      * cbn [seq map concat nth]. rewrite Nat.add_0_r, <- E1. cbn [fst]. f_equal. rewrite Htr. f_equal.
        rewrite <- seq_shift, map_map. apply map_ext. intros j. cbn [nth]. replace (i + S j) with (S i + j) by lia. reflexivity.
      * intros Ha. cbn [length]. f_equal. auto.
      * intros Ha. destruct (Ht Ha) as [Hk1 Hab]. split; [lia|]. replace (S k - 1) with (S (k - 1)) by lia. cbn [nth].
        replace (i + S (k - 1)) with (S i + (k - 1)) by lia. exact Hab.
Qed.

(* each started item: hooks at most once each, before first, after last, also when the work aborted *)
Theorem item_shape : forall i it, exists w,
  fst (one_item i it) = hook_ev (IBefore i) (it_before it) ++ [w] ++ hook_ev (IAfter i) (it_after it) /\
  (match w with IWalk j _ | IPrepErr j => j = i | _ => False end).
Proof.
  intros i it. unfold one_item, body. destruct (it_tree it); eexists; split; reflexivity || exact eq_refl.
Qed.
Print Assumptions hooks_bracket.
