(* Wire glue for C16: two runs scheduled under a non-blocking exclusive lock.
   case: (n schedule) with schedule a list of 0 / 1 (which process takes the next step)
   result: (0 state0 state1 trace); state = 0 not started | (1 todo) holding | 2 done | 3 refused; trace = ((process op) ...) *)
From Coq Require Import List NArith Bool Arith.
Import ListNotations.
Require Import Wire Lock.
Local Open Scope N_scope.

Definition enc_ps (p : pstate) : val :=
  match p with NotStarted => VN 0 | Holding k => VL [VN 1; of_nat k] | Done => VN 2 | Refused => VN 3 end.

Definition run_c16 (v : val) : val :=
  match v with
  | VL [VN n; sch] =>
    match as_listof as_bool sch with
    | Some sch => let s := run (N.to_nat n) sch in
                  VL [VN 0; enc_ps (p0 s); enc_ps (p1 s); of_list (fun e => VL [of_bool (fst e); of_nat (snd e)]) (trace s)]
    | None => bad_input end
  | _ => bad_input end.
