(* PROTOTYPE (round 0): C06 convergence and idempotence of the sync model, as theorems *)
From Coq Require Import List Arith NArith Lia Bool ZifyBool ZifyNat ZifyN Sorting.Sorted.
Import ListNotations.
Require Import Sync.
Open Scope N_scope.

Definition bks (g : N) (m : gmap) : list N := match lookup g m with Some v => v | None => [] end.
Definition sorted (m : gmap) := StronglySorted N.lt (keys m).

(* ---------- lookup / keys ---------- *)
Lemma lookup_keys : forall g m, In g (keys m) <-> lookup g m <> None.
Proof.
  intros g m; induction m as [|[k v] m IH]; cbn [keys map lookup fst].
  - split; [contradiction|congruence].
  - fold (keys m). destruct (k =? g) eqn:E.
    + apply N.eqb_eq in E. split; [congruence|intros _; now left].
    + apply N.eqb_neq in E. split.
      * intros [?|H]; [congruence|now apply IH].
      * intro H. right. now apply IH.
Qed.

Lemma lookup_In : forall g m v, lookup g m = Some v -> In (g, v) m.
Proof.
  intros g m v; induction m as [|[k w] m IH]; cbn [lookup]; [discriminate|].
  destruct (k =? g) eqn:E; intro H.
  - apply N.eqb_eq in E. inversion H; subst. now left.
  - right; auto.
Qed.

Lemma lookup_none_keys : forall g m, lookup g m = None <-> ~ In g (keys m).
Proof. intros. rewrite lookup_keys. destruct (lookup g m); split; intro H; try congruence. exfalso; apply H; congruence. Qed.

Lemma lookup_filter_key : forall (P : N -> bool) g m,
  lookup g (filter (fun e => P (fst e)) m) = if P g then lookup g m else None.
Proof.
  intros P g m; induction m as [|[k v] m IH]; cbn [filter lookup fst].
  - now destruct (P g).
  - destruct (P k) eqn:Ek; cbn [lookup]; destruct (k =? g) eqn:E; auto.
    + apply N.eqb_eq in E; subst. now rewrite Ek.
    + apply N.eqb_eq in E; subst. rewrite Ek in IH. now rewrite Ek.
Qed.

Lemma keys_filter_key : forall (P : N -> bool) m, keys (filter (fun e => P (fst e)) m) = filter P (keys m).
Proof. intros P m; induction m as [|[k v] m IH]; cbn [filter keys map fst]; auto. destruct (P k); cbn [map fst]; unfold keys in *; now rewrite IH. Qed.

(* ---------- insert ---------- *)
Lemma merge_backups_In : forall b a x, In x (merge_backups a b) <-> In x a \/ In x b.
Proof.
  induction b as [|y b IH]; intros a x; cbn [merge_backups].
  - cbn [In]. tauto.
  - destruct (memN y a) eqn:E.
    + rewrite IH. apply memN_In in E. split; [intros [?|?]; auto; right; now right|intros [?|[?|?]]; subst; auto].
    + rewrite IH, in_app_iff. cbn [In]. tauto.
Qed.

Lemma insert_keys : forall g bs m x, In x (keys (insert g bs m)) <-> x = g \/ In x (keys m).
Proof.
  intros g bs m x; induction m as [|[k v] m IH]; cbn [insert keys map fst].
  - cbn [In]. split; [intros [?|[]]; subst; auto | intros [?|[]]; subst; auto].
  - destruct (g <? k); [cbn [map fst In]; split; [intros [?|?]; subst; auto|intros [?|?]; subst; auto]|].
    destruct (g =? k) eqn:E; cbn [map fst In].
    + apply N.eqb_eq in E. subst. split; [intros [?|?]; subst; auto|intros [?|[?|?]]; subst; auto].
    + fold (keys (insert g bs m)). fold (keys m). rewrite IH.
      split; [intros [?|[?|?]]; subst; auto|intros [?|[?|?]]; subst; auto].
Qed.

Lemma sorted_cons_inv : forall k v m, sorted ((k, v) :: m) -> sorted m /\ forall x, In x (keys m) -> k < x.
Proof.
  unfold sorted; cbn [keys map fst]. intros k v m H. apply StronglySorted_inv in H as [H1 H2]. split; auto.
  intros x Hx. rewrite Forall_forall in H2. auto.
Qed.

Lemma insert_sorted : forall g bs m, sorted m -> sorted (insert g bs m).
Proof.
  intros g bs m; induction m as [|[k v] m IH]; intro Hs; cbn [insert].
  - unfold sorted; cbn. constructor; constructor.
  - destruct (g <? k) eqn:E1.
    + unfold sorted; cbn [keys map fst]. constructor; [exact Hs|].
      apply sorted_cons_inv in Hs as [_ Hlt]. constructor; [lia|]. apply Forall_forall. intros x Hx. specialize (Hlt x Hx). lia.
    + destruct (g =? k) eqn:E2.
      * exact Hs.
      * pose proof (sorted_cons_inv _ _ _ Hs) as [Hm Hlt]. specialize (IH Hm).
        unfold sorted; cbn [keys map fst]. constructor; [exact IH|]. apply Forall_forall. intros x Hx.
        apply insert_keys in Hx as [->|Hx]; [lia|auto].
Qed.

Lemma insert_lookup_other : forall g bs m x, x <> g -> lookup x (insert g bs m) = lookup x m.
Proof.
  intros g bs m x Hne; induction m as [|[k v] m IH]; cbn [insert lookup].
  - destruct (g =? x) eqn:E; auto. apply N.eqb_eq in E. congruence.
  - destruct (g <? k); cbn [lookup].
    + destruct (g =? x) eqn:E; auto. apply N.eqb_eq in E. congruence.
    + destruct (g =? k) eqn:E; cbn [lookup].
      * apply N.eqb_eq in E. subst k. destruct (g =? x) eqn:E'; auto. apply N.eqb_eq in E'. congruence.
      * now rewrite IH.
Qed.

Lemma insert_bks_same : forall g bs m b, sorted m -> In b (bks g (insert g bs m)) <-> In b (bks g m) \/ In b bs.
Proof.
  intros g bs m b; induction m as [|[k v] m IH]; intro Hs; unfold bks; cbn [insert lookup].
  - rewrite N.eqb_refl. cbn. tauto.
  - destruct (g <? k) eqn:E1; cbn [lookup].
    + rewrite N.eqb_refl. assert (k =? g = false) by lia. rewrite H.
      assert (lookup g m = None) as ->.
      { apply lookup_none_keys. intro Hin. apply sorted_cons_inv in Hs as [_ Hlt]. specialize (Hlt g Hin). lia. }
      cbn. tauto.
    + destruct (g =? k) eqn:E2; cbn [lookup].
      * assert (k =? g = true) as -> by lia. now rewrite merge_backups_In.
      * assert (k =? g = false) as -> by lia. apply sorted_cons_inv in Hs as [Hm _]. exact (IH Hm).
Qed.

Definition ins_all (m acc : gmap) : gmap := fold_left (fun a '(g, bs) => insert g bs a) m acc.

Lemma ins_all_sorted : forall m acc, sorted acc -> sorted (ins_all m acc).
Proof. induction m as [|[g bs] m IH]; intros acc H; cbn; auto. apply IH. now apply insert_sorted. Qed.

Lemma ins_all_keys : forall m acc x, In x (keys (ins_all m acc)) <-> In x (keys acc) \/ In x (keys m).
Proof.
  induction m as [|[g bs] m IH]; intros acc x; cbn [ins_all fold_left keys map fst In].
  - tauto.
  - fold (ins_all m (insert g bs acc)). rewrite IH, insert_keys. fold (keys m). intuition.
Qed.

Lemma ins_all_bks : forall m acc g b, sorted acc ->
  In b (bks g (ins_all m acc)) <-> In b (bks g acc) \/ exists v, In (g, v) m /\ In b v.
Proof.
  induction m as [|[k bs] m IH]; intros acc g b Hs; cbn [ins_all fold_left].
  - split; [auto|intros [?|(v & [] & _)]; auto].
  - fold (ins_all m (insert k bs acc)). rewrite IH by now apply insert_sorted.
    destruct (N.eq_dec g k) as [->|Hne].
    + rewrite insert_bks_same by auto. split.
      * intros [[?|?]|(v & Hv & Hb)]; auto; right; [exists bs|exists v]; split; auto; [now left|now right].
      * intros [?|(v & [Hv|Hv] & Hb)]; auto. { inversion Hv; subst. auto. } right. now exists v.
    + unfold bks at 1. rewrite insert_lookup_other by auto. fold (bks g acc). split.
      * intros [?|(v & Hv & Hb)]; auto. right. exists v. split; auto. now right.
      * intros [?|(v & [Hv|Hv] & Hb)]; auto. { inversion Hv; congruence. } right. now exists v.
Qed.

Lemma sorted_nil : sorted []. Proof. constructor. Qed.

Lemma union_eq : forall l c, union l c = ins_all c (ins_all l []). Proof. reflexivity. Qed.

Lemma union_sorted : forall l c, sorted (union l c).
Proof. intros. rewrite union_eq. apply ins_all_sorted, ins_all_sorted, sorted_nil. Qed.

Lemma union_keys : forall l c x, In x (keys (union l c)) <-> In x (keys l) \/ In x (keys c).
Proof. intros. rewrite union_eq, !ins_all_keys. cbn. tauto. Qed.

Definition has (m : gmap) (g b : N) := exists v, In (g, v) m /\ In b v.

Lemma union_bks : forall l c g b, In b (bks g (union l c)) <-> has l g b \/ has c g b.
Proof.
  intros. rewrite union_eq, ins_all_bks by apply ins_all_sorted, sorted_nil.
  rewrite ins_all_bks by apply sorted_nil. unfold bks; cbn. unfold has. tauto.
Qed.

(* ---------- the cloud as the actions change it (every action succeeding) ---------- *)
Definition create_group (g : N) (c : gmap) := if memN g (keys c) then c else insert g [] c.
Definition add_backup (g b : N) (c : gmap) : gmap :=
  map (fun e => if fst e =? g then (fst e, snd e ++ [b]) else e) c.   (* no effect if the group is absent *)
Definition delete_group (g : N) (c : gmap) := filter (fun e => negb (fst e =? g)) c.
Definition apply1 (c : gmap) (a : action) : gmap :=
  match a with Create g => create_group g c | Upload g b => add_backup g b c | Delete g => delete_group g c end.
Definition apply (c : gmap) (acts : list action) := fold_left apply1 acts c.

Lemma insert_lookup_new : forall g bs m, ~ In g (keys m) -> lookup g (insert g bs m) = Some bs.
Proof.
  intros g bs m; induction m as [|[k v] m IH]; intro Hn; cbn [insert lookup].
  - now rewrite N.eqb_refl.
  - cbn [keys map fst In] in Hn. destruct (g <? k); cbn [lookup]; [now rewrite N.eqb_refl|].
    assert (g =? k = false) as -> by (apply N.eqb_neq; intro; subst; apply Hn; now left).
    cbn [lookup]. assert (k =? g = false) as -> by (apply N.eqb_neq; intro; subst; apply Hn; now left).
    apply IH. intro; apply Hn; now right.
Qed.

Lemma create_keys : forall g c x, In x (keys (create_group g c)) <-> x = g \/ In x (keys c).
Proof.
  intros. unfold create_group. destruct (memN g (keys c)) eqn:E.
  - apply memN_In in E. split; [auto|intros [->|?]; auto].
  - apply insert_keys.
Qed.

Lemma create_bks : forall g c x, bks x (create_group g c) = bks x c.
Proof.
  intros. unfold create_group. destruct (memN g (keys c)) eqn:E; auto.
  assert (Hn : ~ In g (keys c)) by (intro H; apply memN_In in H; congruence).
  unfold bks. destruct (N.eq_dec x g) as [->|Hne].
  - rewrite insert_lookup_new by auto. apply lookup_none_keys in Hn. now rewrite Hn.
  - now rewrite insert_lookup_other.
Qed.

Lemma add_keys : forall g b c, keys (add_backup g b c) = keys c.
Proof. intros. unfold add_backup, keys. rewrite map_map. apply map_ext. intros [k v]; cbn. now destruct (k =? g). Qed.

Lemma add_lookup : forall g b c x,
  lookup x (add_backup g b c) = match lookup x c with Some v => Some (if x =? g then v ++ [b] else v) | None => None end.
Proof.
  intros g b c x; induction c as [|[k v] c IH]; cbn [add_backup map lookup fst snd]; auto.
  destruct (k =? g) eqn:Eg; cbn [lookup]; destruct (k =? x) eqn:Ex; auto.
  - apply N.eqb_eq in Eg, Ex. subst. now rewrite N.eqb_refl.
  - apply N.eqb_eq in Ex. subst. now rewrite Eg.
Qed.

Lemma add_bks_mono : forall g b c x y, In y (bks x c) -> In y (bks x (add_backup g b c)).
Proof. intros. unfold bks in *. rewrite add_lookup. destruct (lookup x c); auto. destruct (x =? g); auto. apply in_app_iff; auto. Qed.

Lemma add_bks_new : forall g b c, In g (keys c) -> In b (bks g (add_backup g b c)).
Proof.
  intros g b c H. apply lookup_keys in H. unfold bks. rewrite add_lookup. destruct (lookup g c); [|congruence].
  rewrite N.eqb_refl. apply in_app_iff. right. now left.
Qed.

Definition extends (c0 c1 : gmap) :=
  (forall x, In x (keys c0) -> In x (keys c1)) /\ (forall x b, In b (bks x c0) -> In b (bks x c1)).
Lemma extends_refl : forall c, extends c c. Proof. split; auto. Qed.
Lemma extends_trans : forall a b c, extends a b -> extends b c -> extends a c.
Proof. intros a b c [H1 H2] [H3 H4]. split; auto. Qed.
Lemma extends_add : forall g b c, extends c (add_backup g b c).
Proof. split; intros. now rewrite add_keys. now apply add_bks_mono. Qed.
Lemma extends_create : forall g c, extends c (create_group g c).
Proof. split; intros. apply create_keys; auto. now rewrite create_bks. Qed.

Lemma apply_app : forall c a b, apply c (a ++ b) = apply (apply c a) b.
Proof. intros. unfold apply. apply fold_left_app. Qed.

Section Effects.
Variable create_ok : N -> bool.
Variable upload_ok : N -> N -> bool.
Notation upload_backups := (upload_backups upload_ok).
Notation upload_groups := (upload_groups create_ok upload_ok).
Notation sync := (sync create_ok upload_ok).

Lemma upload_backups_apply : forall g tb cb ok a c0,
  upload_backups g tb cb ok = (a, true) -> In g (keys c0) -> (forall b, In b cb -> In b (bks g c0)) ->
  extends c0 (apply c0 a) /\ forall b, In b tb -> In b (bks g (apply c0 a)).
Proof.
  intros g tb; induction tb as [|x tb IH]; intros cb ok a c0 E Hg Hcb; cbn [upload_backups] in E.
  - inversion E; subst. split; [apply extends_refl|contradiction].
  - destruct (memN x cb) eqn:Em.
    + destruct (IH _ _ _ _ E Hg Hcb) as [He Hb]. split; auto.
      intros b [<-|Hin]; auto. apply memN_In in Em. apply He. auto.
    + destruct (upload_backups g tb cb (ok && upload_ok g x)) as [a1 ok1] eqn:E1. inversion E; subst a ok1.
      cbn [apply fold_left apply1]. fold (apply (add_backup g x c0) a1).
      assert (Hg' : In g (keys (add_backup g x c0))) by now rewrite add_keys.
      assert (Hcb' : forall b, In b cb -> In b (bks g (add_backup g x c0))) by (intros; apply add_bks_mono; auto).
      destruct (IH _ _ _ _ E1 Hg' Hcb') as [He Hb]. split.
      * eapply extends_trans; [apply extends_add|exact He].
      * intros b [<-|Hin]; auto. apply He. now apply add_bks_new.
Qed.

Lemma upload_groups_apply : forall t c ok a c0,
  upload_groups t c ok = (a, true) -> extends c c0 ->
  extends c0 (apply c0 a) /\
  forall g tb, In (g, tb) t -> tb <> [] -> In g (keys (apply c0 a)) /\ forall b, In b tb -> In b (bks g (apply c0 a)).
Proof.
  induction t as [|[g1 tb1] t IH]; intros c ok a c0 E Hext; cbn [upload_groups] in E.
  - inversion E; subst. split; [apply extends_refl|contradiction].
  - destruct tb1 as [|b0 tb0].
    { destruct (IH _ _ _ _ E Hext) as [He Hall]. split; auto. intros g tb [Heq|Hin] Hne; [inversion Heq; subst; congruence|auto]. }
    remember (b0 :: tb0) as tb1.
    destruct (lookup g1 c) as [cb|] eqn:El.
    + destruct (upload_backups g1 tb1 cb ok) as [a1 ok1] eqn:E1.
      destruct (upload_groups t c ok1) as [a2 ok2] eqn:E2. inversion E; subst a ok2.
      assert (ok1 = true) by (eapply upload_groups_ok_mono; eauto). subst ok1.
      assert (Hg : In g1 (keys c0)). { apply Hext. apply lookup_keys. congruence. }
      assert (Hcb : forall b, In b cb -> In b (bks g1 c0)). { intros b Hb. apply Hext. unfold bks. now rewrite El. }
      destruct (upload_backups_apply _ _ _ _ _ _ E1 Hg Hcb) as [He1 Hb1].
      rewrite apply_app.
      destruct (IH _ _ _ (apply c0 a1) E2 (extends_trans _ _ _ Hext He1)) as [He2 Hall]. split.
      * eapply extends_trans; eauto.
      * intros g tb [Heq|Hin] Hne; [|auto]. inversion Heq; subst g tb. split; [apply He2, He1, Hg|].
        intros b Hb. apply He2. auto.
    + destruct (create_ok g1).
      * destruct (upload_backups g1 tb1 [] ok) as [a1 ok1] eqn:E1.
        destruct (upload_groups t c ok1) as [a2 ok2] eqn:E2. inversion E; subst a ok2.
        assert (ok1 = true) by (eapply upload_groups_ok_mono; eauto). subst ok1.
        cbn [apply fold_left apply1]. fold (apply (create_group g1 c0) (a1 ++ a2)).
        assert (Hg : In g1 (keys (create_group g1 c0))) by (apply create_keys; auto).
        destruct (upload_backups_apply _ _ _ _ _ _ E1 Hg (fun b (H : In b []) => match H with end)) as [He1 Hb1].
        rewrite apply_app.
        assert (Hext' : extends c (apply (create_group g1 c0) a1)).
        { eapply extends_trans; [exact Hext|]. eapply extends_trans; [apply extends_create|exact He1]. }
        destruct (IH _ _ _ _ E2 Hext') as [He2 Hall]. split.
        -- eapply extends_trans; [apply extends_create|]. eapply extends_trans; eauto.
        -- intros g tb [Heq|Hin] Hne; [|auto]. inversion Heq; subst g tb. split; [apply He2, He1, Hg|].
           intros b Hb. apply He2. auto.
      * destruct (upload_groups t c false) as [a2 ok2] eqn:E2. inversion E; subst a ok2.
        apply upload_groups_ok_mono in E2; auto. discriminate.
Qed.

Lemma delete_lookup : forall g c x, lookup x (delete_group g c) = if x =? g then None else lookup x c.
Proof. intros. unfold delete_group. rewrite (lookup_filter_key (fun k => negb (k =? g))). now destruct (x =? g). Qed.

Lemma apply_deletes_lookup : forall ds c x,
  lookup x (apply c (map Delete ds)) = if memN x ds then None else lookup x c.
Proof.
  induction ds as [|d ds IH]; intros c x; cbn [map apply fold_left apply1 memN existsb]; auto.
  fold (apply (delete_group d c) (map Delete ds)). rewrite IH. fold (memN x ds).
  destruct (memN x ds); [now rewrite orb_true_r|]. rewrite orb_false_r. apply delete_lookup.
Qed.

Lemma target_cases : forall l c max, target l c max = union l c \/ exists k, target l c max = filter (fun e => k <=? fst e) (union l c).
Proof.
  intros. unfold target. destruct (_ <=? _)%nat; auto. destruct (first_group _ _ _); eauto.
Qed.

Lemma target_lookup : forall l c max g, In g (keys (target l c max)) -> lookup g (target l c max) = lookup g (union l c).
Proof.
  intros l c max g H. destruct (target_cases l c max) as [->|[k Hk]]; auto. rewrite Hk in *.
  rewrite (keys_filter_key (fun x => k <=? x)) in H. apply filter_In in H as [_ H].
  rewrite (lookup_filter_key (fun x => k <=? x)). now rewrite H.
Qed.

(* C06: after an error-free run the cloud holds every local backup of every group of the window,
   and everything it already held in those groups *)
Theorem sync_converges : forall l c ok0 max acts,
  sync l c ok0 max = (acts, true) ->
  forall g, In g (keys (target l c max)) ->
    (forall b, has l g b -> In b (bks g (apply c acts))) /\
    (forall b, In b (bks g c) -> In b (bks g (apply c acts))).
Proof.
  intros l c ok0 max acts E g Hg. unfold Sync.sync in E.
  destruct (upload_groups (target l c max) c (ok0 && safeguard l c)) as [ups ok2] eqn:Eu.
  inversion E; subst acts ok2. clear E.
  destruct (upload_groups_apply _ _ _ _ c Eu (extends_refl c)) as [He Hall].
  rewrite apply_app. unfold deletions.
  assert (Hkeep : lookup g (apply (apply c ups) (map Delete (filter (fun g0 => negb (memN g0 (keys (target l c max)))) (keys c))))
                  = lookup g (apply c ups)).
  { rewrite apply_deletes_lookup. destruct (memN g _) eqn:Em; auto. apply memN_In, filter_In in Em as [_ Em].
    apply memN_In in Hg. rewrite Hg in Em. discriminate. }
  unfold bks at 1 3. rewrite Hkeep. fold (bks g (apply c ups)). split.
  - intros b Hb.
    assert (Hu : In b (bks g (union l c))) by (apply union_bks; auto).
    pose proof (target_lookup _ _ _ _ Hg) as Hl.
    destruct (lookup g (target l c max)) as [tb|] eqn:Et; [|apply lookup_keys in Hg; congruence].
    unfold bks in Hu. rewrite <- Hl in Hu.
    apply lookup_In in Et. destruct (Hall g tb Et) as [_ Hb']; auto. intro; subst; contradiction.
  - intros b Hb. now apply He.
Qed.
End Effects.
Print Assumptions sync_converges.

(* ---------- sorted maps: uniqueness of keys ---------- *)
Lemma sorted_In_lookup : forall m g v, sorted m -> In (g, v) m -> lookup g m = Some v.
Proof.
  induction m as [|[k w] m IH]; intros g v Hs Hin; [contradiction|]. cbn [lookup].
  pose proof (sorted_cons_inv _ _ _ Hs) as [Hm Hlt]. destruct Hin as [Heq|Hin].
  - inversion Heq; subst. now rewrite N.eqb_refl.
  - assert (k < g). { apply Hlt. unfold keys. apply in_map_iff. now exists (g, v). }
    assert (k =? g = false) as -> by lia. auto.
Qed.

Lemma has_bks : forall m g b, sorted m -> (has m g b <-> In b (bks g m)).
Proof.
  intros m g b Hs. unfold has, bks. split.
  - intros (v & Hv & Hb). now rewrite (sorted_In_lookup _ _ _ Hs Hv).
  - destruct (lookup g m) as [v|] eqn:E; [|contradiction]. intro Hb. exists v. split; auto. now apply lookup_In.
Qed.

Lemma StronglySorted_filter : forall (P : N -> bool) l, StronglySorted N.lt l -> StronglySorted N.lt (filter P l).
Proof.
  intros P l; induction l as [|x l IH]; intro H; cbn [filter]; [constructor|].
  apply StronglySorted_inv in H as [H1 H2]. destruct (P x); auto. constructor; auto.
  rewrite Forall_forall in *. intros y Hy. apply filter_In in Hy as [Hy _]. auto.
Qed.

Lemma filter_sorted : forall (P : N -> bool) m, sorted m -> sorted (filter (fun e => P (fst e)) m).
Proof. intros. unfold sorted. rewrite keys_filter_key. now apply StronglySorted_filter. Qed.

Lemma apply1_sorted : forall c a, sorted c -> sorted (apply1 c a).
Proof.
  intros c [g|g b|g] H; cbn [apply1].
  - unfold create_group. destruct (memN g (keys c)); auto. now apply insert_sorted.
  - unfold sorted. now rewrite add_keys.
  - unfold delete_group. apply (filter_sorted (fun k => negb (k =? g))); auto.
Qed.
Lemma apply_sorted : forall a c, sorted c -> sorted (apply c a).
Proof. induction a as [|x a IH]; intros c H; cbn; auto. apply IH. now apply apply1_sorted. Qed.

(* ---------- upper bounds: nothing appears in the cloud that no action put there ---------- *)
Lemma apply_bks_upper : forall a c0 x b, In b (bks x (apply c0 a)) -> In b (bks x c0) \/ In (Upload x b) a.
Proof.
  induction a as [|[g|g b'|g] a IH]; intros c0 x b H; cbn [apply fold_left] in H; auto;
    match type of H with In _ (bks _ (fold_left _ _ ?c1)) => fold (apply c1 a) in H end;
    apply IH in H as [H|H]; try (right; now right); cbn [apply1] in H.
  - rewrite create_bks in H. auto.
  - unfold bks in H. rewrite add_lookup in H. fold (bks x c0). unfold bks. destruct (lookup x c0) as [v|]; [|contradiction].
    destruct (x =? g) eqn:E; auto. apply N.eqb_eq in E. subst. apply in_app_iff in H as [H|[H|[]]]; auto. subst. right; now left.
  - unfold bks in H. rewrite delete_lookup in H. destruct (x =? g); [contradiction|]. auto.
Qed.

Lemma apply_keys_upper : forall a c0 x, In x (keys (apply c0 a)) -> In x (keys c0) \/ In (Create x) a.
Proof.
  induction a as [|[g|g b'|g] a IH]; intros c0 x H; cbn [apply fold_left] in H; auto;
    match type of H with In _ (keys (fold_left _ _ ?c1)) => fold (apply c1 a) in H end;
    apply IH in H as [H|H]; try (right; now right); cbn [apply1] in H.
  - apply create_keys in H as [->|H]; auto. right; now left.
  - rewrite add_keys in H. auto.
  - unfold delete_group in H. rewrite (keys_filter_key (fun k => negb (k =? g))) in H. apply filter_In in H as [H _]. auto.
Qed.

Section Idem.
Variable create_ok : N -> bool.
Variable upload_ok : N -> N -> bool.

Lemma upload_backups_acts : forall g tb cb ok a ok' x,
  upload_backups upload_ok g tb cb ok = (a, ok') -> In x a -> exists b, x = Upload g b /\ In b tb.
Proof.
  intros g tb; induction tb as [|y tb IH]; intros cb ok a ok' x E Hin; cbn [upload_backups] in E.
  - inversion E; subst; contradiction.
  - destruct (memN y cb).
    + destruct (IH _ _ _ _ _ E Hin) as (b & -> & Hb). exists b; split; auto. now right.
    + destruct (upload_backups upload_ok g tb cb (ok && upload_ok g y)) as [a1 ok1] eqn:E1. inversion E; subst.
      destruct Hin as [<-|Hin]; [exists y; split; auto; now left|].
      destruct (IH _ _ _ _ _ E1 Hin) as (b & -> & Hb). exists b; split; auto. now right.
Qed.

Lemma upload_groups_acts : forall t c ok a ok',
  upload_groups create_ok upload_ok t c ok = (a, ok') ->
  (forall g b, In (Upload g b) a -> exists tb, In (g, tb) t /\ In b tb) /\
  (forall g, In (Create g) a -> exists tb, In (g, tb) t) /\
  (forall g, ~ In (Delete g) a).
Proof.
  induction t as [|[g1 tb1] t IH]; intros c ok a ok' E; cbn [upload_groups] in E.
  - inversion E; subst. repeat split; intros; try contradiction. auto.
  - assert (Hlift : forall a2 okx ok2, upload_groups create_ok upload_ok t c okx = (a2, ok2) ->
      (forall g b, In (Upload g b) a2 -> exists tb, In (g, tb) ((g1, tb1) :: t) /\ In b tb) /\
      (forall g, In (Create g) a2 -> exists tb, In (g, tb) ((g1, tb1) :: t)) /\ (forall g, ~ In (Delete g) a2)).
    { intros a2 okx ok2 E2. destruct (IH _ _ _ _ E2) as (H1 & H2 & H3). split; [|split]; auto.
      - intros g b H. destruct (H1 g b H) as (tb & ? & ?). exists tb; split; auto. now right.
      - intros g H. destruct (H2 g H) as (tb & ?). exists tb. now right. }
    destruct tb1 as [|b0 tb0]; [exact (Hlift _ _ _ E)|]. remember (b0 :: tb0) as tb1.
    assert (Hub : forall cb okx a1 ok1, upload_backups upload_ok g1 tb1 cb okx = (a1, ok1) ->
      (forall g b, In (Upload g b) a1 -> exists tb, In (g, tb) ((g1, tb1) :: t) /\ In b tb) /\
      (forall g, ~ In (Create g) a1) /\ (forall g, ~ In (Delete g) a1)).
    { intros cb okx a1 ok1 E1. split; [|split].
      - intros g b H. destruct (upload_backups_acts _ _ _ _ _ _ _ E1 H) as (b' & Heq & Hb). inversion Heq; subst g b.
        exists tb1. split; auto. now left.
      - intros g H. destruct (upload_backups_acts _ _ _ _ _ _ _ E1 H) as (b' & Heq & _). discriminate.
      - intros g H. destruct (upload_backups_acts _ _ _ _ _ _ _ E1 H) as (b' & Heq & _). discriminate. }
    destruct (lookup g1 c) as [cb|].
    + destruct (upload_backups upload_ok g1 tb1 cb ok) as [a1 ok1] eqn:E1.
      destruct (upload_groups create_ok upload_ok t c ok1) as [a2 ok2] eqn:E2. inversion E; subst a ok'.
      destruct (Hub _ _ _ _ E1) as (U1 & U2 & U3). destruct (Hlift _ _ _ E2) as (L1 & L2 & L3).
      split; [|split].
      * intros g b H. apply in_app_or in H as [H|H]; auto.
      * intros g H. apply in_app_or in H as [H|H]; auto. exfalso; eapply U2; eauto.
      * intros g H. apply in_app_or in H as [H|H]; [eapply U3|eapply L3]; eauto.
    + destruct (create_ok g1).
      * destruct (upload_backups upload_ok g1 tb1 [] ok) as [a1 ok1] eqn:E1.
        destruct (upload_groups create_ok upload_ok t c ok1) as [a2 ok2] eqn:E2. inversion E; subst a ok'.
        destruct (Hub _ _ _ _ E1) as (U1 & U2 & U3). destruct (Hlift _ _ _ E2) as (L1 & L2 & L3).
        split; [|split].
        -- intros g b [H|H]; [discriminate|]. apply in_app_or in H as [H|H]; auto.
        -- intros g [H|H]; [inversion H; subst g; exists tb1; now left|]. apply in_app_or in H as [H|H]; auto. exfalso; eapply U2; eauto.
        -- intros g [H|H]; [discriminate|]. apply in_app_or in H as [H|H]; [eapply U3|eapply L3]; eauto.
      * destruct (upload_groups create_ok upload_ok t c false) as [a2 ok2] eqn:E2. inversion E; subst a ok'.
        destruct (Hlift _ _ _ E2) as (L1 & L2 & L3). split; [|split].
        -- intros g b [H|H]; [discriminate|auto].
        -- intros g [H|H]; [inversion H; subst g; exists tb1; now left|auto].
        -- intros g [H|H]; [discriminate|eapply L3; eauto].
Qed.
End Idem.

(* ---------- the window depends only on (key, non-empty) of the union ---------- *)
Definition sig (m : gmap) : list (N * bool) := map (fun e => (fst e, nonempty e)) m.

Lemma sig_rev : forall m, sig (rev m) = rev (sig m). Proof. intros. unfold sig. now rewrite map_rev. Qed.
Lemma sig_length : forall a b, sig a = sig b -> length a = length b.
Proof. intros a b H. apply (f_equal (@length _)) in H. unfold sig in H. now rewrite !map_length in H. Qed.
Lemma sig_keys : forall a b, sig a = sig b -> keys a = keys b.
Proof.
  intros a b H. apply (f_equal (map fst)) in H. unfold sig in H. rewrite !map_map in H. exact H.
Qed.

Lemma fg_sig : forall max a b n, sig a = sig b -> first_group a n max = first_group b n max.
Proof.
  intros max a; induction a as [|e a IH]; intros [|e' b] n H; cbn [sig map] in H; try discriminate; auto.
  inversion H as [[H1 H2 H3]]. cbn [first_group]. rewrite H1, H2.
  destruct (nonempty e'); [destruct (max <=? S n)%nat; auto|]; apply IH; exact H3.
Qed.

Lemma fg_in : forall max a n k, first_group a n max = Some k -> In k (keys a).
Proof.
  intros max a; induction a as [|e a IH]; intros n k H; cbn [first_group] in H; [discriminate|].
  cbn [keys map]. destruct (nonempty e).
  - destruct (max <=? S n)%nat; [inversion H; now left|right; eapply IH; eauto].
  - right; eapply IH; eauto.
Qed.

Lemma fg_app : forall max a b n k, first_group a n max = Some k -> first_group (a ++ b) n max = Some k.
Proof.
  intros max a; induction a as [|e a IH]; intros b n k H; cbn [first_group app] in *; [discriminate|].
  destruct (nonempty e); [destruct (max <=? S n)%nat; auto|auto].
Qed.

Lemma fg_app_inv : forall max a b n k, first_group (a ++ b) n max = Some k -> ~ In k (keys b) -> first_group a n max = Some k.
Proof.
  intros max a; induction a as [|e a IH]; intros b n k H Hn; cbn [first_group app] in *.
  - exfalso. apply Hn. eapply fg_in; eauto.
  - destruct (nonempty e); [destruct (max <=? S n)%nat; eauto|eauto].
Qed.

Lemma fg_len : forall max a n k, first_group a n max = Some k -> (max <= n + length a)%nat.
Proof.
  intros max a; induction a as [|e a IH]; intros n k H; cbn [first_group length] in *; [discriminate|].
  destruct (nonempty e).
  - destruct (max <=? S n)%nat eqn:E; [lia|]. apply IH in H. lia.
  - apply IH in H. lia.
Qed.

Lemma filter_all_ge : forall k m, (forall x, In x (keys m) -> k <= x) ->
  filter (fun e => fst e <? k) m = [] /\ filter (fun e => k <=? fst e) m = m.
Proof.
  intros k m; induction m as [|[k1 v] m IH]; intro H; cbn [filter fst]; auto.
  assert (k <= k1) by (apply H; now left).
  assert (k1 <? k = false) as -> by lia. assert (k <=? k1 = true) as -> by lia.
  destruct IH as [I1 I2]; [intros; apply H; now right|]. now rewrite I2.
Qed.

Lemma sorted_split : forall k m, sorted m ->
  m = filter (fun e => fst e <? k) m ++ filter (fun e => k <=? fst e) m.
Proof.
  intros k m; induction m as [|[k1 v] m IH]; intro Hs; cbn [filter fst]; auto.
  pose proof (sorted_cons_inv _ _ _ Hs) as [Hm Hlt].
  destruct (k1 <? k) eqn:E.
  - assert (k <=? k1 = false) as -> by lia. cbn [app]. f_equal. auto.
  - assert (k <=? k1 = true) as -> by lia.
    destruct (filter_all_ge k m) as [-> ->]; auto. intros x Hx. specialize (Hlt x Hx). lia.
Qed.

Lemma nil_iff : forall (p q : list N), (forall b, In b p <-> In b q) -> (p = [] <-> q = []).
Proof.
  intros [|x p] [|y q] H; split; intro E; try discriminate; auto.
  - exfalso. apply (H y). now left.
  - exfalso. apply (H x). now left.
Qed.

Lemma sig_eq : forall a b, sorted a -> sorted b ->
  (forall x, In x (keys a) <-> In x (keys b)) ->
  (forall x, In x (keys a) -> (bks x a = [] <-> bks x b = [])) -> sig a = sig b.
Proof.
  induction a as [|[k1 v1] a IH]; intros [|[k2 v2] b] Ha Hb Hk Hf; cbn [sig map]; auto.
  - exfalso. apply (Hk k2). now left.
  - exfalso. apply (Hk k1). now left.
  - pose proof (sorted_cons_inv _ _ _ Ha) as [Ha' La]. pose proof (sorted_cons_inv _ _ _ Hb) as [Hb' Lb].
    assert (k1 = k2).
    { assert (H1 : In k1 (keys ((k2, v2) :: b))) by (apply Hk; now left).
      assert (H2 : In k2 (keys ((k1, v1) :: a))) by (apply Hk; now left).
      cbn [keys map fst] in H1, H2. destruct H1 as [H1|H1]; auto. destruct H2 as [H2|H2]; auto.
      specialize (La _ H2). specialize (Lb _ H1). lia. }
    subst k2. f_equal.
    + f_equal. specialize (Hf k1 (or_introl eq_refl)). unfold bks in Hf. cbn [lookup] in Hf. rewrite N.eqb_refl in Hf.
      unfold nonempty; cbn [snd]. destruct v1, v2; auto; destruct Hf as [F1 F2]; [specialize (F1 eq_refl)|specialize (F2 eq_refl)]; discriminate.
    + apply IH; auto.
      * intros x. split; intro Hx.
        -- assert (H1 : In x (keys ((k1, v2) :: b))) by (apply Hk; now right).
           destruct H1 as [H1|H1]; auto. cbn [fst] in H1. specialize (La _ Hx). lia.
        -- assert (H1 : In x (keys ((k1, v1) :: a))) by (apply Hk; now right).
           destruct H1 as [H1|H1]; auto. cbn [fst] in H1. specialize (Lb _ Hx). lia.
      * intros x Hx. specialize (La _ Hx).
        assert (Hx' : In x (keys ((k1, v1) :: a))) by now right.
        specialize (Hf x Hx'). unfold bks in *. cbn [lookup] in Hf.
        assert (k1 =? x = false) as E by lia. now rewrite E in Hf.
Qed.

Lemma bks_filter : forall (P : N -> bool) m x, P x = true -> bks x (filter (fun e => P (fst e)) m) = bks x m.
Proof. intros. unfold bks. rewrite lookup_filter_key. now rewrite H. Qed.

(* stability of the window under a change of the cloud that leaves the window's groups as they were *)
Lemma target_stable : forall l c c' max,
  (forall x, In x (keys (union l c')) -> In x (keys (union l c))) ->
  (forall x, In x (keys (target l c max)) -> In x (keys (union l c'))) ->
  (forall x, In x (keys (target l c max)) -> forall b, In b (bks x (union l c')) <-> In b (bks x (union l c))) ->
  forall x, In x (keys (target l c' max)) <-> In x (keys (target l c max)).
Proof.
  intros l c c' max F1 F2 F3.
  pose proof (union_sorted l c) as Su. pose proof (union_sorted l c') as Su'.
  set (u := union l c) in *. set (u' := union l c') in *.
  assert (Whole : target l c max = u -> sig u' = sig u).
  { intro Ht. rewrite Ht in *. apply sig_eq; auto.
    - intro x; split; auto.
    - intros x Hx. apply nil_iff. apply F3. auto. }
  unfold target at 2. fold u.
  destruct (length u <=? max)%nat eqn:Elen.
  - assert (Ht : target l c max = u) by (unfold target; fold u; now rewrite Elen).
    specialize (Whole Ht). unfold target. fold u'. rewrite (sig_length _ _ Whole), Elen. intro x. now rewrite (sig_keys _ _ Whole).
  - destruct (first_group (rev u) 0 max) as [k|] eqn:Efg.
    2:{ assert (Ht : target l c max = u) by (unfold target; fold u; now rewrite Elen, Efg).
        specialize (Whole Ht). unfold target. fold u'. rewrite (sig_length _ _ Whole), Elen.
        rewrite (fg_sig max (rev u') (rev u)) by (rewrite !sig_rev; now f_equal). rewrite Efg.
        intro x. now rewrite (sig_keys _ _ Whole). }
    assert (Ht : target l c max = filter (fun e => k <=? fst e) u) by (unfold target; fold u; now rewrite Elen, Efg).
    rewrite Ht in F2, F3.
    set (W := filter (fun e => k <=? fst e) u) in *. set (W' := filter (fun e => k <=? fst e) u').
    set (O := filter (fun e => fst e <? k) u). set (O' := filter (fun e => fst e <? k) u').
    assert (HW : sig W' = sig W).
    { apply sig_eq.
      - apply (filter_sorted (fun x => k <=? x)); auto.
      - apply (filter_sorted (fun x => k <=? x)); auto.
      - intro x. unfold W, W'. rewrite !(keys_filter_key (fun x => k <=? x)), !filter_In. split.
        + intros [H1 H2]. split; auto.
        + intros [H1 H2]. split; auto. apply F2. unfold W. rewrite (keys_filter_key (fun x => k <=? x)). apply filter_In; auto.
      - intros x Hx. unfold W' in Hx. rewrite (keys_filter_key (fun x => k <=? x)) in Hx. apply filter_In in Hx as [Hx Hk].
        unfold W, W'. rewrite !(bks_filter (fun x => k <=? x)) by auto. apply nil_iff. apply F3.
        unfold W. rewrite (keys_filter_key (fun x => k <=? x)). apply filter_In; auto. }
    assert (Hu : u = O ++ W) by (apply sorted_split; auto).
    assert (Hu' : u' = O' ++ W') by (apply sorted_split; auto).
    assert (HkW : first_group (rev W) 0 max = Some k).
    { apply fg_app_inv with (b := rev O).
      - rewrite <- rev_app_distr, <- Hu. exact Efg.
      - intro Hin. unfold keys in Hin. rewrite map_rev in Hin. apply in_rev in Hin. fold (keys O) in Hin.
        unfold O in Hin. rewrite (keys_filter_key (fun x => x <? k)) in Hin. apply filter_In in Hin as [_ Hin]. lia. }
    assert (HkW' : first_group (rev W') 0 max = Some k).
    { rewrite (fg_sig max (rev W') (rev W)); auto. rewrite !sig_rev. now f_equal. }
    assert (Hfg' : first_group (rev u') 0 max = Some k).
    { rewrite Hu', rev_app_distr. now apply fg_app. }
    assert (Hlen : (max <= length W')%nat).
    { apply fg_len in HkW'. rewrite rev_length in HkW'. lia. }
    intro x. unfold target. fold u'.
    destruct (length u' <=? max)%nat eqn:Elen'.
    + assert (O' = []).
      { apply Nat.leb_le in Elen'. rewrite Hu', app_length in Elen'. destruct O'; auto. cbn [length] in Elen'. lia. }
      rewrite Hu', H. cbn [app]. now rewrite (sig_keys _ _ HW).
    + rewrite Hfg'. fold W'. now rewrite (sig_keys _ _ HW).
Qed.

Lemma target_sorted : forall l c max, sorted (target l c max).
Proof.
  intros. destruct (target_cases l c max) as [->|[k ->]]; [apply union_sorted|].
  apply (filter_sorted (fun x => k <=? x)), union_sorted.
Qed.

Lemma target_keys_sub : forall l c max x, In x (keys (target l c max)) -> In x (keys (union l c)).
Proof.
  intros l c max x H. destruct (target_cases l c max) as [E|[k E]]; rewrite E in H; auto.
  rewrite (keys_filter_key (fun x => k <=? x)) in H. now apply filter_In in H as [H _].
Qed.

Lemma upload_backups_nothing : forall uo g tb cb ok, (forall b, In b tb -> In b cb) -> upload_backups uo g tb cb ok = ([], ok).
Proof.
  intros uo g tb; induction tb as [|x tb IH]; intros cb ok H; cbn [upload_backups]; auto.
  assert (memN x cb = true) as -> by (apply memN_In, H; now left). apply IH. intros; apply H; now right.
Qed.

Lemma upload_groups_nothing : forall co uo t c ok,
  (forall g tb, In (g, tb) t -> tb <> [] -> exists cb, lookup g c = Some cb /\ forall b, In b tb -> In b cb) ->
  upload_groups co uo t c ok = ([], ok).
Proof.
  intros co uo t; induction t as [|[g tb] t IH]; intros c ok H; cbn [upload_groups]; auto.
  assert (IH' : upload_groups co uo t c ok = ([], ok)) by (apply IH; intros; eapply H; eauto; now right).
  destruct tb as [|b0 tb0]; auto. remember (b0 :: tb0) as tb.
  destruct (H g tb (or_introl eq_refl)) as (cb & -> & Hcb); [subst; discriminate|].
  rewrite upload_backups_nothing by auto. now rewrite IH'.
Qed.

Lemma filter_none : forall (A : Type) (P : A -> bool) l, (forall x, In x l -> P x = false) -> filter P l = [].
Proof. intros A P l; induction l as [|x l IH]; intro H; cbn; auto. rewrite (H x) by now left. apply IH. intros; apply H; now right. Qed.

(* C06: after an error-free run, a second run against the resulting cloud plans no action at all,
   whatever its oracles would answer *)
Theorem sync_idempotent : forall co uo co' uo' l c ok0 ok0' max acts,
  sorted c -> sync co uo l c ok0 max = (acts, true) ->
  sync co' uo' l (apply c acts) ok0' max = ([], ok0' && safeguard l (apply c acts)).
Proof.
  intros co uo co' uo' l c ok0 ok0' max acts Sc E.
  pose proof (sync_converges _ _ _ _ _ _ _ E) as Conv.
  set (c' := apply c acts) in *. set (t := target l c max) in *.
  assert (Sc' : sorted c') by now apply apply_sorted.
  unfold sync in E. fold t in E.
  destruct (upload_groups co uo t c (ok0 && safeguard l c)) as [ups ok2] eqn:Eu.
  inversion E as [[Ea Eok]]. subst ok2. clear E.
  destruct (upload_groups_acts _ _ _ _ _ _ _ Eu) as (A1 & A2 & _).
  destruct (upload_groups_apply _ _ _ _ _ _ c Eu (extends_refl c)) as [[Hek Heb] _].
  unfold deletions in Ea.
  set (ds := filter (fun g0 => negb (memN g0 (keys t))) (keys c)) in *.
  assert (Hl' : forall x, lookup x c' = if memN x ds then None else lookup x (apply c ups)).
  { intro x. unfold c'. rewrite <- Ea, apply_app. apply apply_deletes_lookup. }
  assert (Hds : forall x, In x (keys t) -> memN x ds = false).
  { intros x Hx. destruct (memN x ds) eqn:Em; auto. apply memN_In, filter_In in Em as [_ Em].
    apply memN_In in Hx. rewrite Hx in Em. discriminate. }
  assert (F4 : forall x, In x (keys c') -> In x (keys t)).
  { intros x Hx. apply lookup_keys in Hx. rewrite Hl' in Hx. destruct (memN x ds) eqn:Em; [congruence|].
    apply lookup_keys, apply_keys_upper in Hx as [Hx|Hx].
    - destruct (memN x (keys t)) eqn:Et; [now apply memN_In|]. exfalso.
      assert (In x ds) by (apply filter_In; split; auto; now rewrite Et). apply memN_In in H. congruence.
    - destruct (A2 _ Hx) as (tb & Htb). unfold keys. apply in_map_iff. now exists (x, tb). }
  assert (F1 : forall x, In x (keys (union l c')) -> In x (keys (union l c))).
  { intros x Hx. apply union_keys in Hx as [Hx|Hx]; [apply union_keys; auto|]. apply target_keys_sub with (max := max). now apply F4. }
  assert (Hbk : forall x, In x (keys t) -> bks x c' = bks x (apply c ups)).
  { intros x Hx. unfold bks. now rewrite Hl', (Hds x Hx). }
  assert (F2 : forall x, In x (keys t) -> In x (keys (union l c'))).
  { intros x Hx. pose proof (target_keys_sub _ _ _ _ Hx) as Hu. apply union_keys. apply union_keys in Hu as [Hu|Hu]; auto.
    right. apply lookup_keys. rewrite Hl', (Hds x Hx). apply lookup_keys. auto. }
  assert (F3 : forall x, In x (keys t) -> forall b, In b (bks x (union l c')) <-> In b (bks x (union l c))).
  { intros x Hx b. rewrite !union_bks. split; (intros [H|H]; [now left|]).
    - apply has_bks in H; auto. rewrite (Hbk x Hx) in H. apply apply_bks_upper in H as [H|H].
      + right. now apply has_bks.
      + destruct (A1 _ _ H) as (tb & Htb & Hb). apply (sorted_In_lookup _ _ _ (target_sorted l c max)) in Htb.
        fold t in Htb. unfold t in Htb. rewrite target_lookup in Htb by exact Hx.
        apply union_bks. unfold bks. now rewrite Htb.
    - right. apply has_bks; auto. apply has_bks in H; auto. now apply (proj2 (Conv x Hx)). }
  pose proof (target_stable l c c' max F1 F2 F3) as Stab.
  unfold sync.
  rewrite upload_groups_nothing.
  - f_equal. rewrite app_nil_l. unfold deletions. destruct (ok0' && safeguard l c'); auto.
    rewrite filter_none; auto. intros x Hx. apply F4, Stab, memN_In in Hx. now rewrite Hx.
  - intros g tb Hin Hne.
    assert (Hg' : In g (keys (target l c' max))) by (unfold keys; apply in_map_iff; now exists (g, tb)).
    pose proof (proj1 (Stab g) Hg') as Hg.
    apply (sorted_In_lookup _ _ _ (target_sorted l c' max)) in Hin. rewrite target_lookup in Hin by exact Hg'.
    assert (Hall : forall b, In b tb -> In b (bks g c')).
    { intros b Hb. assert (Hu : In b (bks g (union l c'))) by (unfold bks; now rewrite Hin).
      apply union_bks in Hu as [Hu|Hu]; [now apply (proj1 (Conv g Hg))|now apply has_bks]. }
    destruct tb as [|b0 tb0]; [congruence|].
    pose proof (Hall b0 (or_introl eq_refl)) as H0. unfold bks in H0, Hall.
    destruct (lookup g c') as [cb|]; [|contradiction]. exists cb. split; auto.
Qed.
Print Assumptions sync_idempotent.

(* non-vacuity: a run that uploads, creates and deletes, followed by a run that does nothing *)
Example idem_example :
  let l := [(1, [10]); (2, [20; 21]); (3, [30])] in let c := [(0, [5]); (2, [20])] in
  exists acts, sync (fun _ => true) (fun _ _ => true) l c true 2 = (acts, true) /\ acts <> [] /\
    sync (fun _ => false) (fun _ _ => false) l (apply c acts) true 2 = ([], true).
Proof. eexists. split; [vm_compute; reflexivity|]. split; [discriminate|vm_compute; reflexivity]. Qed.

(* ---------- what the window is: the groups with fewer than [max] non-empty groups newer than them ---------- *)
Definition newer_ne (u : gmap) (g : N) : nat := length (filter (fun e => (g <? fst e) && nonempty e) u).

Lemma filter_len_mono : forall (A : Type) (P Q : A -> bool) l,
  (forall e, In e l -> P e = true -> Q e = true) -> (length (filter P l) <= length (filter Q l))%nat.
Proof.
  intros A P Q l; induction l as [|x l IH]; intro H; cbn [filter]; auto.
  assert (IH' : (length (filter P l) <= length (filter Q l))%nat) by (apply IH; intros; apply H; auto; now right).
  destruct (P x) eqn:EP.
  - rewrite (H x (or_introl eq_refl) EP). cbn [length]. lia.
  - destruct (Q x); cbn [length]; lia.
Qed.

Lemma filter_len_strict : forall (A : Type) (P Q : A -> bool) l x,
  (forall e, In e l -> P e = true -> Q e = true) -> In x l -> P x = false -> Q x = true ->
  (length (filter P l) < length (filter Q l))%nat.
Proof.
  intros A P Q l; induction l as [|y l IH]; intros x H Hin HP HQ; [contradiction|]. cbn [filter].
  assert (Hm : (length (filter P l) <= length (filter Q l))%nat) by (apply filter_len_mono; intros; apply H; auto; now right).
  destruct Hin as [->|Hin].
  - rewrite HP, HQ. cbn [length]. lia.
  - assert (IH' : (length (filter P l) < length (filter Q l))%nat) by (eapply IH; eauto; intros; apply H; auto; now right).
    destruct (P y) eqn:EP.
    + rewrite (H y (or_introl eq_refl) EP). cbn [length]. lia.
    + destruct (Q y); cbn [length]; lia.
Qed.

Lemma filter_rev_length : forall (A : Type) (P : A -> bool) l, length (filter P (rev l)) = length (filter P l).
Proof.
  intros A P l; induction l as [|x l IH]; cbn [rev filter]; auto.
  rewrite filter_app, app_length, IH. cbn [filter]. destruct (P x); cbn [length]; lia.
Qed.

Lemma fg_none_count : forall max a n, (n < max)%nat -> first_group a n max = None -> (n + length (filter nonempty a) < max)%nat.
Proof.
  intros max a; induction a as [|e a IH]; intros n Hn H; cbn [first_group filter length] in *; [lia|].
  destruct (nonempty e).
  - destruct (max <=? S n)%nat eqn:E; [discriminate|]. cbn [length]. apply IH in H; lia.
  - apply IH in H; lia.
Qed.

Lemma fg_some_count : forall max a n k, (n < max)%nat -> first_group a n max = Some k ->
  exists a1 e a2, a = a1 ++ e :: a2 /\ fst e = k /\ nonempty e = true /\ (n + length (filter nonempty a1) + 1 = max)%nat.
Proof.
  intros max a; induction a as [|e a IH]; intros n k Hn H; cbn [first_group] in H; [discriminate|].
  destruct (nonempty e) eqn:Ene.
  - destruct (max <=? S n)%nat eqn:E.
    + inversion H; subst. exists [], e, a. cbn. repeat split; auto. lia.
    + destruct (IH (S n) k) as (a1 & e' & a2 & -> & Hk & Hne & Hc); auto; [lia|].
      exists (e :: a1), e', a2. cbn [app filter]. rewrite Ene. cbn [length]. repeat split; auto. lia.
  - destruct (IH n k) as (a1 & e' & a2 & -> & Hk & Hne & Hc); auto.
    exists (e :: a1), e', a2. cbn [app filter]. rewrite Ene. repeat split; auto.
Qed.

Lemma sorted_app_inv : forall l1 e l2, sorted (l1 ++ e :: l2) ->
  (forall x, In x (keys l1) -> x < fst e) /\ (forall x, In x (keys l2) -> fst e < x).
Proof.
  induction l1 as [|[k v] l1 IH]; intros e l2 H.
  - cbn [app] in H. destruct e as [k v]. apply sorted_cons_inv in H as [_ H]. split; [contradiction|exact H].
  - cbn [app] in H. pose proof (sorted_cons_inv _ _ _ H) as [H1 H2]. destruct (IH _ _ H1) as [I1 I2]. split; auto.
    intros x [<-|Hx]; auto. apply H2. unfold keys. rewrite map_app. apply in_or_app. right. now left.
Qed.

Theorem window_spec : forall l c max g, (1 <= max)%nat ->
  (In g (keys (target l c max)) <-> In g (keys (union l c)) /\ (newer_ne (union l c) g < max)%nat).
Proof.
  intros l c max g Hmax. pose proof (union_sorted l c) as Su. unfold target. set (u := union l c) in *.
  assert (Hall : forall e, In e u -> (g <? fst e) && nonempty e = true -> nonempty e = true)
    by (intros e _ H; now apply andb_true_iff in H).
  destruct (length u <=? max)%nat eqn:Elen.
  - split; [|tauto]. intro Hg. split; auto. unfold newer_ne.
    apply in_map_iff in Hg as ([k v] & <- & Hin). cbn [fst].
    assert ((newer_ne u k < length (filter (fun _ => true) u))%nat).
    { unfold newer_ne. apply filter_len_strict with (x := (k, v)); auto. cbn [fst]. assert (k <? k = false) as -> by lia. reflexivity. }
    assert (length (filter (fun _ : N * list N => true) u) <= length u)%nat.
    { clear. induction u as [|x u IH]; cbn [filter length]; lia. }
    unfold newer_ne in *. cbn [fst] in *. apply Nat.leb_le in Elen. lia.
  - destruct (first_group (rev u) 0 max) as [k|] eqn:Efg.
    2:{ split; [|tauto]. intro Hg. split; auto. apply fg_none_count in Efg; [|lia]. rewrite filter_rev_length in Efg.
        unfold newer_ne. pose proof (filter_len_mono _ _ nonempty u Hall). lia. }
    destruct (fg_some_count _ _ _ _ Hmax Efg) as (a1 & e & a2 & Hrev & Hk & Hne & Hc).
    assert (Hu : u = rev a2 ++ e :: rev a1).
    { rewrite <- (rev_involutive u), Hrev, rev_app_distr. cbn [rev]. now rewrite <- app_assoc. }
    rewrite Hu in Su. destruct (sorted_app_inv _ _ _ Su) as [Lo Hi]. rewrite Hk in *.
    assert (Hcnt : newer_ne u k = (max - 1)%nat).
    { unfold newer_ne. rewrite Hu, filter_app. cbn [filter]. rewrite Hk. assert (k <? k = false) as -> by lia. cbn [andb].
      rewrite app_length.
      assert (filter (fun e0 => (k <? fst e0) && nonempty e0) (rev a2) = []) as ->.
      { apply filter_none. intros [k' v'] Hin. cbn [fst]. assert (k' < k) by (apply Lo; apply in_map_iff; now exists (k', v')).
        assert (k <? k' = false) as -> by lia. reflexivity. }
      assert (filter (fun e0 => (k <? fst e0) && nonempty e0) (rev a1) = filter nonempty (rev a1)) as ->.
      { apply filter_ext_in. intros [k' v'] Hin. cbn [fst]. assert (k < k') by (apply Hi; apply in_map_iff; now exists (k', v')).
        assert (k <? k' = true) as -> by lia. reflexivity. }
      rewrite filter_rev_length. cbn [length]. lia. }
    assert (Hke : In e u) by (rewrite Hu; apply in_or_app; right; now left).
    rewrite (keys_filter_key (fun x => k <=? x)), filter_In. split.
    + intros [Hg Hge]. split; auto.
      assert ((newer_ne u g <= newer_ne u k)%nat); [|lia]. unfold newer_ne. apply filter_len_mono.
      intros e0 _ H. apply andb_true_iff in H as [H1 H2]. apply andb_true_iff. split; auto. lia.
    + intros [Hg Hlt]. split; auto. destruct (k <=? g) eqn:E; auto. exfalso.
      assert ((newer_ne u k < newer_ne u g)%nat); [|lia]. unfold newer_ne. apply filter_len_strict with (x := e); auto.
      * intros e0 _ H. apply andb_true_iff in H as [H1 H2]. apply andb_true_iff. split; auto. lia.
      * rewrite Hk. assert (k <? k = false) as -> by lia. reflexivity.
      * rewrite Hk, Hne. assert (g <? k = true) as -> by lia. reflexivity.
Qed.
Print Assumptions window_spec.
