(* PROTOTYPE (round 0): C01 stage 7 - the whole storage: groups are independent histories; runs append to the newest
   group or open a new one; collection deletes oldest whole groups.  Every retained backup restores to what its run saw. *)
From Coq Require Import List Arith NArith ZArith Lia Bool Permutation.
Import ListNotations.
Require Import Restore2 Restore2Exec Restore2Plan C01a C01b C01c C01d C01e FxMono C01g.

Definition sstate := list hstate.                      (* groups, oldest first; each one the history of its runs *)

Inductive sevent :=
| RunLast (name : N) (ws : list witem)                  (* append to the newest group *)
| RunNew (name : N) (ws : list witem)                   (* open a new group with this run *)
| Collect (k : nat).                                    (* gc_groups: delete the k oldest groups *)

Definition entry_of_run (h : hstate) (name : N) (ws : list witem) : backup * list dline * list witem :=
  (fst (run (gs_of h) name ws), snd (run (gs_of h) name ws), ws).

Definition sstep (ss : sstate) (e : sevent) : sstate :=
  match e with
  | RunLast name ws => match rev ss with
                       | h :: older => rev older ++ [h ++ [entry_of_run h name ws]]
                       | [] => ss end
  | RunNew name ws => ss ++ [[entry_of_run [] name ws]]
  | Collect k => skipn k ss
  end.

(* the premises of one run, relative to the group it goes into *)
Definition RunOK (h : hstate) (name : N) (ws : list witem) : Prop :=
  WFws ws /\ FpTruth (last_of (gs_of h)) ws /\
  ~ In name (map (fun x => b_name (fst (fst x))) h).

Definition EventOK (ss : sstate) (e : sevent) : Prop :=
  match e with
  | RunLast name ws => match rev ss with h :: _ => RunOK h name ws | [] => True end
  | RunNew name ws => RunOK [] name ws
  | Collect _ => True
  end.

Lemma HOK_nil : HOK [].
Proof.
  constructor.
  - constructor.
  - intros pre b dls ws post E. destruct pre; discriminate.
Qed.

Theorem sstep_HOK : forall ss e, Forall HOK ss -> EventOK ss e -> Forall HOK (sstep ss e).
Proof.
  intros ss e Hs He. destruct e as [name ws|name ws|k]; cbn [sstep EventOK] in *.
  - destruct (rev ss) as [|h older] eqn:Er; auto.
    assert (Ess : ss = rev older ++ [h]) by (rewrite <- (rev_involutive ss), Er; reflexivity).
    rewrite Ess in Hs. apply Forall_app in Hs as [Ho Hh]. apply Forall_app. split; auto.
    constructor; [|constructor]. apply Forall_inv in Hh. destruct He as (A & B & D). now apply run_HOK.
  - apply Forall_app. split; auto. constructor; [|constructor]. destruct He as (A & B & D).
    exact (run_HOK [] name ws HOK_nil A B D).
  - rewrite <- (firstn_skipn k ss) in Hs. now apply Forall_app in Hs as [_ Hs].
Qed.

Fixpoint sruns (ss : sstate) (es : list sevent) : sstate := match es with [] => ss | e :: r => sruns (sstep ss e) r end.
Fixpoint EventsOK (ss : sstate) (es : list sevent) : Prop :=
  match es with [] => True | e :: r => EventOK ss e /\ EventsOK (sstep ss e) r end.

(* C01: whatever sequence of runs, group openings and collections produced the storage, every backup that is still
   there restores - with today's code - to exactly what its run saw *)
Theorem retained_backup_restores : forall es, EventsOK [] es ->
  forall h pre b dls ws post, In h (sruns [] es) -> h = pre ++ (b, dls, ws) :: post ->
  exists t, exec today (bs_of h) (b_name b) = Some (t, true) /\
    (forall p m, In (p, SDir m) (sn_of ws) -> t_get p t = Some (RDir (Some m))) /\
    (forall p m d, In (p, SFile m d) (sn_of ws) -> t_get p t = Some (RFile d (Some m))) /\
    (forall p m tg, In (p, SSym m tg) (sn_of ws) -> t_get p t = Some (RSym tg m)) /\
    (forall p n, t_get p t = Some n -> exists x, In (p, x) (sn_of ws)).
Proof.
  intros es Hes h pre b dls ws post Hin Eh.
  assert (Hall : forall ss, Forall HOK ss -> EventsOK ss es -> Forall HOK (sruns ss es)).
  { clear. induction es as [|e es IH]; intros ss Hs He; cbn [sruns]; auto. destruct He as [H1 H2]. apply IH; auto. now apply sstep_HOK. }
  specialize (Hall [] (Forall_nil _) Hes). rewrite Forall_forall in Hall.
  exact (history_restore_today h pre b dls ws post (Hall h Hin) Eh).
Qed.
Print Assumptions retained_backup_restores.

(* the same for the code as it is now (repairs of F2, F5, F7 in place) *)
Theorem retained_backup_restores_repaired : forall es, EventsOK [] es ->
  forall h pre b dls ws post, In h (sruns [] es) -> h = pre ++ (b, dls, ws) :: post ->
  exists t, exec repaired (bs_of h) (b_name b) = Some (t, true) /\
    (forall p m, In (p, SDir m) (sn_of ws) -> t_get p t = Some (RDir (Some m))) /\
    (forall p m d, In (p, SFile m d) (sn_of ws) -> t_get p t = Some (RFile d (Some m))) /\
    (forall p m tg, In (p, SSym m tg) (sn_of ws) -> t_get p t = Some (RSym tg m)) /\
    (forall p n, t_get p t = Some n -> exists x, In (p, x) (sn_of ws)).
Proof.
  intros es Hes h pre b dls ws post Hin Eh.
  assert (Hall : forall ss, Forall HOK ss -> EventsOK ss es -> Forall HOK (sruns ss es)).
  { clear. induction es as [|e es IH]; intros ss Hs He; cbn [sruns]; auto. destruct He as [H1 H2]. apply IH; auto. now apply sstep_HOK. }
  specialize (Hall [] (Forall_nil _) Hes). rewrite Forall_forall in Hall.
  exact (history_restore repaired h pre b dls ws post eq_refl eq_refl (Hall h Hin) Eh).
Qed.
Print Assumptions retained_backup_restores_repaired.
