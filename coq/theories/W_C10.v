(* Wire glue for C10 (manifest codec).
   item = (unique hash dev ino mtimeZ size path)
   1000: (items) -> (0 text)                       the writer
   1001: (text)  -> (0 ((1 item) | (0)) ...)       the reader, one result per line *)
From Coq Require Import List NArith ZArith Bool.
Import ListNotations.
Require Import Wire Codec Codec2.
Local Open Scope N_scope.

Definition dec_item (v : val) : option item :=
  match v with
  | VL [u; h; VN d; VN i; m; VN sz; p] =>
    match as_bool u, as_bytes h, as_Z m, as_bytes p with
    | Some u, Some h, Some m, Some p =>
      Some {| i_unique := u; i_hash := h; i_dev := d; i_ino := i; i_mtime := m; i_size := sz; i_path := p |}
    | _, _, _, _ => None
    end
  | _ => None
  end.

Definition enc_item (it : item) : val :=
  VL [of_bool (i_unique it); of_bytes (i_hash it); VN (i_dev it); VN (i_ino it); of_Z (i_mtime it); VN (i_size it);
      of_bytes (i_path it)].

Definition run_c10_encode (v : val) : val :=
  match v with
  | VL [its] => match as_listof dec_item its with
                | Some its => VL [VN 0; of_bytes (encode_lines its)]
                | None => bad_input end
  | _ => bad_input
  end.

Definition run_c10_decode (v : val) : val :=
  match v with
  | VL [t] => match as_bytes t with
              | Some t => VL [VN 0; of_list (fun l => match decode l with Some it => VL [VN 1; enc_item it] | None => VL [VN 0] end) (lines t)]
              | None => bad_input end
  | _ => bad_input
  end.
