(* PROTOTYPE (round 0): C08, the reporting direction: exit status 0 implies that no reachable path carries a fault of
   the error class (so every such fault is reported or aborts the run); only the excepted classes pass with a warning;
   and a clean tree walks quietly (no false alarm) *)
From Coq Require Import List Arith NArith Lia Bool.
Import ListNotations.
Require Import Walker WalkerFaults.

Section E.
Variable allow : rpath -> option bool.

(* faults the property requires to be reported at error level; [top] = the path is an item root *)
Definition error_fault (c : node) (top : bool) : Prop :=
  match c with
  | NFile _ Denied | NFile _ ReadErr => True
  | NSym _ Denied | NSym _ ReadErr => True
  | NDir _ Denied | NDir _ ReadErr => True
  | NFile _ Vanish | NFile _ TypeChanged | NSym _ Vanish | NSym _ TypeChanged
  | NDir _ Vanish | NDir _ TypeChanged | NSpecial => top = true        (* excepted below the top level *)
  | _ => False
  end.

Lemma not_quiet_error : forall p es, In (EvError p) es -> ~ Quiet es.
Proof.
  intros p es Hin Hq. unfold Quiet in Hq. rewrite forallb_forall in Hq. specialize (Hq _ Hin). discriminate.
Qed.

Lemma child_not_aborted : forall cs rel nm ch, snd (kids_of allow cs rel) = false -> In (nm, ch) cs ->
  allow (rel ++ [nm]) = Some true -> snd (walk allow ch (rel ++ [nm]) false) = false.
Proof.
  induction cs as [|[m0 c0] cs IH]; intros rel nm ch Hab Ef Hal; [destruct Ef|]. cbn [kids_of] in Hab.
  destruct Ef as [E|Ef].
  - inversion E; subst. rewrite Hal in Hab. destruct (snd (walk allow ch (rel ++ [nm]) false)) eqn:Es; [|reflexivity].
    cbn [snd] in Hab. rewrite Es in Hab. discriminate.
  - apply IH; auto. destruct (allow (rel ++ [m0])) as [[|]|]; cbn [fst snd] in Hab; auto.
    destruct (snd (walk allow c0 (rel ++ [m0]) false)) eqn:Es; [cbn [snd] in Hab; rewrite Es in Hab; discriminate|exact Hab].
Qed.

Theorem quiet_no_error_fault : forall n, WFtree n -> forall rel top p c,
  snd (walk allow n rel top) = false -> Quiet (fst (walk allow n rel top)) ->
  at_path n p = Some c -> prefixes_allowed allow rel p ->
  (forall q r d, p = q ++ r -> r <> [] -> at_path n q = Some d -> plain d) ->
  ~ error_fault c (match p with [] => top | _ => false end).
Proof.
  induction n using node_ind'; intros HW rel top p c Hab Hq Hat Hpa Hway Herr.
  - destruct p; [|discriminate]. inversion Hat; subst c. cbn [walk] in *.
    destruct f; cbn in Herr; try contradiction; subst; cbn in Hq, Hab; try discriminate.
  - destruct p; [|discriminate]. inversion Hat; subst c. cbn [walk] in *.
    destruct f; cbn in Herr; try contradiction; subst; cbn in Hq, Hab; try discriminate.
  - destruct p; [|discriminate]. inversion Hat; subst c. cbn in Herr. subst. cbn in Hq. discriminate.
  - inversion HW as [| | |cs0 f0 HWcs ND]; subst. destruct p as [|nm p'].
    + inversion Hat; subst c. cbn [walk] in *. destruct f; cbn in Herr; try contradiction; subst; cbn in Hq, Hab; try discriminate.
    + assert (Hroot : plain (NDir cs f)) by (apply (Hway [] (nm :: p') (NDir cs f)); [reflexivity|discriminate|reflexivity]).
      destruct f; try destruct Hroot. rewrite walk_dir in *. cbn [fst snd] in *.
      rewrite (kids_flat' allow cs rel Hab) in *.
      cbn [at_path] in Hat. destruct (find_child nm cs) as [ch|] eqn:Ef; [|discriminate].
      apply find_child_some in Ef. apply prefixes_cons in Hpa as [Hal Hpa'].
      change (EvDir rel :: concat (map (child_events allow rel) cs)) with ([EvDir rel] ++ concat (map (child_events allow rel) cs)) in *.
      apply Quiet_app in Hq as [_ Hq].
      pose proof (Quiet_concat _ Hq (child_events allow rel (nm, ch)) (in_map _ _ _ Ef)) as Hqc.
      unfold child_events in Hqc. cbn [fst snd] in Hqc. rewrite Hal in Hqc.
      rewrite Forall_forall in H. rewrite Forall_forall in HWcs.
      apply (H (nm, ch) Ef (HWcs (nm, ch) Ef) (rel ++ [nm]) false p' c); auto.
      * eapply child_not_aborted; eauto.
      * intros q r d E Hr Hd. apply (Hway (nm :: q) r d); [cbn; now rewrite E | exact Hr |].
        cbn [at_path]. rewrite (find_child_In nm cs ch ND Ef). exact Hd.
      * destruct p'; exact Herr.
Qed.

(* an undecodable name below a reached directory is an error as well *)
Theorem quiet_no_bad_name : forall n, WFtree n -> forall rel top p cs nm ch,
  snd (walk allow n rel top) = false -> Quiet (fst (walk allow n rel top)) ->
  at_path n p = Some (NDir cs NoFault) -> prefixes_allowed allow rel p ->
  (forall q r d, p = q ++ r -> r <> [] -> at_path n q = Some d -> plain d) ->
  In (nm, ch) cs -> allow (rel ++ p ++ [nm]) <> None.
Proof.
  induction n using node_ind'; intros HW rel top p cs0 nm0 ch0 Hab Hq Hat Hpa Hway Hin Hnone;
    try (destruct p; [inversion Hat|discriminate]).
  inversion HW as [| | |cs1 f1 HWcs ND]; subst. destruct p as [|nm p'].
  - inversion Hat; subst. rewrite walk_dir in *. cbn [fst snd app] in *.
    rewrite (kids_flat' allow cs0 rel Hab) in *.
    change (EvDir rel :: concat (map (child_events allow rel) cs0)) with ([EvDir rel] ++ concat (map (child_events allow rel) cs0)) in *.
    apply Quiet_app in Hq as [_ Hq].
    pose proof (Quiet_concat _ Hq (child_events allow rel (nm0, ch0)) (in_map _ _ _ Hin)) as Hqc.
    unfold child_events in Hqc. cbn [fst snd] in Hqc. rewrite Hnone in Hqc. discriminate.
  - assert (Hroot : plain (NDir cs f)) by (apply (Hway [] (nm :: p') (NDir cs f)); [reflexivity|discriminate|reflexivity]).
    destruct f; try destruct Hroot. rewrite walk_dir in *. cbn [fst snd] in *.
    rewrite (kids_flat' allow cs rel Hab) in *.
    cbn [at_path] in Hat. destruct (find_child nm cs) as [ch|] eqn:Ef; [|discriminate].
    apply find_child_some in Ef. apply prefixes_cons in Hpa as [Hal Hpa'].
    change (EvDir rel :: concat (map (child_events allow rel) cs)) with ([EvDir rel] ++ concat (map (child_events allow rel) cs)) in *.
    apply Quiet_app in Hq as [_ Hq].
    pose proof (Quiet_concat _ Hq (child_events allow rel (nm, ch)) (in_map _ _ _ Ef)) as Hqc.
    unfold child_events in Hqc. cbn [fst snd] in Hqc. rewrite Hal in Hqc.
    rewrite Forall_forall in H. rewrite Forall_forall in HWcs.
    apply (H (nm, ch) Ef (HWcs (nm, ch) Ef) (rel ++ [nm]) false p' cs0 nm0 ch0); auto.
    + eapply child_not_aborted; eauto.
    + intros q r d E Hr Hd. apply (Hway (nm :: q) r d); [cbn; now rewrite E | exact Hr |].
      cbn [at_path]. rewrite (find_child_In nm cs ch ND Ef). exact Hd.
    + rewrite <- app_assoc. exact Hnone.
Qed.

(* no false alarm: a tree without faults, all of whose names decode, walks without error and without abort;
   special files below the top level only produce warnings *)
Inductive Calm : node -> Prop :=
| Calm_file : forall d, Calm (NFile d NoFault)
| Calm_sym : forall t, Calm (NSym t NoFault)
| Calm_dir : forall cs, Forall (fun c => snd c = NSpecial \/ Calm (snd c)) cs -> Calm (NDir cs NoFault).

Theorem calm_quiet : (forall q, allow q <> None) -> forall n, Calm n -> forall rel top,
  snd (walk allow n rel top) = false /\ Quiet (fst (walk allow n rel top)).
Proof.
  intros Hdec. induction n using node_ind'; intros HC rel top; inversion HC; subst; try (split; reflexivity).
  rewrite walk_dir. cbn [fst snd].
  assert (Hk : snd (kids_of allow cs rel) = false /\ Quiet (fst (kids_of allow cs rel))).
  { match goal with Hf : Forall (fun c => snd c = NSpecial \/ Calm (snd c)) cs |- _ => rename Hf into HCs end.
    clear HC. induction cs as [|[nm c] cs IHcs]; [split; reflexivity|].
    apply Forall_cons_iff in H as [Hc Hcs]. apply Forall_cons_iff in HCs as [HCc HCcs]. cbn [snd] in *.
    destruct (IHcs Hcs HCcs) as [A B]. cbn [kids_of].
    destruct (allow (rel ++ [nm])) as [[|]|] eqn:Ea; [| |exfalso; eapply Hdec; eauto].
    - assert (Hw : snd (walk allow c (rel ++ [nm]) false) = false /\ Quiet (fst (walk allow c (rel ++ [nm]) false))).
      { destruct HCc as [->|HCc]; [split; reflexivity|auto]. }
      destruct Hw as [W1 W2]. rewrite W1. cbn [fst snd]. split; auto. apply Quiet_app. auto.
    - cbn [fst snd app]. auto. }
  destruct Hk as [A B]. split; [exact A|exact B].
Qed.
End E.
Print Assumptions quiet_no_error_fault.
Print Assumptions quiet_no_bad_name.
Print Assumptions calm_quiet.
