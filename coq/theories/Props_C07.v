(* C07 — local rotation and retention stay within the configured bounds.
   Model: Verify.publish (Storage::create_backup + publication), Verify.fail_after_select (a run that fails after group
   selection), Verify.gc (gc_groups) on the classified listing; read_group is BackupGroup::read (which backups it
   recognises and whether the listing was clean). *)
From Coq Require Import List Arith NArith Lia Bool.
Import ListNotations.
Require Import Verify VerifyBound NameClass.

(* no group ever exceeds the per-group limit: over arbitrary histories of publishing runs, failed or killed runs and
   collections, with the limits changing from run to run, no group holds more recognised backups than the largest
   per-group limit that was in force (M >= 1, which the configuration guarantees) *)
Theorem C07_history_bounded : forall M es gs, 1 <= M -> Forall (fun e => limit_of e <= M) es ->
  Bounded M gs -> Bounded M (fold_left step es gs).
Proof. exact history_bounded. Qed.
Check C07_history_bounded : forall M es gs, 1 <= M -> Forall (fun e => limit_of e <= M) es ->
  Bounded M gs -> Bounded M (fold_left step es gs).

(* after a published run with a clean listing at most max_groups groups remain and the newest group - the one the new
   backup went to - is kept *)
Theorem C07_run_group_count : forall gs mp mg day time ls gs', mg >= 1 ->
  publish gs mp day time ls = Some gs' -> forallb (fun g => fst (read_group g)) gs' = true ->
  length (gc gs' mg) <= mg /\ forall d, gs' <> [] -> last (gc gs' mg) d = last gs' d.
Proof. exact run_group_count. Qed.
Check C07_run_group_count : forall gs mp mg day time ls gs', mg >= 1 ->
  publish gs mp day time ls = Some gs' -> forallb (fun g => fst (read_group g)) gs' = true ->
  length (gc gs' mg) <= mg /\ forall d, gs' <> [] -> last (gc gs' mg) d = last gs' d.

(* the removed groups are exactly the oldest whole groups *)
Theorem C07_gc_removes_oldest_whole : forall gs max, exists k, gc gs max = skipn k gs.
Proof. exact gc_removes_oldest_whole. Qed.
Check C07_gc_removes_oldest_whole : forall gs max, exists k, gc gs max = skipn k gs.

(* anything that cannot be listed or parsed blocks every deletion *)
Theorem C07_gc_dirty_no_delete : forall gs max, forallb (fun g => fst (read_group g)) gs = false -> gc gs max = gs.
Proof. exact gc_dirty_no_delete. Qed.
Check C07_gc_dirty_no_delete : forall gs max, forallb (fun g => fst (read_group g)) gs = false -> gc gs max = gs.

Theorem C07_root_dirty_no_delete : forall gs max, gc_root false gs max = gs.
Proof. exact gc_root_dirty_no_delete. Qed.
Check C07_root_dirty_no_delete : forall gs max, gc_root false gs max = gs.

(* non-vacuity: two runs on different days with a per-group limit of 1 and a group limit of 1 *)
Example C07_example :
  match publish [] 1 1 0 [line] with
  | Some gs => match publish gs 1 2 0 [line] with
               | Some gs' => length gs' = 2 /\ length (gc gs' 1) = 1 /\ map g_day (gc gs' 1) = [2]
               | None => False end
  | None => False end.
Proof. vm_compute. auto. Qed.

(* which entries of the storage root are groups at all: a directory whose name is exactly a date in ASCII digits; in particular no
   proper extension of a group name ("2020.01.02.old") is a group - it is an unexpected entry and blocks every deletion *)
Theorem C07_group_name_exact : forall d s, classify_root d s = NRGroup ->
  d = true /\ length s = 10%nat /\ (forall c, In c s -> is_ascii_digit c = true \/ c = DOT).
Proof. exact group_name_exact. Qed.
Check C07_group_name_exact : forall d s, classify_root d s = NRGroup ->
  d = true /\ length s = 10%nat /\ (forall c, In c s -> is_ascii_digit c = true \/ c = DOT).
Theorem C07_extended_group_name_is_foreign : forall d s t, t <> [] -> classify_root d s = NRGroup -> classify_root d (s ++ t) <> NRGroup.
Proof. exact extended_group_name_is_foreign. Qed.
Check C07_extended_group_name_is_foreign : forall d s t, t <> [] -> classify_root d s = NRGroup -> classify_root d (s ++ t) <> NRGroup.

Print Assumptions C07_history_bounded.
Print Assumptions C07_run_group_count.
Print Assumptions C07_group_name_exact.
Print Assumptions C07_extended_group_name_is_foreign.
