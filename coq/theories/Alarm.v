(* uploading/check.rs::check_backups in seconds, over N (the nat version in Verify.v cannot carry real timestamps).
   newest = time of the newest backup over all groups (None: no backup at all); empty trailing groups do not hide
   older backups because the scan keeps the last non-empty group's last backup. *)
From Coq Require Import List NArith Lia Bool.
Import ListNotations.
Local Open Scope N_scope.

Inductive report := NoBackups | InFuture | TooOld (age : N) | Fresh.

(* groups as lists of backup times, oldest group first, backups oldest first *)
Definition newest_backup (groups : list (list N)) : option N :=
  fold_left (fun acc g => match rev g with t :: _ => Some t | [] => acc end) groups None.
Definition empty_groups (groups : list (list N)) : nat := length (filter (fun g => match g with [] => true | _ => false end) groups).

Definition check (groups : list (list N)) (now : N) (threshold : option N) : option report :=
  match newest_backup groups with
  | None => Some NoBackups
  | Some t =>
    match threshold with
    | None => None                              (* no threshold configured: nothing more is checked *)
    | Some thr => if now <? t then Some InFuture else if now - t <? thr then Some Fresh else Some (TooOld (now - t))
    end
  end.

Definition is_alarm (r : option report) : bool := match r with Some NoBackups | Some (TooOld _) => true | _ => false end.

(* the newest backup is the last backup of the last non-empty group *)
Lemma newest_backup_app : forall gs g, newest_backup (gs ++ [g]) = match rev g with t :: _ => Some t | [] => newest_backup gs end.
Proof. intros gs g. unfold newest_backup. rewrite fold_left_app. reflexivity. Qed.

Theorem newest_skips_empty_trailing : forall gs, newest_backup (gs ++ [[]]) = newest_backup gs.
Proof. intro gs. now rewrite newest_backup_app. Qed.

(* C13, third claim: with a threshold configured and the newest backup not in the future, the alarm is raised iff
   there is no backup or the newest one is at least `threshold` old; nothing on the other side of the boundary *)
Theorem alarm_iff : forall groups now thr,
  (forall t, newest_backup groups = Some t -> t <= now) ->
  is_alarm (check groups now (Some thr)) = true <->
  newest_backup groups = None \/ exists t, newest_backup groups = Some t /\ thr <= now - t.
Proof.
  intros groups now thr Hle. unfold check. destruct (newest_backup groups) as [t|] eqn:E.
  - specialize (Hle t eq_refl). assert (now <? t = false) as -> by (apply N.ltb_ge; exact Hle).
    destruct (N.ltb_spec (now - t) thr); cbn [is_alarm]; split.
    + discriminate.
    + intros [H0|(t' & Et & Hthr)]; [discriminate|]. inversion Et; subst. lia.
    + intros _. right. exists t. split; [reflexivity|lia].
    + reflexivity.
  - cbn. split; auto.
Qed.

Theorem no_threshold_only_no_backups : forall groups now,
  is_alarm (check groups now None) = true <-> newest_backup groups = None.
Proof. intros groups now. unfold check. destruct (newest_backup groups); cbn; split; try discriminate; auto. Qed.

Example alarm_boundary :
  is_alarm (check [[10; 20]; []] 80 (Some 60)) = true /\ is_alarm (check [[10; 20]; []] 79 (Some 60)) = false.
Proof. vm_compute. split; reflexivity. Qed.
