(* Wire glue for C12: the durability checker on a projected trace.
   case: (finals temps ops); finals / temps = numbers of the final-named (complete, persisted) and temporary backup
         directories present in the group when the run starts;
   op = (0 t k) mkdir | (1 t k f) create | (2 t k f n) write | (3 t k f) fsync file | (4 t k) fsync backup dir |
        (5 t k t' k') rename | (6) fsync group | (7 t k) remove temporary | (8) removal of another group | (9) report success
        with t = 1 for a dot-prefixed temporary name, f = 0 metadata / 1 data
   result: (0 ok index) - index = length of the longest accepted prefix *)
From Coq Require Import List NArith Bool Arith.
Import ListNotations.
Require Import Wire Durable.
Local Open Scope N_scope.

Definition dec_name (t k : N) : name := (negb (t =? 0), N.to_nat k).
Definition dec_f (f : N) : fname := if f =? 0 then Meta else Data.
Definition dec_op (v : val) : option op :=
  match v with
  | VL [VN 0; VN t; VN k] => Some (Mkdir (dec_name t k))
  | VL [VN 1; VN t; VN k; VN f] => Some (Create (dec_name t k) (dec_f f))
  | VL [VN 2; VN t; VN k; VN f; VN n] => Some (Write (dec_name t k) (dec_f f) (N.to_nat n))
  | VL [VN 3; VN t; VN k; VN f] => Some (Fsync (dec_name t k) (dec_f f))
  | VL [VN 4; VN t; VN k] => Some (FsyncDir (dec_name t k))
  | VL [VN 5; VN t; VN k; VN t'; VN k'] => Some (Rename (dec_name t k) (dec_name t' k'))
  | VL [VN 6] => Some FsyncGroup
  | VL [VN 7; VN t; VN k] => Some (RmTemp (dec_name t k))
  | VL [VN 8] => Some RmOther
  | VL [VN 9] => Some ReportOk
  | _ => None
  end.

Definition sealed_file := {| exists_v := true; vlen := 1%nat; plen := 1%nat; entry_p := true |}.
Definition start_state (finals temps : list nat) : st :=
  let fobjs := map (fun k => (k, {| fmeta := sealed_file; fdata := sealed_file; pub := true |})) finals in
  let tobjs := map (fun k => ((k + 2000)%nat, {| fmeta := nofile; fdata := nofile; pub := false |})) temps in
  let fents := map (fun k => ((false, k), k)) finals in
  let tents := map (fun k => ((true, k), (k + 2000)%nat)) temps in
  {| objs := fobjs ++ tobjs; gv := fents ++ tents; gp := fents ++ tents; gpend := []; next := 4000%nat |}.

Fixpoint accepted (s : st) (ops : list op) (n : nat) : nat :=
  match ops with
  | [] => n
  | o :: r => if check s o then match step s o with Some s' => accepted s' r (S n) | None => n end else n
  end.

Definition run_c12 (v : val) : val :=
  match v with
  | VL [fs; ts; ops] =>
    match as_listof as_nat fs, as_listof as_nat ts, as_listof dec_op ops with
    | Some fs, Some ts, Some ops =>
      let s := start_state fs ts in
      VL [VN 0; of_bool (durable_ok s ops); of_nat (accepted s ops 0)]
    | _, _, _ => bad_input end
  | _ => bad_input
  end.
