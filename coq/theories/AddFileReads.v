(* C09: read passes of add_file (AddFileDyn): none for an empty file or a fingerprint hit. *)
From Coq Require Import List Arith NArith Bool.
Import ListNotations.
Require Import FileReader AddFileDyn.

Lemma unchanged_not_read :
  forall (S : Type) (rd rd' : S -> nat -> option (list N) * S) (rewind : S -> S) (bz1 bz2 : nat -> nat)
         (hash : Type) (Hh : list N -> hash) (known : hash -> bool) (EMPTY : hash) s s' declared h,
  add_file S rd rewind bz1 bz2 hash Hh known EMPTY s declared (Some h) =
  add_file S rd' rewind bz1 bz2 hash Hh known EMPTY s' declared (Some h) /\
  add_file S rd rewind bz1 bz2 hash Hh known EMPTY s 0 None = Extern hash EMPTY 0.
Proof. intros. split; unfold add_file; [destruct (declared =? 0); reflexivity | reflexivity]. Qed.
