(* PROTOTYPE (round 0): the walker-to-run bridge for a whole configuration: several items with pairwise
   non-overlapping roots, ancestors emitted once (Backuper::root_parents) *)
From Coq Require Import List Arith NArith ZArith Lia Bool Permutation.
Import ListNotations.
Require Import Restore2 Restore2Exec Restore2Plan C01a C01b C01c C01d C01e Walker WalkerFaults WalkerOrder Bridge.
Local Open Scope nat_scope.

Definition wpath (w : witem) : path := fst (sn_of_item w).
Definition prefix (a b : path) : Prop := exists q, b = a ++ q.
Definition overlap (a b : path) : Prop := prefix a b \/ prefix b a.

Lemma app_eq_prefix : forall (a b c d : path), a ++ b = c ++ d -> prefix a c \/ prefix c a.
Proof.
  induction a as [|x a IH]; intros b c d E; [left; exists c; reflexivity|].
  destruct c as [|y c]; [right; exists (x :: a); reflexivity|]. cbn [app] in E. inversion E; subst.
  destruct (IH _ _ _ H1) as [(q & ->)|(q & ->)]; [left|right]; exists q; reflexivity.
Qed.

(* ---------- appending a filtered block to a well-formed list ---------- *)
Lemma filter_split : forall (A : Type) (f : A -> bool) l pre x suf, filter f l = pre ++ x :: suf ->
  exists p s, l = p ++ x :: s /\ pre = filter f p /\ suf = filter f s /\ f x = true.
Proof.
  intros A f l; induction l as [|y l IH]; intros pre x suf E; [destruct pre; discriminate|]. cbn [filter] in E.
  destruct (f y) eqn:Ey.
  - destruct pre as [|z pre]; cbn [app] in E; inversion E; subst.
    + exists [], l. auto.
    + destruct (IH _ _ _ H1) as (p & s & -> & -> & -> & Hx). exists (z :: p), s. cbn [filter app]. rewrite Ey. auto.
  - destruct (IH _ _ _ E) as (p & s & -> & -> & -> & Hx). exists (y :: p), s. cbn [filter app]. rewrite Ey. auto.
Qed.

Lemma NoDup_map_filter' : forall (A B : Type) (g : A -> B) (f : A -> bool) l, NoDup (map g l) -> NoDup (map g (filter f l)).
Proof.
  intros A B g f l; induction l as [|x l IH]; intro H; [constructor|]. cbn [map] in H. inversion H as [|? ? Hn Hd]; subst.
  cbn [filter]. destruct (f x); [|auto]. cbn [map]. constructor; auto. intro Hin. apply Hn.
  apply in_map_iff in Hin as (y & E & Hy). apply filter_In in Hy as [Hy _]. apply in_map_iff. eauto.
Qed.

Lemma filter_all' : forall (A : Type) (f : A -> bool) l, forallb f l = true -> filter f l = l.
Proof. intros A f l; induction l as [|x l IH]; intro H; [reflexivity|]. cbn in *. apply andb_true_iff in H as [H1 H2]. rewrite H1. f_equal. auto. Qed.

Lemma sn_of_app : forall a b, sn_of (a ++ b) = sn_of a ++ sn_of b.
Proof. intros. unfold sn_of. apply map_app. Qed.

Lemma WFws_app_filter : forall L full keep,
  WFws L -> WFws full ->
  (forall w, In w full -> keep w = false -> exists p m, sn_of_item w = (p, SDir m) /\ In (p, SDir m) (sn_of L)) ->
  (forall p, In p (map fst (sn_of L)) -> In p (map fst (sn_of (filter keep full))) -> False) ->
  WFws (L ++ filter keep full).
Proof.
  intros L full keep HL HF Hdrop Hdis. constructor.
  - rewrite sn_of_app, map_app. apply NoDup_app_intro'; [apply (wf_nodup _ HL)| |exact Hdis].
    unfold sn_of. rewrite map_map. apply NoDup_map_filter'. rewrite <- map_map. apply (wf_nodup _ HF).
  - intros p n Hin. rewrite sn_of_app in Hin. apply in_app_iff in Hin as [Hin|Hin]; [eapply (wf_nonroot _ HL); eauto|].
    unfold sn_of in Hin. apply in_map_iff in Hin as (w & E & Hw). apply filter_In in Hw as [Hw _].
    apply (wf_nonroot _ HF p n). unfold sn_of. apply in_map_iff. eauto.
  - intros pre p n suf E. rewrite sn_of_app in E. apply app_split_mid in E as [(pre2 & -> & E)|(suf2 & E & ->)].
    + unfold sn_of in E. apply map_eq_app in E as (l1 & l2 & Ef & <- & E2). destruct l2 as [|w l2]; [discriminate|].
      cbn [map] in E2. inversion E2 as [[Ew El2]]. clear E2.
      destruct (filter_split _ _ _ _ _ _ Ef) as (fp & fs & Efull & -> & -> & Hk).
      assert (Hfull : sn_of full = sn_of fp ++ (p, n) :: sn_of fs).
      { rewrite Efull, sn_of_app. cbn [sn_of map]. now rewrite Ew. }
      destruct (wf_parents _ HF _ _ _ _ Hfull) as [Hr|(m & Hm)]; [now left|]. right. exists m.
      unfold sn_of in Hm. apply in_map_iff in Hm as (w' & Ew' & Hw'). destruct (keep w') eqn:Ek.
      * apply in_or_app. right. apply in_map_iff. exists w'. split; auto. apply filter_In. auto.
      * apply in_or_app. left. destruct (Hdrop w') as (p' & m' & E1 & E2); [rewrite Efull; apply in_or_app; now left|exact Ek|].
        rewrite Ew' in E1. inversion E1; subst. exact E2.
    + destruct (wf_parents _ HL _ _ _ _ E) as [Hr|(m & Hm)]; [now left|right; eauto].
Qed.

(* ---------- the run over all items ---------- *)
Section M.
Variable mt : path -> meta.
Variable fpf : path -> fp.

Record mitem := { mi_root : path; mi_tree : node; mi_allow : rpath -> option bool }.

Definition notseen (seen : list path) (p : path) : bool := negb (mem p seen).
Definition block (seen : list path) (it : mitem) : list witem :=
  map (fun p => WDir p (mt p)) (filter (notseen seen) (ancestors (mi_root it))) ++
  items_of mt fpf (fst (walk (mi_allow it) (mi_tree it) (mi_root it) true)).
Fixpoint run_ws (seen : list path) (its : list mitem) : list witem :=
  match its with
  | [] => []
  | it :: r => block seen it ++ run_ws (seen ++ filter (notseen seen) (ancestors (mi_root it))) r
  end.

Fixpoint roots_ok (prev : list path) (its : list mitem) : Prop :=
  match its with
  | [] => True
  | it :: r => mi_root it <> [] /\ FaultFree (mi_tree it) /\ (forall q, In q prev -> ~ overlap q (mi_root it)) /\
               roots_ok (mi_root it :: prev) r
  end.

Lemma mem_In : forall p l, mem p l = true <-> In p l.
Proof.
  intros p l. unfold mem. rewrite existsb_exists. split.
  - intros (x & Hx & E). destruct (list_eqb_spec p x); [subst; auto|discriminate].
  - intro H. exists p. split; auto. destruct (list_eqb_spec p p); congruence.
Qed.

Lemma ancestor_proper : forall root a, In a (ancestors root) -> exists q, q <> [] /\ root = a ++ q.
Proof.
  intros root a H. unfold ancestors in H. apply in_map_iff in H as (k & <- & Hk). apply in_seq in Hk.
  exists (skipn k root). split; [|now rewrite firstn_skipn].
  intro E. apply (f_equal (@length _)) in E. rewrite skipn_length in E. cbn in E. lia.
Qed.

Lemma walk_item_path : forall it w, FaultFree (mi_tree it) ->
  In w (items_of mt fpf (fst (walk (mi_allow it) (mi_tree it) (mi_root it) true))) -> exists q, wpath w = mi_root it ++ q.
Proof.
  intros it w HF Hw. unfold items_of in Hw. apply in_flat_map in Hw as (e & He & Hw).
  destruct (walk_ff_events (mi_allow it) (mi_tree it) HF (mi_root it) true e He) as [_ (q & Eq)].
  exists q. unfold wpath. rewrite (item_path mt fpf e w Hw). exact Eq.
Qed.

(* the invariant carried along the items *)
Record Inv (L : list witem) (seen prev : list path) : Prop := {
  i_wf : WFws L;
  i_seen : forall p, In p seen -> In (p, SDir (mt p)) (sn_of L);
  i_paths : forall p, In p (map fst (sn_of L)) -> In p seen \/ exists r q, In r prev /\ p = r ++ q;
  i_proper : forall p, In p seen -> exists r q, In r prev /\ q <> [] /\ r = p ++ q
}.

(* geometry: with non-overlapping roots, nothing at or below the new root, and no proper ancestor of it that is not
   already recorded, coincides with anything emitted before *)
Lemma below_not_seen : forall seen prev root q, (forall p, In p seen -> exists r q, In r prev /\ q <> [] /\ r = p ++ q) ->
  (forall r, In r prev -> ~ overlap r root) -> ~ In (root ++ q) seen.
Proof.
  intros seen prev root q I3 Hno Hin. destruct (I3 _ Hin) as (r & q' & Hr & _ & E).
  apply (Hno r Hr). right. exists (q ++ q'). now rewrite app_assoc.
Qed.
Lemma below_not_prev : forall prev root q r q', (forall r, In r prev -> ~ overlap r root) -> In r prev -> root ++ q = r ++ q' -> False.
Proof. intros prev root q r q' Hno Hr E. apply (Hno r Hr). destruct (app_eq_prefix _ _ _ _ E) as [H|H]; [right|left]; exact H. Qed.
Lemma ancestor_not_prev : forall prev root a r q', (forall r, In r prev -> ~ overlap r root) -> In r prev ->
  In a (ancestors root) -> a = r ++ q' -> False.
Proof.
  intros prev root a r q' Hno Hr Ha E. destruct (ancestor_proper _ _ Ha) as (q & _ & Eroot).
  apply (Hno r Hr). left. exists (q' ++ q). rewrite Eroot, E. now rewrite app_assoc.
Qed.

Lemma block_as_filter : forall seen prev it,
  (forall p, In p seen -> exists r q, In r prev /\ q <> [] /\ r = p ++ q) ->
  (forall r, In r prev -> ~ overlap r (mi_root it)) -> FaultFree (mi_tree it) ->
  block seen it = filter (fun w => notseen seen (wpath w)) (item_ws (mi_allow it) mt fpf (mi_tree it) (mi_root it)).
Proof.
  intros seen prev it I3 Hno HF. unfold block, item_ws. rewrite filter_app. f_equal.
  - induction (ancestors (mi_root it)) as [|a l IH]; [reflexivity|]. cbn [filter map]. unfold wpath at 1. cbn [sn_of_item fst].
    destruct (notseen seen a); cbn [map]; now rewrite IH.
  - symmetry. apply filter_all'. apply forallb_forall. intros w Hw.
    destruct (walk_item_path it w HF Hw) as (q & Eq). unfold notseen. rewrite Eq. apply negb_true_iff.
    destruct (mem (mi_root it ++ q) seen) eqn:Em; [|reflexivity]. apply mem_In in Em. exfalso. eapply below_not_seen; eauto.
Qed.

Theorem run_ws_WF : forall its L seen prev, Inv L seen prev -> roots_ok prev its -> WFws (L ++ run_ws seen its).
Proof.
  induction its as [|it its IH]; intros L seen prev HI Hr; cbn [run_ws]; [rewrite app_nil_r; apply (i_wf _ _ _ HI)|].
  destruct Hr as (Hne & HF & Hno & Hrest). rewrite app_assoc.
  set (newp := filter (notseen seen) (ancestors (mi_root it))).
  pose proof (block_as_filter seen prev it (i_proper _ _ _ HI) Hno HF) as Hblk.
  pose proof (item_ws_WF (mi_allow it) mt fpf (mi_tree it) (mi_root it) HF Hne) as Hfull.
  assert (Hkept : forall w, In w (block seen it) ->
            (In (wpath w) newp /\ w = WDir (wpath w) (mt (wpath w))) \/ exists q, wpath w = mi_root it ++ q).
  { intros w Hw. unfold block in Hw. apply in_app_iff in Hw as [Hw|Hw].
    - left. apply in_map_iff in Hw as (a & <- & Ha). unfold wpath. cbn. auto.
    - right. eapply walk_item_path; eauto. }
  apply IH with (prev := mi_root it :: prev); [|exact Hrest]. constructor.
  - (* well-formedness of L ++ block *)
    rewrite Hblk. apply WFws_app_filter; [apply (i_wf _ _ _ HI)|exact Hfull| |].
    + intros w Hw Hk. unfold notseen in Hk. apply negb_false_iff, mem_In in Hk.
      unfold item_ws in Hw. apply in_app_iff in Hw as [Hw|Hw].
      * apply in_map_iff in Hw as (a & <- & Ha). unfold wpath in Hk. cbn in Hk. exists a, (mt a). split; [reflexivity|]. now apply (i_seen _ _ _ HI).
      * exfalso. destruct (walk_item_path it w HF Hw) as (q & Eq). rewrite Eq in Hk. eapply below_not_seen; eauto. apply (i_proper _ _ _ HI).
    + intros p HpL HpB. rewrite <- Hblk in HpB. unfold sn_of in HpB. rewrite map_map in HpB. apply in_map_iff in HpB as (w & Ew & Hw).
      fold (wpath w) in Ew. subst p. destruct (i_paths _ _ _ HI _ HpL) as [Hs|(r & q' & Hr' & E)]; destruct (Hkept w Hw) as [[Hn _]|(q & Eq)].
      * unfold newp in Hn. apply filter_In in Hn as [_ Hn]. unfold notseen in Hn. apply negb_true_iff in Hn.
        apply mem_In in Hs. congruence.
      * rewrite Eq in Hs. eapply below_not_seen; eauto. apply (i_proper _ _ _ HI).
      * unfold newp in Hn. apply filter_In in Hn as [Hn _]. eapply ancestor_not_prev; eauto.
      * rewrite Eq in E. eapply below_not_prev; eauto.
  - (* recorded ancestors are present as directories *)
    intros p Hp. rewrite sn_of_app. apply in_or_app. apply in_app_iff in Hp as [Hp|Hp]; [left; now apply (i_seen _ _ _ HI)|right].
    unfold block. rewrite sn_of_app. apply in_or_app. left. unfold sn_of. rewrite map_map. apply in_map_iff. exists p. split; [reflexivity|exact Hp].
  - (* where every path comes from *)
    intros p Hp. rewrite sn_of_app, map_app in Hp. apply in_app_iff in Hp as [Hp|Hp].
    + destruct (i_paths _ _ _ HI _ Hp) as [Hs|(r & q & Hr' & E)]; [left; apply in_or_app; now left|right; exists r, q; split; [now right|exact E]].
    + unfold sn_of in Hp. rewrite map_map in Hp. apply in_map_iff in Hp as (w & Ew & Hw). fold (wpath w) in Ew. subst p.
      destruct (Hkept w Hw) as [[Hn _]|(q & Eq)]; [left; apply in_or_app; now right|right; exists (mi_root it), q; split; [now left|exact Eq]].
  - (* recorded ancestors are proper prefixes of roots seen so far *)
    intros p Hp. apply in_app_iff in Hp as [Hp|Hp].
    + destruct (i_proper _ _ _ HI _ Hp) as (r & q & Hr' & Hq & E). exists r, q. split; [now right|auto].
    + unfold newp in Hp. apply filter_In in Hp as [Hp _]. destruct (ancestor_proper _ _ Hp) as (q & Hq & E).
      exists (mi_root it), q. split; [now left|auto].
Qed.

Lemma WFws_nil : WFws [].
Proof. constructor; cbn; [constructor|intros p n []|intros pre p n suf E; destruct pre; discriminate]. Qed.

(* C01's walk-order premise for a whole configuration *)
Corollary configuration_ws_WF : forall its, roots_ok [] its -> WFws (run_ws [] its).
Proof.
  intros its H. change (run_ws [] its) with ([] ++ run_ws [] its). apply run_ws_WF with (prev := []); [|exact H].
  constructor; [apply WFws_nil|intros p []|intros p []|intros p []].
Qed.
End M.
Print Assumptions configuration_ws_WF.
