(* PROTOTYPE (round 0): vsb's publication sequence is accepted by the C12 checker for every write list *)
From Coq Require Import List Arith NArith Lia Bool.
Import ListNotations.
Require Import Durable DurableProof.

Definition wr (T : name) (w : fname * nat) : op := Write T (fst w) (snd w).

(* create both files, write in any interleaving, finish+fsync the manifest, remaining data writes, fsync the data,
   fsync the temporary directory, rename, fsync the group directory, then (maybe) remove an old group, report *)
Definition vsb_run (T F : name) (ws1 : list (fname * nat)) (ws2 : list nat) : list op :=
  [Mkdir T; Create T Meta; Create T Data] ++ map (wr T) ws1 ++ [Fsync T Meta] ++ map (fun k => Write T Data k) ws2 ++
  [Fsync T Data; FsyncDir T; Rename T F; FsyncGroup; RmOther; ReportOk].

Record Fresh (s : st) (T F : name) : Prop := {
  fr_T : fst T = true; fr_F : fst F = false;
  fr_gv : lookup T (gv s) = None; fr_gp : lookup T (gp s) = None; fr_Fgv : lookup F (gv s) = None;
  fr_ren : existsb (is_GRen_from T) (gpend s) = false; fr_add : existsb (is_GAdd_of T) (gpend s) = false }.

(* the state during the write phase, relative to the state the run started from *)
Record Shape (s0 s : st) (T : name) (m d : fobj) : Prop := {
  sh_gv : gv s = (T, next s0) :: gv s0; sh_gp : gp s = gp s0; sh_pend : gpend s = gpend s0 ++ [GAdd T (next s0)];
  sh_obj : oget (next s0) (objs s) = Some {| fmeta := m; fdata := d; pub := false |} }.

Lemma name_eqb_refl : forall n, name_eqb n n = true.
Proof. intro n. destruct (name_eqb_spec n n); congruence. Qed.

Lemma shape_lookup : forall s0 s T m d, Shape s0 s T m d -> lookup T (gv s) = Some (next s0).
Proof. intros s0 s T m d H. rewrite (sh_gv _ _ _ _ _ H). cbn [lookup]. now rewrite name_eqb_refl. Qed.

Lemma shape_pubof : forall s0 s T m d, Shape s0 s T m d -> pubof s T = false.
Proof. intros s0 s T m d H. unfold pubof. rewrite (shape_lookup _ _ _ _ _ H), (sh_obj _ _ _ _ _ H). reflexivity. Qed.

Lemma shape_upd : forall s0 s T m d m' d',
  Shape s0 s T m d ->
  Shape s0 {| objs := oset (next s0) {| fmeta := m'; fdata := d'; pub := false |} (objs s);
              gv := gv s; gp := gp s; gpend := gpend s; next := next s |} T m' d'.
Proof. intros s0 s T m d m' d' [H1 H2 H3 H4]. constructor; cbn; auto. apply oget_oset_same. Qed.

Lemma mkdir_ok : forall s T F, Fresh s T F ->
  check s (Mkdir T) = true /\ exists s1, step s (Mkdir T) = Some s1 /\ Shape s s1 T nofile nofile.
Proof.
  intros s T F Fr. split.
  - cbn [check]. now rewrite (fr_T _ _ _ Fr), (fr_ren _ _ _ Fr), (fr_add _ _ _ Fr).
  - cbn [step]. rewrite (fr_gv _ _ _ Fr). eexists; split; [reflexivity|]. constructor; cbn; auto. apply oget_oset_same.
Qed.

Definition newf := {| exists_v := true; vlen := 0; plen := 0; entry_p := false |}.

Lemma create_ok : forall s0 s T f m d, Shape s0 s T m d -> exists_v (getf {| fmeta := m; fdata := d; pub := false |} f) = false ->
  check s (Create T f) = true /\ exists s1, step s (Create T f) = Some s1 /\
    Shape s0 s1 T (match f with Meta => newf | Data => m end) (match f with Meta => d | Data => newf end).
Proof.
  intros s0 s T f m d H He. split; [cbn [check]; now rewrite (shape_pubof _ _ _ _ _ H)|].
  cbn [step]. rewrite (shape_lookup _ _ _ _ _ H), (sh_obj _ _ _ _ _ H), He.
  eexists; split; [reflexivity|]. destruct f; cbn [setf fmeta fdata pub]; eapply shape_upd; eauto.
Qed.

Definition grow (x : fobj) (k : nat) := {| exists_v := true; vlen := vlen x + k; plen := plen x; entry_p := entry_p x |}.

Lemma write_ok : forall s0 s T f k m d, Shape s0 s T m d -> exists_v m = true -> exists_v d = true ->
  check s (Write T f k) = true /\ exists s1, step s (Write T f k) = Some s1 /\
    Shape s0 s1 T (match f with Meta => grow m k | Data => m end) (match f with Meta => d | Data => grow d k end).
Proof.
  intros s0 s T f k m d H Hm Hd. split; [cbn [check]; now rewrite (shape_pubof _ _ _ _ _ H)|].
  cbn [step]. rewrite (shape_lookup _ _ _ _ _ H), (sh_obj _ _ _ _ _ H).
  destruct f; cbn [getf fmeta fdata]; [rewrite Hm|rewrite Hd]; cbn [negb];
    (eexists; split; [reflexivity|]); cbn [setf fmeta fdata pub]; eapply shape_upd; eauto.
Qed.

Definition synced (x : fobj) := {| exists_v := true; vlen := vlen x; plen := vlen x; entry_p := entry_p x |}.

Lemma fsync_ok : forall s0 s T f m d, Shape s0 s T m d -> exists_v m = true -> exists_v d = true ->
  check s (Fsync T f) = true /\ exists s1, step s (Fsync T f) = Some s1 /\
    Shape s0 s1 T (match f with Meta => synced m | Data => m end) (match f with Meta => d | Data => synced d end).
Proof.
  intros s0 s T f m d H Hm Hd. split; [reflexivity|].
  cbn [step]. rewrite (shape_lookup _ _ _ _ _ H), (sh_obj _ _ _ _ _ H).
  destruct f; cbn [getf fmeta fdata]; [rewrite Hm|rewrite Hd]; cbn [negb];
    (eexists; split; [reflexivity|]); cbn [setf fmeta fdata pub]; eapply shape_upd; eauto.
Qed.

Definition pe (x : fobj) := {| exists_v := exists_v x; vlen := vlen x; plen := plen x; entry_p := exists_v x |}.

Lemma fsyncdir_ok : forall s0 s T m d, Shape s0 s T m d ->
  check s (FsyncDir T) = true /\ exists s1, step s (FsyncDir T) = Some s1 /\ Shape s0 s1 T (pe m) (pe d).
Proof.
  intros s0 s T m d H. split; [reflexivity|].
  cbn [step]. rewrite (shape_lookup _ _ _ _ _ H), (sh_obj _ _ _ _ _ H).
  eexists; split; [reflexivity|]. cbn [fmeta fdata pub]. eapply shape_upd; eauto.
Qed.

(* files through the write phase: they exist, and a synced file that is not written again stays synced *)
Definition live (x : fobj) := exists_v x = true.
Definition insync (x : fobj) := exists_v x = true /\ plen x = vlen x.

Lemma run_cons : forall s o ops s1, check s o = true -> step s o = Some s1 -> run s (o :: ops) = run s1 ops.
Proof. intros s o ops s1 Hc Hs. cbn [run]. now rewrite Hc, Hs. Qed.

Lemma writes_ok : forall s0 T ws s m d rest, Shape s0 s T m d -> live m -> live d ->
  exists s1 m1 d1, run s (map (wr T) ws ++ rest) = run s1 rest /\ Shape s0 s1 T m1 d1 /\ live m1 /\ live d1.
Proof.
  intros s0 T ws; induction ws as [|[f k] ws IH]; intros s m d rest H Hm Hd.
  - exists s, m, d. auto.
  - cbn [map app]. unfold wr at 1. cbn [fst snd].
    destruct (write_ok _ _ _ f k _ _ H Hm Hd) as (Hc & s1 & Hs & H1). rewrite (run_cons _ _ _ _ Hc Hs).
    destruct f; eapply IH; eauto; reflexivity.
Qed.

Lemma data_writes_ok : forall s0 T ws s m d rest, Shape s0 s T m d -> insync m -> live d ->
  exists s1 d1, run s (map (fun k => Write T Data k) ws ++ rest) = run s1 rest /\ Shape s0 s1 T m d1 /\ live d1.
Proof.
  intros s0 T ws; induction ws as [|k ws IH]; intros s m d rest H Hm Hd.
  - exists s, d. auto.
  - cbn [map app]. destruct (write_ok _ _ _ Data k _ _ H (proj1 Hm) Hd) as (Hc & s1 & Hs & H1).
    rewrite (run_cons _ _ _ _ Hc Hs). eapply IH; eauto. reflexivity.
Qed.

Lemma forallb_GAdd_fresh : forall T id l, existsb (is_GAdd_of T) l = false -> forallb (GAdd_id_is T id) l = true.
Proof.
  intros T id l; induction l as [|o l IH]; intro H; [reflexivity|]. cbn [existsb forallb] in *.
  apply orb_false_iff in H as [H1 H2]. rewrite (IH H2), andb_true_r.
  destruct o; cbn in *; auto. now rewrite H1.
Qed.

Theorem run_durable : forall s T F ws1 ws2, Fresh s T F -> durable_ok s (vsb_run T F ws1 ws2) = true.
Proof.
  intros s T F ws1 ws2 Fr. unfold durable_ok, vsb_run.
  destruct (mkdir_ok _ _ _ Fr) as (Hc & s1 & Hs & H1). cbn [app]. rewrite (run_cons _ _ _ _ Hc Hs).
  destruct (create_ok _ _ _ Meta _ _ H1 eq_refl) as (Hc2 & s2 & Hs2 & H2). rewrite (run_cons _ _ _ _ Hc2 Hs2).
  destruct (create_ok _ _ _ Data _ _ H2 eq_refl) as (Hc3 & s3 & Hs3 & H3). rewrite (run_cons _ _ _ _ Hc3 Hs3).
  destruct (writes_ok _ _ ws1 _ _ _ (Fsync T Meta :: map (fun k => Write T Data k) ws2 ++
      [Fsync T Data; FsyncDir T; Rename T F; FsyncGroup; RmOther; ReportOk]) H3 eq_refl eq_refl)
    as (s4 & m4 & d4 & Hr4 & H4 & Lm & Ld). rewrite Hr4.
  destruct (fsync_ok _ _ _ Meta _ _ H4 Lm Ld) as (Hc5 & s5 & Hs5 & H5). rewrite (run_cons _ _ _ _ Hc5 Hs5).
  destruct (data_writes_ok _ _ ws2 _ _ _ [Fsync T Data; FsyncDir T; Rename T F; FsyncGroup; RmOther; ReportOk] H5)
    as (s6 & d6 & Hr6 & H6 & Ld6); [split; reflexivity|exact Ld|]. rewrite Hr6.
  destruct (fsync_ok _ _ _ Data _ _ H6 eq_refl Ld6) as (Hc7 & s7 & Hs7 & H7). rewrite (run_cons _ _ _ _ Hc7 Hs7).
  destruct (fsyncdir_ok _ _ _ _ _ H7) as (Hc8 & s8 & Hs8 & H8). rewrite (run_cons _ _ _ _ Hc8 Hs8).
  (* rename *)
  assert (Hc9 : check s8 (Rename T F) = true).
  { cbn [check]. rewrite (fr_T _ _ _ Fr). unfold is_final. rewrite (fr_F _ _ _ Fr). cbn [negb andb].
    rewrite (sh_gp _ _ _ _ _ H8), (fr_gp _ _ _ Fr), (shape_lookup _ _ _ _ _ H8), (sh_obj _ _ _ _ _ H8), (sh_pend _ _ _ _ _ H8).
    rewrite forallb_app, (forallb_GAdd_fresh _ _ _ (fr_add _ _ _ Fr)). cbn [forallb GAdd_id_is]. rewrite Nat.eqb_refl, orb_true_r.
    unfold dir_sealed, file_sealed, pe, synced; cbn. rewrite !Nat.eqb_refl. reflexivity. }
  assert (Hs9 : exists s9, step s8 (Rename T F) = Some s9 /\ gpend s9 = gpend s8 ++ [GRen T F]).
  { cbn [step]. rewrite (shape_lookup _ _ _ _ _ H8).
    assert (lookup F (gv s8) = None) as ->.
    { rewrite (sh_gv _ _ _ _ _ H8). cbn [lookup]. destruct (name_eqb_spec F T) as [E|_]; [|apply (fr_Fgv _ _ _ Fr)].
      pose proof (fr_T _ _ _ Fr). pose proof (fr_F _ _ _ Fr). subst. congruence. }
    rewrite (sh_obj _ _ _ _ _ H8). eexists; split; reflexivity. }
  destruct Hs9 as (s9 & Hs9 & _). rewrite (run_cons _ _ _ _ Hc9 Hs9).
  cbn [run check step gpend]. reflexivity.
Qed.
Print Assumptions run_durable.


(* ---- a run that reuses a group: abandoned temporaries are removed first ---- *)
Lemma lookup_remove_n_other : forall A (n m : name) (l : list (name * A)), m <> n -> lookup m (remove_n n l) = lookup m l.
Proof.
  intros A n m l Hne; induction l as [|[k x] l IH]; [reflexivity|]. unfold remove_n. cbn [filter fst lookup].
  destruct (name_eqb_spec n k) as [<-|Hk]; cbn [negb].
  - destruct (name_eqb_spec m n); [congruence|]. exact IH.
  - cbn [lookup]. destruct (name_eqb m k); auto.
Qed.
Lemma lookup_remove_n_none : forall A (n m : name) (l : list (name * A)), lookup m l = None -> lookup m (remove_n n l) = None.
Proof.
  intros A n m l; induction l as [|[k x] l IH]; intro H; [reflexivity|]. cbn [lookup] in H. unfold remove_n. cbn [filter fst].
  destruct (name_eqb m k) eqn:E; [discriminate|]. destruct (negb (name_eqb n k)); [cbn [lookup]; rewrite E|]; now apply IH.
Qed.

Lemma existsb_app_false : forall A (f : A -> bool) l x, existsb f l = false -> f x = false -> existsb f (l ++ [x]) = false.
Proof. intros. rewrite existsb_app. cbn. now rewrite H, H0. Qed.

Theorem run_durable_reuse : forall temps s T F ws1 ws2, Fresh s T F ->
  (forall n, In n temps -> fst n = true /\ lookup n (gv s) <> None) -> NoDup temps ->
  durable_ok s (map RmTemp temps ++ vsb_run T F ws1 ws2) = true.
Proof.
  induction temps as [|n temps IH]; intros s T F ws1 ws2 Fr Ht Hnd; [now apply run_durable|].
  cbn [map app]. destruct (Ht n (or_introl eq_refl)) as [Hn Hl].
  assert (Hc : check s (RmTemp n) = true) by exact Hn.
  destruct (lookup n (gv s)) as [i|] eqn:El; [|congruence].
  assert (Hs : step s (RmTemp n) = Some {| objs := objs s; gv := remove_n n (gv s); gp := gp s; gpend := gpend s ++ [GDel n]; next := next s |})
    by (cbn [step]; now rewrite El).
  unfold durable_ok. rewrite (run_cons _ _ _ _ Hc Hs). apply IH.
  - destruct Fr as [a b c d e f g]. constructor; cbn [gv gp gpend]; auto.
    + now apply lookup_remove_n_none.
    + now apply lookup_remove_n_none.
    + now apply existsb_app_false.
    + now apply existsb_app_false.
  - intros m Hm. destruct (Ht m (or_intror Hm)) as [A B]. split; auto. cbn [gv].
    rewrite lookup_remove_n_other; auto. intro; subst m. inversion Hnd; contradiction.
  - now inversion Hnd.
Qed.
Print Assumptions run_durable_reuse.

(* with the soundness theorem: from any state satisfying the invariant, every crash point of vsb's sequence is safe *)
Corollary vsb_run_crash_safe : forall s T F ws1 ws2, INV s -> Fresh s T F ->
  forall k sk, run s (firstn k (vsb_run T F ws1 ws2)) = Some sk -> DurableSafe sk.
Proof.
  intros s T F ws1 ws2 I Fr k sk Hk. pose proof (run_durable s T F ws1 ws2 Fr) as Hok. unfold durable_ok in Hok.
  destruct (run s (vsb_run T F ws1 ws2)) as [s'|] eqn:Er; [|discriminate].
  destruct (durable_ok_sound _ _ _ I Er) as [_ Hall]. eauto.
Qed.
Print Assumptions vsb_run_crash_safe.
