(* C19 — before/after hooks bracket each item exactly once, even on failure. *)
From Coq Require Import List Arith NArith Lia Bool.
Import ListNotations.
Require Import Walker Hooks Hooks2 RunStatus RunWhole.

(* the trace of Backuper::run is the concatenation, over a prefix of the items in configuration order, of
   before? ++ work ++ after?; the prefix is all items unless one aborted, and then it ends with that item INCLUDING its
   after hook (items after an aborting one are never started) *)
Theorem C19_hooks_bracket : forall its i,
  exists k, k <= length its /\
    fst (run_items i its) = concat (map (fun j => fst (one_item (i + j) (nth j its dflt))) (seq 0 k)) /\
    (snd (run_items i its) = false -> k = length its) /\
    (snd (run_items i its) = true -> k >= 1 /\ snd (one_item (i + (k - 1)) (nth (k - 1) its dflt)) = true).
Proof. exact hooks_bracket. Qed.
Check C19_hooks_bracket : forall its i,
  exists k, k <= length its /\
    fst (run_items i its) = concat (map (fun j => fst (one_item (i + j) (nth j its dflt))) (seq 0 k)) /\
    (snd (run_items i its) = false -> k = length its) /\
    (snd (run_items i its) = true -> k >= 1 /\ snd (one_item (i + (k - 1)) (nth (k - 1) its dflt)) = true).

(* each started item: before at most once and first, exactly one work segment, after at most once and last *)
Theorem C19_item_shape : forall i it, exists w,
  fst (one_item i it) = hook_ev (IBefore i) (it_before it) ++ [w] ++ hook_ev (IAfter i) (it_after it) /\
  (match w with IWalk j _ | IPrepErr j => j = i | _ => False end).
Proof. exact item_shape. Qed.
Check C19_item_shape : forall i it, exists w,
  fst (one_item i it) = hook_ev (IBefore i) (it_before it) ++ [w] ++ hook_ev (IAfter i) (it_after it) /\
  (match w with IWalk j _ | IPrepErr j => j = i | _ => False end).

(* a hook of a started item that cannot be started or exits non-zero, and an item that cannot be prepared, make the
   run fail (while, by C19_hooks_bracket, neither skipping the item nor stopping the run) *)
Theorem C19_failing_hook_fails_run : forall its k j,
  fst (run_items 0 its) = concat (map (fun j => fst (one_item (0 + j) (nth j its dflt))) (seq 0 k)) -> j < k ->
  (it_before (nth j its dflt) = Some false \/ it_after (nth j its dflt) = Some false) ->
  run_ok its = false.
Proof. exact failing_hook_fails_run. Qed.
Check C19_failing_hook_fails_run : forall its k j,
  fst (run_items 0 its) = concat (map (fun j => fst (one_item (0 + j) (nth j its dflt))) (seq 0 k)) -> j < k ->
  (it_before (nth j its dflt) = Some false \/ it_after (nth j its dflt) = Some false) ->
  run_ok its = false.
Theorem C19_unprepared_item_fails_run : forall its k j,
  fst (run_items 0 its) = concat (map (fun j => fst (one_item (0 + j) (nth j its dflt))) (seq 0 k)) -> j < k ->
  it_tree (nth j its dflt) = None -> run_ok its = false.
Proof. exact unprepared_item_fails_run. Qed.
Check C19_unprepared_item_fails_run : forall its k j,
  fst (run_items 0 its) = concat (map (fun j => fst (one_item (0 + j) (nth j its dflt))) (seq 0 k)) -> j < k ->
  it_tree (nth j its dflt) = None -> run_ok its = false.

(* ... and the exit status of the whole `vsb backup` run: the retention phase that follows the items (listing clean or not, groups
   due for deletion or not, deletions succeeding or not) cannot turn that failure into a success *)
Theorem C19_failing_hook_fails_backup : forall its k j c l o d,
  fst (run_items 0 its) = concat (map (fun j => fst (one_item (0 + j) (nth j its dflt))) (seq 0 k)) -> j < k ->
  (it_before (nth j its dflt) = Some false \/ it_after (nth j its dflt) = Some false \/ it_tree (nth j its dflt) = None) ->
  backup_status c (run_ok its) l o d = false.
Proof. exact failing_hook_fails_backup. Qed.
Check C19_failing_hook_fails_backup : forall its k j c l o d,
  fst (run_items 0 its) = concat (map (fun j => fst (one_item (0 + j) (nth j its dflt))) (seq 0 k)) -> j < k ->
  (it_before (nth j its dflt) = Some false \/ it_after (nth j its dflt) = Some false \/ it_tree (nth j its dflt) = None) ->
  backup_status c (run_ok its) l o d = false.

Print Assumptions C19_hooks_bracket.
Print Assumptions C19_failing_hook_fails_run.
Print Assumptions C19_failing_hook_fails_backup.
