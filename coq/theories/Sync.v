(* PROTOTYPE (round 0): uploading/sync.rs (get_target_backup_groups, check_backup_groups, sync_backups) *)
From Coq Require Import List Arith NArith Lia Bool ZifyBool ZifyNat ZifyN.
Import ListNotations.
Open Scope N_scope.

(* names abstracted to N (order-isomorphic to the date strings); the real model keeps byte strings *)
Definition gmap := list (N * list N).          (* group name -> backup names *)

Definition keys (m : gmap) := map fst m.
Fixpoint lookup (g : N) (m : gmap) : option (list N) :=
  match m with [] => None | (k, v) :: m' => if k =? g then Some v else lookup g m' end.
Definition memN (x : N) (l : list N) := existsb (N.eqb x) l.

(* BTreeMap insertion/merge: keys strictly increasing *)
Fixpoint merge_backups (a b : list N) : list N :=   (* set union, order irrelevant for the plan *)
  match b with [] => a | x :: b' => if memN x a then merge_backups a b' else merge_backups (a ++ [x]) b' end.
Fixpoint insert (g : N) (bs : list N) (m : gmap) : gmap :=
  match m with
  | [] => [(g, bs)]
  | (k, v) :: m' => if g <? k then (g, bs) :: (k, v) :: m'
                    else if g =? k then (k, merge_backups v bs) :: m'
                    else (k, v) :: insert g bs m'
  end.
Definition union (l c : gmap) : gmap := fold_left (fun m '(g, bs) => insert g bs m) c (fold_left (fun m '(g, bs) => insert g bs m) l []).

Definition nonempty (e : N * list N) := match snd e with [] => false | _ => true end.

(* iterate from the newest group, counting non-empty ones, until [max] are seen *)
Fixpoint first_group (rev_u : gmap) (n max : nat) : option N :=
  match rev_u with
  | [] => None
  | e :: r => if nonempty e then (if max <=? S n then Some (fst e) else first_group r (S n) max)%nat
              else first_group r n max
  end.

Definition target (l c : gmap) (max : nat) : gmap :=
  let u := union l c in
  if (length u <=? max)%nat then u
  else match first_group (rev u) 0 max with
       | Some k => filter (fun e => k <=? fst e) u       (* BTreeMap::split_off *)
       | None => u
       end.

Definition safeguard (l c : gmap) : bool :=
  let ln := length (filter nonempty l) in negb ((ln <? 2)%nat && (ln <? length c)%nat).

Inductive action := Create (g : N) | Upload (g b : N) | Delete (g : N).

Section Sync.
Variable create_ok : N -> bool.          (* oracle: does creating the cloud group succeed *)
Variable upload_ok : N -> N -> bool.     (* oracle: does uploading the backup succeed *)

Fixpoint upload_backups (g : N) (tb cb : list N) (ok : bool) : list action * bool :=
  match tb with
  | [] => ([], ok)
  | b :: tb' => if memN b cb then upload_backups g tb' cb ok
                else let '(a, ok') := upload_backups g tb' cb (ok && upload_ok g b) in (Upload g b :: a, ok')
  end.

Fixpoint upload_groups (t : gmap) (c : gmap) (ok : bool) : list action * bool :=
  match t with
  | [] => ([], ok)
  | (g, tb) :: t' =>
    match tb with
    | [] => upload_groups t' c ok
    | _ => match lookup g c with
           | Some cb => let '(a1, ok1) := upload_backups g tb cb ok in
                        let '(a2, ok2) := upload_groups t' c ok1 in (a1 ++ a2, ok2)
           | None => if create_ok g
                     then let '(a1, ok1) := upload_backups g tb [] ok in
                          let '(a2, ok2) := upload_groups t' c ok1 in (Create g :: a1 ++ a2, ok2)
                     else let '(a2, ok2) := upload_groups t' c false in (Create g :: a2, ok2)
           end
    end
  end.

Definition deletions (t c : gmap) (ok : bool) : list action :=
  if ok then map Delete (filter (fun g => negb (memN g (keys t))) (keys c)) else [].

Definition sync (l c : gmap) (ok0 : bool) (max : nat) : list action * bool :=
  let ok1 := ok0 && safeguard l c in
  let t := target l c max in
  let '(ups, ok2) := upload_groups t c ok1 in
  (ups ++ deletions t c ok2, ok2).

(* ---------------- proofs ---------------- *)
Lemma memN_In : forall x l, memN x l = true <-> In x l.
Proof.
  intros x l. unfold memN. rewrite existsb_exists. split.
  - intros (y & Hy & E). apply N.eqb_eq in E. now subst.
  - intros H. exists x. split; auto. apply N.eqb_refl.
Qed.

Lemma upload_backups_ok_mono : forall g tb cb ok a ok', upload_backups g tb cb ok = (a, ok') -> ok' = true -> ok = true.
Proof.
  intros g tb; induction tb as [|b tb IH]; intros cb ok a ok' E Hok; cbn [upload_backups] in E.
  - now inversion E; subst.
  - destruct (memN b cb); [eauto|].
    destruct (upload_backups g tb cb (ok && upload_ok g b)) as [a1 ok1] eqn:E1. inversion E; subst.
    apply IH in E1; auto. now apply andb_true_iff in E1.
Qed.

Lemma upload_groups_ok_mono : forall t c ok a ok', upload_groups t c ok = (a, ok') -> ok' = true -> ok = true.
Proof.
  induction t as [|[g tb] t IH]; intros c ok a ok' E Hok; cbn [upload_groups] in E.
  - now inversion E; subst.
  - destruct tb as [|b0 tb0]; [eauto|]. remember (b0 :: tb0) as tb.
    destruct (lookup g c) as [cb|].
    + destruct (upload_backups g tb cb ok) as [a1 ok1] eqn:E1.
      destruct (upload_groups t c ok1) as [a2 ok2] eqn:E2. inversion E; subst ok'.
      eapply upload_backups_ok_mono; eauto.
    + destruct (create_ok g).
      * destruct (upload_backups g tb [] ok) as [a1 ok1] eqn:E1.
        destruct (upload_groups t c ok1) as [a2 ok2] eqn:E2. inversion E; subst ok'.
        eapply upload_backups_ok_mono; eauto.
      * destruct (upload_groups t c false) as [a2 ok2] eqn:E2. inversion E; subst ok'.
        apply IH in E2; auto. discriminate.
Qed.

Lemma upload_backups_no_reupload : forall g tb cb ok a ok' g' b,
  upload_backups g tb cb ok = (a, ok') -> In (Upload g' b) a -> g' = g /\ In b tb /\ ~ In b cb.
Proof.
  intros g tb; induction tb as [|x tb IH]; intros cb ok a ok' g' b E Hin; cbn [upload_backups] in E.
  - inversion E; subst. contradiction.
  - destruct (memN x cb) eqn:Em.
    + destruct (IH _ _ _ _ _ _ E Hin) as (? & ? & ?). repeat split; auto. now right.
    + destruct (upload_backups g tb cb (ok && upload_ok g x)) as [a1 ok1] eqn:E1. inversion E; subst.
      destruct Hin as [Heq|Hin].
      * inversion Heq; subst. repeat split; [now left|]. intro Hc. apply memN_In in Hc. congruence.
      * destruct (IH _ _ _ _ _ _ E1 Hin) as (? & ? & ?). repeat split; auto. now right.
Qed.

(* C06: nothing already present in the cloud is uploaded again *)
Theorem no_reupload : forall l c ok0 max acts ok g b,
  sync l c ok0 max = (acts, ok) -> In (Upload g b) acts ->
  match lookup g c with Some cb => ~ In b cb | None => True end.
Proof.
  intros l c ok0 max acts ok g b E Hin. unfold sync in E.
  destruct (upload_groups (target l c max) c (ok0 && safeguard l c)) as [ups ok2] eqn:Eu.
  inversion E; subst acts ok. apply in_app_or in Hin. destruct Hin as [Hin|Hin].
  2:{ unfold deletions in Hin. destruct ok2; [|contradiction]. apply in_map_iff in Hin as (x & Hx & _). discriminate. }
  clear E. revert ups ok2 Eu Hin. generalize (ok0 && safeguard l c) as ok1. generalize (target l c max) as t.
  induction t as [|[g1 tb] t IH]; intros ok1 ups ok2 Eu Hin; cbn [upload_groups] in Eu.
  - inversion Eu; subst. contradiction.
  - destruct tb as [|b0 tb0]; [exact (IH _ _ _ Eu Hin)|]. remember (b0 :: tb0) as tb.
    destruct (lookup g1 c) as [cb|] eqn:El.
    + destruct (upload_backups g1 tb cb ok1) as [a1 ok1'] eqn:E1.
      destruct (upload_groups t c ok1') as [a2 ok2'] eqn:E2. inversion Eu; subst.
      apply in_app_or in Hin as [Hin|Hin]; [|exact (IH _ _ _ E2 Hin)].
      destruct (upload_backups_no_reupload _ _ _ _ _ _ _ _ E1 Hin) as (-> & _ & Hn). now rewrite El.
    + destruct (create_ok g1).
      * destruct (upload_backups g1 tb [] ok1) as [a1 ok1'] eqn:E1.
        destruct (upload_groups t c ok1') as [a2 ok2'] eqn:E2. inversion Eu; subst.
        destruct Hin as [Hin|Hin]; [discriminate|].
        apply in_app_or in Hin as [Hin|Hin]; [|exact (IH _ _ _ E2 Hin)].
        destruct (upload_backups_no_reupload _ _ _ _ _ _ _ _ E1 Hin) as (-> & _ & _). now rewrite El.
      * destruct (upload_groups t c false) as [a2 ok2'] eqn:E2. inversion Eu; subst.
        destruct Hin as [Hin|Hin]; [discriminate|exact (IH _ _ _ E2 Hin)].
Qed.

(* C06: a cloud group is deleted only if no error at all was seen, the wiped-local safeguard passed,
   the group is in the cloud, outside the target set, and older than every group of a cut window *)
Theorem delete_safe : forall l c ok0 max acts ok g,
  sync l c ok0 max = (acts, ok) -> In (Delete g) acts ->
  ok = true /\ ok0 = true /\ safeguard l c = true /\ In g (keys c) /\ ~ In g (keys (target l c max)).
Proof.
  intros l c ok0 max acts ok g E Hin. unfold sync in E.
  destruct (upload_groups (target l c max) c (ok0 && safeguard l c)) as [ups ok2] eqn:Eu.
  inversion E; subst acts ok. apply in_app_or in Hin. destruct Hin as [Hin|Hin].
  - exfalso. clear E. revert ups ok2 Eu Hin. generalize (ok0 && safeguard l c) as ok1. generalize (target l c max) as t.
    induction t as [|[g1 tb] t IH]; intros ok1 ups ok2 Eu Hin; cbn [upload_groups] in Eu.
    + inversion Eu; subst. contradiction.
    + destruct tb as [|b0 tb0]; [exact (IH _ _ _ Eu Hin)|]. remember (b0 :: tb0) as tb.
      assert (Hub : forall cb okx a okx', upload_backups g1 tb cb okx = (a, okx') -> ~ In (Delete g) a).
      { clear. intros cb okx a okx' E1 Hd. revert cb okx a okx' E1 Hd.
        induction tb as [|x tb IHb]; intros cb okx a okx' E1 Hd; cbn [upload_backups] in E1.
        - inversion E1; subst; contradiction.
        - destruct (memN x cb); [eauto|].
          destruct (upload_backups g1 tb cb (okx && upload_ok g1 x)) as [a1 o1] eqn:E2. inversion E1; subst.
          destruct Hd as [Hd|Hd]; [discriminate|eauto]. }
      destruct (lookup g1 c) as [cb|].
      * destruct (upload_backups g1 tb cb ok1) as [a1 ok1'] eqn:E1.
        destruct (upload_groups t c ok1') as [a2 ok2'] eqn:E2. inversion Eu; subst.
        apply in_app_or in Hin as [Hin|Hin]; [exact (Hub _ _ _ _ E1 Hin)|exact (IH _ _ _ E2 Hin)].
      * destruct (create_ok g1).
        -- destruct (upload_backups g1 tb [] ok1) as [a1 ok1'] eqn:E1.
           destruct (upload_groups t c ok1') as [a2 ok2'] eqn:E2. inversion Eu; subst.
           destruct Hin as [Hin|Hin]; [discriminate|].
           apply in_app_or in Hin as [Hin|Hin]; [exact (Hub _ _ _ _ E1 Hin)|exact (IH _ _ _ E2 Hin)].
        -- destruct (upload_groups t c false) as [a2 ok2'] eqn:E2. inversion Eu; subst.
           destruct Hin as [Hin|Hin]; [discriminate|exact (IH _ _ _ E2 Hin)].
  - unfold deletions in Hin. destruct ok2 eqn:Hok; [|contradiction].
    apply in_map_iff in Hin as (x & Hx & Hf). inversion Hx; subst x.
    apply filter_In in Hf as [Hk Hn].
    pose proof (upload_groups_ok_mono _ _ _ _ _ Eu eq_refl) as H1. apply andb_true_iff in H1 as [H0 Hs].
    repeat split; auto. intro Hc. apply memN_In in Hc. rewrite Hc in Hn. discriminate.
Qed.

(* the groups deleted are older than everything kept when the window was cut *)
Theorem deleted_older_than_window : forall l c max k g g',
  (length (union l c) <=? max)%nat = false -> first_group (rev (union l c)) 0 max = Some k ->
  In g (keys (union l c)) -> ~ In g (keys (target l c max)) -> In g' (keys (target l c max)) -> g < g'.
Proof.
  intros l c max k g g' Hlen Hk Hg Hn Hg'. unfold target in *. rewrite Hlen, Hk in *.
  unfold keys in *. apply in_map_iff in Hg as ((g0, v) & <- & Hin). apply in_map_iff in Hg' as ((g1, v') & <- & Hin').
  apply filter_In in Hin' as [_ Hk']. cbn [fst] in *.
  assert (Hlt : (k <=? g0) = false).
  { destruct (k <=? g0) eqn:E; auto. exfalso. apply Hn. apply in_map_iff. exists (g0, v). split; auto.
    apply filter_In. split; auto. }
  lia.
Qed.

(* wiped-local safeguard: fewer than two non-empty local groups and more cloud groups => nothing is deleted *)
Theorem wiped_local_no_delete : forall l c ok0 max acts ok g,
  (length (filter nonempty l) < 2)%nat -> (length (filter nonempty l) < length c)%nat ->
  sync l c ok0 max = (acts, ok) -> ~ In (Delete g) acts.
Proof.
  intros l c ok0 max acts ok g H1 H2 E Hin.
  destruct (delete_safe _ _ _ _ _ _ _ E Hin) as (_ & _ & Hs & _). unfold safeguard in Hs.
  apply negb_true_iff, andb_false_iff in Hs. destruct Hs as [Hs|Hs]; apply Nat.ltb_ge in Hs; lia.
Qed.
End Sync.
Print Assumptions delete_safe.

(* sanity: newest 2 non-empty groups kept, older cloud group deleted, missing backup uploaded *)
Eval vm_compute in sync (fun _ => true) (fun _ _ => true)
  [(1, [10]); (2, [20; 21]); (3, [30])] [(1, [10]); (2, [20])] true 2.
Eval vm_compute in sync (fun _ => true) (fun _ _ => true) [(3, [30])] [(1, [10]); (2, [20])] true 1.
