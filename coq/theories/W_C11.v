(* Wire glue for C11 / C01: the Layer-A restore model (plan + exec) with the repairs that /repo now contains
   (fx2, fx5, fx7 on).
   case: (group name); group = ((name manifest entries) ...) oldest first;
         line = (unique hash size path); path = list of component ids; hash = the content it is the digest of
         entry = (0 path meta) | (1 path meta data) | (2 path meta target); meta = (mode uid gid mtimeZ)
   result: (0) restore aborts with an error | (1 ok tree); tree = ((path node) ...), node = (0 data meta_opt) | (1 meta_opt) | (2 target meta) *)
From Coq Require Import List NArith ZArith Bool.
Import ListNotations.
Require Import Wire Restore2.
Local Open Scope N_scope.

Definition dec_meta (v : val) : option meta :=
  match v with
  | VL [VN mo; VN u; VN g; t] => option_map (fun t => {| m_mode := mo; m_uid := u; m_gid := g; m_mtime := t |}) (as_Z t)
  | _ => None
  end.
Definition enc_meta (m : meta) : val := VL [VN (m_mode m); VN (m_uid m); VN (m_gid m); of_Z (m_mtime m)].

Definition dec_line (v : val) : option mline :=
  match v with
  | VL [u; h; VN sz; p] =>
    match as_bool u, as_bytes h, as_bytes p with
    | Some u, Some h, Some p => Some {| l_unique := u; l_hash := h; l_size := sz; l_path := p |}
    | _, _, _ => None end
  | _ => None
  end.

Definition dec_entry (v : val) : option entry :=
  match v with
  | VL [VN 0; p; m] => match as_bytes p, dec_meta m with Some p, Some m => Some (EDir p m) | _, _ => None end
  | VL [VN 1; p; m; d] =>
    match as_bytes p, dec_meta m, as_bytes d with
    | Some p, Some m, Some d => Some (EReg p m (N.of_nat (length d)) d) | _, _, _ => None end
  | VL [VN 2; p; m; t] =>
    match as_bytes p, dec_meta m, as_bytes t with
    | Some p, Some m, Some t => Some (ESym p m t) | _, _, _ => None end
  | _ => None
  end.

Definition dec_backup (v : val) : option backup :=
  match v with
  | VL [VN n; ls; es] =>
    match as_listof dec_line ls, as_listof dec_entry es with
    | Some ls, Some es => Some {| b_name := n; b_manifest := ls; b_archive := es |}
    | _, _ => None end
  | _ => None
  end.

Definition enc_node (n : rnode) : val :=
  match n with
  | RFile d m => VL [VN 0; of_bytes d; of_option enc_meta m]
  | RDir m => VL [VN 1; of_option enc_meta m]
  | RSym t m => VL [VN 2; of_bytes t; enc_meta m]
  end.

Definition run_c11_exec (v : val) : val :=
  match v with
  | VL [g; VN name] =>
    match as_listof dec_backup g with
    | Some g =>
      match exec repaired g name with
      | None => VL [VN 0]
      | Some (t, ok) => VL [VN 1; of_bool ok; of_list (fun pn => VL [of_bytes (fst pn); enc_node (snd pn)]) t]
      end
    | None => bad_input
    end
  | _ => bad_input
  end.
