(* PROTOTYPE (round 0): characterisations of the glob tokens (C14) *)
From Coq Require Import List Arith NArith Lia Bool.
Import ListNotations.
Require Import Glob.
Open Scope N_scope.

Definition noslash (s : list N) := forallb (fun c => negb (c =? SLASH)) s.

(* `*` : matches exactly the strings without '/' (when nothing follows) *)
Lemma star_iff : forall s, mf [FStar] s is_nil = true <-> noslash s = true.
Proof.
  intros s. cbn [mf]. induction s as [|b s IH]; cbn [is_nil noslash forallb orb]; [tauto|].
  rewrite !andb_true_iff. fold (noslash s). split; intros [A B]; split; auto; apply IH; auto.
Qed.

(* `*` followed by a continuation: some slash-free prefix is consumed *)
Lemma star_cont : forall r s k, mf (FStar :: r) s k = true <-> exists a b, s = a ++ b /\ noslash a = true /\ mf r b k = true.
Proof.
  intros r s k. cbn [mf]. induction s as [|c s IH].
  - rewrite orb_false_r. split; [intros H; exists [], []; auto | intros (a & b & E & _ & H)].
    destruct a; destruct b; try discriminate. exact H.
  - rewrite orb_true_iff, andb_true_iff. split.
    + intros [H|[Hc H]]; [exists [], (c :: s); auto|]. apply IH in H as (a & b & -> & Ha & Hb).
      exists (c :: a), b. repeat split; auto. cbn [noslash forallb]. now rewrite Hc.
    + intros (a & b & E & Ha & Hb). destruct a as [|x a].
      * cbn in E. subst b. now left.
      * inversion E; subst x s. cbn [noslash forallb] in Ha. apply andb_true_iff in Ha as [Hx Ha]. right. split; auto.
        apply IH. exists a, b. auto.
Qed.

(* `?` : exactly one byte that is not '/' *)
Lemma any_iff : forall r s k, mf (FAny :: r) s k = true <-> exists b s', s = b :: s' /\ b <> SLASH /\ mf r s' k = true.
Proof.
  intros r s k. cbn [mf]. destruct s as [|b s']; [split; [discriminate|intros (? & ? & E & _); discriminate]|].
  rewrite andb_true_iff, negb_true_iff, N.eqb_neq. split; [intros [A B]; eauto | intros (b0 & s0 & E & A & B); inversion E; subst; auto].
Qed.

(* a leading `**/` : nothing, or everything up to and including some '/' *)
Lemma recpre_iff : forall r s k, mf (FRecPre :: r) s k = true <->
  mf r s k = true \/ exists a b, s = a ++ SLASH :: b /\ mf r b k = true.
Proof.
  intros r s k. cbn [mf]. rewrite orb_true_iff. apply or_iff_compat_l.
  induction s as [|c s IH]; [split; [discriminate|intros (a & b & E & _); destruct a; discriminate]|].
  rewrite orb_true_iff, andb_true_iff, N.eqb_eq. split.
  - intros [[-> H]|H]; [exists [], s; auto|]. apply IH in H as (a & b & -> & Hb). exists (c :: a), b. auto.
  - intros (a & b & E & Hb). destruct a as [|x a]; inversion E; subst; [left; auto|right]. apply IH. eauto.
Qed.

(* alternatives : one of the non-empty branches, followed by the rest *)
Lemma alt_iff : forall alts r s k, (exists a, In a alts /\ a <> []) ->
  mt (TAlt alts :: r) s k = true <-> exists a, In a alts /\ a <> [] /\ mf a s (fun s' => mt r s' k) = true.
Proof.
  intros alts r s k (a0 & Hin0 & Hne0). cbn [mt].
  set (parts := filter (fun a => match a with [] => false | _ => true end) alts).
  assert (Hp : forall a, In a parts <-> In a alts /\ a <> []).
  { intros a. unfold parts. rewrite filter_In. split; intros [A B]; split; auto; destruct a; congruence. }
  destruct parts as [|p ps] eqn:E.
  - exfalso. assert (In a0 []) by (apply Hp; auto). contradiction.
  - rewrite existsb_exists. split; [intros (a & Ha & H); apply Hp in Ha as [A B]; eauto | intros (a & A & B & H); exists a; split; [apply Hp; auto|auto]].
Qed.
Print Assumptions alt_iff.
