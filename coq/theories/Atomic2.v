(* PROTOTYPE (round 0): C03 at the level the property speaks about for kills and I/O failures - the volatile
   namespace of one group: kill at any point, failure of any operation followed by vsb's clean-up, same-second
   collision, recovery by the next run *)
From Coq Require Import List Arith NArith Lia Bool.
Import ListNotations.

Definition name := (bool * nat)%type.          (* (true, k) = ".k" temporary, (false, k) = "k" final *)
Definition is_final (n : name) := negb (fst n).
Definition name_eqb (a b : name) := Bool.eqb (fst a) (fst b) && (snd a =? snd b).
Lemma name_eqb_spec : forall a b, reflect (a = b) (name_eqb a b).
Proof.
  intros [a1 a2] [b1 b2]. unfold name_eqb; cbn.
  destruct (Bool.eqb_spec a1 b1); cbn; [|constructor; congruence].
  destruct (Nat.eqb_spec a2 b2); constructor; congruence.
Qed.
Lemma name_eqb_refl : forall n, name_eqb n n = true. Proof. intro n. destruct (name_eqb_spec n n); congruence. Qed.

Inductive fname := Meta | Data.
Record obj := { meta : option (list N); data : option (list N) }.
Definition empty_dir := {| meta := None; data := None |}.
Definition is_empty (o : obj) := match meta o, data o with None, None => true | _, _ => false end.
Definition getf (o : obj) f := match f with Meta => meta o | Data => data o end.
Definition setf (o : obj) f x := match f with Meta => {| meta := x; data := data o |} | Data => {| meta := meta o; data := x |} end.

Definition fs := list (name * obj).
Fixpoint lookup (n : name) (l : fs) : option obj :=
  match l with [] => None | (m, x) :: l' => if name_eqb n m then Some x else lookup n l' end.
Definition remove (n : name) (l : fs) : fs := filter (fun e => negb (name_eqb n (fst e))) l.
Fixpoint update (n : name) (o : obj) (l : fs) : fs :=
  match l with [] => [] | (m, x) :: l' => if name_eqb n m then (m, o) :: l' else (m, x) :: update n o l' end.

Inductive op := Mkdir (n : name) | Create (n : name) (f : fname) | Write (n : name) (f : fname) (b : list N)
              | Sync | Rename (a b : name) | RmTree (n : name).

(* the kernel: None = the call fails and changes nothing *)
Definition step (s : fs) (o : op) : option fs :=
  match o with
  | Mkdir n => match lookup n s with Some _ => None | None => Some ((n, empty_dir) :: s) end
  | Create n f => match lookup n s with
                  | Some x => match getf x f with Some _ => None | None => Some (update n (setf x f (Some [])) s) end
                  | None => None end
  | Write n f b => match lookup n s with
                   | Some x => match getf x f with Some c => Some (update n (setf x f (Some (c ++ b))) s) | None => None end
                   | None => None end
  | Sync => Some s
  | Rename a b => match lookup a s with
                  | None => None
                  | Some x => match lookup b s with
                              | None => Some ((b, x) :: remove a s)
                              | Some y => if is_empty y then Some ((b, x) :: remove b (remove a s)) else None   (* ENOTEMPTY *)
                              end
                  end
  | RmTree n => match lookup n s with Some _ => Some (remove n s) | None => None end
  end.

(* operations confined to the temporary directory T: all that happens between its creation and the rename.
   A write that fails half way is a Write of a prefix, so it is covered too. *)
Definition local (T : name) (o : op) : Prop :=
  match o with Create n _ | Write n _ _ => n = T | Sync => True | _ => False end.

(* run a list of calls; a failing call changes nothing and the caller carries on or not - either way the state is this *)
Fixpoint apply (s : fs) (ops : list op) : fs :=
  match ops with [] => s | o :: r => apply (match step s o with Some s' => s' | None => s end) r end.

Lemma lookup_remove_same : forall n s, lookup n (remove n s) = None.
Proof.
  intros n s; induction s as [|[m x] s IH]; [reflexivity|]. cbn [remove filter fst]. destruct (name_eqb n m) eqn:E; cbn [negb]; auto.
  cbn [lookup]. now rewrite E.
Qed.
Lemma lookup_remove_other : forall n m s, n <> m -> lookup n (remove m s) = lookup n s.
Proof.
  intros n m s Hne; induction s as [|[k x] s IH]; [reflexivity|]. cbn [remove filter fst lookup].
  destruct (name_eqb_spec m k) as [<-|Hk]; cbn [negb].
  - destruct (name_eqb_spec n m); [congruence|]. exact IH.
  - cbn [lookup]. destruct (name_eqb n k); auto.
Qed.
Lemma remove_fresh : forall n s, lookup n s = None -> remove n s = s.
Proof.
  intros n s; induction s as [|[m x] s IH]; intro H; [reflexivity|]. cbn [lookup] in H. cbn [remove filter fst].
  destruct (name_eqb n m); [discriminate|]. cbn [negb]. f_equal. now apply IH.
Qed.

Lemma remove_head : forall n o s, remove n ((n, o) :: s) = remove n s.
Proof. intros. unfold remove. cbn [filter fst]. now rewrite name_eqb_refl. Qed.

(* during the run the group is: what it was, plus the one temporary entry *)
Lemma local_mid : forall T s0 ops o, Forall (local T) ops -> exists o', apply ((T, o) :: s0) ops = (T, o') :: s0.
Proof.
  intros T s0 ops; induction ops as [|x ops IH]; intros o H; [exists o; reflexivity|].
  apply Forall_cons_iff in H as [Hx Hops]. cbn [apply].
  destruct x as [n|n f|n f b| |a b|n]; cbn [local] in Hx; try contradiction; try subst n; cbn [step lookup]; rewrite ?name_eqb_refl.
  - destruct (getf o f); [apply IH; auto|]. cbn [update]. rewrite name_eqb_refl. apply IH; auto.
  - destruct (getf o f); [|apply IH; auto]. cbn [update]. rewrite name_eqb_refl. apply IH; auto.
  - apply IH; auto.
Qed.

(* what "complete" means for the backup this run is writing *)
Section Run.
Variable T F : name.
Variable M D : list N.                                    (* the manifest and the archive this run produces *)
Hypothesis HT : fst T = true.
Hypothesis HF : fst F = false.

Definition Safe (s0 s : fs) : Prop :=
  (forall n o, is_final n = true -> lookup n s0 = Some o -> is_empty o = false -> lookup n s = Some o) /\
  (forall n o, is_final n = true -> lookup n s = Some o ->
     lookup n s0 = Some o \/ (n = F /\ o = {| meta := Some M; data := Some D |})).

Lemma TF : T <> F. Proof. intro E. rewrite E in HT. congruence. Qed.

Lemma mid_safe : forall s0 o, Safe s0 ((T, o) :: s0).
Proof.
  intros s0 o. split; intros n x Hn Hl.
  - intros _. cbn [lookup]. destruct (name_eqb_spec n T) as [->|]; auto. unfold is_final in Hn. rewrite HT in Hn. discriminate.
  - cbn [lookup] in Hl. destruct (name_eqb_spec n T) as [->|]; auto. unfold is_final in Hn. rewrite HT in Hn. discriminate.
Qed.

(* C03, kills: whatever has been executed between mkdir and rename - any calls on the temporary directory, complete or
   partial, in any order - every final-named entry is an old one, unchanged *)
Theorem kill_before_rename_safe : forall s0 ops, lookup T s0 = None -> Forall (local T) ops ->
  Safe s0 (apply s0 (Mkdir T :: ops)).
Proof.
  intros s0 ops Hfresh Hl. cbn [apply step]. rewrite Hfresh.
  destruct (local_mid T s0 ops empty_dir Hl) as (o' & ->). apply mid_safe.
Qed.

(* C03, failures: Drop removes the temporary directory; the group is then exactly what it was before the run *)
Theorem failure_restores : forall s0 ops, lookup T s0 = None -> Forall (local T) ops ->
  apply s0 (Mkdir T :: ops ++ [RmTree T]) = s0.
Proof.
  intros s0 ops Hfresh Hl. cbn [apply step]. rewrite Hfresh.
  assert (Ha : forall s a b, apply s (a ++ b) = apply (apply s a) b).
  { intros s a; revert s; induction a as [|x a IH]; intros s b; cbn [app apply]; auto. }
  rewrite Ha. destruct (local_mid T s0 ops empty_dir Hl) as (o' & ->).
  cbn [apply step lookup]. rewrite name_eqb_refl, remove_head.
  now apply remove_fresh.
Qed.

(* the writes of a successful run *)
Definition wr (w : fname * list N) : op := Write T (fst w) (snd w).
Definition content (f : fname) (ws : list (fname * list N)) : list N :=
  concat (map (fun w => match f, fst w with Meta, Meta | Data, Data => snd w | _, _ => [] end) ws).

Lemma writes_content : forall ws s0 m d,
  apply ((T, {| meta := Some m; data := Some d |}) :: s0) (map wr ws)
  = (T, {| meta := Some (m ++ content Meta ws); data := Some (d ++ content Data ws) |}) :: s0.
Proof.
  induction ws as [|[f b] ws IH]; intros s0 m d.
  - cbn. now rewrite !app_nil_r.
  - cbn [map apply]. unfold wr at 1. cbn [fst snd step lookup]. rewrite name_eqb_refl.
    destruct f; cbn [getf setf meta data update]; rewrite name_eqb_refl, IH; unfold content; cbn [map concat fst snd];
      now rewrite ?app_nil_r, ?app_nil_l, <- ?app_assoc.
Qed.

Lemma apply_app : forall s a b, apply s (a ++ b) = apply (apply s a) b.
Proof. intros s a; revert s; induction a as [|x a IH]; intros s b; cbn [app apply]; auto. Qed.

Lemma start_ok : forall s0, lookup T s0 = None ->
  apply s0 [Mkdir T; Create T Meta; Create T Data] = (T, {| meta := Some []; data := Some [] |}) :: s0.
Proof.
  intros s0 H. cbn [apply step]. rewrite H.
  repeat (cbn [apply step lookup getf setf meta data update empty_dir]; rewrite ?name_eqb_refl). reflexivity.
Qed.

Definition script (ws : list (fname * list N)) : list op :=
  [Mkdir T; Create T Meta; Create T Data] ++ map wr ws ++ [Sync; Sync; Sync; Rename T F; Sync].

(* C03, publication: with fresh names the run ends with the group as it was plus the complete new backup *)
Theorem success_publishes : forall s0 ws, lookup T s0 = None -> lookup F s0 = None ->
  content Meta ws = M -> content Data ws = D ->
  apply s0 (script ws) = (F, {| meta := Some M; data := Some D |}) :: s0 /\ Safe s0 (apply s0 (script ws)).
Proof.
  intros s0 ws HfT HfF HM HD. unfold script.
  rewrite apply_app, (start_ok _ HfT), apply_app, writes_content. cbn [app apply step lookup]. rewrite name_eqb_refl.
  destruct (name_eqb_spec F T) as [E|_]; [exfalso; apply TF; auto|]. rewrite HfF.
  rewrite remove_head, (remove_fresh _ _ HfT), HM, HD.
  split; [reflexivity|]. split; intros n o Hn Hl.
  - intros _. cbn [lookup]. destruct (name_eqb_spec n F) as [->|]; [congruence|auto].
  - cbn [lookup] in Hl. destruct (name_eqb_spec n F) as [->|]; [inversion Hl; auto|auto].
Qed.

(* C03, same-second collision: a complete backup already bears the final name; the rename fails, Drop cleans up,
   the group is exactly what it was *)
Theorem collision_restores : forall s0 ws x, lookup T s0 = None -> lookup F s0 = Some x -> is_empty x = false ->
  apply s0 ([Mkdir T; Create T Meta; Create T Data] ++ map wr ws ++ [Sync; Sync; Sync; Rename T F; RmTree T]) = s0.
Proof.
  intros s0 ws x HfT HF' Hne.
  rewrite apply_app, (start_ok _ HfT), apply_app, writes_content. cbn [app apply step lookup]. rewrite name_eqb_refl.
  destruct (name_eqb_spec F T) as [E|_]; [exfalso; apply TF; auto|]. rewrite HF', Hne.
  cbn [lookup]. rewrite name_eqb_refl, remove_head. now apply remove_fresh.
Qed.
End Run.

(* C03, recovery: the next run on the group deletes the abandoned temporaries; what is left are the final-named entries *)
Definition drop_temps (s : fs) : fs := filter (fun e => is_final (fst e)) s.
Lemma drop_temps_final : forall s n, is_final n = true -> lookup n (drop_temps s) = lookup n s.
Proof.
  intros s n Hn; induction s as [|[m x] s IH]; [reflexivity|]. cbn [drop_temps filter fst lookup].
  destruct (is_final m) eqn:Em; cbn [lookup].
  - destruct (name_eqb n m); auto.
  - destruct (name_eqb_spec n m) as [->|]; [congruence|auto].
Qed.
Lemma drop_temps_no_temp : forall s n, is_final n = false -> lookup n (drop_temps s) = None.
Proof.
  intros s n Hn; induction s as [|[m x] s IH]; [reflexivity|]. cbn [drop_temps filter fst].
  destruct (is_final m) eqn:Em; auto. cbn [lookup]. destruct (name_eqb_spec n m) as [->|]; [congruence|auto].
Qed.

(* any state a killed or failed run can leave, followed by the next run's clean-up and script, publishes normally *)
Corollary next_run_recovers : forall T' F' s ws, fst T' = true -> fst F' = false -> lookup F' s = None ->
  apply (drop_temps s) (script T' F' ws)
  = (F', {| meta := Some (content Meta ws); data := Some (content Data ws) |}) :: drop_temps s.
Proof.
  intros T' F' s ws HT' HF' HfF.
  refine (proj1 (success_publishes T' F' _ _ HT' HF' (drop_temps s) ws _ _ eq_refl eq_refl)).
  - apply drop_temps_no_temp. unfold is_final. now rewrite HT'.
  - rewrite drop_temps_final; auto. unfold is_final. now rewrite HF'.
Qed.
Print Assumptions kill_before_rename_safe.
Print Assumptions failure_restores.
Print Assumptions success_publishes.
Print Assumptions collision_restores.
Print Assumptions next_run_recovers.
