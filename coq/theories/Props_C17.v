(* C17 — ciphertext is split into request bodies without loss, overlap or oversize. *)
From Coq Require Import List Arith NArith Lia Bool.
Import ListNotations.
Require Import Chunk Splitter Splitter2 Splitter3.
Local Open Scope nat_scope.

(* Data half: for every maximum size m >= 1, every fragmentation of the stream into payload blocks and a receiver
   that stays (budget large enough for every send), the provider sees exactly the bodies
   (offset, bytes) = from_off 0 (chunks m stream), followed by the finalisation carrying the total and the checksum,
   and the splitter returns Ok. *)
Theorem C17_bodies_and_finalisation : forall m blocks sum budget0, m >= 1 ->
  2 * length (concat blocks) + 1 <= budget0 ->
  exists es0, splitter (Some m) budget0 (map Payload blocks ++ [Eof sum]) =
                (es0 ++ [EEof (length (concat blocks)) sum], ROk) /\
              bodies (es0 ++ [EEof (length (concat blocks)) sum]) = from_off 0 (chunks m (concat blocks)).
Proof. exact splitter_correct. Qed.
Check C17_bodies_and_finalisation : forall m blocks sum budget0, m >= 1 ->
  2 * length (concat blocks) + 1 <= budget0 ->
  exists es0, splitter (Some m) budget0 (map Payload blocks ++ [Eof sum]) =
                (es0 ++ [EEof (length (concat blocks)) sum], ROk) /\
              bodies (es0 ++ [EEof (length (concat blocks)) sum]) = from_off 0 (chunks m (concat blocks)).

(* what [chunks] / [from_off] mean: concatenation is the stream, every body has 1..m bytes, all but the last
   exactly m, and each offset is the total size of the bodies before it (from_off is that definition). *)
Theorem C17_chunks_meaning : forall m d, m >= 1 ->
  concat (chunks m d) = d /\
  Forall (fun c => 1 <= length c <= m) (chunks m d) /\
  (forall pre last, chunks m d = pre ++ [last] -> Forall (fun c => length c = m) pre).
Proof. intros m d Hm. split; [exact (chunks_concat m d Hm) | exact (chunks_sizes m d Hm)]. Qed.
Check C17_chunks_meaning : forall m d, m >= 1 ->
  concat (chunks m d) = d /\
  Forall (fun c => 1 <= length c <= m) (chunks m d) /\
  (forall pre last, chunks m d = pre ++ [last] -> Forall (fun c => length c = m) pre).

(* An upstream error ends the sequence instead of the finalisation: same bodies, then the error, and no
   finalisation event anywhere. *)
Theorem C17_upstream_error : forall m blocks x budget0, m >= 1 ->
  2 * length (concat blocks) + 1 <= budget0 ->
  exists es0, splitter (Some m) budget0 (map Payload blocks ++ [MErr x]) = (es0 ++ [EFail x], ROk) /\
              quiet es0 = true /\
              bodies (es0 ++ [EFail x]) = from_off 0 (chunks m (concat blocks)).
Proof. exact splitter_upstream_error. Qed.
Check C17_upstream_error : forall m blocks x budget0, m >= 1 ->
  2 * length (concat blocks) + 1 <= budget0 ->
  exists es0, splitter (Some m) budget0 (map Payload blocks ++ [MErr x]) = (es0 ++ [EFail x], ROk) /\
              quiet es0 = true /\
              bodies (es0 ++ [EFail x]) = from_off 0 (chunks m (concat blocks)).

(* A sender that hangs up: failure, neither finalisation nor error is sent. *)
Theorem C17_sender_hangup : forall m blocks budget0, m >= 1 ->
  2 * length (concat blocks) + 1 <= budget0 ->
  exists es0, splitter (Some m) budget0 (map Payload blocks) = (es0, RSenderClosed) /\ quiet es0 = true.
Proof. exact splitter_sender_hangup. Qed.
Check C17_sender_hangup : forall m blocks budget0, m >= 1 ->
  2 * length (concat blocks) + 1 <= budget0 ->
  exists es0, splitter (Some m) budget0 (map Payload blocks) = (es0, RSenderClosed) /\ quiet es0 = true.

(* Never both, and nothing after it: in every run whatsoever (any message list, any maximum incl. unlimited,
   any receiver) the events are a terminal-free part followed by at most one terminal event. *)
Theorem C17_terminal_once_and_last : forall max ms s es r, run max s ms = (es, r) ->
  exists body tl, es = body ++ tl /\ quiet body = true /\
    (tl = [] \/ exists t, tl = [t] /\ is_term t = true).
Proof. exact terminal_once_and_last. Qed.
Check C17_terminal_once_and_last : forall max ms s es r, run max s ms = (es, r) ->
  exists body tl, es = body ++ tl /\ quiet body = true /\
    (tl = [] \/ exists t, tl = [t] /\ is_term t = true).

(* A receiver that stopped: the next send makes the run fail (it cannot block: a send to a dropped receiver
   returns at once). *)
Theorem C17_receiver_gone_fails : forall max s ms m0,
  budget s = 0 -> (match m0 with Payload d => d <> [] | _ => True end) ->
  snd (run max s (m0 :: ms)) = RReceiverClosed \/ (open s = true /\ exists d, m0 = Payload d).
Proof. exact receiver_gone_fails. Qed.
Check C17_receiver_gone_fails : forall max s ms m0,
  budget s = 0 -> (match m0 with Payload d => d <> [] | _ => True end) ->
  snd (run max s (m0 :: ms)) = RReceiverClosed \/ (open s = true /\ exists d, m0 = Payload d).

Theorem C17_receiver_gone_fails_open : forall max s ms d,
  budget s = 0 -> open s = true -> d <> [] -> (match max with Some m => ssize s < m | None => True end) ->
  snd (run max s (Payload d :: ms)) = RReceiverClosed.
Proof. exact receiver_gone_fails_open. Qed.
Check C17_receiver_gone_fails_open : forall max s ms d,
  budget s = 0 -> open s = true -> d <> [] -> (match max with Some m => ssize s < m | None => True end) ->
  snd (run max s (Payload d :: ms)) = RReceiverClosed.

(* unlimited request size (Yandex Disk, Google Drive): one body at offset 0 holding the whole stream, or none for an
   empty stream, then the finalisation *)
Theorem C17_unlimited : forall blocks sum budget0,
  2 * length blocks + 1 <= budget0 ->
  exists es0, splitter None budget0 (map Payload blocks ++ [Eof sum]) =
                (es0 ++ [EEof (length (concat blocks)) sum], ROk) /\
              bodies (es0 ++ [EEof (length (concat blocks)) sum]) = one_body 0 (concat blocks).
Proof. exact splitter_unlimited. Qed.
Check C17_unlimited : forall blocks sum budget0,
  2 * length blocks + 1 <= budget0 ->
  exists es0, splitter None budget0 (map Payload blocks ++ [Eof sum]) =
                (es0 ++ [EEof (length (concat blocks)) sum], ROk) /\
              bodies (es0 ++ [EEof (length (concat blocks)) sum]) = one_body 0 (concat blocks).

(* a message after the terminal one makes the sending side fail *)
Theorem C17_extra_message_error : forall max s t m ms, budget s >= 1 ->
  (exists sum, t = Eof sum) \/ (exists x, t = MErr x) ->
  snd (run max s (t :: m :: ms)) = RExtraMessage.
Proof. exact extra_message_error. Qed.
Check C17_extra_message_error : forall max s t m ms, budget s >= 1 ->
  (exists sum, t = Eof sum) \/ (exists x, t = MErr x) ->
  snd (run max s (t :: m :: ms)) = RExtraMessage.

(* non-vacuity: a straddling block and an exact fill *)
Example C17_example :
  bodies (fst (splitter (Some 2) 20 [Payload [1;2;3]%N; Payload [4]%N; Eof [9]%N])) = [(0, [1;2]%N); (2, [3;4]%N)].
Proof. vm_compute. reflexivity. Qed.

Print Assumptions C17_bodies_and_finalisation.
Print Assumptions C17_upstream_error.
Print Assumptions C17_terminal_once_and_last.
