(* C05 — a cloud backup gets its final name only when complete and checksum-verified.
   Models: the three providers' upload_file as functions of the chunk-stream events and of an arbitrary reply oracle
   (any request may fail), run against an emulated server whose checksum is Hsrv of what it stored; and the
   archiver / gpg / reader / splitter / uploader pipeline as a transition system over its 5449 reachable states. *)
From Coq Require Import List Arith NArith Bool.
Import ListNotations.
Require Import Providers2 Dropbox2 Pipeline PipelineProof C05Cor.
Require Sync SyncAttempts.

(* Dropbox: whatever the server answers, if the final name changed then the call succeeded, the name was free, it now
   holds exactly the appended bodies, and the finalisation carried their length and the server-side checksum *)
Theorem C05_dropbox_final_only_if_verified :
  forall (reply : nat -> rep) (Hsrv : bytes -> bytes) (beqb : bytes -> bytes -> bool),
  (forall a b : bytes, reflect (a = b) (beqb a b)) ->
  forall (evs : list cev) (s s' : dsrv) (res : bool),
  dropbox reply Hsrv beqb evs s = (s', res) -> dfinal s' <> dfinal s ->
  res = true /\ dfinal s = None /\ dfinal s' = Some (payload evs) /\
  Providers2.terminal evs = Some (length (payload evs), Hsrv (payload evs)).
Proof. exact dropbox_final_only_if_verified. Qed.
Check C05_dropbox_final_only_if_verified :
  forall (reply : nat -> rep) (Hsrv : bytes -> bytes) (beqb : bytes -> bytes -> bool),
  (forall a b : bytes, reflect (a = b) (beqb a b)) ->
  forall (evs : list cev) (s s' : dsrv) (res : bool),
  dropbox reply Hsrv beqb evs s = (s', res) -> dfinal s' <> dfinal s ->
  res = true /\ dfinal s = None /\ dfinal s' = Some (payload evs) /\
  Providers2.terminal evs = Some (length (payload evs), Hsrv (payload evs)).

(* Yandex Disk: the final name changes only on success, to an object whose server-side checksum equals the one the
   stream's terminal message carried *)
Theorem C05_yandex_final_only_if_verified :
  forall (reply : nat -> rep) (Hsrv : bytes -> bytes) (beqb : bytes -> bytes -> bool),
  (forall a b : bytes, reflect (a = b) (beqb a b)) ->
  forall (polls : nat) (evs : list cev) (s s' : ysrv) (res : bool),
  yandex reply Hsrv beqb polls evs s = (s', res) -> yfinal s' <> yfinal s ->
  res = true /\
  (exists (n : nat) (d : bytes), Providers2.terminal evs = Some (n, Hsrv d) /\ yfinal s' = Some d /\ yfinal s = None /\
     (d = payload evs \/ payload evs = [] /\ ytemp s = Some d)).
Proof. exact yandex_final_only_if_verified. Qed.
Check C05_yandex_final_only_if_verified :
  forall (reply : nat -> rep) (Hsrv : bytes -> bytes) (beqb : bytes -> bytes -> bool),
  (forall a b : bytes, reflect (a = b) (beqb a b)) ->
  forall (polls : nat) (evs : list cev) (s s' : ysrv) (res : bool),
  yandex reply Hsrv beqb polls evs s = (s', res) -> yfinal s' <> yfinal s ->
  res = true /\
  (exists (n : nat) (d : bytes), Providers2.terminal evs = Some (n, Hsrv d) /\ yfinal s' = Some d /\ yfinal s = None /\
     (d = payload evs \/ payload evs = [] /\ ytemp s = Some d)).

(* Google Drive (names are not unique): the set of final-named objects changes only on success, by gaining one object
   that is the non-empty payload with a matching checksum *)
Theorem C05_google_final_only_if_verified :
  forall (reply : nat -> rep) (Hsrv : bytes -> bytes) (beqb : bytes -> bytes -> bool),
  (forall a b : bytes, reflect (a = b) (beqb a b)) ->
  forall (evs : list cev) (s s' : gsrv) (res : bool),
  google reply Hsrv beqb evs s = (s', res) -> gfinal s' <> gfinal s ->
  res = true /\
  (exists n : nat, Providers2.terminal evs = Some (n, Hsrv (payload evs)) /\ n <> 0 /\ gfinal s' = gfinal s ++ [payload evs]).
Proof. exact google_final_only_if_verified. Qed.
Check C05_google_final_only_if_verified :
  forall (reply : nat -> rep) (Hsrv : bytes -> bytes) (beqb : bytes -> bytes -> bool),
  (forall a b : bytes, reflect (a = b) (beqb a b)) ->
  forall (evs : list cev) (s s' : gsrv) (res : bool),
  google reply Hsrv beqb evs s = (s', res) -> gfinal s' <> gfinal s ->
  res = true /\
  (exists n : nat, Providers2.terminal evs = Some (n, Hsrv (payload evs)) /\ n <> 0 /\ gfinal s' = gfinal s ++ [payload evs]).

(* failure half: a failed upload_file call leaves the final name exactly as it was, for every reply oracle *)
Theorem C05_dropbox_failure_leaves_final :
  forall (reply : nat -> rep) (Hsrv : bytes -> bytes) (beqb : bytes -> bytes -> bool),
  (forall a b : bytes, reflect (a = b) (beqb a b)) ->
  forall evs s s', dropbox reply Hsrv beqb evs s = (s', false) -> dfinal s' = dfinal s.
Proof. exact dropbox_failure_leaves_final. Qed.
Check C05_dropbox_failure_leaves_final :
  forall (reply : nat -> rep) (Hsrv : bytes -> bytes) (beqb : bytes -> bytes -> bool),
  (forall a b : bytes, reflect (a = b) (beqb a b)) ->
  forall evs s s', dropbox reply Hsrv beqb evs s = (s', false) -> dfinal s' = dfinal s.
Theorem C05_yandex_failure_leaves_final :
  forall (reply : nat -> rep) (Hsrv : bytes -> bytes) (beqb : bytes -> bytes -> bool),
  (forall a b : bytes, reflect (a = b) (beqb a b)) ->
  forall polls evs s s', yandex reply Hsrv beqb polls evs s = (s', false) -> yfinal s' = yfinal s.
Proof. exact yandex_failure_leaves_final. Qed.
Check C05_yandex_failure_leaves_final :
  forall (reply : nat -> rep) (Hsrv : bytes -> bytes) (beqb : bytes -> bytes -> bool),
  (forall a b : bytes, reflect (a = b) (beqb a b)) ->
  forall polls evs s s', yandex reply Hsrv beqb polls evs s = (s', false) -> yfinal s' = yfinal s.
Theorem C05_google_failure_leaves_final :
  forall (reply : nat -> rep) (Hsrv : bytes -> bytes) (beqb : bytes -> bytes -> bool),
  (forall a b : bytes, reflect (a = b) (beqb a b)) ->
  forall evs s s', google reply Hsrv beqb evs s = (s', false) -> gfinal s' = gfinal s.
Proof. exact google_failure_leaves_final. Qed.
Check C05_google_failure_leaves_final :
  forall (reply : nat -> rep) (Hsrv : bytes -> bytes) (beqb : bytes -> bytes -> bool),
  (forall a b : bytes, reflect (a = b) (beqb a b)) ->
  forall evs s s', google reply Hsrv beqb evs s = (s', false) -> gfinal s' = gfinal s.

(* encryption / archiving failure: a chunk stream without a terminal checksum message (it ended with an error, or the
   sender went away) never changes the final name, whatever the server answers *)
Theorem C05_dropbox_no_terminal_no_final :
  forall (reply : nat -> rep) (Hsrv : bytes -> bytes) (beqb : bytes -> bytes -> bool),
  (forall a b : bytes, reflect (a = b) (beqb a b)) ->
  forall evs s s' res, Providers2.terminal evs = None -> dropbox reply Hsrv beqb evs s = (s', res) -> dfinal s' = dfinal s.
Proof. exact dropbox_no_terminal_no_final. Qed.
Check C05_dropbox_no_terminal_no_final :
  forall (reply : nat -> rep) (Hsrv : bytes -> bytes) (beqb : bytes -> bytes -> bool),
  (forall a b : bytes, reflect (a = b) (beqb a b)) ->
  forall evs s s' res, Providers2.terminal evs = None -> dropbox reply Hsrv beqb evs s = (s', res) -> dfinal s' = dfinal s.
Theorem C05_yandex_no_terminal_no_final :
  forall (reply : nat -> rep) (Hsrv : bytes -> bytes) (beqb : bytes -> bytes -> bool),
  (forall a b : bytes, reflect (a = b) (beqb a b)) ->
  forall polls evs s s' res, Providers2.terminal evs = None -> yandex reply Hsrv beqb polls evs s = (s', res) -> yfinal s' = yfinal s.
Proof. exact yandex_no_terminal_no_final. Qed.
Check C05_yandex_no_terminal_no_final :
  forall (reply : nat -> rep) (Hsrv : bytes -> bytes) (beqb : bytes -> bytes -> bool),
  (forall a b : bytes, reflect (a = b) (beqb a b)) ->
  forall polls evs s s' res, Providers2.terminal evs = None -> yandex reply Hsrv beqb polls evs s = (s', res) -> yfinal s' = yfinal s.
Theorem C05_google_no_terminal_no_final :
  forall (reply : nat -> rep) (Hsrv : bytes -> bytes) (beqb : bytes -> bytes -> bool),
  (forall a b : bytes, reflect (a = b) (beqb a b)) ->
  forall evs s s' res, Providers2.terminal evs = None -> google reply Hsrv beqb evs s = (s', res) -> gfinal s' = gfinal s.
Proof. exact google_no_terminal_no_final. Qed.
Check C05_google_no_terminal_no_final :
  forall (reply : nat -> rep) (Hsrv : bytes -> bytes) (beqb : bytes -> bytes -> bool),
  (forall a b : bytes, reflect (a = b) (beqb a b)) ->
  forall evs s s' res, Providers2.terminal evs = None -> google reply Hsrv beqb evs s = (s', res) -> gfinal s' = gfinal s.

(* the remaining backups are still attempted: in the sync planner every backup of a window group that the cloud group lacks
   (or whose group could be created) gets its upload attempt, whatever the creation / upload oracles answered before *)
Theorem C05_remaining_backups_attempted :
  forall (create_ok : N -> bool) (upload_ok : N -> N -> bool) l c ok0 max acts ok g tb b,
  Sync.sync create_ok upload_ok l c ok0 max = (acts, ok) ->
  In (g, tb) (Sync.target l c max) -> In b tb ->
  match Sync.lookup g c with Some cb => ~ In b cb | None => create_ok g = true end ->
  In (Sync.Upload g b) acts.
Proof. exact SyncAttempts.all_attempted. Qed.
Check C05_remaining_backups_attempted :
  forall (create_ok : N -> bool) (upload_ok : N -> N -> bool) l c ok0 max acts ok g tb b,
  Sync.sync create_ok upload_ok l c ok0 max = (acts, ok) ->
  In (g, tb) (Sync.target l c max) -> In b tb ->
  match Sync.lookup g c with Some cb => ~ In b cb | None => create_ok g = true end ->
  In (Sync.Upload g b) acts.

(* shutdown: no reachable pipeline state is stuck, and whenever the threads the main thread joins are done, gpg has
   been reaped and the reader thread no longer holds a sender *)
Theorem C05_no_stuck_state : forall t, reachable t -> Pipeline.terminal t = false -> succ t <> [].
Proof. exact no_stuck_state. Qed.
Check C05_no_stuck_state : forall t, reachable t -> Pipeline.terminal t = false -> succ t <> [].
Theorem C05_terminal_is_clean : forall t, reachable t -> Pipeline.terminal t = true -> clean t = true.
Proof. exact terminal_is_clean. Qed.
Check C05_terminal_is_clean : forall t, reachable t -> Pipeline.terminal t = true -> clean t = true.

Print Assumptions C05_dropbox_final_only_if_verified.
Print Assumptions C05_yandex_final_only_if_verified.
Print Assumptions C05_google_final_only_if_verified.
Print Assumptions C05_dropbox_failure_leaves_final.
Print Assumptions C05_yandex_failure_leaves_final.
Print Assumptions C05_google_failure_leaves_final.
Print Assumptions C05_dropbox_no_terminal_no_final.
Print Assumptions C05_yandex_no_terminal_no_final.
Print Assumptions C05_google_no_terminal_no_final.
Print Assumptions C05_remaining_backups_attempted.
Print Assumptions C05_no_stuck_state.
Print Assumptions C05_terminal_is_clean.
