(* C02 — every retained backup is recoverable from its own group alone.
   Model: Dedup (load_backups_metadata + add_file / deduplicate at manifest level) and the executable group check
   (BackupGroup::inspect).  fx6 = true is the code as it is now (after the repair of finding F6). *)
From Coq Require Import List Arith NArith ZArith Lia Bool.
Import ListNotations.
Require Import Dedup.
Local Open Scope N_scope.

(* one more run keeps the group verifiable - every non-empty extern line of the appended backup has its hash stored as
   unique earlier in that backup or in an earlier backup of the SAME group (new_backup only ever sees the manifests of
   the group it appends to) - for every group, every set of files, every hash function; no premise beyond the group
   having been verifiable *)
Theorem C02_run_preserves_group_ok :
  forall (hash : Type) (heqb : hash -> hash -> bool), (forall a b, reflect (a = b) (heqb a b)) ->
  forall (H : list N -> hash) (EMPTY : hash) (peqb : path -> path -> bool) g fs,
  group_ok hash heqb g = true -> group_ok hash heqb (g ++ [new_backup hash heqb H EMPTY peqb true g fs]) = true.
Proof. intros hash heqb Hs H EMPTY peqb g fs. exact (run_preserves_group_ok_repaired hash heqb Hs H EMPTY peqb true eq_refl g fs). Qed.
Check C02_run_preserves_group_ok :
  forall (hash : Type) (heqb : hash -> hash -> bool), (forall a b, reflect (a = b) (heqb a b)) ->
  forall (H : list N -> hash) (EMPTY : hash) (peqb : path -> path -> bool) g fs,
  group_ok hash heqb g = true -> group_ok hash heqb (g ++ [new_backup hash heqb H EMPTY peqb true g fs]) = true.

(* over arbitrary histories of one group: publishing runs append, failed or killed runs publish nothing *)
Theorem C02_history_group_ok :
  forall (hash : Type) (heqb : hash -> hash -> bool), (forall a b, reflect (a = b) (heqb a b)) ->
  forall (H : list N -> hash) (EMPTY : hash) (peqb : path -> path -> bool) runs g,
  group_ok hash heqb g = true -> group_ok hash heqb (group_history hash heqb H EMPTY peqb true g runs) = true.
Proof. intros hash heqb Hs H EMPTY peqb runs g. exact (history_group_ok_repaired hash heqb Hs H EMPTY peqb true eq_refl runs g). Qed.
Check C02_history_group_ok :
  forall (hash : Type) (heqb : hash -> hash -> bool), (forall a b, reflect (a = b) (heqb a b)) ->
  forall (H : list N -> hash) (EMPTY : hash) (peqb : path -> path -> bool) runs g,
  group_ok hash heqb g = true -> group_ok hash heqb (group_history hash heqb H EMPTY peqb true g runs) = true.

(* with unreadable manifests in the group: whatever could be loaded, a non-empty extern line of the new backup refers
   to loaded or just-stored content, or repeats - same path, fingerprint and hash - a line of the previous backup:
   the run adds no damage of its own *)
Theorem C02_run_no_new_damage :
  forall (hash : Type) (heqb : hash -> hash -> bool), (forall a b, reflect (a = b) (heqb a b)) ->
  forall (H : list N -> hash) (EMPTY : hash) (peqb : path -> path -> bool) (fx6 : bool) fs known last l1 x l2,
  run_lines hash heqb H EMPTY peqb fx6 known last fs = l1 ++ x :: l2 -> l_unique hash x = false -> l_size hash x <> 0 ->
  In (l_hash hash x) (known ++ uniques hash l1) \/
  (exists l', last_lookup hash peqb (l_path hash x) last = Some l' /\ l_hash hash x = l_hash hash l' /\
              fp_eqb (l_fp hash x) (l_fp hash l') = true).
Proof. exact run_no_new_damage. Qed.
Check C02_run_no_new_damage :
  forall (hash : Type) (heqb : hash -> hash -> bool), (forall a b, reflect (a = b) (heqb a b)) ->
  forall (H : list N -> hash) (EMPTY : hash) (peqb : path -> path -> bool) (fx6 : bool) fs known last l1 x l2,
  run_lines hash heqb H EMPTY peqb fx6 known last fs = l1 ++ x :: l2 -> l_unique hash x = false -> l_size hash x <> 0 ->
  In (l_hash hash x) (known ++ uniques hash l1) \/
  (exists l', last_lookup hash peqb (l_path hash x) last = Some l' /\ l_hash hash x = l_hash hash l' /\
              fp_eqb (l_fp hash x) (l_fp hash l') = true).

(* finding F6, before and after its repair, on the faithful model *)
Theorem C02_F6_before_and_after :
  group_ok (list N) leqb g6 = true /\
  group_ok (list N) leqb (g6 ++ [new_backup (list N) leqb (fun d => d) [] leqb false g6 fs6]) = false /\
  group_ok (list N) leqb (g6 ++ [new_backup (list N) leqb (fun d => d) [] leqb true g6 fs6]) = true.
Proof. exact F6_refuted. Qed.
Check C02_F6_before_and_after :
  group_ok (list N) leqb g6 = true /\
  group_ok (list N) leqb (g6 ++ [new_backup (list N) leqb (fun d => d) [] leqb false g6 fs6]) = false /\
  group_ok (list N) leqb (g6 ++ [new_backup (list N) leqb (fun d => d) [] leqb true g6 fs6]) = true.

Print Assumptions C02_run_preserves_group_ok.
Print Assumptions C02_history_group_ok.
Print Assumptions C02_run_no_new_damage.
