(* backuping::backup: how the exit status is put together.
   ok = (creation of the backup instance reported no problem) && (the walk reported no error) && gc_groups' result, where
   gc_groups returns the listing's flag when nothing is due, false when something is due but the listing was not clean,
   and otherwise whether every deletion succeeded.  The point of stating it: retention can only ever turn a success into a
   failure, never the other way round - an error of the walk survives whatever gc_groups does. *)
From Coq Require Import Bool.

Definition gc_status (listing_ok over_limit deletions_ok : bool) : bool :=
  if over_limit then (if listing_ok then deletions_ok else false) else listing_ok.

Definition backup_status (create_ok walk_ok listing_ok over_limit deletions_ok : bool) : bool :=
  create_ok && walk_ok && gc_status listing_ok over_limit deletions_ok.

Theorem status_ok_implies_walk_ok : forall c w l o d, backup_status c w l o d = true -> c = true /\ w = true /\ l = true.
Proof.
  intros c w l o d H. unfold backup_status, gc_status in H.
  destruct c, w, l, o, d; cbn in H; try discriminate; auto.
Qed.

Theorem walk_error_fails_run : forall c l o d, backup_status c false l o d = false.
Proof. intros c l o d. unfold backup_status. destruct c; reflexivity. Qed.

Theorem dirty_listing_blocks_and_fails : forall c w d, backup_status c w false true d = false.
Proof. intros c w d. unfold backup_status, gc_status. destruct c, w; reflexivity. Qed.
Print Assumptions status_ok_implies_walk_ok.
