(* Wire glue for C02 / C09: one backup run at manifest level (load_backups_metadata + add_file / deduplicate),
   with the repair of F6 (fx6 = true), hash := the content itself (H = identity), and the executable group check.
   200: (manifests files) -> (0 lines group_ok_after)
   201: (manifests) -> (0 group_ok)
   line = (unique hash (dev ino mtimeZ) size path); file = (path (dev ino mtimeZ) data) *)
From Coq Require Import List NArith ZArith Bool.
Import ListNotations.
Require Import Wire Dedup.
Local Open Scope N_scope.

Definition hid (d : list N) : list N := d.
Definition dec_fp (v : val) : option fp :=
  match v with VL [VN d; VN i; m] => option_map (fun m => (d, i, m)) (as_Z m) | _ => None end.
Definition enc_fp (f : fp) : val := let '(d, i, m) := f in VL [VN d; VN i; of_Z m].

Definition dec_line (v : val) : option (mline (list N)) :=
  match v with
  | VL [u; h; f; VN sz; p] =>
    match as_bool u, as_bytes h, dec_fp f, as_bytes p with
    | Some u, Some h, Some f, Some p => Some {| l_unique := u; l_hash := h; l_fp := f; l_size := sz; l_path := p |}
    | _, _, _, _ => None end
  | _ => None end.
Definition enc_line (l : mline (list N)) : val :=
  VL [of_bool (l_unique _ l); of_bytes (l_hash _ l); enc_fp (l_fp _ l); VN (l_size _ l); of_bytes (l_path _ l)].
Definition dec_file (v : val) : option wfile :=
  match v with
  | VL [p; f; d] =>
    match as_bytes p, dec_fp f, as_bytes d with
    | Some p, Some f, Some d => Some {| w_path := p; w_fp := f; w_data := d |}
    | _, _, _ => None end
  | _ => None end.

Definition run_c02_backup (v : val) : val :=
  match v with
  | VL [g; fs] =>
    match as_listof (as_listof dec_line) g, as_listof dec_file fs with
    | Some g, Some fs =>
      let nb := new_backup (list N) leqb hid [] leqb true g fs in
      VL [VN 0; of_list enc_line nb; of_bool (group_ok (list N) leqb (g ++ [nb]))]
    | _, _ => bad_input end
  | _ => bad_input end.

Definition run_c02_group_ok (v : val) : val :=
  match v with
  | VL [g] =>
    match as_listof (as_listof dec_line) g with
    | Some g => VL [VN 0; of_bool (group_ok (list N) leqb g)]
    | None => bad_input end
  | _ => bad_input end.
