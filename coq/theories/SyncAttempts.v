(* sync.rs: a failed creation or upload never stops the loop - every backup of a window group that the cloud lacks is
   still attempted, whatever the oracles answer (C05's "the remaining backups are still attempted", C06) *)
From Coq Require Import List Arith NArith Lia Bool.
Import ListNotations.
Require Import Sync.
Open Scope N_scope.

Section A.
Variable create_ok : N -> bool.
Variable upload_ok : N -> N -> bool.

Lemma upload_backups_attempts : forall g tb cb ok a ok' b,
  upload_backups upload_ok g tb cb ok = (a, ok') -> In b tb -> ~ In b cb -> In (Upload g b) a.
Proof.
  intros g tb; induction tb as [|x tb IH]; intros cb ok a ok' b E Hin Hn; cbn [upload_backups] in E; [contradiction|].
  destruct (memN x cb) eqn:Em.
  - destruct Hin as [->|Hin]; [apply memN_In in Em; contradiction|eauto].
  - destruct (upload_backups upload_ok g tb cb (ok && upload_ok g x)) as [a1 ok1] eqn:E1. inversion E; subst.
    destruct Hin as [->|Hin]; [now left|right; eauto].
Qed.

Lemma upload_groups_attempts : forall t c ok a ok' g tb b,
  upload_groups create_ok upload_ok t c ok = (a, ok') -> In (g, tb) t -> In b tb ->
  match lookup g c with Some cb => ~ In b cb | None => create_ok g = true end ->
  In (Upload g b) a.
Proof.
  induction t as [|[g1 tb1] t IH]; intros c ok a ok' g tb b E Hin Hb Hc; cbn [upload_groups] in E; [contradiction|].
  destruct Hin as [Heq|Hin].
  - inversion Heq; subst g1 tb1. destruct tb as [|b0 tb0]; [contradiction|]. remember (b0 :: tb0) as tbb.
    destruct (lookup g c) as [cb|].
    + destruct (upload_backups upload_ok g tbb cb ok) as [a1 ok1] eqn:E1.
      destruct (upload_groups create_ok upload_ok t c ok1) as [a2 ok2] eqn:E2. inversion E; subst.
      apply in_or_app; left. eapply upload_backups_attempts; eauto.
    + rewrite Hc in E.
      destruct (upload_backups upload_ok g tbb [] ok) as [a1 ok1] eqn:E1.
      destruct (upload_groups create_ok upload_ok t c ok1) as [a2 ok2] eqn:E2. inversion E; subst.
      right. apply in_or_app; left. eapply upload_backups_attempts; eauto.
  - destruct tb1 as [|b0 tb0]; [eauto|]. remember (b0 :: tb0) as tbb.
    destruct (lookup g1 c) as [cb|].
    + destruct (upload_backups upload_ok g1 tbb cb ok) as [a1 ok1] eqn:E1.
      destruct (upload_groups create_ok upload_ok t c ok1) as [a2 ok2] eqn:E2. inversion E; subst.
      apply in_or_app; right. eauto.
    + destruct (create_ok g1).
      * destruct (upload_backups upload_ok g1 tbb [] ok) as [a1 ok1] eqn:E1.
        destruct (upload_groups create_ok upload_ok t c ok1) as [a2 ok2] eqn:E2. inversion E; subst.
        right. apply in_or_app; right. eauto.
      * destruct (upload_groups create_ok upload_ok t c false) as [a2 ok2] eqn:E2. inversion E; subst.
        right. eauto.
Qed.

(* every backup of a window group that the cloud group lacks (or whose group could be created) is attempted, whatever
   happened to the backups before it *)
Theorem all_attempted : forall l c ok0 max acts ok g tb b,
  sync create_ok upload_ok l c ok0 max = (acts, ok) ->
  In (g, tb) (target l c max) -> In b tb ->
  match lookup g c with Some cb => ~ In b cb | None => create_ok g = true end ->
  In (Upload g b) acts.
Proof.
  intros l c ok0 max acts ok g tb b E Ht Hb Hc. unfold sync in E.
  destruct (upload_groups create_ok upload_ok (target l c max) c (ok0 && safeguard l c)) as [ups ok2] eqn:Eu.
  inversion E; subst. apply in_or_app; left. eapply upload_groups_attempts; eauto.
Qed.
End A.
Print Assumptions all_attempted.

(* non-vacuity: the first upload fails, the second backup of the group and the next group are attempted all the same *)
Example attempted_after_failure :
  sync (fun _ => true) (fun g b => negb (b =? 11)) [(1, [11; 12]); (2, [21])] [(1, [])] true 3 =
  ([Upload 1 11; Upload 1 12; Create 2; Upload 2 21], false).
Proof. vm_compute. reflexivity. Qed.
