(* Wire glue for C13 / C07: listing + verification on classified names, rotation and retention, the age check.
   storage = (rentry ...); rentry = (0 grp) | (1) hidden | (2) junk; grp = (day (gentry ...));
   gentry = (0 bk) | (1) temporary | (2) hidden | (3) junk; bk = (day time has_data has_meta manifest_opt);
   manifest = ((unique hash size) ...)
   1300: (storage) -> (0 list_ok verify)
   1301: (groups-as-times now threshold_opt) -> (0 code age empty_groups)
   700:  (groups max_per max_groups day time manifest root_clean) -> (0) group exists | (1 groups_after_publish groups_after_gc)
   701:  (groups max_per day) -> (1 groups) a run that fails after group selection *)
From Coq Require Import List NArith Bool Arith.
Import ListNotations.
Require Import Wire Verify VerifyBound Alarm.
Local Open Scope N_scope.

Definition dec_mline (v : val) : option mline :=
  match v with
  | VL [u; VN h; VN s] => option_map (fun u => {| l_unique := u; l_hash := h; l_size := s |}) (as_bool u)
  | _ => None end.
Definition dec_bk (v : val) : option bk :=
  match v with
  | VL [VN d; VN t; hd; hm; m] =>
    match as_bool hd, as_bool hm, as_option (as_listof dec_mline) m with
    | Some hd, Some hm, Some m => Some {| b_day := N.to_nat d; b_time := N.to_nat t; has_data := hd; has_meta := hm; manifest := m |}
    | _, _, _ => None end
  | _ => None end.
Definition dec_gentry (v : val) : option gentry :=
  match v with
  | VL [VN 0; b] => option_map GFinal (dec_bk b)
  | VL [VN 1] => Some GTemp
  | VL [VN 2] => Some GHidden
  | VL [VN 3] => Some GJunk
  | _ => None end.
Definition dec_grp (v : val) : option grp :=
  match v with
  | VL [VN d; es] => option_map (fun es => {| g_day := N.to_nat d; g_entries := es |}) (as_listof dec_gentry es)
  | _ => None end.
Definition dec_rentry (v : val) : option rentry :=
  match v with
  | VL [VN 0; g] => option_map RGroup (dec_grp g)
  | VL [VN 1] => Some RHidden
  | VL [VN 2] => Some RJunk
  | _ => None end.

Definition enc_mline (l : mline) : val := VL [of_bool (l_unique l); VN (l_hash l); VN (l_size l)].
Definition enc_bk (b : bk) : val :=
  VL [of_nat (b_day b); of_nat (b_time b); of_bool (has_data b); of_bool (has_meta b); of_option (of_list enc_mline) (manifest b)].
Definition enc_gentry (e : gentry) : val :=
  match e with GFinal b => VL [VN 0; enc_bk b] | GTemp => VL [VN 1] | GHidden => VL [VN 2] | GJunk => VL [VN 3] end.
Definition enc_grp (g : grp) : val := VL [of_nat (g_day g); of_list enc_gentry (g_entries g)].

Definition run_c13_verify (v : val) : val :=
  match v with
  | VL [st] => match as_listof dec_rentry st with
               | Some st => VL [VN 0; of_bool (list_ok st); of_bool (verify st)]
               | None => bad_input end
  | _ => bad_input end.

Definition run_c13_alarm (v : val) : val :=
  match v with
  | VL [gs; VN now; thr] =>
    match as_listof (as_listof as_N) gs, as_option as_N thr with
    | Some gs, Some thr =>
      let '(code, age) := match check gs now thr with
                          | None => (0, 0) | Some Fresh => (1, 0) | Some NoBackups => (2, 0)
                          | Some InFuture => (3, 0) | Some (TooOld a) => (4, a) end in
      VL [VN 0; VN code; VN age; of_nat (empty_groups gs)]
    | _, _ => bad_input end
  | _ => bad_input end.

Definition run_c07_publish (v : val) : val :=
  match v with
  | VL [gs; VN mp; VN mg; VN day; VN time; ls; rc] =>
    match as_listof dec_grp gs, as_listof dec_mline ls, as_bool rc with
    | Some gs, Some ls, Some rc =>
      match publish gs (N.to_nat mp) (N.to_nat day) (N.to_nat time) ls with
      | None => VL [VN 0]
      | Some gs' => VL [VN 1; of_list enc_grp gs'; of_list enc_grp (gc_root rc gs' (N.to_nat mg))]
      end
    | _, _, _ => bad_input end
  | _ => bad_input end.

Definition run_c07_fail (v : val) : val :=
  match v with
  | VL [gs; VN mp; VN day] =>
    match as_listof dec_grp gs with
    | Some gs => VL [VN 1; of_list enc_grp (fail_after_select gs (N.to_nat mp) (N.to_nat day))]
    | None => bad_input end
  | _ => bad_input end.
