(* Wire format shared by every correspondence check.
   A case and a result are both a [val]: a number or a list of values.  The text form is
   "(1 (2 3) 4)"; the OCaml driver and the Rust harness only convert text <-> val, every structured
   decoding / encoding is Gallina (here and in the *Wire.v files) and is therefore the same code
   whether a case is evaluated by vm_compute or by the extracted driver. *)
From Coq Require Import List NArith ZArith Bool.
Import ListNotations.
Local Open Scope N_scope.

Inductive val := VN (n : N) | VL (l : list val).

Definition as_N (v : val) : option N := match v with VN n => Some n | VL _ => None end.
Definition as_list (v : val) : option (list val) := match v with VL l => Some l | VN _ => None end.
Definition as_nat (v : val) : option nat := match v with VN n => Some (N.to_nat n) | VL _ => None end.
Definition as_bool (v : val) : option bool := match v with VN 0 => Some false | VN _ => Some true | VL _ => None end.

Fixpoint all_some {A} (l : list (option A)) : option (list A) :=
  match l with
  | [] => Some []
  | Some x :: r => match all_some r with Some r' => Some (x :: r') | None => None end
  | None :: _ => None
  end.
Definition as_listof {A} (f : val -> option A) (v : val) : option (list A) :=
  match v with VL l => all_some (map f l) | VN _ => None end.
Definition as_bytes : val -> option (list N) := as_listof as_N.
Definition as_bytess : val -> option (list (list N)) := as_listof as_bytes.
(* option: () = None, (x) = Some x *)
Definition as_option {A} (f : val -> option A) (v : val) : option (option A) :=
  match v with
  | VL [] => Some None
  | VL [x] => match f x with Some a => Some (Some a) | None => None end
  | _ => None
  end.
(* Z: (0 n) = n, (1 n) = -n *)
Definition as_Z (v : val) : option Z :=
  match v with
  | VL [VN 0; VN n] => Some (Z.of_N n)
  | VL [VN 1; VN n] => Some (- Z.of_N n)%Z
  | _ => None
  end.

Definition of_N (n : N) : val := VN n.
Definition of_nat (n : nat) : val := VN (N.of_nat n).
Definition of_bool (b : bool) : val := VN (if b then 1 else 0).
Definition of_bytes (l : list N) : val := VL (map VN l).
Definition of_bytess (l : list (list N)) : val := VL (map of_bytes l).
Definition of_list {A} (f : A -> val) (l : list A) : val := VL (map f l).
Definition of_option {A} (f : A -> val) (o : option A) : val :=
  match o with Some a => VL [f a] | None => VL [] end.
Definition of_Z (z : Z) : val :=
  match z with
  | Z0 => VL [VN 0; VN 0]
  | Zpos p => VL [VN 0; VN (Npos p)]
  | Zneg p => VL [VN 1; VN (Npos p)]
  end.
Definition of_pair {A B} (f : A -> val) (g : B -> val) (p : A * B) : val := VL [f (fst p); g (snd p)].

(* error results: (255 code) so that a harness bug is visible, never silently equal *)
Definition bad_input : val := VL [VN 255; VN 0].
Definition out_of_fuel : val := VL [VN 255; VN 1].

(* decimal conversion, so that the OCaml driver never builds a number itself *)
Definition N_of_digits (ds : list N) : N := fold_left (fun acc d => acc * 10 + d) ds 0.
Fixpoint digits_of_pos_fuel (fuel : nat) (n : N) (acc : list N) : list N :=
  match fuel with
  | O => acc
  | S f => if n <? 10 then n :: acc else digits_of_pos_fuel f (n / 10) (n mod 10 :: acc)
  end.
Definition digits_of_N (n : N) : list N := digits_of_pos_fuel (S (N.to_nat (N.log2 n))) n [].
