(* C08 — exit status 0 from backup means nothing was silently left out.
   Model: the recursive walk below one item root with per-node faults (vanished, permission denied, type changed,
   read error) and an abstract filter (None = a name that cannot be represented); events are what reaches the archive
   plus error / warning / abort reports.  Quiet = no error event; snd (walk ...) = the run was aborted. *)
From Coq Require Import List Arith NArith Lia Bool.
Import ListNotations.
Require Import Walker WalkerFaults WalkerErrors Hooks Hooks2 RunStatus.

(* exit 0 (not aborted, no error reported) => every node that is there, unfaulted, reached through unfaulted
   directories and allowed at every prefix is in the archive *)
Theorem C08_quiet_complete : forall allow n, WFtree n -> forall rel top p c,
  snd (walk allow n rel top) = false -> Quiet (fst (walk allow n rel top)) ->
  at_path n p = Some c -> plain c -> prefixes_allowed allow rel p ->
  (forall q r d, p = q ++ r -> r <> [] -> at_path n q = Some d -> plain d) ->
  archived (fst (walk allow n rel top)) (rel ++ p).
Proof. exact quiet_complete. Qed.
Check C08_quiet_complete : forall allow n, WFtree n -> forall rel top p c,
  snd (walk allow n rel top) = false -> Quiet (fst (walk allow n rel top)) ->
  at_path n p = Some c -> plain c -> prefixes_allowed allow rel p ->
  (forall q r d, p = q ++ r -> r <> [] -> at_path n q = Some d -> plain d) ->
  archived (fst (walk allow n rel top)) (rel ++ p).

(* ... and then no reached path carries a fault of the error class (permission or I/O error anywhere; vanished,
   type-changed or special at the top level), nor is there an unrepresentable name in a reached directory: every such
   path is reported and clears the exit status *)
Theorem C08_quiet_no_error_fault : forall allow n, WFtree n -> forall rel top p c,
  snd (walk allow n rel top) = false -> Quiet (fst (walk allow n rel top)) ->
  at_path n p = Some c -> prefixes_allowed allow rel p ->
  (forall q r d, p = q ++ r -> r <> [] -> at_path n q = Some d -> plain d) ->
  ~ error_fault c (match p with [] => top | _ => false end).
Proof. exact quiet_no_error_fault. Qed.
Check C08_quiet_no_error_fault : forall allow n, WFtree n -> forall rel top p c,
  snd (walk allow n rel top) = false -> Quiet (fst (walk allow n rel top)) ->
  at_path n p = Some c -> prefixes_allowed allow rel p ->
  (forall q r d, p = q ++ r -> r <> [] -> at_path n q = Some d -> plain d) ->
  ~ error_fault c (match p with [] => top | _ => false end).
Theorem C08_quiet_no_bad_name : forall allow n, WFtree n -> forall rel top p cs nm ch,
  snd (walk allow n rel top) = false -> Quiet (fst (walk allow n rel top)) ->
  at_path n p = Some (NDir cs NoFault) -> prefixes_allowed allow rel p ->
  (forall q r d, p = q ++ r -> r <> [] -> at_path n q = Some d -> plain d) ->
  In (nm, ch) cs -> allow (rel ++ p ++ [nm]) <> None.
Proof. exact quiet_no_bad_name. Qed.
Check C08_quiet_no_bad_name : forall allow n, WFtree n -> forall rel top p cs nm ch,
  snd (walk allow n rel top) = false -> Quiet (fst (walk allow n rel top)) ->
  at_path n p = Some (NDir cs NoFault) -> prefixes_allowed allow rel p ->
  (forall q r d, p = q ++ r -> r <> [] -> at_path n q = Some d -> plain d) ->
  In (nm, ch) cs -> allow (rel ++ p ++ [nm]) <> None.

(* no false alarm: a fault-free tree with representable names (special files below the top level allowed) walks
   without error or abort *)
Theorem C08_calm_quiet : forall allow, (forall q, allow q <> None) -> forall n, Calm n -> forall rel top,
  snd (walk allow n rel top) = false /\ Quiet (fst (walk allow n rel top)).
Proof. exact calm_quiet. Qed.
Check C08_calm_quiet : forall allow, (forall q, allow q <> None) -> forall n, Calm n -> forall rel top,
  snd (walk allow n rel top) = false /\ Quiet (fst (walk allow n rel top)).

(* item level: an item that cannot be prepared (missing, unsupported, overlapping) and a failing hook make the run fail *)
Theorem C08_unprepared_item_fails_run : forall its k j,
  fst (run_items 0 its) = concat (map (fun j => fst (one_item (0 + j) (nth j its dflt))) (seq 0 k)) -> j < k ->
  it_tree (nth j its dflt) = None -> run_ok its = false.
Proof. exact unprepared_item_fails_run. Qed.
Check C08_unprepared_item_fails_run : forall its k j,
  fst (run_items 0 its) = concat (map (fun j => fst (one_item (0 + j) (nth j its dflt))) (seq 0 k)) -> j < k ->
  it_tree (nth j its dflt) = None -> run_ok its = false.

(* the exit status: retention (gc_groups) can only turn a success into a failure - exit 0 implies that the creation of the backup
   instance, the walk and the listing all reported no problem, whatever was or was not due for deletion *)
Theorem C08_status_ok_implies_walk_ok : forall c w l o d, backup_status c w l o d = true -> c = true /\ w = true /\ l = true.
Proof. exact status_ok_implies_walk_ok. Qed.
Check C08_status_ok_implies_walk_ok : forall c w l o d, backup_status c w l o d = true -> c = true /\ w = true /\ l = true.
Theorem C08_walk_error_fails_run : forall c l o d, backup_status c false l o d = false.
Proof. exact walk_error_fails_run. Qed.
Check C08_walk_error_fails_run : forall c l o d, backup_status c false l o d = false.

Print Assumptions C08_quiet_complete.
Print Assumptions C08_quiet_no_error_fault.
Print Assumptions C08_calm_quiet.
Print Assumptions C08_status_ok_implies_walk_ok.
Print Assumptions C08_walk_error_fails_run.
