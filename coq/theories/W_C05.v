(* Wire glue for C05: the Dropbox upload machine against the emulated upload-session server.
   case: (body_sizes sum_ok replies temp0 final0): one CStream per body (offsets = running total), then the finalisation whose
         checksum equals the server's iff sum_ok; replies = list of 0 (the request succeeds) / 1 (it fails), indexed by request
         number within this upload (0 = session start); temp0 / final0 = is a temporary / final object there before
   result: (0 temp_present final_is_new final_present result) *)
From Coq Require Import List NArith Bool Arith.
Import ListNotations.
Require Import Wire Providers2 Dropbox2.
Require Restore2.
Local Open Scope N_scope.

Fixpoint mk_events (sizes : list nat) (off : nat) (tag : N) : list cev * bytes :=
  match sizes with
  | [] => ([], [])
  | n :: r => let body := repeat tag n in
              let '(evs, all) := mk_events r (off + n) tag in (CStream off body :: evs, body ++ all)
  end.

Definition run_c05_dropbox (v : val) : val :=
  match v with
  | VL [sizes; sumok; replies; t0; f0] =>
    match as_listof as_nat sizes, as_bool sumok, as_listof as_N replies, as_bool t0, as_bool f0 with
    | Some sizes, Some sumok, Some replies, Some t0, Some f0 =>
      let '(evs, all) := mk_events sizes 0 7 in
      let sum := if sumok then all else 9 :: all in
      let reply k := match nth k replies 0 with 0 => Ok | _ => Fail end in
      let s0 := {| dsession := []; dtemp := if t0 then Some [1] else None; dfinal := if f0 then Some [2] else None |} in
      let '(s, res) := dropbox reply (fun b => b) Restore2.list_eqb (evs ++ [CEof (length all) sum]) s0 in
      VL [VN 0; of_bool (match dtemp s with Some _ => true | None => false end);
          of_bool (match dfinal s with Some b => Restore2.list_eqb b all | None => false end);
          of_bool (match dfinal s with Some _ => true | None => false end); of_bool res]
    | _, _, _, _, _ => bad_input end
  | _ => bad_input end.

(* Yandex Disk (tag 501) and Google Drive (tag 502): one streamed body; replies: 0 Ok / 1 Fail / 2 Pending / 3 Async, indexed by request
   number within this upload (Yandex: 0 = upload href, 1 = PUT, 2.. = operation polling, then md5, move, ...; Google: 0 = start, 1 = PUT,
   2 = md5, 3 = rename, ...).
   case: (body_size sum_ok replies temp0 final0)    result: (0 temp_present final_is_new final_count result) *)
Definition rep_of (n : N) : rep := match n with 0 => Ok | 2 => Pending | 3 => Async | _ => Fail end.

Definition run_c05_yandex (v : val) : val :=
  match v with
  | VL [size; sumok; replies; t0; f0] =>
    match as_nat size, as_bool sumok, as_listof as_N replies, as_bool t0, as_bool f0 with
    | Some size, Some sumok, Some replies, Some t0, Some f0 =>
      let all := repeat 7 size in
      let sum := if sumok then all else 9 :: all in
      let reply k := rep_of (nth k replies 0) in
      let s0 := {| ytemp := if t0 then Some [1] else None; yfinal := if f0 then Some [2] else None |} in
      let '(s, res) := yandex reply (fun b => b) Restore2.list_eqb 5 [CStream 0 all; CEof size sum] s0 in
      VL [VN 0; of_bool (match ytemp s with Some _ => true | None => false end);
          of_bool (match yfinal s with Some b => Restore2.list_eqb b all | None => false end);
          VN (match yfinal s with Some _ => 1 | None => 0 end); of_bool res]
    | _, _, _, _, _ => bad_input end
  | _ => bad_input end.

Definition run_c05_google (v : val) : val :=
  match v with
  | VL [size; sumok; replies; t0; f0] =>
    match as_nat size, as_bool sumok, as_listof as_N replies, as_bool t0, as_bool f0 with
    | Some size, Some sumok, Some replies, Some t0, Some f0 =>
      let all := repeat 7 size in
      let sum := if sumok then all else 9 :: all in
      let reply k := rep_of (nth k replies 0) in
      let s0 := {| gtemp := if t0 then Some [1] else None; gfinal := if f0 then [[2]] else [] |} in
      let '(s, res) := google reply (fun b => b) Restore2.list_eqb [CStream 0 all; CEof size sum] s0 in
      VL [VN 0; of_bool (match gtemp s with Some _ => true | None => false end);
          of_bool (existsb (fun b => Restore2.list_eqb b all) (gfinal s));
          VN (N.of_nat (length (gfinal s))); of_bool res]
    | _, _, _, _, _ => bad_input end
  | _ => bad_input end.
