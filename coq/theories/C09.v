(* PROTOTYPE (round 0): C09 core - within a group every content is stored at most once, empty files never carry data *)
From Coq Require Import List Arith NArith ZArith Lia Bool Permutation.
Import ListNotations.
Require Import Restore2 Restore2Exec Restore2Plan C01a C01b C01c C01d C01e.
Open Scope N_scope.

Lemma run_items_uniques : forall ws known last es ls, run_items known last ws = (es, ls) -> NoDup known ->
  NoDup (rev (uniques (map d_line ls)) ++ known) /\
  (forall l, In l ls -> l_unique (d_line l) = true -> l_size (d_line l) <> 0).
Proof.
  induction ws as [|w ws IH]; intros known last es ls E Hnd; cbn [run_items] in E.
  - inversion E; subst. cbn. split; [exact Hnd|intros l []].
  - destruct w as [p m|p m f d|p m t].
    + destruct (run_items known last ws) as [es0 ls0] eqn:Er. inversion E; subst. eapply IH; eauto.
    + destruct (add_file known last p m f d) as [[e l] k] eqn:Ea. destruct (run_items k last ws) as [es0 ls0] eqn:Er. inversion E; subst.
      (* the stored flag is set only for a hash that is not known yet, and only for non-empty files *)
      assert (Hk : (l_unique (d_line l) = false /\ k = known) \/
                   (l_unique (d_line l) = true /\ k = l_hash (d_line l) :: known /\ ~ In (l_hash (d_line l)) known /\ l_size (d_line l) <> 0)).
      { unfold add_file in Ea. destruct (N.eqb_spec (fsize d) 0) as [Hz|Hnz]; [inversion Ea; subst; left; auto|].
        assert (Hby : forall e0 l0 k0, (if hmem (H d) known
                    then (EReg p m 0 [], {| d_line := {| l_unique := false; l_hash := H d; l_size := fsize d; l_path := p |}; d_fp := f |}, known)
                    else (EReg p m (fsize d) d, {| d_line := {| l_unique := true; l_hash := H d; l_size := fsize d; l_path := p |}; d_fp := f |}, H d :: known)) = (e0, l0, k0) ->
                  (l_unique (d_line l0) = false /\ k0 = known) \/
                  (l_unique (d_line l0) = true /\ k0 = l_hash (d_line l0) :: known /\ ~ In (l_hash (d_line l0)) known /\ l_size (d_line l0) <> 0)).
        { intros e0 l0 k0 E0. destruct (hmem (H d) known) eqn:Em; inversion E0; subst; cbn; [left; auto|right].
          repeat split; auto. intro Hc. apply hmem_In in Hc. congruence. }
        destruct (last_lookup p last) as [dl|]; [|apply (Hby e l k); exact Ea].
        destruct (fp_eqb f (d_fp dl) && (fsize d =? l_size (d_line dl))); [inversion Ea; subst; left; auto | apply (Hby e l k); exact Ea]. }
      destruct Hk as [[Hu ->]|(Hu & -> & Hnew & Hsz)].
      * destruct (IH _ _ _ _ Er Hnd) as [A B]. cbn [map]. unfold uniques in *. cbn [filter]. rewrite Hu. split; [exact A|].
        intros l0 [<-|Hl0] Hu0; [congruence|auto].
      * destruct (IH _ _ _ _ Er) as [A B]; [constructor; auto|]. cbn [map]. unfold uniques in *. cbn [filter]. rewrite Hu. cbn [map rev].
        split; [rewrite <- app_assoc; exact A|]. intros l0 [<-|Hl0] Hu0; auto.
    + destruct (run_items known last ws) as [es0 ls0] eqn:Er. inversion E; subst. eapply IH; eauto.
Qed.

Lemma known_of_app : forall g x, known_of (g ++ [x]) = known_of g ++ uniques (b_manifest (fst x)).
Proof. intros g x. unfold known_of. rewrite map_app, concat_app. cbn. now rewrite app_nil_r. Qed.

(* C09: one more run keeps "no content is stored twice in the group", and what it stores is non-empty *)
Theorem run_stores_once : forall g name ws, NoDup (known_of g) ->
  NoDup (known_of (g ++ [run g name ws])) /\
  (forall l, In l (b_manifest (fst (run g name ws))) -> l_unique l = true -> l_size l <> 0).
Proof.
  intros g name ws Hnd. unfold run. destruct (run_items (known_of g) (last_of g) ws) as [es ls] eqn:Er.
  destruct (run_items_uniques _ _ _ _ _ Er Hnd) as [A B]. rewrite known_of_app. cbn [fst b_manifest]. split.
  - eapply Permutation_NoDup; [|exact A]. eapply Permutation_trans; [apply Permutation_app_comm|].
    apply Permutation_app_head. apply Permutation_sym. apply Permutation_rev.
  - intros l Hl Hu. apply in_map_iff in Hl as (dl & <- & Hdl). auto.
Qed.
Print Assumptions run_stores_once.
