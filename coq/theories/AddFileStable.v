(* C10 / C15: a file that does not change while it is read gets a truthful record.
   The reader of each pass is the scripted reader (arbitrary short reads); both passes deliver the same content c before
   their first end-of-file, and the declared size is its length: the record carries length c and the hash of c, and a
   unique record's entry is exactly c. *)
From Coq Require Import List Arith NArith Lia Bool.
Import ListNotations.
Require Import FileReader W_C15 FileReaderPrefix AddFileDyn.

Section T.
Variable hash : Type.
Variable Hh : list N -> hash.
Variable known : hash -> bool.
Variable EMPTY : hash.

Theorem stable_file_truthful : forall sizes1 sizes2 sc1 sc2 c,
  before_eof sc1 = c -> before_eof sc2 = c ->
  match add_file (list sitem) srd (fun _ => sc2) (bz_of sizes1) (bz_of sizes2) hash Hh known EMPTY sc1 (length c) None with
  | Unique _ h size entry => c <> [] /\ h = Hh c /\ size = length c /\ entry = c
  | Extern _ h size => (c = [] /\ h = EMPTY /\ size = 0) \/ (c <> [] /\ h = Hh c /\ size = length c /\ known h = true)
  | Abort _ => True
  end.
Proof.
  intros sizes1 sizes2 sc1 sc2 c H1 H2. unfold add_file.
  destruct (length c =? 0) eqn:E0.
  - cbv beta iota. left. apply Nat.eqb_eq in E0. destruct c; [auto|discriminate].
  - assert (Hc : c <> []) by (intro Hn; rewrite Hn in E0; discriminate).
    pose proof (file_reader_exact (list sitem) srd srd_len (bz_of sizes1) (bz_of_pos sizes1) sc1 (length c)) as X1.
    destruct (run (list sitem) srd (bz_of sizes1) sc1 (length c)) as [o1 f1| |] eqn:R1; auto.
    pose proof (scripted_real_is_prefix sizes1 sc1 (length c) o1 f1 R1) as P1. rewrite H1, firstn_all in P1.
    destruct X1 as (_ & _ & B1 & _).
    destruct (known (Hh (real (list sitem) f1))) eqn:Ek.
    + right. rewrite P1 in *. rewrite B1. auto.
    + pose proof (file_reader_exact (list sitem) srd srd_len (bz_of sizes2) (bz_of_pos sizes2) sc2 (length c)) as X2.
      destruct (run (list sitem) srd (bz_of sizes2) sc2 (length c)) as [o2 f2| |] eqn:R2; auto.
      pose proof (scripted_real_is_prefix sizes2 sc2 (length c) o2 f2 R2) as P2. rewrite H2, firstn_all in P2.
      destruct X2 as (_ & O2 & B2 & _). rewrite P2 in *. rewrite B2. repeat split; auto.
      rewrite O2, Nat.sub_diag. cbn [repeat]. apply app_nil_r.
Qed.
End T.
Print Assumptions stable_file_truthful.
