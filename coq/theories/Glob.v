(* PROTOTYPE (round 0): globset 0.4.15 glob parser (literal_separator, backslash_escape) and token semantics,
   plus vsb's pre-unescaping; characters are code points (N), paths are bytes (N) *)
From Coq Require Import List Arith NArith Lia Bool.
Import ListNotations.
Open Scope N_scope.

Inductive ftok := FLit (c : N) | FAny | FStar | FRecPre | FRecSuf | FRecMid | FClass (neg : bool) (rs : list (N * N)).
Inductive tok := TF (f : ftok) | TAlt (alts : list (list ftok)).

Definition SLASH := 47. Definition STAR := 42. Definition QM := 63. Definition LBRK := 91. Definition RBRK := 93.
Definition LBRC := 123. Definition RBRC := 125. Definition COMMA := 44. Definition BSL := 92. Definition BANG := 33.
Definition CARET := 94. Definition DASH := 45.
Definition is_sep (c : N) := c =? SLASH.
Definition opt_is (o : option N) (c : N) := match o with Some x => x =? c | None => false end.

(* parser state: main token list (reversed), and, inside braces, current branch :: finished branches (all reversed) *)
Record pst := { main : list tok; br : option (list ftok * list (list ftok)) }.

Definition push (s : pst) (f : ftok) : pst :=
  match br s with
  | Some (cur, done) => {| main := main s; br := Some (f :: cur, done) |}
  | None => {| main := TF f :: main s; br := None |}
  end.
Definition have_tokens (s : pst) : bool :=
  match br s with Some (cur, _) => match cur with [] => false | _ => true end
                | None => match main s with [] => false | _ => true end end.
Definition depth2 (s : pst) : bool := match br s with Some _ => true | None => false end.

(* pop the last token of the top list; only flat tokens or an Alternates can be there *)
Definition pop (s : pst) : option (option ftok * pst) :=
  match br s with
  | Some (f :: cur, done) => Some (Some f, {| main := main s; br := Some (cur, done) |})
  | Some ([], _) => None
  | None => match main s with
            | TF f :: m => Some (Some f, {| main := m; br := None |})
            | TAlt _ :: m => Some (None, {| main := m; br := None |})
            | [] => None end
  end.

(* class body: returns ranges and the rest after ']' *)
Fixpoint class_body (cs : list N) (first in_range : bool) (rs : list (N * N)) : option (list (N * N) * list N) :=
  match cs with
  | [] => None                                               (* UnclosedClass *)
  | c :: cs' =>
    if c =? RBRK then
      if first then class_body cs' false false (rs ++ [(RBRK, RBRK)])
      else Some (if in_range then rs ++ [(DASH, DASH)] else rs, cs')
    else if c =? DASH then
      if first then class_body cs' false false (rs ++ [(DASH, DASH)])
      else if in_range then
        match rev rs with
        | (lo, _) :: r' => if DASH <? lo then None else class_body cs' false false (rev r' ++ [(lo, DASH)])
        | [] => None end
      else class_body cs' false true rs
    else
      if in_range then
        match rev rs with
        | (lo, _) :: r' => if c <? lo then None else class_body cs' false false (rev r' ++ [(lo, c)])
        | [] => None end
      else class_body cs' false false (rs ++ [(c, c)])
  end.

Definition hd_opt (l : list N) := match l with x :: _ => Some x | [] => None end.

Fixpoint parse (fuel : nat) (cs : list N) (prev : option N) (s : pst) : option (list tok) :=
  match fuel with O => None | S fu =>
  match cs with
  | [] => match br s with Some _ => None (* UnclosedAlternates *) | None => Some (rev (main s)) end
  | c :: r =>
    if c =? QM then parse fu r (Some c) (push s FAny)
    else if c =? STAR then
      if negb (opt_is (hd_opt r) STAR) then parse fu r (Some c) (push s FStar)
      else
        let r2 := tl r in                      (* second '*' consumed *)
        if negb (have_tokens s) then
          match r2 with
          | [] => parse fu r2 (Some STAR) (push s FRecPre)
          | d :: r3 => if is_sep d then parse fu r3 (Some d) (push s FRecPre)
                       else parse fu r2 (Some STAR) (push (push s FStar) FStar)
          end
        else if negb (match prev with Some p => is_sep p | None => false end)
                && (negb (depth2 s) || (negb (opt_is prev COMMA) && negb (opt_is prev LBRC)))
        then parse fu r2 (Some STAR) (push (push s FStar) FStar)
        else
          let k (is_suffix : bool) (rest : list N) (last : N) :=
            match pop s with
            | Some (Some FRecPre, s') => parse fu rest (Some last) (push s' FRecPre)
            | Some (Some FRecSuf, s') => parse fu rest (Some last) (push s' FRecSuf)
            | Some (_, s') => parse fu rest (Some last) (push s' (if is_suffix then FRecSuf else FRecMid))
            | None => None end in
          match r2 with
          | [] => k true r2 STAR
          | d :: r3 =>
            if depth2 s && ((d =? COMMA) || (d =? RBRC)) then k true r2 STAR
            else if is_sep d then k false r3 d
            else parse fu r2 (Some STAR) (push (push s FStar) FStar)
          end
    else if c =? LBRK then
      let '(neg, body) := match r with
                          | d :: r' => if (d =? BANG) || (d =? CARET) then (true, r') else (false, r)
                          | [] => (false, r) end in
      match class_body body true false [] with
      | Some (rs, rest) => parse fu rest (Some RBRK) (push s (FClass neg rs))
      | None => None end
    else if c =? LBRC then
      match br s with Some _ => None (* NestedAlternates *) | None => parse fu r (Some c) {| main := main s; br := Some ([], []) |} end
    else if c =? RBRC then
      match br s with
      | Some (cur, done) => parse fu r (Some c) {| main := TAlt (map (@rev ftok) (cur :: done)) :: main s; br := None |}
      | None => parse fu r (Some c) {| main := TAlt [] :: main s; br := None |} end
    else if c =? COMMA then
      match br s with
      | Some (cur, done) => parse fu r (Some c) {| main := main s; br := Some ([], cur :: done) |}
      | None => parse fu r (Some c) (push s (FLit COMMA)) end
    else if c =? BSL then
      match r with [] => None (* DanglingEscape *) | d :: r' => parse fu r' (Some d) (push s (FLit d)) end
    else parse fu r (Some c) (push s (FLit c))
  end end.

Definition parse_glob (g : list N) : option (list tok) := parse (length g + 1) g None {| main := []; br := None |}.

(* vsb's Rule::new: \t \n \r '\ ' are replaced before the glob parser sees the text *)
Fixpoint unescape (fuel : nat) (g : list N) (from to_ : N) : list N :=
  match fuel with O => g | S fu =>
  match g with
  | a :: b :: r => if (a =? BSL) && (b =? from) then to_ :: unescape fu r from to_ else a :: unescape fu (b :: r) from to_
  | _ => g end end.
Definition vsb_unescape (g : list N) : list N :=
  let n := length g in
  unescape n (unescape n (unescape n (unescape n g 116 9) 110 10) 114 13) 32 32.

(* ---- semantics: the regular language of each token, on bytes ---- *)
Definition utf8 (c : N) : list N :=
  if c <? 128 then [c]
  else if c <? 2048 then [192 + c / 64; 128 + c mod 64]
  else if c <? 65536 then [224 + c / 4096; 128 + (c / 64) mod 64; 128 + c mod 64]
  else [240 + c / 262144; 128 + (c / 4096) mod 64; 128 + (c / 64) mod 64; 128 + c mod 64].

Fixpoint strip (pre s : list N) : option (list N) :=
  match pre, s with
  | [], _ => Some s
  | a :: pre', b :: s' => if a =? b then strip pre' s' else None
  | _, [] => None end.

(* byte-level class items as the regex sees them *)
Definition range_items (r : N * N) : list (N * N) :=
  let '(lo, hi) := r in
  if lo =? hi then map (fun b => (b, b)) (utf8 lo)
  else let bl := utf8 lo in let bh := utf8 hi in
       map (fun b => (b, b)) (removelast bl) ++ [(last bl 0, hd 0 bh)] ++ map (fun b => (b, b)) (tl bh).
Definition in_class (rs : list (N * N)) (b : N) : bool :=
  existsb (fun '(lo, hi) => (lo <=? b) && (b <=? hi)) (concat (map range_items rs)).

Fixpoint mf (ts : list ftok) (s : list N) (k : list N -> bool) {struct ts} : bool :=
  match ts with
  | [] => k s
  | FLit c :: r => match strip (utf8 c) s with Some s' => mf r s' k | None => false end
  | FAny :: r => match s with b :: s' => negb (b =? SLASH) && mf r s' k | [] => false end
  | FStar :: r =>                                            (* [^/]* *)
    (fix star (s : list N) : bool :=
       mf r s k || match s with b :: s' => negb (b =? SLASH) && star s' | [] => false end) s
  | FRecPre :: r =>                                          (* (?:/?|.*/) = empty | .*/ *)
    mf r s k ||
    (fix skip (s : list N) : bool :=
       match s with b :: s' => ((b =? SLASH) && mf r s' k) || skip s' | [] => false end) s
  | FRecSuf :: r =>                                          (* /.* *)
    match s with
    | b :: s' => (b =? SLASH) &&
                 (fix any (s : list N) : bool := mf r s k || match s with _ :: s'' => any s'' | [] => false end) s'
    | [] => false end
  | FRecMid :: r =>                                          (* (?:/|/.*/) *)
    match s with
    | b :: s' => (b =? SLASH) &&
                 (mf r s' k ||
                  (fix skip (s : list N) : bool :=
                     match s with c :: s'' => ((c =? SLASH) && mf r s'' k) || skip s'' | [] => false end) s')
    | [] => false end
  | FClass neg rs :: r => match s with b :: s' => xorb neg (in_class rs b) && mf r s' k | [] => false end
  end.

Fixpoint mt (ts : list tok) (s : list N) (k : list N -> bool) {struct ts} : bool :=
  match ts with
  | [] => k s
  | TF f :: r => mf [f] s (fun s' => mt r s' k)
  | TAlt alts :: r =>
    let parts := filter (fun a => match a with [] => false | _ => true end) alts in
    match parts with
    | [] => mt r s k
    | _ => existsb (fun a => mf a s (fun s' => mt r s' k)) parts
    end
  end.

Definition is_nil (s : list N) := match s with [] => true | _ => false end.
Definition glob_match (ts : list tok) (path : list N) : bool :=
  match ts with
  | [TF FRecPre] => true                                     (* the whole glob is `**` *)
  | _ => mt ts path is_nil
  end.

(* what PathFilter does with one rule: Some true/false = matches or not, None = invalid glob *)
Definition rule_match (glob_text path : list N) : option bool :=
  match parse_glob (vsb_unescape glob_text) with
  | Some ts => Some (glob_match ts path)
  | None => None end.
