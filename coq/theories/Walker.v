(* PROTOTYPE (round 0): the recursive walk of backuping/backuper.rs below one item root, with per-node faults
   and an abstract filter; events are what reaches the archive plus the error/warning reports *)
From Coq Require Import List Arith NArith Lia Bool.
Import ListNotations.

Definition name := N.                           (* a path component, abstractly *)
Definition rpath := list name.                    (* item-relative path, root = [] *)

Inductive fault := NoFault | Vanish | Denied | TypeChanged | ReadErr.
Inductive node :=
| NFile (data : list N) (f : fault)
| NDir (children : list (name * node)) (f : fault)   (* children in readdir order *)
| NSym (target : list N) (f : fault)
| NSpecial.

Inductive ev :=
| EvDir (p : rpath) | EvFile (p : rpath) (data : list N) | EvSym (p : rpath) (target : list N)
| EvError (p : rpath) | EvWarn (p : rpath) | EvAbort (p : rpath).

Section Walk.
Variable allow : rpath -> option bool.             (* PathFilter::check on the item-relative path; None = undecodable name *)

(* result: events, and whether a fatal error aborted the run *)
Fixpoint walk (n : node) (rel : rpath) (top : bool) : list ev * bool :=
  let soft (p : rpath) := if top then [EvError p] else [EvWarn p] in
  match n with
  | NFile data f =>
    match f with
    | NoFault => ([EvFile rel data], false)
    | Vanish | TypeChanged => (soft rel, false)
    | Denied => ([EvError rel], false)
    | ReadErr => ([EvAbort rel], true)
    end
  | NSym target f =>
    match f with
    | NoFault => ([EvSym rel target], false)
    | Vanish | TypeChanged => (soft rel, false)
    | _ => ([EvError rel], false)
    end
  | NSpecial => (soft rel, false)
  | NDir children f =>
    match f with
    | Vanish | TypeChanged => (soft rel, false)
    | Denied | ReadErr => ([EvError rel], false)
    | NoFault =>
      let fix kids (cs : list (name * node)) : list ev * bool :=
        match cs with
        | [] => ([], false)
        | (nm, c) :: cs' =>
          let here :=
            match allow (rel ++ [nm]) with
            | None => ([EvError (rel ++ [nm])], false)
            | Some false => ([], false)
            | Some true => walk c (rel ++ [nm]) false
            end in
          if snd here then here
          else let rest := kids cs' in (fst here ++ fst rest, snd rest)
        end in
      let r := kids children in (EvDir rel :: fst r, snd r)
    end
  end.
End Walk.

(* what is "at" a relative path in a tree *)
Fixpoint find_child (nm : name) (cs : list (name * node)) : option node :=
  match cs with [] => None | (m, c) :: cs' => if N.eq_dec nm m then Some c else find_child nm cs' end.
Fixpoint at_path (n : node) (p : rpath) : option node :=
  match p with
  | [] => Some n
  | nm :: p' => match n with NDir cs _ => match find_child nm cs with Some c => at_path c p' | None => None end | _ => None end
  end.

Definition archived (es : list ev) (p : rpath) : Prop :=
  In (EvDir p) es \/ (exists d, In (EvFile p d) es) \/ (exists t, In (EvSym p t) es).

(* ---------------- proofs ---------------- *)
Section NodeInd.
  Variable P : node -> Prop.
  Hypothesis HF : forall d f, P (NFile d f).
  Hypothesis HS : forall t f, P (NSym t f).
  Hypothesis HX : P NSpecial.
  Hypothesis HD : forall cs f, Forall (fun c => P (snd c)) cs -> P (NDir cs f).
  Fixpoint node_ind' (n : node) : P n :=
    match n with
    | NFile d f => HF d f
    | NSym t f => HS t f
    | NSpecial => HX
    | NDir cs f => HD cs f ((fix go (cs : list (name * node)) : Forall (fun c => P (snd c)) cs :=
                              match cs with [] => Forall_nil _ | c :: cs' => Forall_cons c (node_ind' (snd c)) (go cs') end) cs)
    end.
End NodeInd.

Section Proofs.
Variable allow : rpath -> option bool.

Fixpoint kids_of (cs : list (name * node)) (rel : rpath) : list ev * bool :=
  match cs with
  | [] => ([], false)
  | (nm, c) :: cs' =>
    let here := match allow (rel ++ [nm]) with
                | None => ([EvError (rel ++ [nm])], false)
                | Some false => ([], false)
                | Some true => walk allow c (rel ++ [nm]) false end in
    if snd here then here else let rest := kids_of cs' rel in (fst here ++ fst rest, snd rest)
  end.

Lemma walk_dir : forall cs rel top,
  walk allow (NDir cs NoFault) rel top = (EvDir rel :: fst (kids_of cs rel), snd (kids_of cs rel)).
Proof.
  intros cs rel top. cbn [walk]. f_equal; [f_equal|];
  (induction cs as [|[nm c] cs IH]; [reflexivity|]; cbn [kids_of];
   destruct (allow (rel ++ [nm])) as [[|]|]; cbn [snd fst];
   try (destruct (snd (walk allow c (rel ++ [nm]) false)); [reflexivity|]); rewrite <- IH; reflexivity).
Qed.

Inductive FaultFree : node -> Prop :=
| FF_file : forall d, FaultFree (NFile d NoFault)
| FF_sym : forall t, FaultFree (NSym t NoFault)
| FF_dir : forall cs, Forall (fun c => FaultFree (snd c)) cs -> NoDup (map fst cs) -> FaultFree (NDir cs NoFault).

Definition prefixes_allowed (rel p : rpath) : Prop :=
  forall q r, p = q ++ r -> q <> [] -> allow (rel ++ q) = Some true.

Lemma archived_app : forall a b p, archived (a ++ b) p <-> archived a p \/ archived b p.
Proof.
  intros a b p. unfold archived. repeat setoid_rewrite in_app_iff. split.
  - intros [[H|H]|[[d [H|H]]|[t [H|H]]]]; eauto 6.
  - intros [[H|[[d H]|[t H]]]|[H|[[d H]|[t H]]]]; eauto 6.
Qed.
Lemma archived_nil : forall p, ~ archived [] p.
Proof. intros p [[]|[[? []]|[? []]]]. Qed.
Lemma archived_concat : forall ls p, archived (concat ls) p <-> exists l, In l ls /\ archived l p.
Proof.
  induction ls as [|l ls IH]; intros p; cbn [concat].
  - split; [intros H; destruct (archived_nil _ H) | intros (l & [] & _)].
  - rewrite archived_app, IH. split.
    + intros [H|(l0 & Hin & H)]; [exists l; split; [now left|auto] | exists l0; split; [now right|auto]].
    + intros (l0 & [<-|Hin] & H); [now left | right; eauto].
Qed.

Definition child_events (rel : rpath) (e : name * node) : list ev :=
  match allow (rel ++ [fst e]) with
  | None => [EvError (rel ++ [fst e])]
  | Some false => []
  | Some true => fst (walk allow (snd e) (rel ++ [fst e]) false)
  end.

Lemma walk_no_abort : forall n, FaultFree n -> forall rel top, snd (walk allow n rel top) = false.
Proof.
  induction n using node_ind'; intros HF rel top; inversion HF as [| |cs0 FFcs ND]; subst; try reflexivity.
  rewrite walk_dir. cbn [snd]. clear HF ND. induction cs as [|[nm c] cs IH]; [reflexivity|].
  inversion H as [|? ? Hc Hcs]; subst. inversion FFcs as [|? ? Fc Fcs]; subst.
  cbn [kids_of]. destruct (allow (rel ++ [nm])) as [[|]|]; cbn [snd fst] in *; try (apply IH; auto).
  rewrite (Hc Fc). apply IH; auto.
Qed.

Lemma kids_flat : forall cs rel, Forall (fun c => FaultFree (snd c)) cs ->
  kids_of cs rel = (concat (map (child_events rel) cs), false).
Proof.
  induction cs as [|[nm c] cs IH]; intros rel HF; [reflexivity|]. inversion HF as [|? ? Fc Fcs]; subst.
  cbn [kids_of map concat]. unfold child_events at 1. cbn [fst snd] in *.
  destruct (allow (rel ++ [nm])) as [[|]|]; cbn [snd fst]; rewrite ?(walk_no_abort c Fc), (IH rel Fcs); reflexivity.
Qed.

Ltac arch1 Hx :=
  let E := fresh "E" in
  destruct Hx as [[E|[]]|[[? [E|[]]]|[? [E|[]]]]]; try discriminate;
  try (inversion E; subst; exists []; now rewrite app_nil_r).

(* every archived event of a subtree carries the subtree's path as a prefix *)
Lemma walk_prefix : forall n rel top x, archived (fst (walk allow n rel top)) x -> exists p, x = rel ++ p.
Proof.
  induction n using node_ind'; intros rel top x Hx.
  - destruct f, top; cbn in Hx; arch1 Hx.
  - destruct f, top; cbn in Hx; arch1 Hx.
  - destruct top; cbn in Hx; arch1 Hx.
  - destruct f; try (destruct top; cbn in Hx; arch1 Hx; fail).
    rewrite walk_dir in Hx. cbn [fst] in Hx. change (EvDir rel :: fst (kids_of cs rel)) with ([EvDir rel] ++ fst (kids_of cs rel)) in Hx.
    apply archived_app in Hx as [Hx|Hx].
    + destruct Hx as [[E|[]]|[[? [E|[]]]|[? [E|[]]]]]; try discriminate. inversion E; subst. exists []. now rewrite app_nil_r.
    + clear top. induction cs as [|[nm c] cs IH]; [destruct (archived_nil _ Hx)|].
      inversion H as [|? ? Hc Hcs]; subst. cbn [kids_of] in Hx. cbn [snd] in Hc.
      assert (Hhere : forall y, archived (fst (match allow (rel ++ [nm]) with
                          | None => ([EvError (rel ++ [nm])], false) | Some false => ([], false)
                          | Some true => walk allow c (rel ++ [nm]) false end)) y -> exists p, y = rel ++ p).
      { intros y Hy. destruct (allow (rel ++ [nm])) as [[|]|]; cbn [fst] in Hy.
        - destruct (Hc _ _ _ Hy) as (p & ->). exists (nm :: p). now rewrite <- app_assoc.
        - destruct (archived_nil _ Hy).
        - destruct Hy as [[E|[]]|[[? [E|[]]]|[? [E|[]]]]]; discriminate. }
      destruct (snd (match allow (rel ++ [nm]) with
                     | None => ([EvError (rel ++ [nm])], false) | Some false => ([], false)
                     | Some true => walk allow c (rel ++ [nm]) false end)); [auto|].
      cbn [fst] in Hx. apply archived_app in Hx as [Hx|Hx]; auto.
Qed.

Lemma find_child_In : forall nm cs c, NoDup (map fst cs) -> In (nm, c) cs -> find_child nm cs = Some c.
Proof.
  induction cs as [|[m c0] cs IH]; intros c ND Hin; [destruct Hin|]. cbn [find_child].
  inversion ND as [|? ? Hnot ND']; subst. destruct (N.eq_dec nm m) as [->|Hne].
  - destruct Hin as [E|Hin]; [inversion E; auto|]. exfalso. apply Hnot. apply in_map_iff. exists (m, c). auto.
  - destruct Hin as [E|Hin]; [inversion E; congruence|auto].
Qed.
Lemma find_child_some : forall nm cs c, find_child nm cs = Some c -> In (nm, c) cs.
Proof.
  induction cs as [|[m c0] cs IH]; intros c H; [discriminate|]. cbn [find_child] in H.
  destruct (N.eq_dec nm m) as [->|]; [inversion H; now left | right; auto].
Qed.

Lemma prefixes_cons : forall rel nm p, prefixes_allowed rel (nm :: p) <->
  allow (rel ++ [nm]) = Some true /\ prefixes_allowed (rel ++ [nm]) p.
Proof.
  intros rel nm p. unfold prefixes_allowed. split.
  - intros H. split; [apply (H [nm] p); [reflexivity|discriminate]|].
    intros q r E Hq. rewrite <- app_assoc. cbn [app]. apply (H (nm :: q) r); [now rewrite E|discriminate].
  - intros [H1 H2] q r E Hq. destruct q as [|m q]; [congruence|]. cbn [app] in E. inversion E; subst.
    destruct q as [|m2 q]; [exact H1|]. specialize (H2 (m2 :: q) r eq_refl). rewrite <- app_assoc in H2. apply H2. discriminate.
Qed.

(* C14 / C08 core for unfaulted trees: a path at or below the root is archived iff something is there and every
   non-empty prefix of its relative path is allowed by the filter (excluded directories are pruned as a whole) *)
Theorem archived_iff : forall n, FaultFree n -> forall rel top p,
  archived (fst (walk allow n rel top)) (rel ++ p) <->
  (exists c, at_path n p = Some c) /\ prefixes_allowed rel p.
Proof.
  induction n using node_ind'; intros HF rel top p; inversion HF as [| |cs0 FFcs ND]; subst.
  - cbn [walk fst]. split.
    + intros [[E|[]]|[[d0 [E|[]]]|[t [E|[]]]]]; try discriminate.
      inversion E as [[Hp Hd]]. assert (p = []) by (apply (app_inv_head rel); now rewrite app_nil_r). subst p.
      split; [eexists; reflexivity|]. intros q r E2 Hq. destruct q; [congruence|discriminate].
    + intros [[c Hc] _]. destruct p; [|discriminate]. rewrite app_nil_r. right. left. eexists. now left.
  - cbn [walk fst]. split.
    + intros [[E|[]]|[[d0 [E|[]]]|[t0 [E|[]]]]]; try discriminate.
      inversion E as [[Hp Hd]]. assert (p = []) by (apply (app_inv_head rel); now rewrite app_nil_r). subst p.
      split; [eexists; reflexivity|]. intros q r E2 Hq. destruct q; [congruence|discriminate].
    + intros [[c Hc] _]. destruct p; [|discriminate]. rewrite app_nil_r. right. right. eexists. now left.
  - rewrite walk_dir. cbn [fst]. rewrite (kids_flat cs rel FFcs). cbn [fst].
    destruct p as [|nm p'].
    + rewrite app_nil_r. split.
      * intros _. split; [eexists; reflexivity|]. intros q r E Hq. destruct q; [congruence|discriminate].
      * intros _. left. now left.
    + change (EvDir rel :: concat (map (child_events rel) cs)) with ([EvDir rel] ++ concat (map (child_events rel) cs)).
      rewrite archived_app, archived_concat, prefixes_cons. cbn [at_path]. split.
      * intros [Hd|(l & Hl & Ha)].
        { exfalso. destruct Hd as [[E|[]]|[[? [E|[]]]|[? [E|[]]]]]; try discriminate.
          inversion E as [E1]. rewrite <- (app_nil_r rel) in E1 at 1. apply app_inv_head in E1. discriminate. }
        apply in_map_iff in Hl as ((m, c) & <- & Hin). unfold child_events in Ha. cbn [fst snd] in Ha.
        destruct (allow (rel ++ [m])) as [[|]|] eqn:Eal.
        -- destruct (walk_prefix _ _ _ _ Ha) as (p0 & Hp0). rewrite <- app_assoc in Hp0. cbn [app] in Hp0.
           apply app_inv_head in Hp0. inversion Hp0; subst m p0.
           rewrite (find_child_In nm cs c ND Hin).
           rewrite Forall_forall in H. pose proof (H (nm, c) Hin) as IHc. cbn [snd] in IHc.
           rewrite Forall_forall in FFcs. pose proof (FFcs (nm, c) Hin) as Fc. cbn [snd] in Fc.
           replace (rel ++ nm :: p') with ((rel ++ [nm]) ++ p') in Ha by (now rewrite <- app_assoc).
           apply (IHc Fc) in Ha. destruct Ha as [Hex Hpa]. repeat split; auto.
        -- destruct (archived_nil _ Ha).
        -- destruct Ha as [[E|[]]|[[? [E|[]]]|[? [E|[]]]]]; discriminate.
      * intros [(c0 & Hc0) [Hal Hpa]]. destruct (find_child nm cs) as [c|] eqn:Ef; [|discriminate].
        apply find_child_some in Ef. right. exists (child_events rel (nm, c)). split; [apply in_map; auto|].
        unfold child_events. cbn [fst snd]. rewrite Hal.
        rewrite Forall_forall in H. pose proof (H (nm, c) Ef) as IHc. cbn [snd] in IHc.
        rewrite Forall_forall in FFcs. pose proof (FFcs (nm, c) Ef) as Fc. cbn [snd] in Fc.
        replace (rel ++ nm :: p') with ((rel ++ [nm]) ++ p') by (now rewrite <- app_assoc).
        apply (IHc Fc). split; eauto.
Qed.
End Proofs.
Print Assumptions archived_iff.
