(* PROTOTYPE (round 0): the explored state set of Pipeline.v is an inductive invariant of the step relation;
   deadlock freedom and clean termination for every reachable state, by reflection *)
From Coq Require Import List Arith NArith Bool FMapPositive.
Import ListNotations.
Require Import Pipeline.

Definition st_eq_dec : forall x y : st, {x = y} + {x <> y}.
Proof. repeat decide equality. Defined.

Definition rv : list st := Eval vm_compute in fst reach.
Definition tbl : PositiveMap.t st := fold_left (fun m t => PositiveMap.add (code t) t m) rv (PositiveMap.empty st).
Definition inR (t : st) : bool :=
  match PositiveMap.find (code t) tbl with Some t' => if st_eq_dec t t' then true else false | None => false end.

Lemma fold_add_find : forall (l : list st) m k v,
  PositiveMap.find k (fold_left (fun m t => PositiveMap.add (code t) t m) l m) = Some v ->
  In v l \/ PositiveMap.find k m = Some v.
Proof.
  induction l as [|t l IH]; intros m k v H; cbn [fold_left] in H; auto.
  apply IH in H as [H|H]; [left; now right|].
  destruct (Pos.eq_dec k (code t)) as [->|Hne].
  - rewrite PositiveMap.gss in H. inversion H; subst. left; now left.
  - rewrite PositiveMap.gso in H by auto. now right.
Qed.

Lemma inR_In : forall t, inR t = true -> In t rv.
Proof.
  intros t H. unfold inR in H. destruct (PositiveMap.find (code t) tbl) as [t'|] eqn:E; [|discriminate].
  destruct (st_eq_dec t t') as [->|]; [|discriminate].
  apply fold_add_find in E as [E|E]; auto. rewrite PositiveMap.gempty in E. discriminate.
Qed.

Lemma closed_check : forallb (fun t => forallb inR (succ t)) rv = true.
Proof. vm_compute. reflexivity. Qed.
Lemma init_check : inR init = true.
Proof. vm_compute. reflexivity. Qed.
Lemma safe_check : forallb (fun t => (terminal t || negb (match succ t with [] => true | _ => false end))
                                    && (negb (terminal t) || clean t)) rv = true.
Proof. vm_compute. reflexivity. Qed.

Inductive reachable : st -> Prop :=
| r_init : reachable init
| r_step : forall t t', reachable t -> In t' (succ t) -> reachable t'.

Lemma reachable_inR : forall t, reachable t -> inR t = true.
Proof.
  induction 1 as [|t t' _ IH Hs]; [exact init_check|].
  apply inR_In in IH. pose proof closed_check as C. rewrite forallb_forall in C. specialize (C t IH).
  rewrite forallb_forall in C. auto.
Qed.

(* no reachable state other than a terminal one is without an enabled step *)
Theorem no_stuck_state : forall t, reachable t -> terminal t = false -> succ t <> [].
Proof.
  intros t Hr Ht. apply reachable_inR, inR_In in Hr. pose proof safe_check as C. rewrite forallb_forall in C.
  specialize (C t Hr). apply andb_true_iff in C as [C _]. rewrite Ht in C. cbn [orb] in C.
  destruct (succ t); [discriminate|discriminate].
Qed.

(* whenever archiver, splitter and uploader are finished, gpg is gone and the reader thread has ended *)
Theorem terminal_is_clean : forall t, reachable t -> terminal t = true -> clean t = true.
Proof.
  intros t Hr Ht. apply reachable_inR, inR_In in Hr. pose proof safe_check as C. rewrite forallb_forall in C.
  specialize (C t Hr). apply andb_true_iff in C as [_ C]. rewrite Ht in C. exact C.
Qed.
Print Assumptions no_stuck_state.
Print Assumptions terminal_is_clean.
