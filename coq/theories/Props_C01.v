(* C01 — restoring any retained backup reproduces the backed-up tree exactly.
   The chain at Layer A (archive entries + manifest lines): walker -> run -> group history -> plan -> exec.
   ws (a list of witem) is what a run saw, in walk order: directories, files (with metadata, fingerprint, bytes) and
   symlinks; sn_of ws is the snapshot it denotes.  exec repaired is the restore model with the repairs /repo now has. *)
From Coq Require Import List Arith NArith ZArith Lia Bool Permutation.
Import ListNotations.
Require Import Restore2 Restore2Exec Restore2Plan C01a C01b C01c C01d C01e FxMono C01g C01f Walker WalkerOrder Bridge Bridge2 Header.

(* The storage as a list of group histories under the events "run into the newest group", "run into a new group",
   "delete the k oldest groups" - whatever sequence produced it, the theorem does not depend on the rotation policy -
   every backup still present restores with ok = true (exit 0) to a tree that maps every directory, file (with its
   bytes) and symlink of the snapshot to a node carrying the snapshot's metadata, and contains nothing else.
   EventsOK carries exactly the property's assumptions for each run: what the run saw is in walk order with distinct
   paths and parents first (WFws - discharged from the walker by C01_configuration_walk_order below), a fingerprint hit
   means unchanged content (FpTruth, the property's identity assumption), and backup names are distinct within a group
   (the clock does not go backwards). *)
Theorem C01_retained_backup_restores : forall es, EventsOK [] es ->
  forall h pre b dls ws post, In h (sruns [] es) -> h = pre ++ (b, dls, ws) :: post ->
  exists t, exec repaired (bs_of h) (b_name b) = Some (t, true) /\
    (forall p m, In (p, SDir m) (sn_of ws) -> t_get p t = Some (RDir (Some m))) /\
    (forall p m d, In (p, SFile m d) (sn_of ws) -> t_get p t = Some (RFile d (Some m))) /\
    (forall p m tg, In (p, SSym m tg) (sn_of ws) -> t_get p t = Some (RSym tg m)) /\
    (forall p n, t_get p t = Some n -> exists x, In (p, x) (sn_of ws)).
Proof. exact retained_backup_restores_repaired. Qed.
Check C01_retained_backup_restores : forall es, EventsOK [] es ->
  forall h pre b dls ws post, In h (sruns [] es) -> h = pre ++ (b, dls, ws) :: post ->
  exists t, exec repaired (bs_of h) (b_name b) = Some (t, true) /\
    (forall p m, In (p, SDir m) (sn_of ws) -> t_get p t = Some (RDir (Some m))) /\
    (forall p m d, In (p, SFile m d) (sn_of ws) -> t_get p t = Some (RFile d (Some m))) /\
    (forall p m tg, In (p, SSym m tg) (sn_of ws) -> t_get p t = Some (RSym tg m)) /\
    (forall p n, t_get p t = Some n -> exists x, In (p, x) (sn_of ws)).

(* the walk-order premise holds for every configuration: several items with pairwise non-overlapping roots and
   fault-free trees, their ancestors emitted once, each tree walked with its own filter *)
Theorem C01_configuration_walk_order : forall mt fpf its, roots_ok [] its -> WFws (run_ws mt fpf [] its).
Proof. exact configuration_ws_WF. Qed.
Check C01_configuration_walk_order : forall mt fpf its, roots_ok [] its -> WFws (run_ws mt fpf [] its).

(* metadata carried through the archive header: mtime over the whole i64 range (inverse cast, repair of F1), numeric
   owner and group below 2^32, and the permission bits (the full st_mode is stored, chmod keeps the low 12 bits) *)
Theorem C01_mtime_roundtrip : forall m, (- two63 <= m < two63)%Z -> load_mtime true (store_mtime m) = Some m.
Proof. exact mtime_roundtrip_fixed. Qed.
Check C01_mtime_roundtrip : forall m, (- two63 <= m < two63)%Z -> load_mtime true (store_mtime m) = Some m.
Theorem C01_id_roundtrip : forall id, (0 <= id < two32)%Z -> load_id (store_id id) = Some id.
Proof. exact id_roundtrip. Qed.
Check C01_id_roundtrip : forall id, (0 <= id < two32)%Z -> load_id (store_id id) = Some id.
Theorem C01_mode_roundtrip : forall perm ftype, (0 <= perm < 4096)%Z -> (0 <= ftype)%Z ->
  applied_mode (store_mode (ftype * 4096 + perm)) = perm.
Proof. exact mode_roundtrip. Qed.
Check C01_mode_roundtrip : forall perm ftype, (0 <= perm < 4096)%Z -> (0 <= ftype)%Z ->
  applied_mode (store_mode (ftype * 4096 + perm)) = perm.
(* finding F1 before its repair: every negative mtime made restore fail *)
Theorem C01_F1_before_repair : forall m, (- two63 <= m < 0)%Z -> load_mtime false (store_mtime m) = None.
Proof. exact F1_pre1970_fails_today. Qed.
Check C01_F1_before_repair : forall m, (- two63 <= m < 0)%Z -> load_mtime false (store_mtime m) = None.

Print Assumptions C01_retained_backup_restores.
Print Assumptions C01_configuration_walk_order.
Print Assumptions C01_mtime_roundtrip.
