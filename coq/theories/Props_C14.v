(* C14 — filters decide inclusion by first matching rule and prune excluded directories. *)
From Coq Require Import List Arith NArith Lia Bool.
Import ListNotations.
Require Import Glob GlobLemmas Filter Walker Hooks RunWhole.
Local Open Scope N_scope.

(* first matching rule wins, default allow *)
Theorem C14_first_match : forall rules path,
  (exists pre g a post, rules = pre ++ (g, a) :: post /\ rule_match g path = Some true /\
     Forall (fun r => rule_match (fst r) path <> Some true) pre /\ check rules path = a)
  \/ (Forall (fun r => rule_match (fst r) path <> Some true) rules /\ check rules path = true).
Proof. exact check_first_match. Qed.
Check C14_first_match : forall rules path,
  (exists pre g a post, rules = pre ++ (g, a) :: post /\ rule_match g path = Some true /\
     Forall (fun r => rule_match (fst r) path <> Some true) pre /\ check rules path = a)
  \/ (Forall (fun r => rule_match (fst r) path <> Some true) rules /\ check rules path = true).

(* a path at or below the item root is in the backup iff something is there and EVERY non-empty prefix of its
   item-relative path is allowed: excluded directories are pruned as a whole, the root itself ([] has no non-empty
   prefix) is never filtered.  For every tree without faults, every filter function. *)
Theorem C14_backed_up_iff : forall (allow : rpath -> option bool) n, FaultFree n -> forall rel top p,
  archived (fst (walk allow n rel top)) (rel ++ p) <->
  (exists c, at_path n p = Some c) /\ prefixes_allowed allow rel p.
Proof. exact archived_iff. Qed.
Check C14_backed_up_iff : forall (allow : rpath -> option bool) n, FaultFree n -> forall rel top p,
  archived (fst (walk allow n rel top)) (rel ++ p) <->
  (exists c, at_path n p = Some c) /\ prefixes_allowed allow rel p.

(* `*` alone matches exactly the slash-free strings; followed by more tokens it consumes a slash-free prefix *)
Theorem C14_star_no_slash : forall s, mf [FStar] s is_nil = true <-> noslash s = true.
Proof. exact star_iff. Qed.
Check C14_star_no_slash : forall s, mf [FStar] s is_nil = true <-> noslash s = true.
Theorem C14_star_cont : forall r s k,
  mf (FStar :: r) s k = true <-> exists a b, s = a ++ b /\ noslash a = true /\ mf r b k = true.
Proof. exact star_cont. Qed.
Check C14_star_cont : forall r s k,
  mf (FStar :: r) s k = true <-> exists a b, s = a ++ b /\ noslash a = true /\ mf r b k = true.
(* `?` matches exactly one byte that is not `/` *)
Theorem C14_any_no_slash : forall r s k,
  mf (FAny :: r) s k = true <-> exists b s', s = b :: s' /\ b <> SLASH /\ mf r s' k = true.
Proof. exact any_iff. Qed.
Check C14_any_no_slash : forall r s k,
  mf (FAny :: r) s k = true <-> exists b s', s = b :: s' /\ b <> SLASH /\ mf r s' k = true.
(* a leading `**/` is nothing, or everything up to and including some `/`: it spans directory levels *)
Theorem C14_recursive_prefix : forall r s k, mf (FRecPre :: r) s k = true <->
  mf r s k = true \/ exists a b, s = a ++ SLASH :: b /\ mf r b k = true.
Proof. exact recpre_iff. Qed.
Check C14_recursive_prefix : forall r s k, mf (FRecPre :: r) s k = true <->
  mf r s k = true \/ exists a b, s = a ++ SLASH :: b /\ mf r b k = true.
(* `{a,b}` alternates *)
Theorem C14_alternates : forall alts r s k, (exists a, In a alts /\ a <> []) ->
  mt (TAlt alts :: r) s k = true <-> exists a, In a alts /\ a <> [] /\ mf a s (fun s' => mt r s' k) = true.
Proof. exact alt_iff. Qed.
Check C14_alternates : forall alts r s k, (exists a, In a alts /\ a <> []) ->
  mt (TAlt alts :: r) s k = true <-> exists a, In a alts /\ a <> [] /\ mf a s (fun s' => mt r s' k) = true.

(* blank and `#` lines are ignored, and nothing else is *)
Theorem C14_ignored_iff : forall line, parse_rule_line line = LNone <->
  trim_start line = [] \/ exists r, trim_start line = 35 :: r.
Proof. exact ignored_iff. Qed.
Check C14_ignored_iff : forall line, parse_rule_line line = LNone <->
  trim_start line = [] \/ exists r, trim_start line = 35 :: r.

(* "+ glob" / "- glob" with any indentation and trailing blanks reads back as that rule *)
Theorem C14_rule_line_roundtrip : forall ind trail sign glob x a,
  forallb is_ws ind = true -> forallb is_ws trail = true ->
  (sign = 43 /\ a = true \/ sign = 45 /\ a = false) ->
  is_ws x = false -> x <> 92 ->
  parse_rule_line (ind ++ sign :: 32 :: glob ++ x :: trail) = LRule (glob ++ [x]) a.
Proof. exact rule_line_roundtrip. Qed.
Check C14_rule_line_roundtrip : forall ind trail sign glob x a,
  forallb is_ws ind = true -> forallb is_ws trail = true ->
  (sign = 43 /\ a = true \/ sign = 45 /\ a = false) ->
  is_ws x = false -> x <> 92 ->
  parse_rule_line (ind ++ sign :: 32 :: glob ++ x :: trail) = LRule (glob ++ [x]) a.

(* non-vacuity: "- *.o" then "+ a/**": a/x.o is denied by the first rule although the second also matches *)
Example C14_example :
  option_map (fun rules => map (check rules) [[120;46;111]; [97;47;120;46;111]; [97;47;98]])
             (filter_new [45;32;42;46;111;10;43;32;97;47;42;42;10;45;32;42;42]) = Some [false; true; true].
Proof. vm_compute. reflexivity. Qed.

(* several items in one configuration: the walk of item j is the walk of ITS OWN tree under ITS OWN rule list, whatever became of the
   items before it (missing, overlapping, failing hooks); together with C14_backed_up_iff this is the property per item *)
Theorem C14_item_filtered_by_own_rules : forall its i j es,
  In (IWalk j es) (fst (run_items i its)) ->
  (i <= j)%nat /\ exists n, it_tree (nth (j - i)%nat its dflt) = Some n /\ es = fst (walk (it_filter (nth (j - i)%nat its dflt)) n [] true).
Proof. exact item_walk_is_own. Qed.
Check C14_item_filtered_by_own_rules : forall its i j es,
  In (IWalk j es) (fst (run_items i its)) ->
  (i <= j)%nat /\ exists n, it_tree (nth (j - i)%nat its dflt) = Some n /\ es = fst (walk (it_filter (nth (j - i)%nat its dflt)) n [] true).
Theorem C14_item_walk_independent : forall its its' j es es',
  In (IWalk j es) (fst (run_items 0 its)) -> In (IWalk j es') (fst (run_items 0 its')) ->
  it_tree (nth j its dflt) = it_tree (nth j its' dflt) -> it_filter (nth j its dflt) = it_filter (nth j its' dflt) ->
  es = es'.
Proof. exact item_walk_independent. Qed.
Check C14_item_walk_independent : forall its its' j es es',
  In (IWalk j es) (fst (run_items 0 its)) -> In (IWalk j es') (fst (run_items 0 its')) ->
  it_tree (nth j its dflt) = it_tree (nth j its' dflt) -> it_filter (nth j its dflt) = it_filter (nth j its' dflt) ->
  es = es'.

Print Assumptions C14_first_match.
Print Assumptions C14_backed_up_iff.
Print Assumptions C14_alternates.
Print Assumptions C14_rule_line_roundtrip.
Print Assumptions C14_item_filtered_by_own_rules.
Print Assumptions C14_item_walk_independent.
