(* PROTOTYPE (round 0): util/file_reader.rs::FileReader over an arbitrary underlying reader *)
From Coq Require Import List Arith NArith Lia Bool ZifyBool ZifyNat.
Import ListNotations.

Section FR.
Variable S : Type.                                   (* state of the underlying reader (a file that may change) *)
Variable rd : S -> nat -> option (list N) * S.       (* read(buf of len n): None = I/O error *)
Hypothesis rd_len : forall s n bs s', rd s n = (Some bs, s') -> length bs <= n.

Record fr := { src : S; real : list N (* bytes fed to the digest *); bytes_read : nat; bytes_left : nat; truncated : bool }.
Definition new (s : S) (size : nat) : fr :=
  {| src := s; real := []; bytes_read := 0; bytes_left := size; truncated := false |}.

Inductive rres := RData (bs : list N) (f : fr) | RErr.

(* <FileReader as Read>::read with a buffer of n bytes *)
Definition read (f : fr) (n : nat) : rres :=
  let n' := Nat.min n (bytes_left f) in
  if n' =? 0 then RData [] f
  else if truncated f then
    RData (repeat 0%N n') {| src := src f; real := real f; bytes_read := bytes_read f; bytes_left := bytes_left f - n'; truncated := true |}
  else match rd (src f) n' with
       | (None, _) => RErr
       | (Some bs, s') =>
         if length bs =? 0 then   (* early EOF: become truncated and zero-fill (the recursive call) *)
           RData (repeat 0%N n') {| src := s'; real := real f; bytes_read := bytes_read f; bytes_left := bytes_left f - n'; truncated := true |}
         else
           RData bs {| src := s'; real := real f ++ bs; bytes_read := bytes_read f + length bs;
                       bytes_left := bytes_left f - length bs; truncated := false |}
       end.

(* the consumer (io::copy / tar append): reads with buffers bz 0, bz 1, ... until a read returns 0 bytes *)
Variable bz : nat -> nat.
Hypothesis bz_pos : forall i, bz i >= 1.

Inductive cres := Done (out : list N) (f : fr) | Failed | OutOfFuel.
Fixpoint consume (fuel i : nat) (f : fr) (out : list N) : cres :=
  match fuel with
  | O => OutOfFuel
  | Datatypes.S fu =>
    match read f (bz i) with
    | RErr => Failed
    | RData [] f' => Done out f'
    | RData bs f' => consume fu (Datatypes.S i) f' (out ++ bs)
    end
  end.

Definition run (s : S) (size : nat) : cres := consume (size + 1) 0 (new s size) [].

(* invariant *)
Definition Inv (size : nat) (f : fr) (out : list N) : Prop :=
  length out + bytes_left f = size /\
  bytes_read f = length (real f) /\
  exists k, out = real f ++ repeat 0%N k /\ (truncated f = false -> k = 0).

Lemma read_step : forall size f out n, n >= 1 -> Inv size f out ->
  match read f n with
  | RErr => True
  | RData bs f' => Inv size f' (out ++ bs) /\ (bs = [] -> bytes_left f = 0) /\ (bytes_left f > 0 -> length bs >= 1)
  end.
Proof.
  intros size f out n Hn (Hlen & Hbr & k & Hout & Hk). unfold read.
  destruct (Nat.eqb_spec (Nat.min n (bytes_left f)) 0) as [Hz|Hnz].
  - rewrite app_nil_r. repeat split; auto; try lia. exists k; auto.
  - destruct (truncated f) eqn:Ht.
    + repeat split; cbn [bytes_left bytes_read real truncated]; auto.
      * rewrite app_length, repeat_length. lia.
      * exists (k + Nat.min n (bytes_left f)). split; [|discriminate].
        rewrite Hout, <- app_assoc, <- repeat_app. reflexivity.
      * intros E. apply (f_equal (@length N)) in E. rewrite repeat_length in E. cbn in E. lia.
      * rewrite repeat_length. lia.
    + destruct (rd (src f) (Nat.min n (bytes_left f))) as [[bs|] s'] eqn:Er; [|exact I].
      pose proof (rd_len _ _ _ _ Er) as Hl. specialize (Hk eq_refl). subst k. rewrite app_nil_r in Hout.
      destruct (Nat.eqb_spec (length bs) 0) as [He|Hne].
      * repeat split; cbn [bytes_left bytes_read real truncated]; auto.
        -- rewrite app_length, repeat_length. lia.
        -- exists (Nat.min n (bytes_left f)). split; [now rewrite Hout | discriminate].
        -- intros E. apply (f_equal (@length N)) in E. rewrite repeat_length in E. cbn in E. lia.
        -- rewrite repeat_length. lia.
      * repeat split; cbn [bytes_left bytes_read real truncated]; auto.
        -- rewrite app_length. lia.
        -- rewrite app_length. lia.
        -- exists 0. split; [cbn; now rewrite app_nil_r, Hout | auto].
        -- intros E. subst bs. cbn in Hne. lia.
        -- lia.
Qed.

Lemma consume_spec : forall size fuel i f out, Inv size f out -> bytes_left f + 1 <= fuel ->
  match consume fuel i f out with
  | Done out' f' => Inv size f' out' /\ bytes_left f' = 0
  | Failed => True
  | OutOfFuel => False
  end.
Proof.
  intros size fuel. induction fuel as [|fu IH]; intros i f out HI Hf; [lia|].
  cbn [consume]. pose proof (read_step size f out (bz i) (bz_pos i) HI) as Hs.
  destruct (read f (bz i)) as [bs f'|]; [|exact I].
  destruct Hs as (HI' & Hnil & Hpos). destruct bs as [|b bs'].
  - rewrite app_nil_r in HI'. split; auto. destruct HI' as (Hl' & _). destruct HI as (Hl & _).
    specialize (Hnil eq_refl). lia.
  - apply IH; auto. destruct HI' as (Hl' & _). destruct HI as (Hl & _).
    rewrite app_length in Hl'. cbn [length] in *. lia.
Qed.

(* C15 core: whatever the underlying reader does, the entry gets exactly [size] bytes:
   the real bytes, then zeros; count and digest describe exactly the real bytes *)
Theorem file_reader_exact : forall s size,
  match run s size with
  | Done out f => length out = size /\ out = real f ++ repeat 0%N (size - length (real f)) /\
                  bytes_read f = length (real f) /\ length (real f) <= size
  | Failed => True
  | OutOfFuel => False
  end.
Proof.
  intros s size. unfold run.
  pose proof (consume_spec size (size + 1) 0 (new s size) []) as Hc.
  assert (HI : Inv size (new s size) []).
  { unfold Inv, new; cbn. repeat split; auto. exists 0. split; auto. }
  specialize (Hc HI). cbn [bytes_left new] in Hc. specialize (Hc (Nat.le_refl _)).
  destruct (consume (size + 1) 0 (new s size) []) as [out f| |]; auto.
  destruct Hc as ((Hl & Hbr & k & Hout & Hk) & Hz).
  assert (Hlen : length out = size) by lia.
  assert (Hk' : k = size - length (real f)).
  { rewrite Hout, app_length, repeat_length in Hlen. lia. }
  repeat split; auto.
  - now rewrite <- Hk'.
  - rewrite Hout, app_length in Hlen. lia.
Qed.
End FR.
Print Assumptions file_reader_exact.
