(* C16 — runs on the same storage or configuration are mutually exclusive.
   Model: two runs, each issuing n storage operations between taking and releasing a non-blocking exclusive lock,
   under an arbitrary schedule. *)
From Coq Require Import List Arith Lia Bool.
Import ListNotations.
Require Import Lock Lock2.

(* in every schedule the two runs never hold the lock together, and a run that was refused has issued no storage
   operation *)
Theorem C16_mutual_exclusion : forall n sched, Inv (run n sched).
Proof. exact mutual_exclusion. Qed.
Check C16_mutual_exclusion : forall n sched, Inv (run n sched).

(* the issue order of storage operations is all operations of one run followed by all operations of the other *)
Theorem C16_runs_do_not_interleave : forall n sched, exists b0 t0 t1,
  trace (run n sched) = t0 ++ t1 /\ owned b0 t0 /\ owned (negb b0) t1.
Proof. exact runs_do_not_interleave. Qed.
Check C16_runs_do_not_interleave : forall n sched, exists b0 t0 t1,
  trace (run n sched) = t0 ++ t1 /\ owned b0 t0 /\ owned (negb b0) t1.

(* non-vacuity: process 1 tries while process 0 holds the lock: refused, and its operations never appear *)
Example C16_example :
  let s := run 3 [false; false; true; false; false; false; false] in
  p0 s = Done /\ p1 s = Refused /\ trace s = [(false, 2); (false, 1); (false, 0)].
Proof. vm_compute. auto. Qed.

Print Assumptions C16_mutual_exclusion.
Print Assumptions C16_runs_do_not_interleave.
