(* Wire glue for C15: FileReader over a scripted underlying reader.
   case: (size script bufsizes); script item = (0 bytes) data available to the next read | (1) EOF | (2) I/O error
   result: (0 out real bytes_read) | (1) failed *)
From Coq Require Import List NArith Bool Arith.
Import ListNotations.
Require Import Wire FileReader.

Inductive sitem := SData (bs : list N) | SEof | SErr.

(* one read call with a buffer of n bytes: a data item yields min(n, |bs|) bytes, the rest stays available;
   an exhausted script is EOF forever *)
Definition srd (s : list sitem) (n : nat) : option (list N) * list sitem :=
  match s with
  | [] => (Some [], [])
  | SData bs :: r =>
    if length bs <=? n then (Some bs, r) else (Some (firstn n bs), SData (skipn n bs) :: r)
  | SEof :: r => (Some [], r)
  | SErr :: r => (None, r)
  end.

Lemma srd_len : forall s n bs s', srd s n = (Some bs, s') -> length bs <= n.
Proof.
  intros s n bs s' H. destruct s as [|[b| |] r]; cbn in H.
  - inversion H; subst; cbn; apply Nat.le_0_l.
  - destruct (Nat.leb_spec (length b) n) as [Hl|Hl]; inversion H; subst; [exact Hl|].
    rewrite firstn_length. apply Nat.le_min_l.
  - inversion H; subst; cbn; apply Nat.le_0_l.
  - discriminate.
Qed.

Definition bz_of (sizes : list nat) (i : nat) : nat :=
  match sizes with
  | [] => 1
  | _ => S (pred (nth (i mod length sizes) sizes 1))
  end.

Lemma bz_of_pos : forall sizes i, bz_of sizes i >= 1.
Proof. intros sizes i. unfold bz_of. destruct sizes; [apply Nat.le_refl | apply le_n_S, Nat.le_0_l]. Qed.

Definition dec_sitem (v : val) : option sitem :=
  match v with
  | VL [VN 0%N; d] => option_map SData (as_bytes d)
  | VL [VN 1%N] => Some SEof
  | VL [VN 2%N] => Some SErr
  | _ => None
  end.

Definition run_c15 (v : val) : val :=
  match v with
  | VL [VN size; sc; bufs] =>
    match as_listof dec_sitem sc, as_listof as_nat bufs with
    | Some sc, Some bufs =>
      match run (list sitem) srd (bz_of bufs) sc (N.to_nat size) with
      | Done _ out f => VL [VN 0%N; of_bytes out; of_bytes (real _ f); of_nat (bytes_read _ f)]
      | Failed _ => VL [VN 1%N]
      | OutOfFuel _ => out_of_fuel
      end
    | _, _ => bad_input
    end
  | _ => bad_input
  end.

(* the theorem of FileReader.v instantiated for the scripted reader the correspondence check runs *)
Theorem scripted_file_reader_exact : forall sizes sc size,
  match run (list sitem) srd (bz_of sizes) sc size with
  | Done _ out f => length out = size /\ out = real _ f ++ repeat 0%N (size - length (real _ f)) /\
                    bytes_read _ f = length (real _ f) /\ length (real _ f) <= size
  | Failed _ => True
  | OutOfFuel _ => False
  end.
Proof. intros sizes sc size. exact (file_reader_exact (list sitem) srd srd_len (bz_of sizes) (bz_of_pos sizes) sc size). Qed.
