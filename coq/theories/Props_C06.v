(* C06 — cloud sync converges and never deletes what retention protects.
   [sync co uo l c ok0 max] is the planner: l / c are the local / cloud listings (group -> backups, sorted by
   group), ok0 the conjunction of local verification and both listings, co / uo oracles telling which group
   creations / uploads succeed.  The cloud after the run is [apply c acts]. *)
From Coq Require Import List Arith NArith Lia Bool.
Import ListNotations.
Require Import Sync SyncConv.

Theorem C06_no_reupload : forall co uo l c ok0 max acts ok g b,
  sync co uo l c ok0 max = (acts, ok) -> In (Upload g b) acts ->
  match lookup g c with Some cb => ~ In b cb | None => True end.
Proof. exact no_reupload. Qed.
Check C06_no_reupload : forall co uo l c ok0 max acts ok g b,
  sync co uo l c ok0 max = (acts, ok) -> In (Upload g b) acts ->
  match lookup g c with Some cb => ~ In b cb | None => True end.

(* a deletion implies: the run saw no error at all (final ok, hence every create / upload succeeded), the initial
   ok flag and the wiped-local safeguard hold, the group is a cloud group and lies outside the window *)
Theorem C06_delete_safe : forall co uo l c ok0 max acts ok g,
  sync co uo l c ok0 max = (acts, ok) -> In (Delete g) acts ->
  ok = true /\ ok0 = true /\ safeguard l c = true /\ In g (keys c) /\ ~ In g (keys (target l c max)).
Proof. exact delete_safe. Qed.
Check C06_delete_safe : forall co uo l c ok0 max acts ok g,
  sync co uo l c ok0 max = (acts, ok) -> In (Delete g) acts ->
  ok = true /\ ok0 = true /\ safeguard l c = true /\ In g (keys c) /\ ~ In g (keys (target l c max)).

(* nothing is deleted when the local storage has fewer than two non-empty groups while the cloud has more groups *)
Theorem C06_wiped_local_no_delete : forall co uo l c ok0 max acts ok g,
  (length (filter nonempty l) < 2)%nat -> (length (filter nonempty l) < length c)%nat ->
  sync co uo l c ok0 max = (acts, ok) -> ~ In (Delete g) acts.
Proof. exact wiped_local_no_delete. Qed.
Check C06_wiped_local_no_delete : forall co uo l c ok0 max acts ok g,
  (length (filter nonempty l) < 2)%nat -> (length (filter nonempty l) < length c)%nat ->
  sync co uo l c ok0 max = (acts, ok) -> ~ In (Delete g) acts.

(* the window is exactly: groups of the union (either side) with fewer than max non-empty groups newer than them,
   i.e. the newest max non-empty groups and everything in between *)
Theorem C06_window_spec : forall l c max g, (1 <= max)%nat ->
  (In g (keys (target l c max)) <-> In g (keys (union l c)) /\ (newer_ne (union l c) g < max)%nat).
Proof. exact window_spec. Qed.
Check C06_window_spec : forall l c max g, (1 <= max)%nat ->
  (In g (keys (target l c max)) <-> In g (keys (union l c)) /\ (newer_ne (union l c) g < max)%nat).

(* after an error-free run the cloud holds every local backup of every window group and everything it held there *)
Theorem C06_converges : forall co uo l c ok0 max acts,
  sync co uo l c ok0 max = (acts, true) ->
  forall g, In g (keys (target l c max)) ->
    (forall b, has l g b -> In b (bks g (apply c acts))) /\
    (forall b, In b (bks g c) -> In b (bks g (apply c acts))).
Proof. exact sync_converges. Qed.
Check C06_converges : forall co uo l c ok0 max acts,
  sync co uo l c ok0 max = (acts, true) ->
  forall g, In g (keys (target l c max)) ->
    (forall b, has l g b -> In b (bks g (apply c acts))) /\
    (forall b, In b (bks g c) -> In b (bks g (apply c acts))).

(* a second run transfers (and deletes) nothing, whatever its oracles would answer *)
Theorem C06_idempotent : forall co uo co' uo' l c ok0 ok0' max acts,
  sorted c -> sync co uo l c ok0 max = (acts, true) ->
  sync co' uo' l (apply c acts) ok0' max = ([], ok0' && safeguard l (apply c acts)).
Proof. exact sync_idempotent. Qed.
Check C06_idempotent : forall co uo co' uo' l c ok0 ok0' max acts,
  sorted c -> sync co uo l c ok0 max = (acts, true) ->
  sync co' uo' l (apply c acts) ok0' max = ([], ok0' && safeguard l (apply c acts)).

(* non-vacuity: three local groups, two stale cloud groups, window of one: create, upload, delete the two old ones *)
Example C06_example :
  sync (fun _ => true) (fun _ _ => true)
       [(1, [11; 12]); (2, [21])]%N [(0, [1]); (1, [11])]%N true 1 =
  ([Create 2; Upload 2 21; Delete 0; Delete 1]%N, true).
Proof. vm_compute. reflexivity. Qed.

Print Assumptions C06_delete_safe.
Print Assumptions C06_converges.
Print Assumptions C06_idempotent.
Print Assumptions C06_window_spec.
