(* C05, failure half: whenever upload_file reports failure, the final name is exactly what it was - for every reply
   oracle, i.e. for every fault position and kind *)
From Coq Require Import List Arith NArith Bool.
Import ListNotations.
Require Import Providers2 Dropbox2.

Lemma bytes_eq_dec : forall a b : bytes, {a = b} + {a <> b}.
Proof. exact (list_eq_dec N.eq_dec). Qed.
Lemma obytes_eq_dec : forall a b : option bytes, {a = b} + {a <> b}.
Proof. decide equality. apply bytes_eq_dec. Qed.
Lemma lbytes_eq_dec : forall a b : list bytes, {a = b} + {a <> b}.
Proof. exact (list_eq_dec bytes_eq_dec). Qed.

Section F.
Variable reply : nat -> rep.
Variable Hsrv : bytes -> bytes.
Variable beqb : bytes -> bytes -> bool.
Hypothesis beqb_spec : forall a b, reflect (a = b) (beqb a b).

Theorem dropbox_failure_leaves_final : forall evs s s',
  dropbox reply Hsrv beqb evs s = (s', false) -> dfinal s' = dfinal s.
Proof.
  intros evs s s' E. destruct (obytes_eq_dec (dfinal s') (dfinal s)) as [|Hne]; [assumption|].
  destruct (dropbox_final_only_if_verified reply Hsrv beqb beqb_spec evs s s' false E Hne) as [H _]. discriminate.
Qed.

Theorem yandex_failure_leaves_final : forall polls evs s s',
  yandex reply Hsrv beqb polls evs s = (s', false) -> yfinal s' = yfinal s.
Proof.
  intros polls evs s s' E. destruct (obytes_eq_dec (yfinal s') (yfinal s)) as [|Hne]; [assumption|].
  destruct (yandex_final_only_if_verified reply Hsrv beqb beqb_spec polls evs s s' false E Hne) as [H _]. discriminate.
Qed.

Theorem google_failure_leaves_final : forall evs s s',
  google reply Hsrv beqb evs s = (s', false) -> gfinal s' = gfinal s.
Proof.
  intros evs s s' E. destruct (lbytes_eq_dec (gfinal s') (gfinal s)) as [|Hne]; [assumption|].
  destruct (google_final_only_if_verified reply Hsrv beqb beqb_spec evs s s' false E Hne) as [H _]. discriminate.
Qed.

(* an upstream error (archiver / encryptor failure: the chunk stream ends with CErr or without a terminal message) never
   touches the final name either: such a stream has no terminal checksum message *)
Theorem dropbox_no_terminal_no_final : forall evs s s' res,
  Providers2.terminal evs = None -> dropbox reply Hsrv beqb evs s = (s', res) -> dfinal s' = dfinal s.
Proof.
  intros evs s s' res T E. destruct (obytes_eq_dec (dfinal s') (dfinal s)) as [|Hne]; [assumption|].
  destruct (dropbox_final_only_if_verified reply Hsrv beqb beqb_spec evs s s' res E Hne) as (_ & _ & _ & T'). congruence.
Qed.
Theorem yandex_no_terminal_no_final : forall polls evs s s' res,
  Providers2.terminal evs = None -> yandex reply Hsrv beqb polls evs s = (s', res) -> yfinal s' = yfinal s.
Proof.
  intros polls evs s s' res T E. destruct (obytes_eq_dec (yfinal s') (yfinal s)) as [|Hne]; [assumption|].
  destruct (yandex_final_only_if_verified reply Hsrv beqb beqb_spec polls evs s s' res E Hne) as (_ & n & d & T' & _). congruence.
Qed.
Theorem google_no_terminal_no_final : forall evs s s' res,
  Providers2.terminal evs = None -> google reply Hsrv beqb evs s = (s', res) -> gfinal s' = gfinal s.
Proof.
  intros evs s s' res T E. destruct (lbytes_eq_dec (gfinal s') (gfinal s)) as [|Hne]; [assumption|].
  destruct (google_final_only_if_verified reply Hsrv beqb beqb_spec evs s s' res E Hne) as (_ & n & T' & _). congruence.
Qed.
End F.
Print Assumptions dropbox_failure_leaves_final.
Print Assumptions google_no_terminal_no_final.
