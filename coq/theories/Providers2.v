(* PROTOTYPE (round 0): providers/yandex_disk.rs and providers/google_drive.rs upload_file as functions of the
   chunk-stream events and a reply oracle, run against an emulated server; C05 for these two providers *)
From Coq Require Import List Arith NArith Lia Bool.
Import ListNotations.

Definition bytes := list N.
Inductive cev := CStream (off : nat) (body : bytes) | CEof (size : nat) (sum : bytes) | CErr.
Inductive rep := Ok | Fail | Pending | Async.        (* 2xx with the expected body / any error / "in-progress" / 202 + href *)

Fixpoint payload (evs : list cev) : bytes :=
  match evs with CStream _ b :: r => b ++ payload r | _ => [] end.
Fixpoint terminal (evs : list cev) : option (nat * bytes) :=
  match evs with CStream _ _ :: r => terminal r | CEof n s :: _ => Some (n, s) | _ => None end.

Section Providers.
Variable reply : nat -> rep.                 (* what the k-th request of this upload meets *)
Variable Hsrv : bytes -> bytes.              (* the server's checksum of a stored object *)
Variable beqb : bytes -> bytes -> bool.
Hypothesis beqb_spec : forall a b, reflect (a = b) (beqb a b).
Variable polls : nat.                        (* OPERATION_TIMEOUT / 0.5 s *)

Definition is_ok (r : rep) := match r with Ok => true | _ => false end.

(* wait_operation: poll until success, failure or the deadline; no effect on the namespace *)
Fixpoint wait (k fuel : nat) : bool * nat :=
  match fuel with
  | O => (false, k)
  | S f => match reply k with Ok => (true, S k) | Pending => wait (S k) f | _ => (false, S k) end
  end.

(* ------------------------------------------------ Yandex Disk ------------------------------------------------ *)
Record ysrv := { ytemp : option bytes; yfinal : option bytes }.

(* delete(temp): 204, or 202 followed by polling; its outcome is only logged *)
Definition y_delete (s : ysrv) (k : nat) : ysrv :=
  match reply k with Ok | Async => {| ytemp := None; yfinal := yfinal s |} | _ => s end.

(* rename_file(temp, final, overwrite = false) *)
Definition y_move (s : ysrv) (k : nat) (d : bytes) : ysrv * bool :=
  match yfinal s with
  | Some _ => (y_delete s (S k), false)                               (* the server refuses: destination exists *)
  | None =>
    match reply k with
    | Ok => ({| ytemp := None; yfinal := Some d |}, true)
    | Async => (* the operation takes effect when its status becomes "success"; a failed operation has none, and one
                  still pending at the deadline has had none by the time upload_file returns *)
               let '(w, k') := wait (S k) polls in
               if w then ({| ytemp := None; yfinal := Some d |}, true) else (y_delete s k', false)
    | _ => (y_delete s (S k), false)
    end
  end.

Fixpoint y_events (evs : list cev) (k : nat) (seen : bool) (s : ysrv) : ysrv * bool :=
  match evs with
  | [] => (s, false)
  | CStream off body :: r =>
      if seen || negb (off =? 0) then (s, false)                       (* assert_eq!: panic *)
      else if is_ok (reply k) then y_events r (S k) true {| ytemp := Some body; yfinal := yfinal s |}
      else (s, false)
  | CEof _ sum :: _ =>
      let '(w, k1) := wait k polls in
      if negb w then (s, false) else
      if negb (is_ok (reply k1)) then (s, false) else                  (* GET resources?fields=md5 *)
      match ytemp s with
      | None => (s, false)                                             (* DiskNotFoundError *)
      | Some d => if beqb (Hsrv d) sum then y_move s (S k1) d else (y_delete s (S k1), false)
      end
  | CErr :: _ => (s, false)
  end.

Definition yandex (evs : list cev) (s : ysrv) : ysrv * bool :=
  if is_ok (reply 0) then y_events evs 1 false s else (s, false).       (* GET resources/upload *)

Lemma y_delete_final : forall s k, yfinal (y_delete s k) = yfinal s.
Proof. intros. unfold y_delete. destruct (reply k); reflexivity. Qed.

Lemma y_move_final : forall s k d s' res, y_move s k d = (s', res) -> yfinal s' <> yfinal s ->
  res = true /\ yfinal s' = Some d.
Proof.
  intros s k d s' res E Hf. unfold y_move in E. destruct (yfinal s) eqn:Ef.
  - inversion E; subst. rewrite y_delete_final in Hf. congruence.
  - destruct (reply k).
    + inversion E; subst. auto.
    + inversion E; subst. rewrite y_delete_final in Hf. congruence.
    + inversion E; subst. rewrite y_delete_final in Hf. congruence.
    + destruct (wait (S k) polls) as [w k']. destruct w; inversion E; subst; auto.
      rewrite y_delete_final in Hf. congruence.
Qed.

(* if the final name changes, the run succeeded, the stream ended with the checksum message, the server's checksum
   of the object now under the final name equals it, and that object is the one body that was uploaded *)
Lemma y_events_final : forall evs k seen s s' res,
  y_events evs k seen s = (s', res) -> yfinal s' <> yfinal s ->
  res = true /\ exists n d, terminal evs = Some (n, Hsrv d) /\ yfinal s' = Some d /\ yfinal s = None /\
    (if seen then payload evs = [] /\ ytemp s = Some d
     else d = payload evs \/ (payload evs = [] /\ ytemp s = Some d)).
Proof.
  induction evs as [|e evs IH]; intros k seen s s' res E Hf; cbn [y_events] in E.
  - inversion E; subst. congruence.
  - destruct e as [off body|size sum|].
    + destruct (seen || negb (off =? 0)) eqn:Eg; [inversion E; subst; congruence|].
      apply orb_false_iff in Eg as [-> _].
      destruct (is_ok (reply k)); [|inversion E; subst; congruence].
      destruct (IH _ _ _ _ _ E Hf) as (R & n & d & T & F & F0 & P1 & P2).
      cbn [ytemp] in P2. inversion P2; subst d.
      split; auto. exists n, body. cbn [terminal payload]. rewrite P1, app_nil_r. auto.
    + destruct (wait k polls) as [w k1]. destruct w; cbn [negb] in E; [|inversion E; subst; congruence].
      destruct (is_ok (reply k1)); cbn [negb] in E; [|inversion E; subst; congruence].
      destruct (ytemp s) as [d|] eqn:Et; [|inversion E; subst; congruence].
      destruct (beqb_spec (Hsrv d) sum) as [<-|Hne].
      * destruct (y_move_final _ _ _ _ _ E Hf) as [-> F]. split; auto. exists size, d. cbn [terminal payload].
        assert (yfinal s = None).
        { unfold y_move in E. destruct (yfinal s) eqn:Ef; auto. inversion E. }
        repeat split; auto. destruct seen; auto.
      * inversion E; subst. rewrite y_delete_final in Hf. congruence.
    + inversion E; subst. congruence.
Qed.

Theorem yandex_final_only_if_verified : forall evs s s' res,
  yandex evs s = (s', res) -> yfinal s' <> yfinal s ->
  res = true /\ exists n d, terminal evs = Some (n, Hsrv d) /\ yfinal s' = Some d /\ yfinal s = None /\
    (d = payload evs \/ (payload evs = [] /\ ytemp s = Some d)).
Proof.
  intros evs s s' res E Hf. unfold yandex in E. destruct (is_ok (reply 0)); [|inversion E; subst; congruence].
  exact (y_events_final _ _ _ _ _ _ E Hf).
Qed.

(* ------------------------------------------------ Google Drive ------------------------------------------------ *)
(* names are not unique on Google Drive: the final name denotes a list of objects; the uploaded file is addressed by id *)
Record gsrv := { gtemp : option bytes; gfinal : list bytes }.

Definition g_delete (s : gsrv) (k : nat) : gsrv :=      (* delete_file(temp, only_if_exists): stat, then delete *)
  if is_ok (reply k) && is_ok (reply (S k)) then {| gtemp := None; gfinal := gfinal s |} else s.

Fixpoint g_events (evs : list cev) (k : nat) (file : option bytes) (s : gsrv) : gsrv * bool :=
  match evs with
  | [] => (s, false)
  | CStream off body :: r =>
      match file with Some _ => (s, false) | None =>                     (* assert!(file.is_none()): panic *)
      if negb (off =? 0) then (s, false) else
      if negb (is_ok (reply k)) then (s, false) else                     (* start_file_upload *)
      if negb (is_ok (reply (S k))) then (s, false) else                 (* PUT body *)
      g_events r (S (S k)) (Some body) {| gtemp := Some body; gfinal := gfinal s |}
      end
  | CEof size sum :: _ =>
      if size =? 0 then (s, false) else
      match file with
      | None => (s, false)                                               (* file.unwrap(): panic *)
      | Some d =>
        if negb (is_ok (reply k)) then (s, false) else                   (* GET files/<id>?fields=md5Checksum *)
        if beqb (Hsrv d) sum then
          if is_ok (reply (S k)) then ({| gtemp := None; gfinal := gfinal s ++ [d] |}, true)   (* PATCH name *)
          else (s, false)
        else (g_delete s (S k), false)
      end
  | CErr :: _ => match file with Some _ => (g_delete s k, false) | None => (s, false) end
  end.

Definition google (evs : list cev) (s : gsrv) : gsrv * bool := g_events evs 0 None s.

Lemma g_delete_final : forall s k, gfinal (g_delete s k) = gfinal s.
Proof. intros. unfold g_delete. destruct (_ && _); reflexivity. Qed.

Lemma g_events_final : forall evs k file s s' res,
  g_events evs k file s = (s', res) -> gfinal s' <> gfinal s ->
  res = true /\ exists n d, terminal evs = Some (n, Hsrv d) /\ n <> 0 /\ gfinal s' = gfinal s ++ [d] /\
    match file with Some f => payload evs = [] /\ d = f | None => d = payload evs end.
Proof.
  induction evs as [|e evs IH]; intros k file s s' res E Hf; cbn [g_events] in E.
  - inversion E; subst. congruence.
  - destruct e as [off body|size sum|].
    + destruct file; [inversion E; subst; congruence|].
      destruct (negb (off =? 0)); [inversion E; subst; congruence|].
      destruct (negb (is_ok (reply k))); [inversion E; subst; congruence|].
      destruct (negb (is_ok (reply (S k)))); [inversion E; subst; congruence|].
      destruct (IH _ _ _ _ _ E Hf) as (R & n & d & T & N0 & F & P1 & P2). subst d.
      split; auto. exists n, body. cbn [terminal payload gfinal] in *. rewrite P1, app_nil_r. auto.
    + destruct (size =? 0) eqn:Ez; [inversion E; subst; congruence|].
      destruct file as [d|]; [|inversion E; subst; congruence].
      destruct (negb (is_ok (reply k))); [inversion E; subst; congruence|].
      destruct (beqb_spec (Hsrv d) sum) as [<-|Hne].
      * destruct (is_ok (reply (S k))); inversion E; subst; [|congruence].
        split; auto. exists size, d. cbn [terminal payload gfinal]. apply Nat.eqb_neq in Ez. auto.
      * inversion E; subst. rewrite g_delete_final in Hf. congruence.
    + destruct file; inversion E; subst; [rewrite g_delete_final in Hf|]; congruence.
Qed.

Theorem google_final_only_if_verified : forall evs s s' res,
  google evs s = (s', res) -> gfinal s' <> gfinal s ->
  res = true /\ exists n, terminal evs = Some (n, Hsrv (payload evs)) /\ n <> 0 /\ gfinal s' = gfinal s ++ [payload evs].
Proof.
  intros evs s s' res E Hf. destruct (g_events_final _ _ _ _ _ _ E Hf) as (R & n & d & T & N0 & F & ->). eauto.
Qed.
End Providers.
Print Assumptions yandex_final_only_if_verified.
Print Assumptions google_final_only_if_verified.

(* non-vacuity: a clean upload on each machine *)
Example yandex_clean : yandex (fun _ => Ok) (fun b => b) (fun a b => if list_eq_dec N.eq_dec a b then true else false) 3
  [CStream 0 [1;2;3]%N; CEof 3 [1;2;3]%N] {| ytemp := None; yfinal := None |} = ({| ytemp := None; yfinal := Some [1;2;3]%N |}, true).
Proof. vm_compute. reflexivity. Qed.
Example google_clean : google (fun _ => Ok) (fun b => b) (fun a b => if list_eq_dec N.eq_dec a b then true else false)
  [CStream 0 [1;2;3]%N; CEof 3 [1;2;3]%N] {| gtemp := None; gfinal := [] |} = ({| gtemp := None; gfinal := [[1;2;3]%N] |}, true).
Proof. vm_compute. reflexivity. Qed.
