(* How the listing classifies the names it finds (storage/traits.rs: group_name_regex = ^D{4}\.D{2}\.D{2}$, name_regex =
   ^(?P<name>D{4}\.D{2}\.D{2}-D{2}:D{2}:D{2})$ with D = an ASCII digit; storage/backup_group.rs: list / read).  Names are byte strings.
   Root:   a name starting with '.' is ignored; a directory whose name is exactly a date is a group; anything else is an unexpected entry.
   Group:  the temporary prefix '.' is stripped first; if the rest is exactly a backup name AND the entry is a directory it is a backup
           (temporary if the prefix was there); otherwise a name starting with '.' that does not have the shape of a backup name is ignored;
           anything else is an unexpected entry - including a FILE that bears a (temporary) backup name. *)
From Coq Require Import List NArith Bool Lia.
Import ListNotations.
Local Open Scope N_scope.

Definition is_ascii_digit (c : N) : bool := (48 <=? c) && (c <=? 57).
Definition DOT := 46. Definition DASH := 45. Definition COLON := 58.

Definition shape_day (s : list N) : bool :=
  match s with
  | [a; b; c; d; p; e; f; q; g; h] =>
      is_ascii_digit a && is_ascii_digit b && is_ascii_digit c && is_ascii_digit d && (p =? DOT) && is_ascii_digit e && is_ascii_digit f && (q =? DOT) && is_ascii_digit g && is_ascii_digit h
  | _ => false
  end.

Definition shape_time (s : list N) : bool :=
  match s with
  | [m; a; b; p; c; d; q; e; f] =>
      (m =? DASH) && is_ascii_digit a && is_ascii_digit b && (p =? COLON) && is_ascii_digit c && is_ascii_digit d && (q =? COLON) && is_ascii_digit e && is_ascii_digit f
  | _ => false
  end.

Definition shape_second (s : list N) : bool := shape_day (firstn 10 s) && shape_time (skipn 10 s).

Definition starts_with_dot (s : list N) : bool := match s with c :: _ => c =? DOT | [] => false end.

Inductive rootcls := NRHidden | NRGroup | NRUnexpected.
Definition classify_root (is_dir : bool) (s : list N) : rootcls :=
  if starts_with_dot s then NRHidden else if is_dir && shape_day s then NRGroup else NRUnexpected.

Inductive entcls := EHidden | EBackup (name : list N) | ETemporary (name : list N) | EUnexpected.
Definition classify_entry (is_dir : bool) (s : list N) : entcls :=
  let stripped := if starts_with_dot s then tl s else s in
  if shape_second stripped then
    (if is_dir then (if starts_with_dot s then ETemporary stripped else EBackup stripped) else EUnexpected)
  else if starts_with_dot s then EHidden else EUnexpected.

(* ---- what the shapes are ---- *)
Lemma shape_day_length : forall s, shape_day s = true -> length s = 10%nat.
Proof.
  intros s H. unfold shape_day in H.
  repeat (destruct s as [|? s]; [discriminate|]). destruct s; [reflexivity|discriminate].
Qed.

Lemma shape_time_length : forall s, shape_time s = true -> length s = 9%nat.
Proof.
  intros s H. unfold shape_time in H.
  repeat (destruct s as [|? s]; [discriminate|]). destruct s; [reflexivity|discriminate].
Qed.

Lemma shape_second_length : forall s, shape_second s = true -> length s = 19%nat.
Proof.
  intros s H. unfold shape_second in H. apply andb_true_iff in H. destruct H as [H1 H2].
  apply shape_day_length in H1. apply shape_time_length in H2.
  rewrite <- (firstn_skipn 10 s), app_length. lia.
Qed.

Definition all_ascii_name_chars (s : list N) : Prop :=
  forall c, In c s -> is_ascii_digit c = true \/ c = DOT \/ c = DASH \/ c = COLON.

Lemma shape_day_chars : forall s, shape_day s = true -> forall c, In c s -> is_ascii_digit c = true \/ c = DOT.
Proof.
  intros s H c Hin. unfold shape_day in H.
  do 10 (destruct s as [|? s]; [discriminate|]). destruct s; [|discriminate].
  do 9 (apply andb_true_iff in H; destruct H as [H ?]).
  repeat match goal with E : (_ =? _) = true |- _ => apply N.eqb_eq in E end.
  cbn [In] in Hin.
  repeat (destruct Hin as [Hin|Hin]; [subst c; first [left; assumption | right; assumption]|]). destruct Hin.
Qed.

(* ---- the statements the seeds C07f / C13e and finding F13 are about ---- *)
Theorem group_name_exact : forall d s, classify_root d s = NRGroup ->
  d = true /\ length s = 10%nat /\ (forall c, In c s -> is_ascii_digit c = true \/ c = DOT).
Proof.
  intros d s H. unfold classify_root in H. destruct (starts_with_dot s); [discriminate|].
  destruct d; cbn [andb] in H; [|discriminate]. destruct (shape_day s) eqn:E; [|discriminate].
  split; [reflexivity|]. split; [apply shape_day_length; exact E | apply shape_day_chars; exact E].
Qed.

(* no proper extension and no proper prefix of a group name is a group name; the same for backups *)
Theorem extended_group_name_is_foreign : forall d s t, t <> [] -> classify_root d s = NRGroup -> classify_root d (s ++ t) <> NRGroup.
Proof.
  intros d s t Ht H H'. apply group_name_exact in H. apply group_name_exact in H'.
  destruct H as (_ & L & _). destruct H' as (_ & L' & _). rewrite app_length in L'. destruct t; [congruence|]. cbn [length] in L'. lia.
Qed.

Theorem backup_name_exact : forall d s n, classify_entry d s = EBackup n ->
  d = true /\ n = s /\ length s = 19%nat /\ starts_with_dot s = false.
Proof.
  intros d s n H. unfold classify_entry in H.
  destruct (starts_with_dot s) eqn:Ed.
  - destruct (shape_second (tl s)); [destruct d; discriminate|discriminate].
  - destruct (shape_second s) eqn:E; [|discriminate]. destruct d; [|discriminate]. inversion H; subst.
    repeat split; auto. apply shape_second_length; exact E.
Qed.

Theorem extended_backup_name_is_unexpected : forall d s t n, t <> [] -> classify_entry d s = EBackup n -> classify_entry d (s ++ t) = EUnexpected.
Proof.
  intros d s t n Ht H. apply backup_name_exact in H. destruct H as (-> & _ & L & Hd).
  assert (Hd' : starts_with_dot (s ++ t) = false).
  { destruct s as [|c s]; [discriminate|]. exact Hd. }
  unfold classify_entry. rewrite Hd'.
  destruct (shape_second (s ++ t)) eqn:E; [|reflexivity].
  apply shape_second_length in E. rewrite app_length in E. destruct t; [congruence|]. cbn [length] in E. lia.
Qed.

Theorem temporary_iff : forall d s n, classify_entry d s = ETemporary n <-> (d = true /\ s = DOT :: n /\ shape_second n = true).
Proof.
  intros d s n. unfold classify_entry. split.
  - destruct (starts_with_dot s) eqn:Ed.
    + destruct s as [|c s]; [discriminate|]. cbn [starts_with_dot] in Ed. apply N.eqb_eq in Ed. subst c. cbn [tl].
      destruct (shape_second s) eqn:E; [|discriminate]. destruct d; [|discriminate]. intros H. inversion H; subst. auto.
    + destruct (shape_second s); [destruct d; discriminate|discriminate].
  - intros (-> & -> & E). cbn [starts_with_dot tl]. rewrite N.eqb_refl, E. reflexivity.
Qed.

(* a name in digits that are not ASCII (every byte of a UTF-8 multi-byte sequence is >= 128) is never a group or a backup *)
Theorem non_ascii_is_foreign : forall d s c, In c s -> 128 <= c ->
  classify_root d s <> NRGroup /\ (forall n, classify_entry d s <> EBackup n).
Proof.
  intros d s c Hin Hc. split.
  - intro H. apply group_name_exact in H. destruct H as (_ & _ & Hch). destruct (Hch c Hin) as [Hd| ->].
    + unfold is_ascii_digit in Hd. apply andb_true_iff in Hd. destruct Hd as [_ Hd]. apply N.leb_le in Hd. lia.
    + unfold DOT in Hc. lia.
  - intros n H. pose proof H as H0. apply backup_name_exact in H. destruct H as (-> & -> & L & Hd).
    unfold classify_entry in H0. rewrite Hd in H0. destruct (shape_second s) eqn:E; [|discriminate].
    unfold shape_second in E. apply andb_true_iff in E. destruct E as [E1 E2].
    rewrite <- (firstn_skipn 10 s) in Hin. apply in_app_or in Hin. destruct Hin as [Hin|Hin].
    + destruct (shape_day_chars _ E1 c Hin) as [Hdg| ->].
      * unfold is_ascii_digit in Hdg. apply andb_true_iff in Hdg. destruct Hdg as [_ Hdg]. apply N.leb_le in Hdg. lia.
      * unfold DOT in Hc. lia.
    + unfold shape_time in E2. remember (skipn 10 s) as r. clear Heqr.
      do 9 (destruct r as [|? r]; [discriminate|]). destruct r; [|discriminate].
      do 8 (apply andb_true_iff in E2; destruct E2 as [E2 ?]).
      repeat match goal with X : (_ =? _) = true |- _ => apply N.eqb_eq in X end.
      repeat match goal with X : is_ascii_digit _ = true |- _ => unfold is_ascii_digit in X; apply andb_true_iff in X; destruct X as [_ X]; apply N.leb_le in X end.
      unfold DASH, COLON in *. cbn [In] in Hin. intuition (subst; lia).
Qed.

(* non-vacuity and the examples of the seeds *)
Example ex_names :
  (* "2020.01.02", "2020.01.02.old", the same name for a file, ".2020.01.02" *)
  classify_root true [50; 48; 50; 48; 46; 48; 49; 46; 48; 50] = NRGroup /\ classify_root true [50; 48; 50; 48; 46; 48; 49; 46; 48; 50; 46; 111; 108; 100] = NRUnexpected /\
  classify_root false [50; 48; 50; 48; 46; 48; 49; 46; 48; 50] = NRUnexpected /\ classify_root true [46; 50; 48; 50; 48; 46; 48; 49; 46; 48; 50] = NRHidden /\
  (* "2020.01.02-10:00:00", with a leading dot, with ".old" appended, a FILE with the temporary name, ".DS_Store" *)
  classify_entry true [50; 48; 50; 48; 46; 48; 49; 46; 48; 50; 45; 49; 48; 58; 48; 48; 58; 48; 48] = EBackup [50; 48; 50; 48; 46; 48; 49; 46; 48; 50; 45; 49; 48; 58; 48; 48; 58; 48; 48] /\
  classify_entry true [46; 50; 48; 50; 48; 46; 48; 49; 46; 48; 50; 45; 49; 48; 58; 48; 48; 58; 48; 48] = ETemporary [50; 48; 50; 48; 46; 48; 49; 46; 48; 50; 45; 49; 48; 58; 48; 48; 58; 48; 48] /\
  classify_entry true [50; 48; 50; 48; 46; 48; 49; 46; 48; 50; 45; 49; 48; 58; 48; 48; 58; 48; 48; 46; 111; 108; 100] = EUnexpected /\ classify_entry false [46; 50; 48; 50; 48; 46; 48; 49; 46; 48; 50; 45; 49; 48; 58; 48; 48; 58; 48; 48] = EUnexpected /\
  classify_entry false [46; 68; 83; 95; 83; 116; 111; 114; 101] = EHidden /\
  (* a date in Arabic-Indic digits (UTF-8) *)
  classify_root true [217; 162; 217; 160; 217; 162; 217; 160; 46; 217; 160; 217; 161; 46; 217; 160; 217; 162] = NRUnexpected.
Proof. vm_compute. repeat split. Qed.
Print Assumptions group_name_exact.
Print Assumptions non_ascii_is_foreign.
