(* PROTOTYPE (round 0): C11 confinement - restoring/util.rs::get_restore_path and get_file_path_from_tar_path *)
From Coq Require Import List Arith NArith Lia Bool.
Import ListNotations.
Require Import Paths.
Open Scope N_scope.

(* every path restore creates lies below the restore directory: it is the directory followed by one or more
   components, none of them empty, ".", ".." or containing a slash *)
Theorem restore_path_below : forall dir s r, restore_path dir s = Some r ->
  exists ps, ps <> [] /\ Forall good_part ps /\ r = dir ++ SL :: join ps.
Proof.
  intros dir s r H. unfold restore_path, components in H.
  destruct (has_root s).
  - cbn [app] in H. destruct (normals (flat_map part_comp (split s))) as [[|p ps]|] eqn:En; try discriminate.
    inversion H; subst r. exists (p :: ps). split; [discriminate|]. split; [|reflexivity].
    apply (normals_good _ _ (split_noslash s) En).
  - destruct (leading_cur s); cbn [app] in H; [discriminate|].
    pose proof (no_root_head (split s)) as Hn. destruct (flat_map part_comp (split s)) as [|c cs]; [discriminate|].
    destruct c; try discriminate. destruct Hn.
Qed.

(* a manifest path that is relative is rejected *)
Theorem restore_path_relative_rejected : forall dir s, has_root s = false -> restore_path dir s = None.
Proof.
  intros dir s H. unfold restore_path, components. rewrite H.
  destruct (leading_cur s); cbn [app]; [reflexivity|].
  pose proof (no_root_head (split s)) as Hn. destruct (flat_map part_comp (split s)) as [|c cs]; [reflexivity|].
  destruct c; try reflexivity. destruct Hn.
Qed.

Lemma normals_parent : forall a b, normals (a ++ Parent :: b) = None.
Proof. induction a as [|c a IH]; intro b; cbn [app normals]; [reflexivity|]. destruct c; auto. now rewrite IH. Qed.

Lemma flat_map_parent : forall parts, In [DOT; DOT] parts -> exists a b, flat_map part_comp parts = a ++ Parent :: b.
Proof.
  induction parts as [|p parts IH]; intro Hin; [destruct Hin|]. destruct Hin as [E|Hin].
  - subst p. exists [], (flat_map part_comp parts). reflexivity.
  - destruct (IH Hin) as (a & b & E). exists (part_comp p ++ a), b. cbn [flat_map]. now rewrite E, app_assoc.
Qed.

(* a path with a ".." component is rejected, wherever the component stands *)
Theorem restore_path_dotdot_rejected : forall dir s, In [DOT; DOT] (split s) -> restore_path dir s = None.
Proof.
  intros dir s H. unfold restore_path, components. destruct (flat_map_parent _ H) as (a & b & E). rewrite E.
  destruct (has_root s); [cbn [app]; now rewrite normals_parent|].
  destruct (leading_cur s); [reflexivity|]. cbn [app]. pose proof (no_root_head (split s)) as Hn. rewrite E in Hn.
  destruct a as [|c a]; [reflexivity|]. destruct c; try reflexivity. destruct Hn.
Qed.

Theorem tar_path_dotdot_rejected : forall s, In [DOT; DOT] (split s) -> file_path_from_tar s = None.
Proof.
  intros s H. unfold file_path_from_tar, components. destruct (flat_map_parent _ H) as (a & b & E). rewrite E.
  destruct (has_root s); [reflexivity|]. destruct (leading_cur s); [reflexivity|]. cbn [app]. now rewrite normals_parent.
Qed.

(* an archive member whose path is absolute is rejected *)
Theorem tar_path_absolute_rejected : forall s, has_root s = true -> file_path_from_tar s = None.
Proof. intros s H. unfold file_path_from_tar, components. rewrite H. reflexivity. Qed.

(* an accepted archive path becomes "/" + good components, and restoring it lands below the restore directory *)
Theorem tar_path_restores_below : forall dir s r, file_path_from_tar s = Some r ->
  exists ps, ps <> [] /\ Forall good_part ps /\ r = SL :: join ps /\ restore_path dir r = Some (dir ++ SL :: join ps).
Proof.
  intros dir s r H. unfold file_path_from_tar, components in H.
  destruct (has_root s); [discriminate|]. destruct (leading_cur s); [discriminate|]. cbn [app] in H.
  destruct (normals (flat_map part_comp (split s))) as [[|p ps]|] eqn:En; try discriminate. injection H as <-.
  destruct (normals_good _ _ (split_noslash s) En) as [Hg Hfm].
  exists (p :: ps). split; [discriminate|]. split; [exact Hg|]. split; [reflexivity|].
  unfold restore_path, components. cbn [has_root]. rewrite N.eqb_refl. cbn [app].
  assert (Hsp : split (SL :: join (p :: ps)) = [] :: (p :: ps)).
  { cbn [split]. rewrite N.eqb_refl. f_equal. apply split_join; [|discriminate].
    eapply Forall_impl; [|exact Hg]. intros a (_ & _ & _ & Ha). exact Ha. }
  change (match ps with [] => p | _ :: _ => p ++ SL :: join ps end) with (join (p :: ps)).
  rewrite Hsp. change (flat_map part_comp ([] :: p :: ps)) with (part_comp [] ++ flat_map part_comp (p :: ps)).
  cbn [part_comp app]. rewrite Hfm, normals_map. reflexivity.
Qed.
Print Assumptions restore_path_below.
Print Assumptions tar_path_restores_below.
