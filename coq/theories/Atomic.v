(* PROTOTYPE (round 0): C03 core on the same op model - under process kills the file system keeps its volatile state,
   so what matters is that a published (final-named) backup object never changes again *)
From Coq Require Import List Arith NArith Lia Bool.
Import ListNotations.
Require Import Durable DurableProof.

Definition same_content (d d' : dobj) : Prop :=
  exists_v (fmeta d') = exists_v (fmeta d) /\ vlen (fmeta d') = vlen (fmeta d) /\
  exists_v (fdata d') = exists_v (fdata d) /\ vlen (fdata d') = vlen (fdata d) /\ pub d' = pub d.

Lemma step_stable : forall s o s', INV s -> check s o = true -> step s o = Some s' ->
  forall id d, oget id (objs s) = Some d -> pub d = true -> exists d', oget id (objs s') = Some d' /\ same_content d d'.
Proof.
  intros s o s' I Hc Hs id d Hd Hp.
  assert (Hself : same_content d d) by (repeat split; auto).
  destruct o as [n|n f|n f k|n f|n|a b| |n| |]; cbn [step] in Hs; cbn [check] in Hc.
  - destruct (lookup n (gv s)); [discriminate|]. inversion Hs; subst s'. cbn [objs].
    exists d. split; auto. rewrite oget_oset_other; auto. pose proof (J6 s I id d Hd). lia.
  - unfold pubof in Hc. destruct (lookup n (gv s)) as [i|]; [|discriminate]. destruct (oget i (objs s)) as [di|] eqn:Ei; [|discriminate].
    destruct (exists_v (getf di f)); [discriminate|]. inversion Hs; subst s'. cbn [objs]. apply negb_true_iff in Hc.
    exists d. split; auto. rewrite oget_oset_other; auto. intro; subst i. congruence.
  - unfold pubof in Hc. destruct (lookup n (gv s)) as [i|]; [|discriminate]. destruct (oget i (objs s)) as [di|] eqn:Ei; [|discriminate].
    destruct (negb (exists_v (getf di f))); [discriminate|]. inversion Hs; subst s'. cbn [objs]. apply negb_true_iff in Hc.
    exists d. split; auto. rewrite oget_oset_other; auto. intro; subst i. congruence.
  - destruct (lookup n (gv s)) as [i|]; [|discriminate]. destruct (oget i (objs s)) as [di|] eqn:Ei; [|discriminate].
    destruct (negb (exists_v (getf di f))) eqn:Ee; [discriminate|]. inversion Hs; subst s'. cbn [objs].
    destruct (Nat.eq_dec id i) as [->|Hne]; [|exists d; split; auto; rewrite oget_oset_other; auto].
    rewrite Ei in Hd. inversion Hd; subst di. eexists. split; [apply oget_oset_same|].
    apply negb_false_iff in Ee. destruct f; cbn [setf getf fmeta fdata pub exists_v vlen] in *; repeat split; auto.
  - destruct (lookup n (gv s)) as [i|]; [|discriminate]. destruct (oget i (objs s)) as [di|] eqn:Ei; [|discriminate]. inversion Hs; subst s'. cbn [objs].
    destruct (Nat.eq_dec id i) as [->|Hne]; [|exists d; split; auto; rewrite oget_oset_other; auto].
    rewrite Ei in Hd. inversion Hd; subst di. eexists. split; [apply oget_oset_same|]. repeat split; auto.
  - destruct (lookup a (gv s)) as [i|]; [|discriminate]. destruct (lookup b (gv s)); [discriminate|].
    destruct (oget i (objs s)) as [di|] eqn:Ei; [|discriminate]. inversion Hs; subst s'. cbn [objs].
    destruct (Nat.eq_dec id i) as [->|Hne]; [|exists d; split; auto; rewrite oget_oset_other; auto].
    rewrite Ei in Hd. inversion Hd; subst di. eexists. split; [apply oget_oset_same|]. repeat split; auto.
  - inversion Hs; subst. eauto.
  - destruct (lookup n (gv s)); [|discriminate]. inversion Hs; subst. cbn [objs]. eauto.
  - inversion Hs; subst. eauto.
  - inversion Hs; subst. eauto.
Qed.

Lemma same_content_trans : forall a b c, same_content a b -> same_content b c -> same_content a c.
Proof. intros a b c (A1 & A2 & A3 & A4 & A5) (B1 & B2 & B3 & B4 & B5). repeat split; congruence. Qed.

(* C03: whatever prefix of an accepted trace has been executed when the process is killed, every backup that was
   published before that point has exactly the content it has at the end of the run (and pre-existing backups are unchanged) *)
Theorem published_never_changes : forall ops s s', INV s -> run s ops = Some s' ->
  forall id d, oget id (objs s) = Some d -> pub d = true -> exists d', oget id (objs s') = Some d' /\ same_content d d'.
Proof.
  induction ops as [|o ops IH]; intros s s' I Hr id d Hd Hp; cbn [run] in Hr.
  - inversion Hr; subst. exists d. split; auto. repeat split; auto.
  - destruct (check s o) eqn:Hc; [|discriminate]. destruct (step s o) as [s1|] eqn:Hs; [|discriminate].
    destruct (step_stable _ _ _ I Hc Hs id d Hd Hp) as (d1 & Hd1 & Hsc1).
    assert (Hp1 : pub d1 = true) by (destruct Hsc1 as (_ & _ & _ & _ & E); congruence).
    destruct (IH _ _ (step_INV _ _ _ I Hc Hs) Hr id d1 Hd1 Hp1) as (d' & Hd' & Hsc').
    exists d'. split; auto. eapply same_content_trans; eauto.
Qed.
Print Assumptions published_never_changes.
