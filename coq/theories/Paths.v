(* PROTOTYPE (round 0): std::path::Path::components on unix, config.rs::validate_path, restoring/util.rs path checks *)
From Coq Require Import List Arith NArith Lia Bool.
Import ListNotations.
Open Scope N_scope.

Definition SL := 47. Definition DOT := 46.
Fixpoint list_eqb (a b : list N) : bool :=
  match a, b with [], [] => true | x :: a', y :: b' => (x =? y) && list_eqb a' b' | _, _ => false end.

(* split at '/' : always returns at least one (possibly empty) part *)
Fixpoint split (s : list N) : list (list N) :=
  match s with
  | [] => [[]]
  | c :: r => if c =? SL then [] :: split r
              else match split r with p :: ps => (c :: p) :: ps | [] => [[c]] end
  end.

Inductive comp := Root | Cur | Parent | Normal (s : list N).
Definition has_root (s : list N) := match s with c :: _ => c =? SL | [] => false end.
Definition is_dot (p : list N) := list_eqb p [DOT].
Definition is_dotdot (p : list N) := list_eqb p [DOT; DOT].
(* a relative path that starts with "." followed by '/' or the end yields a leading CurDir *)
Definition leading_cur (s : list N) := match s with [c] => c =? DOT | c :: d :: _ => (c =? DOT) && (d =? SL) | [] => false end.
Definition part_comp (p : list N) : list comp :=
  match p with [] => [] | _ => if is_dot p then [] else if is_dotdot p then [Parent] else [Normal p] end.
Definition components (s : list N) : list comp :=
  (if has_root s then [Root] else if leading_cur s then [Cur] else []) ++ flat_map part_comp (split s).

(* config.rs::validate_path: Some normalised path, or None *)
Fixpoint normals (cs : list comp) : option (list (list N)) :=
  match cs with
  | [] => Some []
  | Normal p :: r => option_map (cons p) (normals r)
  | _ => None
  end.
Fixpoint join (ps : list (list N)) : list N := match ps with [] => [] | [p] => p | p :: r => p ++ SL :: join r end.
Definition validate_path (s : list N) : option (list N) :=
  match components s with
  | Root :: r => option_map (fun ps => SL :: join ps) (normals r)
  | _ => None
  end.
(* restoring/util.rs *)
Definition restore_path (dir s : list N) : option (list N) :=
  match components s with
  | Root :: r => match normals r with Some (p :: ps) => Some (dir ++ SL :: join (p :: ps)) | _ => None end
  | _ => None
  end.
Definition file_path_from_tar (s : list N) : option (list N) :=
  match normals (components s) with Some (p :: ps) => Some (SL :: join (p :: ps)) | _ => None end.

Definition enc_comp (c : comp) : list N := match c with Root => [1] | Cur => [2] | Parent => [3] | Normal p => 4 :: N.of_nat (length p) :: p end.

(* ---------------- facts ---------------- *)
Definition noslash (p : list N) := forallb (fun c => negb (c =? SL)) p.
Definition good_part (p : list N) : Prop := p <> [] /\ is_dot p = false /\ is_dotdot p = false /\ noslash p = true.

Lemma split_noslash : forall s, Forall (fun p => noslash p = true) (split s).
Proof.
  induction s as [|c s IH]; cbn [split]; [repeat constructor|].
  destruct (N.eqb_spec c SL) as [->|Hne]; [constructor; [reflexivity|exact IH]|].
  destruct (split s) as [|p ps]; [repeat constructor; cbn; apply N.eqb_neq in Hne; now rewrite Hne|].
  inversion IH; subst. constructor; auto. cbn [noslash forallb]. apply N.eqb_neq in Hne. now rewrite Hne.
Qed.

Lemma split_join : forall ps, Forall (fun p => noslash p = true) ps -> ps <> [] -> split (join ps) = ps.
Proof.
  induction ps as [|p ps IH]; intros Hf Hne; [congruence|]. inversion Hf as [|? ? Hp Hps]; subst.
  destruct ps as [|q ps'].
  - cbn [join]. clear IH Hf Hne Hps. induction p as [|c p IHp]; [reflexivity|]. cbn [noslash forallb] in Hp.
    apply andb_true_iff in Hp as [Hc Hp]. apply negb_true_iff in Hc. cbn [split]. rewrite Hc. rewrite (IHp Hp). reflexivity.
  - change (join (p :: q :: ps')) with (p ++ SL :: join (q :: ps')). specialize (IH Hps ltac:(discriminate)).
    clear Hf Hne. induction p as [|c p IHp].
    + cbn [app split]. rewrite N.eqb_refl. now rewrite IH.
    + cbn [noslash forallb] in Hp. apply andb_true_iff in Hp as [Hc Hp]. apply negb_true_iff in Hc. cbn [app split]. rewrite Hc.
      rewrite (IHp Hp). reflexivity.
Qed.

Lemma normals_good : forall parts ps, Forall (fun p => noslash p = true) parts -> normals (flat_map part_comp parts) = Some ps ->
  Forall good_part ps /\ flat_map part_comp ps = map Normal ps.
Proof.
  induction parts as [|p parts IH]; intros ps Hf Hn; cbn [flat_map] in Hn.
  - inversion Hn; subst. split; constructor.
  - inversion Hf as [|? ? Hp Hps]; subst. unfold part_comp in Hn at 1. destruct p as [|c p']; [cbn [app] in Hn; eauto|].
    destruct (is_dot (c :: p')) eqn:Ed; [cbn [app] in Hn; eauto|]. destruct (is_dotdot (c :: p')) eqn:Edd; [cbn in Hn; discriminate|].
    cbn [app normals] in Hn. destruct (normals (flat_map part_comp parts)) as [ps0|] eqn:En; [|discriminate]. inversion Hn; subst.
    destruct (IH ps0 Hps eq_refl) as [A B]. split.
    + constructor; auto. repeat split; auto. discriminate.
    + cbn [flat_map map]. unfold part_comp at 1. rewrite Ed, Edd. cbn [app]. now rewrite B.
Qed.

Lemma normals_map : forall ps, normals (map Normal ps) = Some ps.
Proof. induction ps as [|p ps IH]; cbn; [reflexivity|]. now rewrite IH. Qed.

Lemma no_root_head : forall parts, match flat_map part_comp parts with Root :: _ => False | _ => True end.
Proof.
  induction parts as [|p parts IH]; cbn [flat_map]; [exact I|]. unfold part_comp at 1. destruct p as [|c p']; [exact IH|].
  destruct (is_dot (c :: p')); [exact IH|]. destruct (is_dotdot (c :: p')); exact I.
Qed.

(* C20: normalisation is idempotent - a normalised path is its own normal form *)
Theorem validate_path_idem : forall s r, validate_path s = Some r -> validate_path r = Some r.
Proof.
  intros s r Hv. unfold validate_path, components in Hv. destruct (has_root s); [|destruct (leading_cur s); cbn in Hv; [discriminate|]].
  - cbn [app] in Hv. destruct (normals (flat_map part_comp (split s))) as [ps|] eqn:En; [|discriminate]. inversion Hv; subst r. clear Hv.
    destruct (normals_good _ _ (split_noslash s) En) as [Hg Hfm].
    unfold validate_path, components. cbn [has_root]. rewrite N.eqb_refl. cbn [app].
    destruct ps as [|p ps'].
    + cbn [join split]. rewrite N.eqb_refl. cbn. reflexivity.
    + assert (Hsp : split (SL :: join (p :: ps')) = [] :: (p :: ps')).
      { cbn [split]. rewrite N.eqb_refl. f_equal. apply split_join; [|discriminate].
        eapply Forall_impl; [|exact Hg]. intros a (_ & _ & _ & Ha). exact Ha. }
      rewrite Hsp. change (flat_map part_comp ([] :: p :: ps')) with (part_comp [] ++ flat_map part_comp (p :: ps')).
      cbn [part_comp app]. rewrite Hfm, normals_map. reflexivity.
  - pose proof (no_root_head (split s)) as Hn. destruct (flat_map part_comp (split s)) as [|c cs]; [discriminate|]. destruct c; try discriminate. destruct Hn.
Qed.

(* accepted paths never contain "." or ".." or empty components, whatever spelling was given *)
Theorem validate_path_parts : forall s r, validate_path s = Some r ->
  exists ps, r = SL :: join ps /\ Forall good_part ps.
Proof.
  intros s r Hv. unfold validate_path, components in Hv. destruct (has_root s); [|destruct (leading_cur s); cbn in Hv; [discriminate|]].
  - cbn [app] in Hv. destruct (normals (flat_map part_comp (split s))) as [ps|] eqn:En; [|discriminate]. inversion Hv; subst r.
    exists ps. split; [reflexivity|]. apply (normals_good _ _ (split_noslash s) En).
  - pose proof (no_root_head (split s)) as Hn. destruct (flat_map part_comp (split s)) as [|c cs]; [discriminate|]. destruct c; try discriminate. destruct Hn.
Qed.
Print Assumptions validate_path_idem.
