(* PROTOTYPE (round 0): the walk-order premise of C01 - in the events of an unfaulted walk every entry's parent
   directory comes earlier, and no path occurs twice *)
From Coq Require Import List Arith NArith Lia Bool.
Import ListNotations.
Require Import Walker WalkerFaults.

Definition ev_path (e : ev) : rpath :=
  match e with EvDir p | EvFile p _ | EvSym p _ | EvError p | EvWarn p | EvAbort p => p end.
Definition is_arch (e : ev) : bool := match e with EvDir _ | EvFile _ _ | EvSym _ _ => true | _ => false end.

Lemma app_split_mid : forall (A : Type) (a b pre : list A) e suf, a ++ b = pre ++ e :: suf ->
  (exists pre2, pre = a ++ pre2 /\ b = pre2 ++ e :: suf) \/ (exists suf2, a = pre ++ e :: suf2 /\ suf = suf2 ++ b).
Proof.
  intros A a. induction a as [|x a IH]; intros b pre e suf E.
  - left. exists pre. auto.
  - destruct pre as [|y pre]; cbn [app] in E; inversion E; subst.
    + right. exists a. auto.
    + destruct (IH _ _ _ _ H1) as [(pre2 & -> & ->)|(suf2 & -> & ->)]; [left; exists pre2; auto | right; exists suf2; auto].
Qed.

Section O.
Variable allow : rpath -> option bool.

(* all events of an unfaulted walk are archive entries, below (or at) the root of the walk *)
Lemma walk_ff_events : forall n, FaultFree n -> forall rel top e, In e (fst (walk allow n rel top)) ->
  (is_arch e = true \/ exists p, e = EvError p) /\ exists q, ev_path e = rel ++ q.
Proof.
  induction n using node_ind'; intros HF rel top e He; inversion HF as [| |cs0 FFcs ND]; subst.
  - cbn in He. destruct He as [<-|[]]. split; [now left|]. exists []. now rewrite app_nil_r.
  - cbn in He. destruct He as [<-|[]]. split; [now left|]. exists []. now rewrite app_nil_r.
  - rewrite walk_dir in He. cbn [fst] in He. rewrite (kids_flat allow cs rel FFcs) in He. cbn [fst] in He.
    destruct He as [<-|He]; [split; [now left|]; exists []; now rewrite app_nil_r|].
    apply in_concat in He as (l & Hl & He). apply in_map_iff in Hl as ([nm c] & <- & Hin). unfold child_events in He. cbn [fst snd] in He.
    rewrite Forall_forall in H, FFcs. destruct (allow (rel ++ [nm])) as [[|]|].
    + destruct (H (nm, c) Hin (FFcs (nm, c) Hin) (rel ++ [nm]) false e He) as (A & q & B). split; auto. exists (nm :: q). now rewrite B, <- app_assoc.
    + destruct He.
    + destruct He as [<-|[]]. split; [right; eauto|]. exists [nm]. reflexivity.
Qed.

(* C01's walk-order premise: the parent of every entry other than the root of the walk is a directory entry that comes earlier *)
Theorem walk_parents : forall n, FaultFree n -> forall rel top pre e suf,
  fst (walk allow n rel top) = pre ++ e :: suf -> is_arch e = true ->
  ev_path e = rel \/ In (EvDir (removelast (ev_path e))) pre.
Proof.
  induction n using node_ind'; intros HF rel top pre e suf E Ha; inversion HF as [| |cs0 FFcs ND]; subst.
  - cbn in E. destruct pre as [|x pre]; inversion E; subst; [now left | destruct pre; discriminate].
  - cbn in E. destruct pre as [|x pre]; inversion E; subst; [now left | destruct pre; discriminate].
  - rewrite walk_dir in E. cbn [fst] in E. rewrite (kids_flat allow cs rel FFcs) in E. cbn [fst] in E.
    destruct pre as [|x pre]; inversion E as [[E1 E2]]; [now left|]. subst x. right.
    (* locate e inside the events of one child *)
    clear E. revert pre E2. rewrite Forall_forall in H. 
    assert (Hgen : forall cs1, (forall x, In x cs1 -> In x cs) -> forall pre, concat (map (child_events allow rel) cs1) = pre ++ e :: suf ->
                   In (EvDir (removelast (ev_path e))) (EvDir rel :: pre)).
    { induction cs1 as [|[nm c] cs1 IHc]; intros Hsub pre0 E0; cbn [map concat] in E0; [destruct pre0; discriminate|].
      assert (Hin : In (nm, c) cs) by (apply Hsub; now left). rewrite Forall_forall in FFcs.
      destruct (app_split_mid _ _ _ _ _ _ E0) as [(pre2 & Ep & Ec)|(suf2 & Ece2 & _)].
      - (* e lies in a later child *)
        destruct (IHc (fun x Hx => Hsub x (or_intror Hx)) _ Ec) as [A|A]; [now left|].
        right. rewrite Ep. apply in_or_app. now right.
      - (* e lies in this child's events *)
        unfold child_events in Ece2. cbn [fst snd] in Ece2.
        destruct (allow (rel ++ [nm])) as [[|]|].
        + destruct (H (nm, c) Hin (FFcs (nm, c) Hin) (rel ++ [nm]) false pre0 e _ Ece2 Ha) as [A|A].
          * left. rewrite A. now rewrite removelast_last.
          * right. exact A.
        + destruct pre0; discriminate.
        + destruct pre0 as [|y pre1]; inversion Ece2; subst; [discriminate | destruct pre1; discriminate]. }
    intros pre E2. destruct (Hgen cs (fun x Hx => Hx) pre E2) as [A|A]; [left; exact A | right; exact A].
Qed.

Lemma NoDup_app_intro' : forall (A : Type) (a b : list A), NoDup a -> NoDup b -> (forall x, In x a -> In x b -> False) -> NoDup (a ++ b).
Proof.
  intros A a b Ha Hb Hd. induction a as [|x a IH]; cbn; auto. inversion Ha as [|? ? Hx Ha']; subst. constructor.
  - intro Hc. apply in_app_or in Hc as [Hc|Hc]; [contradiction | eapply Hd; eauto; now left].
  - apply IH; auto. intros y Hy1 Hy2. eapply Hd; eauto. now right.
Qed.

(* no path is reported twice (the other half of the walk-order premise) *)
Theorem walk_nodup : forall n, FaultFree n -> forall rel top, NoDup (map ev_path (fst (walk allow n rel top))).
Proof.
  induction n using node_ind'; intros HF rel top; inversion HF as [| |cs0 FFcs ND]; subst.
  - cbn. constructor; [intros []|constructor].
  - cbn. constructor; [intros []|constructor].
  - rewrite walk_dir. cbn [fst]. rewrite (kids_flat allow cs rel FFcs). cbn [fst map ev_path]. constructor.
    + (* the directory's own path is not below itself *)
      intro Hc. apply in_map_iff in Hc as (e & Ee & He). apply in_concat in He as (l & Hl & He). apply in_map_iff in Hl as ([nm c] & <- & Hin).
      unfold child_events in He. cbn [fst snd] in He. rewrite Forall_forall in FFcs.
      assert (Hq : exists q, ev_path e = (rel ++ [nm]) ++ q).
      { destruct (allow (rel ++ [nm])) as [[|]|]; [destruct (walk_ff_events c (FFcs (nm, c) Hin) _ _ e He) as (_ & q & Hq); eauto | destruct He | destruct He as [<-|[]]; exists []; cbn; now rewrite app_nil_r]. }
      destruct Hq as (q & Hq). rewrite Ee, <- app_assoc in Hq. rewrite <- (app_nil_r rel) in Hq at 1. apply app_inv_head in Hq. discriminate.
    + (* children: each is duplicate-free and different children live under different names *)
      rewrite Forall_forall in H, FFcs. clear HF. induction cs as [|[nm c] cs IHc]; [constructor|].
      cbn [map concat]. rewrite map_app. inversion ND as [|? ? Hnm ND']; subst.
      apply NoDup_app_intro'.
      * unfold child_events. cbn [fst snd]. destruct (allow (rel ++ [nm])) as [[|]|]; [apply (H (nm, c) (or_introl eq_refl) (FFcs (nm, c) (or_introl eq_refl))) | constructor | cbn; constructor; [intros []|constructor]].
      * apply IHc; auto; intros x Hx; [apply H | apply FFcs]; now right.
      * intros p Hp1 Hp2. apply in_map_iff in Hp1 as (e1 & E1 & He1). apply in_map_iff in Hp2 as (e2 & E2 & He2).
        assert (Hq1 : exists q, p = (rel ++ [nm]) ++ q).
        { unfold child_events in He1. cbn [fst snd] in He1. destruct (allow (rel ++ [nm])) as [[|]|];
            [destruct (walk_ff_events c (FFcs (nm, c) (or_introl eq_refl)) _ _ e1 He1) as (_ & q & Hq); exists q; congruence | destruct He1 | destruct He1 as [<-|[]]; exists []; cbn in *; now rewrite app_nil_r]. }
        apply in_concat in He2 as (l & Hl & He2). apply in_map_iff in Hl as ([nm2 c2] & <- & Hin2).
        assert (Hq2 : exists q, p = (rel ++ [nm2]) ++ q).
        { unfold child_events in He2. cbn [fst snd] in He2. destruct (allow (rel ++ [nm2])) as [[|]|];
            [destruct (walk_ff_events c2 (FFcs (nm2, c2) (or_intror Hin2)) _ _ e2 He2) as (_ & q & Hq); exists q; congruence | destruct He2 | destruct He2 as [<-|[]]; exists []; cbn in *; now rewrite app_nil_r]. }
        destruct Hq1 as (q1 & Hq1). destruct Hq2 as (q2 & Hq2). rewrite Hq1, <- !app_assoc in Hq2. apply app_inv_head in Hq2. inversion Hq2; subst nm2.
        apply Hnm. apply in_map_iff. exists (nm, c2). auto.
Qed.
End O.
Print Assumptions walk_parents.
Print Assumptions walk_nodup.
