(* C17, data half for an UNLIMITED request size (Yandex Disk, Google Drive: max_request_size = None):
   the whole stream goes into one body announced at offset 0 - or no body at all for an empty stream - followed by the
   finalisation with the total size and the checksum. *)
From Coq Require Import List Arith NArith ZArith Lia Bool ZifyBool ZifyNat.
Require Import Chunk Splitter.
Import ListNotations.

Definition one_body (o : nat) (d : list N) : list (nat * list N) := match d with [] => [] | _ => [(o, d)] end.
Definition G1 (s : st) (cur : option (nat * list N)) (x : list N) := one_body (cstart s cur) (cbytes cur ++ x).
Definition Inv1 (s : st) (cur : option (nat * list N)) : Prop :=
  match cur with
  | Some (o, b) => open s = true /\ b <> [] /\ o + length b = off s
  | None => open s = false
  end.

Lemma one_body_app : forall o b x, b <> [] -> one_body o (b ++ x) = [(o, b ++ x)].
Proof. intros o b x Hb. destruct b; [congruence|reflexivity]. Qed.

Lemma block_none : forall f s d cur, d <> [] -> Inv1 s cur -> 2 <= budget s ->
  exists s' e cur', block (S f) None s d = (Some (s', e), false) /\ Inv1 s' cur' /\
    off s' = off s + length d /\ budget s - budget s' <= 2 /\
    forall es x, bodies_aux cur' es = G1 s' cur' x -> bodies_aux cur (e ++ es) = G1 s cur (d ++ x).
Proof.
  intros f s d cur Hd HI Hb. rewrite block_unfold by exact Hd. cbv zeta. unfold send.
  destruct cur as [[o b]|]; cbn [Inv1] in HI.
  - destruct HI as (Ho & Hne & Hoff). rewrite Ho.
    destruct (budget s) as [|bud] eqn:Eb; [lia|]. rewrite Nat.leb_refl.
    eexists _, _, (Some (o, b ++ d)). split; [reflexivity|]. cbn [Inv1 open off budget ssize].
    rewrite app_length. split; [|split; [lia|split; [lia|]]].
    + split; [reflexivity|]. split; [destruct b; [congruence|discriminate]|lia].
    + intros es x Hes. cbn [app bodies_aux]. rewrite Hes. unfold G1, cstart, cbytes. now rewrite <- app_assoc.
  - rewrite HI. destruct (budget s) as [|bud] eqn:Eb; [lia|]. cbn [ssize off budget open].
    destruct bud as [|bud']; [lia|]. rewrite Nat.leb_refl.
    eexists _, _, (Some (off s, d)). split; [reflexivity|]. cbn [Inv1 open off budget ssize].
    split; [|split; [lia|split; [lia|]]].
    + split; [reflexivity|]. split; [exact Hd|lia].
    + intros es x Hes. cbn [app bodies_aux]. rewrite Hes. unfold G1, cstart, cbytes. reflexivity.
Qed.

Lemma run_none : forall sum blocks s cur,
  Inv1 s cur -> 2 * length blocks + 1 <= budget s ->
  exists es0, run None s (map Payload blocks ++ [Eof sum]) =
                (es0 ++ [EEof (off s + length (concat blocks)) sum], ROk) /\
              bodies_aux cur (es0 ++ [EEof (off s + length (concat blocks)) sum]) = G1 s cur (concat blocks).
Proof.
  intros sum blocks. induction blocks as [|d blocks IH]; intros s cur HI Hb.
  - cbn [map app run concat length]. unfold send. destruct (budget s) as [|b] eqn:Eb; [cbn in Hb; lia|].
    exists (close_if_open s). rewrite Nat.add_0_r. split; [reflexivity|].
    unfold G1, cstart, cbytes, close_if_open. destruct cur as [[o b0]|]; cbn [Inv1] in HI.
    + destruct HI as (Ho & Hne & Hoff). rewrite Ho. cbn [app bodies_aux]. rewrite app_nil_r.
      destruct b0; [congruence|reflexivity].
    + rewrite HI. reflexivity.
  - cbn [map app run concat]. cbn [length] in Hb.
    destruct d as [|a d'].
    + (* an empty payload block: nothing is sent *)
      cbn [block length Nat.mul Nat.add]. destruct (IH s cur HI) as (es0 & Hrun & Hbod); [lia|].
      rewrite Hrun. exists es0. cbn [app length]. split; [reflexivity|exact Hbod].
    + remember (a :: d') as d eqn:Ed. assert (Hd : d <> []) by (subst d; discriminate).
      assert (Hf : 2 * length d + 2 = S (2 * length d + 1)) by lia. rewrite Hf.
      destruct (block_none (2 * length d + 1) s d cur Hd HI) as (s1 & e1 & cur1 & Hblk & HI1 & Hoff1 & Hbud1 & Hbod1); [lia|].
      rewrite Hblk. destruct (IH s1 cur1 HI1) as (es0 & Hrun & Hbod); [lia|].
      rewrite Hrun. exists (e1 ++ es0). rewrite app_length, Hoff1, <- Nat.add_assoc, <- app_assoc.
      split; [reflexivity|]. apply Hbod1. rewrite Hoff1, <- Nat.add_assoc in Hbod. exact Hbod.
Qed.

Theorem splitter_unlimited : forall blocks sum budget0,
  2 * length blocks + 1 <= budget0 ->
  exists es0, splitter None budget0 (map Payload blocks ++ [Eof sum]) =
                (es0 ++ [EEof (length (concat blocks)) sum], ROk) /\
              bodies (es0 ++ [EEof (length (concat blocks)) sum]) = one_body 0 (concat blocks).
Proof.
  intros blocks sum budget0 Hb. unfold splitter, bodies.
  destruct (run_none sum blocks {| open := false; ssize := 0; off := 0; budget := budget0 |} None) as (es0 & Hrun & Hbod);
    [reflexivity | exact Hb |].
  exists es0. cbn [off] in *. rewrite Nat.add_0_l in *. split; [exact Hrun | exact Hbod].
Qed.
Print Assumptions splitter_unlimited.

(* a message after the terminal one is an error of the sending side (the terminal event has been delivered) *)
Theorem extra_message_error : forall max s t m ms, budget s >= 1 ->
  (exists sum, t = Eof sum) \/ (exists x, t = MErr x) ->
  snd (run max s (t :: m :: ms)) = RExtraMessage.
Proof.
  intros max s t m ms Hb [[sum ->]|[x ->]]; cbn [run]; unfold send; destruct (budget s); try lia; reflexivity.
Qed.
