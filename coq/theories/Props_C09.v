(* C09 — content is stored at most once per group and unchanged files are not re-read. *)
From Coq Require Import List Arith NArith ZArith Lia Bool Permutation.
Import ListNotations.
Require Import Restore2 C01e C09 FileReader AddFileDyn AddFileReads.

(* one more run keeps the group's `unique` hashes duplicate-free - a line is unique only for content the group does not
   store yet - and never marks an empty file unique *)
Theorem C09_run_stores_once : forall g name ws, NoDup (known_of g) ->
  NoDup (known_of (g ++ [C01e.run g name ws])) /\
  (forall l, In l (b_manifest (fst (C01e.run g name ws))) -> l_unique l = true -> l_size l <> 0%N).
Proof. exact run_stores_once. Qed.
Check C09_run_stores_once : forall g name ws, NoDup (known_of g) ->
  NoDup (known_of (g ++ [C01e.run g name ws])) /\
  (forall l, In l (b_manifest (fst (C01e.run g name ws))) -> l_unique l = true -> l_size l <> 0%N).

(* read passes: add_file on a file of declared size 0, or with the fingerprint (and size) of the previous backup's
   record, returns its extern record without evaluating the reader at all - the result does not depend on the reader *)
Theorem C09_unchanged_not_read :
  forall (S : Type) (rd rd' : S -> nat -> option (list N) * S) (rewind : S -> S) (bz1 bz2 : nat -> nat)
         (hash : Type) (Hh : list N -> hash) (known : hash -> bool) (EMPTY : hash) s s' declared h,
  AddFileDyn.add_file S rd rewind bz1 bz2 hash Hh known EMPTY s declared (Some h) =
  AddFileDyn.add_file S rd' rewind bz1 bz2 hash Hh known EMPTY s' declared (Some h) /\
  AddFileDyn.add_file S rd rewind bz1 bz2 hash Hh known EMPTY s 0 None = Extern hash EMPTY 0.
Proof. exact unchanged_not_read. Qed.
Check C09_unchanged_not_read :
  forall (S : Type) (rd rd' : S -> nat -> option (list N) * S) (rewind : S -> S) (bz1 bz2 : nat -> nat)
         (hash : Type) (Hh : list N -> hash) (known : hash -> bool) (EMPTY : hash) s s' declared h,
  AddFileDyn.add_file S rd rewind bz1 bz2 hash Hh known EMPTY s declared (Some h) =
  AddFileDyn.add_file S rd' rewind bz1 bz2 hash Hh known EMPTY s' declared (Some h) /\
  AddFileDyn.add_file S rd rewind bz1 bz2 hash Hh known EMPTY s 0 None = Extern hash EMPTY 0.

Print Assumptions C09_run_stores_once.
Print Assumptions C09_unchanged_not_read.
