(* PROTOTYPE (round 0): towards C01 - restore of a well-formed group succeeds and rebuilds the snapshot.
   Stage 1: tree facts (lookup after create / setmeta, restore_directories succeeds and what it yields). *)
From Coq Require Import List Arith NArith ZArith Lia Bool.
Import ListNotations.
Require Import Restore2 Restore2Exec Restore2Plan.
Open Scope N_scope.

Lemma mem_false : forall p l, mem p l = false <-> ~ In p l.
Proof. intros. rewrite <- mem_In. destruct (mem p l); split; congruence. Qed.

Lemma t_get_create : forall p n t t' q, create p n t = Some t' ->
  t_get q t' = if list_eqb q p then Some n else t_get q t.
Proof.
  intros p n t t' q Hc. unfold create in Hc. destruct p as [|x p']; [discriminate|].
  destruct (t_get (x :: p') t); [discriminate|]. destruct (parent_ok (x :: p') t); [|discriminate].
  inversion Hc; subst. reflexivity.
Qed.

Lemma create_ok : forall p n t, p <> [] -> t_get p t = None ->
  (parent p = [] \/ exists m, t_get (parent p) t = Some (RDir m)) -> exists t', create p n t = Some t'.
Proof.
  intros p n t Hp Hn Hpar. unfold create. destruct p as [|x p']; [congruence|]. rewrite Hn.
  unfold parent_ok. destruct Hpar as [E|(m & E)].
  - rewrite E. eexists; reflexivity.
  - destruct (parent (x :: p')) eqn:Ep; [eexists; reflexivity|]. rewrite E. eexists; reflexivity.
Qed.

Definition setm (n : rnode) (m : meta) : rnode :=
  match n with RFile d _ => RFile d (Some m) | RDir _ => RDir (Some m) | RSym x _ => RSym x m end.

Lemma t_get_setmeta : forall p m t t' q, t_setmeta p m t = Some t' ->
  t_get q t' = if list_eqb q p then option_map (fun n => setm n m) (t_get q t) else t_get q t.
Proof.
  intros p m t. induction t as [|[r n] t IH]; intros t' q Hs; cbn [t_setmeta] in Hs; [discriminate|].
  destruct (list_eqb_spec p r) as [->|Hne].
  - inversion Hs; subst. cbn [t_get]. destruct (list_eqb_spec q r) as [->|]; [reflexivity|].
    destruct (list_eqb_spec q r); [congruence|reflexivity].
  - destruct (t_setmeta p m t) as [t''|] eqn:E; [|discriminate]. inversion Hs; subst. cbn [t_get].
    destruct (list_eqb_spec q r) as [->|].
    + destruct (list_eqb_spec r p); [congruence|reflexivity].
    + apply IH. reflexivity.
Qed.

Lemma setmeta_ok : forall p m t n, t_get p t = Some n -> exists t', t_setmeta p m t = Some t'.
Proof.
  intros p m t. induction t as [|[r x] t IH]; intros n Hg; cbn [t_get] in Hg; [discriminate|]. cbn [t_setmeta].
  destruct (list_eqb_spec p r); [eexists; reflexivity|]. destruct (IH _ Hg) as (t' & ->). eexists; reflexivity.
Qed.

(* ancestors: nearest first, all proper non-root prefixes *)
Lemma parent_length : forall p : path, p <> [] -> length (parent p) = (length p - 1)%nat.
Proof.
  intros p Hp. unfold parent. destruct (exists_last Hp) as (q & x & ->). rewrite removelast_last, app_length. cbn. lia.
Qed.

Lemma ancestors_shorter : forall f a (q0 : path), In a (ancestors f q0) -> (length a < length q0)%nat.
Proof.
  induction f as [|f IHf]; intros a q0 Ha; [destruct Ha|]. cbn [ancestors] in Ha.
  destruct (parent q0) as [|y r] eqn:E; [destruct Ha|].
  assert (Hq : q0 <> []) by (intro; subst; discriminate).
  pose proof (parent_length q0 Hq) as Hl. rewrite E in Hl.
  assert (Hge : (length q0 >= 1)%nat) by (destruct q0; [congruence|cbn; lia]).
  destruct Ha as [<-|Ha]; [lia|]. apply IHf in Ha. lia.
Qed.

Definition is_dir_in (t : tree) (p : path) : Prop := exists m, t_get p t = Some (RDir m).
(* a tree is parent-closed: every node's parent is the root or a directory of the tree *)
Definition PClosed (t : tree) : Prop := forall p n, t_get p t = Some n -> parent p = [] \/ is_dir_in t (parent p).

(* what restore_directories needs and gives *)
Lemma restore_directories_ok : forall fuel p t, (length p <= fuel)%nat ->
  (forall a, In a (ancestors fuel p) -> t_get a t = None \/ is_dir_in t a) -> PClosed t ->
  exists t' cr, fold_right (fun a acc => match acc with None => None | Some (t, cr) =>
                   match create a (RDir None) t with Some t' => Some (t', a :: cr) | None => None end end)
                 (Some (t, [])) (filter (fun a => match t_get a t with None => true | Some _ => false end) (ancestors fuel p))
                = Some (t', cr) /\
    (forall q, t_get q t' = if mem q cr then Some (RDir None) else t_get q t) /\
    (forall a, In a cr <-> In a (ancestors fuel p) /\ t_get a t = None) /\ PClosed t' /\
    (forall a, In a (ancestors fuel p) -> is_dir_in t' a).
Proof.
  induction fuel as [|f IH]; intros p t Hfuel Hanc Hpc.
  - cbn. exists t, []. split; [reflexivity|]. split; [intros q; reflexivity|]. split; [intros a0; split; [intros []|intros [[] _]]|]. split; [exact Hpc|intros a0 []].
  - cbn [ancestors]. destruct (parent p) as [|x pp'] eqn:Epp.
    + cbn. exists t, []. split; [reflexivity|]. split; [intros q; reflexivity|]. split; [intros a0; split; [intros []|intros [[] _]]|]. split; [exact Hpc|intros a0 []].
    + set (pp := x :: pp') in *.
      assert (Hanc' : forall a, In a (ancestors f pp) -> t_get a t = None \/ is_dir_in t a).
      { intros a Ha. apply Hanc. cbn [ancestors]. rewrite Epp. right. exact Ha. }
      assert (Hpne : p <> []) by (intro; subst p; discriminate).
      assert (Hlpp : length pp = (length p - 1)%nat) by (rewrite <- Epp; now apply parent_length).
      assert (Hfuel' : (length pp <= f)%nat) by lia.
      destruct (IH pp t Hfuel' Hanc' Hpc) as (t1 & cr1 & Hf1 & Hg1 & Hcr1 & Hpc1 & Hd1).
      cbn [filter]. destruct (t_get pp t) as [npp|] eqn:Egpp.
      * (* the nearest ancestor exists: it is a directory, nothing new at this level *)
        exists t1, cr1. split; [exact Hf1|]. split; [exact Hg1|]. split; [intros a0; split|].
        { intros Ha. apply Hcr1 in Ha. destruct Ha as [Ha Hn]. split; [now right|auto]. }
        { intros [[<-|Ha] Hn]; [congruence|]. apply Hcr1. auto. }
        split; [exact Hpc1|]. intros a0 [<-|Ha]; [|auto].
        destruct (Hanc pp) as [Hn|(m & Hm)]; [cbn [ancestors]; rewrite Epp; now left|congruence|].
        exists m. rewrite Hg1. destruct (mem pp cr1) eqn:Em; [|exact Hm].
        apply mem_In in Em. apply Hcr1 in Em. destruct Em; congruence.
      * (* it is missing: created after its own ancestors *)
        cbn [fold_right]. rewrite Hf1.
        assert (Hnone : t_get pp t1 = None).
        { rewrite Hg1. destruct (mem pp cr1) eqn:Em; [|exact Egpp]. exfalso. apply mem_In in Em. apply Hcr1 in Em.
          destruct Em as [Em _]. (* pp is not among its own ancestors: lengths decrease *)
          apply ancestors_shorter in Em. lia. }
        destruct (create_ok pp (RDir None) t1) as (t2 & Hc2); [discriminate|exact Hnone| |].
        { destruct (parent pp) as [|y r] eqn:Eppp; [now left|right]. apply Hd1.
          destruct f; [subst pp; cbn [length] in Hfuel'; lia|].
          cbn [ancestors]. rewrite Eppp. now left. }
        rewrite Hc2. exists t2, (pp :: cr1). split; [reflexivity|].
        pose proof (t_get_create _ _ _ _ pp Hc2) as Hself.
        split; [|split; [intros a0; split|split]].
        -- intros q. rewrite (t_get_create _ _ _ _ q Hc2). cbn [mem existsb]. unfold mem in *.
           destruct (list_eqb_spec q pp) as [->|Hne]; [reflexivity|]. cbn [orb]. apply Hg1.
        -- intros [<-|Ha]; [split; [now left|exact Egpp] | apply Hcr1 in Ha; destruct Ha; split; [now right|auto]].
        -- intros [[<-|Ha] Hn]; [now left | right; apply Hcr1; auto].
        -- intros q n Hq. rewrite (t_get_create _ _ _ _ q Hc2) in Hq.
           assert (Hdir2 : forall a, is_dir_in t1 a -> is_dir_in t2 a).
           { intros a (m & Hm). exists m. rewrite (t_get_create _ _ _ _ a Hc2). destruct (list_eqb_spec a pp); [congruence|exact Hm]. }
           destruct (list_eqb_spec q pp) as [->|Hne].
           ++ destruct (parent pp) as [|y r] eqn:Eppp; [now left|right]. apply Hdir2. apply Hd1.
              destruct f; [subst pp; cbn [length] in Hfuel'; lia|]. cbn [ancestors]. rewrite Eppp. now left.
           ++ destruct (Hpc1 q n Hq) as [E|Hd]; [now left | right; auto].
        -- intros a0 [<-|Ha].
           ++ exists None. rewrite Hself. destruct (list_eqb_spec pp pp); congruence.
           ++ destruct (Hd1 a0 Ha) as (m & Hm). exists m. rewrite (t_get_create _ _ _ _ a0 Hc2).
              destruct (list_eqb_spec a0 pp); [congruence|exact Hm].
Qed.
