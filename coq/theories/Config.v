(* PROTOTYPE (round 0): config.rs / backuping/config.rs / uploading/config.rs - which documents Config::load accepts.
   Input: the YAML document after parsing and core-schema resolution of plain scalars (both trusted: serde_yaml);
   every leaf keeps its source text because a String field takes the text of any scalar. *)
From Coq Require Import List Arith NArith ZArith Lia Bool.
Import ListNotations.
Require Import Paths Codec Duration Glob Codec2 Filter.
Open Scope N_scope.

Inductive kind := KNull | KBool | KInt (z : Z) | KFloat | KStr.
Record leaf := { text : list N; lkind : kind }.
Inductive yv := YLeaf (l : leaf) | YSeq (l : list yv) | YMap (l : list (list N * yv)).

(* ---- struct access with deny_unknown_fields and duplicate detection ---- *)
Definition key_eqb := Paths.list_eqb.
Fixpoint get (k : list N) (m : list (list N * yv)) : option yv :=
  match m with [] => None | (k', v) :: r => if key_eqb k k' then Some v else get k r end.
Fixpoint nodup_keys (m : list (list N * yv)) : bool :=
  match m with [] => true | (k, _) :: r => negb (existsb (fun e => key_eqb k (fst e)) r) && nodup_keys r end.
Definition known_only (known : list (list N)) (m : list (list N * yv)) : bool :=
  forallb (fun e => existsb (key_eqb (fst e)) known) m.
Definition strict (known : list (list N)) (v : yv) : option (list (list N * yv)) :=
  match v with YMap m => if known_only known m && nodup_keys m then Some m else None | _ => None end.

(* ---- scalars ---- *)
Definition str_any (v : yv) : option (list N) := match v with YLeaf l => Some (text l) | _ => None end.
Definition str_typed (v : yv) : option (list N) :=          (* through serde's buffered Content *)
  match v with YLeaf l => match lkind l with KStr => Some (text l) | _ => None end | _ => None end.
Definition usize (v : yv) : option N :=
  match v with YLeaf l => match lkind l with KInt z => if ((0 <=? z) && (z <? 18446744073709551616))%Z then Some (Z.to_N z) else None | _ => None end | _ => None end.
Definition is_null (v : yv) : bool := match v with YLeaf l => match lkind l with KNull => true | _ => false end | _ => false end.
Definition opt {A} (f : yv -> option A) (o : option yv) : option (option A) :=
  match o with None => Some None | Some v => if is_null v then Some None else option_map Some (f v) end.
Definition req {A} (f : yv -> option A) (o : option yv) : option A := match o with Some v => f v | None => None end.
Definition nonempty {A} (l : list A) : bool := match l with [] => false | _ => true end.

Fixpoint all_some {A} (l : list (option A)) : option (list A) :=
  match l with [] => Some [] | Some x :: r => option_map (cons x) (all_some r) | None :: _ => None end.
Definition seq_of {A} (f : yv -> option A) (v : yv) : option (list A) :=
  match v with YSeq l => all_some (map f l) | _ => None end.

(* ---- key names ---- *)
Definition s (l : list N) := l.
Definition K_backups := [98;97;99;107;117;112;115]. Definition K_metrics := [112;114;111;109;101;116;104;101;117;115;95;109;101;116;114;105;99;115].
Definition K_name := [110;97;109;101]. Definition K_path := [112;97;116;104]. Definition K_backup := [98;97;99;107;117;112]. Definition K_upload := [117;112;108;111;97;100].
Definition K_items := [105;116;101;109;115]. Definition K_mbg := [109;97;120;95;98;97;99;107;117;112;95;103;114;111;117;112;115].
Definition K_mbpg := [109;97;120;95;98;97;99;107;117;112;115;95;112;101;114;95;103;114;111;117;112].
Definition K_filter := [102;105;108;116;101;114]. Definition K_before := [98;101;102;111;114;101]. Definition K_after := [97;102;116;101;114].
Definition K_provider := [112;114;111;118;105;100;101;114]. Definition K_pass := [101;110;99;114;121;112;116;105;111;110;95;112;97;115;115;112;104;114;97;115;101].
Definition K_mtwb := [109;97;120;95;116;105;109;101;95;119;105;116;104;111;117;116;95;98;97;99;107;117;112;115].
Definition K_cid := [99;108;105;101;110;116;95;105;100]. Definition K_csec := [99;108;105;101;110;116;95;115;101;99;114;101;116]. Definition K_rtok := [114;101;102;114;101;115;104;95;116;111;107;101;110].
Definition V_dropbox := [100;114;111;112;98;111;120]. Definition V_gdrive := [103;111;111;103;108;101;45;100;114;105;118;101]. Definition V_ydisk := [121;97;110;100;101;120;45;100;105;115;107].

(* ---- the accepted configuration ---- *)
Record item_cfg := { it_path : list N; it_filter : list (list N * bool); it_before : option (list N); it_after : option (list N) }.
Record backup_cfg := { bk_items : list item_cfg; bk_groups : N; bk_per_group : N }.
Record upload_cfg := { up_provider : list N; up_path : list N; up_groups : N; up_pass : list N; up_max_age : option N }.
Record spec_cfg := { sp_name : list N; sp_path : list N; sp_backup : option backup_cfg; sp_upload : option upload_cfg }.
Record config := { c_backups : list spec_cfg; c_metrics : option (list N) }.

Section Load.
Variable home : option (list N).

Definition tilde (p : list N) : list N :=
  match p with
  | 126 :: r => match r with [] | 47 :: _ => match home with Some h => h ++ r | None => p end | _ => p end
  | _ => p end.
Definition local_path (p : list N) : option (list N) := validate_path (tilde p).

Definition item (v : yv) : option item_cfg :=
  match strict [K_path; K_filter; K_before; K_after] v with
  | Some m =>
    match req str_any (get K_path m),
          (match get K_filter m with None => Some [] | Some f => match str_any f with Some t => filter_new t | None => None end end),
          opt str_any (get K_before m), opt str_any (get K_after m) with
    | Some p, Some f, Some b, Some a => if nonempty p then Some {| it_path := p; it_filter := f; it_before := b; it_after := a |} else None
    | _, _, _, _ => None end
  | None => None end.

Definition backup (v : yv) : option backup_cfg :=
  match strict [K_items; K_mbg; K_mbpg] v with
  | Some m =>
    match req (seq_of item) (get K_items m), req usize (get K_mbg m), req usize (get K_mbpg m) with
    | Some its, Some g, Some p => if nonempty its && (1 <=? g) && (1 <=? p) then Some {| bk_items := its; bk_groups := g; bk_per_group := p |} else None
    | _, _, _ => None end
  | None => None end.

(* #[serde(tag = "name", deny_unknown_fields)]: known keys only, no duplicates, values typed (buffered by serde);
   the credentials must be non-empty (schema validation of UploadConfig) *)
Definition provider (v : yv) : option (list N) :=
  match strict [K_name; K_cid; K_csec; K_rtok] v with
  | Some m =>
    match req str_typed (get K_name m), req str_typed (get K_cid m), req str_typed (get K_csec m), req str_typed (get K_rtok m) with
    | Some n, Some a, Some b, Some c =>
        if (key_eqb n V_dropbox || key_eqb n V_gdrive || key_eqb n V_ydisk) && nonempty a && nonempty b && nonempty c then Some n else None
    | _, _, _, _ => None end
  | None => None end.

Definition duration_field (o : option yv) : option (option N) :=
  match o with
  | None => Some None
  | Some v => match str_any v with
              | Some t => match parse_duration t with Dur n => Some (Some n) | _ => None end
              | None => None end
  end.

Definition upload (v : yv) : option upload_cfg :=
  match strict [K_provider; K_path; K_mbg; K_pass; K_mtwb] v with
  | Some m =>
    match req provider (get K_provider m), req str_any (get K_path m), req usize (get K_mbg m), req str_any (get K_pass m), duration_field (get K_mtwb m) with
    | Some pr, Some p, Some g, Some pw, Some d =>
        if nonempty p && (1 <=? g) && nonempty pw
        then match validate_path p with Some p' => Some {| up_provider := pr; up_path := p'; up_groups := g; up_pass := pw; up_max_age := d |} | None => None end
        else None
    | _, _, _, _, _ => None end
  | None => None end.

Definition spec (v : yv) : option spec_cfg :=
  match strict [K_name; K_path; K_backup; K_upload] v with
  | Some m =>
    match req str_any (get K_name m), req str_any (get K_path m), opt backup (get K_backup m), opt upload (get K_upload m) with
    | Some n, Some p, Some b, Some u =>
        if nonempty n && nonempty p
        then match local_path p with Some p' => Some {| sp_name := n; sp_path := p'; sp_backup := b; sp_upload := u |} | None => None end
        else None
    | _, _, _, _ => None end
  | None => None end.

Fixpoint distinct (l : list (list N)) : bool :=
  match l with [] => true | x :: r => negb (existsb (key_eqb x) r) && distinct r end.

Definition load (doc : option yv) : option config :=
  match doc with
  | None => Some {| c_backups := []; c_metrics := None |}            (* empty document *)
  | Some v =>
    match strict [K_backups; K_metrics] v with
    | Some m =>
      match (match get K_backups m with None => Some [] | Some b => seq_of spec b end), opt str_any (get K_metrics m) with
      | Some bs, Some mt =>
          if negb (distinct (map sp_name bs)) then None else
          match mt with
          | None => Some {| c_backups := bs; c_metrics := None |}
          | Some p => if nonempty p then match local_path p with Some p' => Some {| c_backups := bs; c_metrics := Some p' |} | None => None end else None
          end
      | _, _ => None end
    | None => None end
  end.
End Load.
