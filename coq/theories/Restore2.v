(* PROTOTYPE (round 0): Layer-A restore model with switches for the three intended repairs
   (fx2: report step files never seen in the archive; fx5: report a size disagreement between an extern
   line and the record that resolves it; fx7: report a duplicate insertion into a step map).
   Today's code = all switches false. *)
From Coq Require Import List Arith NArith ZArith Lia Bool.
Import ListNotations.
Open Scope N_scope.

Definition path := list N.
Definition bytes := list N.
Definition hash := list N.
Definition H (d : bytes) : hash := d.

Fixpoint list_eqb (a b : list N) : bool :=
  match a, b with
  | [], [] => true
  | x :: a', y :: b' => (x =? y) && list_eqb a' b'
  | _, _ => false
  end.
Lemma list_eqb_spec : forall a b, reflect (a = b) (list_eqb a b).
Proof.
  induction a as [|x a IH]; destruct b as [|y b]; cbn; try (constructor; congruence).
  destruct (N.eqb_spec x y); cbn; [|constructor; congruence].
  destruct (IH b); constructor; congruence.
Qed.
Definition mem (p : path) (l : list path) := existsb (list_eqb p) l.
Definition remove_p (p : path) (l : list path) := filter (fun q => negb (list_eqb p q)) l.

Record meta := { m_mode : N; m_uid : N; m_gid : N; m_mtime : Z }.
Record mline := { l_unique : bool; l_hash : hash; l_size : N; l_path : path }.
Inductive entry :=
| EDir (p : path) (m : meta)
| EReg (p : path) (m : meta) (declared : N) (data : bytes)
| ESym (p : path) (m : meta) (target : bytes).
Record backup := { b_name : N; b_manifest : list mline; b_archive : list entry }.

Record fixes := { fx2 : bool; fx5 : bool; fx7 : bool }.

(* ---------------- plan ---------------- *)
Record rfile := { rf_hash : hash; rf_size : N; rf_paths : list path }.
Definition smap := list (path * rfile).
Definition step := (backup * smap)%type.
Definition tfmap := list (hash * list (path * N)).     (* hash -> extern (path, recorded size) still to find *)

Fixpoint tf_remove (h : hash) (tf : tfmap) : option (list (path * N)) * tfmap :=
  match tf with
  | [] => (None, [])
  | (h', ps) :: tf' => if list_eqb h h' then (Some ps, tf')
                       else let '(r, t) := tf_remove h tf' in (r, (h', ps) :: t)
  end.
Fixpoint tf_push (h : hash) (p : path * N) (tf : tfmap) : tfmap :=
  match tf with
  | [] => [(h, [p])]
  | (h', ps) :: tf' => if list_eqb h h' then (h', ps ++ [p]) :: tf' else (h', ps) :: tf_push h p tf'
  end.
Fixpoint map_get (p : path) (m : smap) : option rfile :=
  match m with [] => None | (q, f) :: m' => if list_eqb p q then Some f else map_get p m' end.
Definition map_insert (p : path) (f : rfile) (m : smap) : smap :=
  (p, f) :: filter (fun '(q, _) => negb (list_eqb p q)) m.

Record pst := { p_tf : tfmap; p_exts : list path; p_map : smap; p_ok : bool }.

Section WithFixes.
Variable fx : fixes.

Definition sizes_agree (sz : N) (ps : list (path * N)) : bool := forallb (fun '(_, s) => s =? sz) ps.

(* insert a resolving record (own file of the target, or unique record of an older backup) *)
Definition resolve (own : bool) (l : mline) (s : pst) : pst :=
  let '(r, tf') := tf_remove (l_hash l) (p_tf s) in
  match r, own with
  | None, false => s
  | _, _ =>
    let ps := match r with Some ps => ps | None => [] end in
    let paths := map fst ps ++ (if own then [l_path l] else []) in
    let dup := match map_get (l_path l) (p_map s) with Some _ => true | None => false end in
    {| p_tf := tf'; p_exts := p_exts s ++ map fst ps;
       p_map := map_insert (l_path l) {| rf_hash := l_hash l; rf_size := l_size l; rf_paths := paths |} (p_map s);
       p_ok := p_ok s && (negb (fx5 fx) || sizes_agree (l_size l) ps) && (negb (fx7 fx) || negb dup) |}
  end.

Definition is_own (l : mline) := l_unique l || (l_size l =? 0).

Definition plan_target (b : backup) : pst :=
  let own := filter is_own (b_manifest b) in
  let ext := filter (fun l => negb (is_own l)) (b_manifest b) in
  let tf0 := fold_left (fun tf l => tf_push (l_hash l) (l_path l, l_size l) tf) ext [] in
  fold_left (fun s l => resolve true l s) own {| p_tf := tf0; p_exts := []; p_map := []; p_ok := true |}.

Definition plan_older (b : backup) (s : pst) : pst :=
  fold_left (fun s l => match p_tf s with [] => s | _ => if l_unique l then resolve false l s else s end)
            (b_manifest b) {| p_tf := p_tf s; p_exts := p_exts s; p_map := []; p_ok := p_ok s |}.

Fixpoint plan_rest (older : list backup) (s : pst) (steps : list step) : list step * pst :=
  match older with
  | [] => (steps, s)
  | b :: older' =>
    match p_tf s with
    | [] => (steps, s)
    | _ => let s' := plan_older b s in
           plan_rest older' s' (match p_map s' with [] => steps | m => steps ++ [(b, m)] end)
    end
  end.

Fixpoint split_at (name : N) (rev_group : list backup) : option (backup * list backup) :=
  match rev_group with
  | [] => None
  | b :: r => if b_name b =? name then Some (b, r) else split_at name r
  end.

Definition plan (group : list backup) (name : N) : option (list step * list path * list path * bool) :=
  match split_at name (rev group) with
  | None => None
  | Some (b, older) =>
    let s0 := plan_target b in
    let '(steps, s') := plan_rest older s0 [(b, p_map s0)] in
    Some (steps, p_exts s', map fst (concat (map snd (p_tf s'))), p_ok s')
  end.

(* ---------------- exec ---------------- *)
Inductive rnode := RFile (d : bytes) (m : option meta) | RDir (m : option meta) | RSym (t : bytes) (m : meta).
Definition tree := list (path * rnode).
Fixpoint t_get (p : path) (t : tree) : option rnode :=
  match t with [] => None | (q, n) :: t' => if list_eqb p q then Some n else t_get p t' end.
Definition parent (p : path) : path := removelast p.
Definition parent_ok (p : path) (t : tree) : bool :=
  match parent p with [] => true | pp => match t_get pp t with Some (RDir _) => true | _ => false end end.
Definition create (p : path) (n : rnode) (t : tree) : option tree :=
  match p with [] => None | _ =>
  match t_get p t with Some _ => None | None => if parent_ok p t then Some ((p, n) :: t) else None end end.
Fixpoint t_setmeta (p : path) (m : meta) (t : tree) : option tree :=
  match t with
  | [] => None
  | (q, n) :: t' =>
    if list_eqb p q then
      Some ((q, match n with RFile d _ => RFile d (Some m) | RDir _ => RDir (Some m) | RSym x _ => RSym x m end) :: t')
    else match t_setmeta p m t' with Some t'' => Some ((q, n) :: t'') | None => None end
  end.

Record rs := { tr : tree; pre : list path; pending : list path; restored : list path;
               sched : list (path * meta); ok : bool; seen : list path }.
Definition set_tr (s : rs) (t : tree) : rs :=
  {| tr := t; pre := pre s; pending := pending s; restored := restored s; sched := sched s; ok := ok s; seen := seen s |}.

Fixpoint ancestors (fuel : nat) (p : path) : list path :=
  match fuel with O => [] | S f => match parent p with [] => [] | pp => pp :: ancestors f pp end end.

Definition restore_directories (p : path) (t : tree) : option (tree * list path) :=
  let missing := filter (fun a => match t_get a t with None => true | Some _ => false end) (ancestors (length p) p) in
  fold_right (fun a acc => match acc with None => None | Some (t, cr) =>
                match create a (RDir None) t with Some t' => Some (t', a :: cr) | None => None end end)
             (Some (t, [])) missing.

Definition take (n : N) (d : bytes) : bytes := firstn (N.to_nat n) d.

(* one destination path of a fanned-out entry *)
Definition restore_one (p : path) (out : bytes) (is_target : bool) (q : path) (s : rs) : option rs :=
  let s1 :=
    if is_target && list_eqb q p then Some s
    else if mem q (pending s) then
      if is_target then
        match restore_directories q (tr s) with
        | Some (t', cr) => Some {| tr := t'; pre := pre s ++ cr; pending := remove_p q (pending s);
                                   restored := q :: restored s; sched := sched s; ok := ok s; seen := seen s |}
        | None => None end
      else Some {| tr := tr s; pre := pre s; pending := remove_p q (pending s);
                   restored := q :: restored s; sched := sched s; ok := ok s; seen := seen s |}
    else None (* unwrap() on a path that is not pending: panic *) in
  match s1 with
  | None => None
  | Some s1 => match create q (RFile out None) (tr s1) with Some t' => Some (set_tr s1 t') | None => None end
  end.

Fixpoint restore_paths (p : path) (out : bytes) (is_target : bool) (qs : list path) (s : rs) : option rs :=
  match qs with
  | [] => Some s
  | q :: qs' => match restore_one p out is_target q s with Some s' => restore_paths p out is_target qs' s' | None => None end
  end.

Definition restore_files (p : path) (m : meta) (declared : N) (data : bytes) (info : rfile)
           (is_target : bool) (s : rs) : option rs :=
  let real := take (N.min (rf_size info) declared) data in
  let out := real ++ repeat 0 (N.to_nat (rf_size info) - length real) in
  match restore_paths p out is_target (rf_paths info) s with
  | None => None
  | Some s2 =>
    if negb (N.of_nat (length real) =? rf_size info) then None
    else if negb (list_eqb (H real) (rf_hash info)) then None
    else if is_target && mem p (rf_paths info) then
      match t_setmeta p m (tr s2) with Some t' => Some (set_tr s2 t') | None => None end
    else Some s2
  end.

Definition do_entry (files : smap) (missing : list path) (is_target : bool) (e : entry) (s : rs) : option rs :=
  match e with
  | EDir p m =>
    if is_target then
      let s1 := if mem p (pre s)
                then Some {| tr := tr s; pre := remove_p p (pre s); pending := pending s; restored := restored s;
                             sched := sched s; ok := ok s; seen := seen s |}
                else match create p (RDir None) (tr s) with Some t' => Some (set_tr s t') | None => None end in
      match s1 with None => None | Some s1 =>
        Some {| tr := tr s1; pre := pre s1; pending := pending s1; restored := restored s1;
                sched := sched s1 ++ [(p, m)]; ok := ok s1; seen := seen s1 |} end
    else Some s
  | EReg p m declared data =>
    match map_get p files with
    | Some info =>
      match restore_files p m declared data info is_target s with
      | Some s' => Some {| tr := tr s'; pre := pre s'; pending := pending s'; restored := restored s';
                           sched := sched s'; ok := ok s'; seen := p :: seen s' |}
      | None => None end
    | None =>
      if is_target then
        if mem p (pending s) || mem p (restored s) then
          Some {| tr := tr s; pre := pre s; pending := pending s; restored := restored s; sched := sched s ++ [(p, m)];
                  ok := ok s && (declared =? 0); seen := seen s |}
        else if mem p missing then Some s
        else Some {| tr := tr s; pre := pre s; pending := pending s; restored := restored s; sched := sched s;
                     ok := false; seen := seen s |}
      else Some s
    end
  | ESym p m t =>
    if is_target then match create p (RSym t m) (tr s) with Some t' => Some (set_tr s t') | None => None end
    else Some s
  end.

Fixpoint do_entries (files : smap) (missing : list path) (is_target : bool) (es : list entry) (s : rs) : option rs :=
  match es with
  | [] => Some s
  | e :: es' => match do_entry files missing is_target e s with Some s' => do_entries files missing is_target es' s' | None => None end
  end.

Definition do_step (missing : list path) (is_target : bool) (st : step) (s : rs) : option rs :=
  match do_entries (snd st) missing is_target (b_archive (fst st))
          {| tr := tr s; pre := pre s; pending := pending s; restored := restored s; sched := sched s; ok := ok s; seen := [] |} with
  | None => None
  | Some s' =>
    let all_seen := forallb (fun '(p, _) => mem p (seen s')) (snd st) in
    Some {| tr := tr s'; pre := pre s'; pending := pending s'; restored := restored s'; sched := sched s';
            ok := ok s' && (negb (fx2 fx) || all_seen); seen := [] |}
  end.

Fixpoint do_steps (missing : list path) (first : bool) (steps : list step) (s : rs) : option rs :=
  match steps with
  | [] => Some s
  | st :: steps' => match do_step missing first st s with Some s' => do_steps missing false steps' s' | None => None end
  end.

Fixpoint apply_sched (pend : list path) (sc : list (path * meta)) (t : tree) : option tree :=
  match sc with
  | [] => Some t
  | (p, m) :: sc' => if mem p pend then apply_sched pend sc' t
                     else match t_setmeta p m t with Some t' => apply_sched pend sc' t' | None => None end
  end.

Definition exec (group : list backup) (name : N) : option (tree * bool) :=
  match plan group name with
  | None => None
  | Some (steps, exts, missing, pok) =>
    let s0 := {| tr := []; pre := []; pending := exts; restored := []; sched := [];
                 ok := pok && match missing with [] => true | _ => false end; seen := [] |} in
    match do_steps missing true steps s0 with
    | None => None
    | Some s =>
      match apply_sched (pending s) (rev (sched s)) (tr s) with
      | None => None
      | Some t => Some (t, ok s && match pending s with [] => true | _ => false end
                                && match pre s with [] => true | _ => false end)
      end
    end
  end.
End WithFixes.

Definition line_ok (t : tree) (l : mline) : bool :=
  match t_get (l_path l) t with
  | Some (RFile d _) => (N.of_nat (length d) =? l_size l) && list_eqb (H d) (l_hash l)
  | _ => false end.
Definition C11_ok (fx : fixes) (group : list backup) (name : N) : bool :=
  match exec fx group name with
  | Some (t, true) => match split_at name (rev group) with
                      | Some (b, _) => forallb (line_ok t) (b_manifest b) | None => true end
  | _ => true end.

Definition today := {| fx2 := false; fx5 := false; fx7 := false |}.
Definition repaired := {| fx2 := true; fx5 := true; fx7 := true |}.
Definition m0 := {| m_mode := 420; m_uid := 0; m_gid := 0; m_mtime := 5%Z |}.
Definition L u h s p := {| l_unique := u; l_hash := h; l_size := s; l_path := p |}.
Definition b1 := {| b_name := 1; b_manifest := [L true [97;98;99] 3 [1;2]]; b_archive := [EDir [1] m0; EReg [1;2] m0 3 [97;98;99]] |}.
Definition b2 := {| b_name := 2; b_manifest := [L false [97;98;99] 3 [1;2]]; b_archive := [EDir [1] m0; EReg [1;2] m0 0 []] |}.
Example healthy : exec today [b1; b2] 2 = Some ([([1;2], RFile [97;98;99] (Some m0)); ([1], RDir (Some m0))], true)
               /\ exec repaired [b1; b2] 2 = exec today [b1; b2] 2.
Proof. vm_compute. auto. Qed.
Definition b1_F2 := {| b_name := 1; b_manifest := b_manifest b1; b_archive := [EDir [1] m0] |}.
Definition b2_F5 := {| b_name := 2; b_manifest := [L false [97;98;99] 7 [1;2]]; b_archive := b_archive b2 |}.
Definition b1_F7 := {| b_name := 1; b_manifest := [L true [100] 1 [1;2]; L true [97;98;99] 3 [1;2]]; b_archive := b_archive b1 |}.
Example refuted_today : C11_ok today [b1_F2] 1 = false /\ C11_ok today [b1; b2_F5] 2 = false /\ C11_ok today [b1_F7] 1 = false.
Proof. vm_compute. auto. Qed.
Example repaired_reports : option_map snd (exec repaired [b1_F2] 1) = Some false
                        /\ option_map snd (exec repaired [b1; b2_F5] 2) = Some false
                        /\ option_map snd (exec repaired [b1_F7] 1) = Some false.
Proof. vm_compute. auto. Qed.
