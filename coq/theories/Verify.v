(* PROTOTYPE (round 0): listing + verification (storage/backup_group.rs, storage/backup.rs) at the level of classified
   names, the declarative notion of a healthy storage, their equivalence (C13), rotation and retention (C07),
   and finding F3 inside the model *)
From Coq Require Import List Arith NArith Lia Bool.
Import ListNotations.

Record mline := { l_unique : bool; l_hash : N; l_size : N }.
Definition hmem (h : N) (l : list N) := existsb (N.eqb h) l.

(* a final-named backup directory as the listing and the verifier see it *)
Record bk := { b_day : nat; b_time : nat; has_data : bool; has_meta : bool; manifest : option (list mline) }.
Inductive gentry := GFinal (b : bk) | GTemp | GHidden | GJunk.       (* group-level entries, in name order *)
Record grp := { g_day : nat; g_entries : list gentry }.
Inductive rentry := RGroup (g : grp) | RHidden | RJunk.               (* root-level entries, in name order *)
Definition storage := list rentry.

(* ---- the code ---- *)
Definition readable (b : bk) := has_data b && has_meta b.
Fixpoint finals (es : list gentry) : list bk := match es with [] => [] | GFinal b :: r => b :: finals r | _ :: r => finals r end.

(* BackupGroup::read: ok flag and the backups it keeps *)
Definition read_group (g : grp) : bool * list bk :=
  let nojunk := forallb (fun e => match e with GJunk => false | _ => true end) (g_entries g) in
  let fs := finals (g_entries g) in
  let first_ok := match fs with [] => true | b :: _ => b_day b =? g_day g end in
  (nojunk && first_ok && forallb readable fs, filter readable fs).

Fixpoint inspect_lines (acc : list N) (ls : list mline) : bool * list N :=
  match ls with
  | [] => (true, acc)
  | l :: r => if l_unique l then inspect_lines (l_hash l :: acc) r
              else let bad := negb (N.eqb (l_size l) 0) && negb (hmem (l_hash l) acc) in
                   let '(ok, acc') := inspect_lines acc r in (negb bad && ok, acc')
  end.
Fixpoint inspect_group (acc : list N) (bs : list bk) : bool :=
  match bs with
  | [] => true
  | b :: r => match manifest b with
              | None => false && inspect_group acc r                      (* unreadable or unparsable manifest *)
              | Some ls => let '(ok, acc') := inspect_lines acc ls in
                           (match ls with [] => false | _ => true end) && ok && inspect_group acc' r
              end
  end.

Definition groups (st : storage) : list grp := flat_map (fun e => match e with RGroup g => [g] | _ => [] end) st.
Definition list_ok (st : storage) : bool :=
  forallb (fun e => match e with RJunk => false | _ => true end) st && forallb (fun g => fst (read_group g)) (groups st).
Definition verify (st : storage) : bool :=
  list_ok st && forallb (fun g => inspect_group [] (snd (read_group g))) (groups st).

(* ---- the declarative reading ---- *)
Definition uniques (ls : list mline) : list N := map l_hash (filter l_unique ls).
Definition lines_ok (acc : list N) (ls : list mline) : Prop :=
  forall l1 x l2, ls = l1 ++ x :: l2 -> l_unique x = false -> l_size x <> 0%N -> In (l_hash x) (uniques l1 ++ acc).
Fixpoint group_recoverable (acc : list N) (bs : list bk) : Prop :=
  match bs with
  | [] => True
  | b :: r => exists ls, manifest b = Some ls /\ ls <> [] /\ lines_ok acc ls /\ group_recoverable (rev (uniques ls) ++ acc) r
  end.
Definition HealthyGroup (g : grp) : Prop :=
  ~ In GJunk (g_entries g) /\
  (forall b r, finals (g_entries g) = b :: r -> b_day b = g_day g) /\
  (forall b, In b (finals (g_entries g)) -> has_data b = true /\ has_meta b = true) /\
  group_recoverable [] (finals (g_entries g)).
Definition Healthy (st : storage) : Prop := ~ In RJunk st /\ forall g, In g (groups st) -> HealthyGroup g.

(* ---- equivalence ---- *)
Lemma hmem_In : forall h l, hmem h l = true <-> In h l.
Proof.
  intros h l. unfold hmem. rewrite existsb_exists. split.
  - intros (x & Hx & E). apply N.eqb_eq in E. now subst.
  - intros H. exists h. split; auto. apply N.eqb_refl.
Qed.

Lemma inspect_lines_acc : forall ls acc, snd (inspect_lines acc ls) = rev (uniques ls) ++ acc.
Proof.
  induction ls as [|l ls IH]; intros acc; cbn [inspect_lines]; [reflexivity|].
  unfold uniques in *. cbn [filter]. destruct (l_unique l).
  - rewrite IH. cbn [map rev]. now rewrite <- app_assoc.
  - destruct (inspect_lines acc ls) eqn:E. cbn [snd]. specialize (IH acc). rewrite E in IH. exact IH.
Qed.

Lemma inspect_lines_iff : forall ls acc, fst (inspect_lines acc ls) = true <-> lines_ok acc ls.
Proof.
  induction ls as [|l ls IH]; intros acc; cbn [inspect_lines].
  - split; auto. intros _ l1 x l2 E. destruct l1; discriminate.
  - destruct (l_unique l) eqn:Hu.
    + rewrite IH. unfold lines_ok. split.
      * intros Hok l1 x l2 E Hx Hs. destruct l1 as [|y l1]; inversion E; subst; [congruence|].
        specialize (Hok l1 x l2 eq_refl Hx Hs). unfold uniques in *. cbn [filter]. rewrite Hu. cbn [map app].
        apply in_app_or in Hok. destruct Hok as [Hi|[Hi|Hi]]; [right; apply in_or_app; auto | left; auto | right; apply in_or_app; auto].
      * intros Hok l1 x l2 E Hx Hs. specialize (Hok (l :: l1) x l2). cbn [app] in Hok. rewrite E in Hok.
        specialize (Hok eq_refl Hx Hs). unfold uniques in *. cbn [filter] in Hok. rewrite Hu in Hok. cbn [map app] in Hok.
        destruct Hok as [Hi|Hi]; [apply in_or_app; right; left; auto|].
        apply in_app_or in Hi. apply in_or_app. destruct Hi; [left; auto | right; right; auto].
    + destruct (inspect_lines acc ls) as [r acc'] eqn:E. cbn [fst]. specialize (IH acc). rewrite E in IH. cbn [fst] in IH.
      rewrite andb_true_iff, negb_true_iff, andb_false_iff, !negb_false_iff, IH. unfold lines_ok. split.
      * intros [Hb Hok] l1 x l2 El Hx Hs. destruct l1 as [|y l1]; inversion El; subst.
        -- cbn. destruct Hb as [Hz|Hm]; [apply N.eqb_eq in Hz; congruence | now apply hmem_In].
        -- specialize (Hok l1 x l2 eq_refl Hx Hs). unfold uniques in *. cbn [filter]. now rewrite Hu.
      * intros Hok. split.
        -- destruct (N.eqb_spec (l_size l) 0); [left; auto|right]. apply hmem_In. apply (Hok [] l ls eq_refl Hu n).
        -- intros l1 x l2 El Hx Hs. specialize (Hok (l :: l1) x l2). cbn [app] in Hok. rewrite El in Hok.
           specialize (Hok eq_refl Hx Hs). unfold uniques in *. cbn [filter] in Hok. now rewrite Hu in Hok.
Qed.

Lemma inspect_group_iff : forall bs acc, inspect_group acc bs = true <-> group_recoverable acc bs.
Proof.
  induction bs as [|b bs IH]; intros acc; cbn [inspect_group group_recoverable]; [tauto|].
  destruct (manifest b) as [ls|].
  - destruct (inspect_lines acc ls) as [ok acc'] eqn:E.
    pose proof (inspect_lines_iff ls acc) as Hl. pose proof (inspect_lines_acc ls acc) as Ha. rewrite E in Hl, Ha. cbn [fst snd] in *.
    rewrite !andb_true_iff, IH, Ha. split.
    + intros [[Hne Hok] Hr]. exists ls. repeat split; auto; [destruct ls; [discriminate|congruence] | now apply Hl].
    + intros (ls' & Em & Hne & Hok & Hr). inversion Em; subst ls'. repeat split; auto; [destruct ls; [congruence|reflexivity] | now apply Hl].
  - split; [discriminate | intros (ls & Em & _); discriminate].
Qed.

Lemma filter_all : forall A (f : A -> bool) l, forallb f l = true -> filter f l = l.
Proof. intros A f l. induction l as [|x l IH]; cbn; [reflexivity|]. intros H. apply andb_true_iff in H as [H1 H2]. rewrite H1, IH; auto. Qed.

(* C13, first claim: the verifier flags exactly the storages that are not healthy *)
Theorem verify_iff : forall st, verify st = true <-> Healthy st.
Proof.
  intros st. unfold verify, list_ok, Healthy. rewrite !andb_true_iff, !forallb_forall. split.
  - intros [[Hj Hg] Hi]. split.
    + intro Hc. specialize (Hj _ Hc). discriminate.
    + intros g Hin. specialize (Hg g Hin). specialize (Hi g Hin). unfold read_group in *. cbn [fst snd] in *.
      apply andb_true_iff in Hg as [Hg Hread]. apply andb_true_iff in Hg as [Hnj Hfirst].
      rewrite (filter_all _ _ _ Hread) in Hi. rewrite forallb_forall in Hnj, Hread. repeat split.
      * intro Hc. specialize (Hnj _ Hc). discriminate.
      * intros b r E. rewrite E in Hfirst. now apply Nat.eqb_eq.
      * specialize (Hread _ H). unfold readable in Hread. now apply andb_true_iff in Hread.
      * specialize (Hread _ H). unfold readable in Hread. now apply andb_true_iff in Hread.
      * now apply inspect_group_iff.
  - intros [Hj Hg]. assert (Hrd : forall g, In g (groups st) -> forallb readable (finals (g_entries g)) = true).
    { intros g Hin. destruct (Hg g Hin) as (_ & _ & Hr & _). apply forallb_forall. intros b Hb. destruct (Hr b Hb) as [A B]. unfold readable. now rewrite A, B. }
    split; [split|].
    + intros e He. destruct e; auto; exfalso; auto.
    + intros g Hin. destruct (Hg g Hin) as (Hnj & Hfirst & Hr & Hrec). unfold read_group. cbn [fst].
      rewrite !andb_true_iff. repeat split; [|destruct (finals (g_entries g)) eqn:E; [reflexivity|apply Nat.eqb_eq; eapply Hfirst; eauto] | now apply Hrd].
      apply forallb_forall. intros e He. destruct e; auto; exfalso; auto.
    + intros g Hin. destruct (Hg g Hin) as (_ & _ & _ & Hrec). unfold read_group. cbn [snd].
      rewrite (filter_all _ _ _ (Hrd g Hin)). now apply inspect_group_iff.
Qed.
Print Assumptions verify_iff.

(* ---------------- rotation and retention (C07) on the same representation ---------------- *)
Definition kept (g : grp) : list bk := snd (read_group g).

(* Storage::create_backup followed by a successful publication; None = "group already exists" *)
Definition publish (gs : list grp) (max_per day time : nat) (ls : list mline) : option (list grp) :=
  let nb := GFinal {| b_day := day; b_time := time; has_data := true; has_meta := true; manifest := Some ls |} in
  match rev gs with
  | g :: older_rev =>
    if length (kept g) <? max_per
    then Some (rev older_rev ++ [{| g_day := g_day g; g_entries := filter (fun e => match e with GTemp => false | _ => true end) (g_entries g) ++ [nb] |}])
    else if existsb (fun g' => g_day g' =? day) gs then None
         else Some (gs ++ [{| g_day := day; g_entries := [nb] |}])
  | [] => Some [{| g_day := day; g_entries := [nb] |}]
  end.
(* a run that fails after group selection: the group directory (possibly new and empty) stays, the temporary is removed *)
Definition fail_after_select (gs : list grp) (max_per day : nat) : list grp :=
  match rev gs with
  | g :: _ => if length (kept g) <? max_per then gs
              else if existsb (fun g' => g_day g' =? day) gs then gs else gs ++ [{| g_day := day; g_entries := [] |}]
  | [] => [{| g_day := day; g_entries := [] |}]
  end.
(* gc_groups *)
Definition gc (gs : list grp) (max_groups : nat) : list grp :=
  if length gs <=? max_groups then gs
  else if forallb (fun g => fst (read_group g)) gs then skipn (length gs - max_groups) gs else gs.

Theorem gc_bound : forall gs max, max >= 1 -> forallb (fun g => fst (read_group g)) gs = true -> length (gc gs max) <= max.
Proof.
  intros gs max Hm Hok. unfold gc. destruct (Nat.leb_spec (length gs) max); [lia|]. rewrite Hok, skipn_length. lia.
Qed.
Lemma last_app' : forall (A : Type) (a b : list A) d, b <> [] -> last (a ++ b) d = last b d.
Proof.
  intros A a b d Hb. induction a as [|x a IH]; [reflexivity|]. cbn [app].
  destruct (a ++ b) as [|y l] eqn:E.
  - apply app_eq_nil in E as [_ E]. congruence.
  - change (last (x :: y :: l) d) with (last (y :: l) d). exact IH.
Qed.
Theorem gc_keeps_newest : forall gs max g, max >= 1 -> gs <> [] -> last gs g = last (gc gs max) g.
Proof.
  intros gs max g Hm Hne. unfold gc. destruct (Nat.leb_spec (length gs) max); [reflexivity|].
  destruct (forallb _ gs); [|reflexivity].
  rewrite <- (firstn_skipn (length gs - max) gs) at 1. apply last_app'.
  intro E. apply (f_equal (@length grp)) in E. rewrite skipn_length in E. cbn in E. lia.
Qed.
Theorem gc_dirty_no_delete : forall gs max, forallb (fun g => fst (read_group g)) gs = false -> gc gs max = gs.
Proof. intros gs max H. unfold gc. destruct (length gs <=? max); [reflexivity|]. now rewrite H. Qed.
Theorem gc_removes_oldest_whole : forall gs max, exists k, gc gs max = skipn k gs.
Proof.
  intros gs max. unfold gc. destruct (length gs <=? max); [exists 0; reflexivity|].
  destruct (forallb _ gs); [eexists; reflexivity | exists 0; reflexivity].
Qed.

(* F3 inside the model: a failed first run on day 1, then a successful run on day 2 *)
Definition line := {| l_unique := true; l_hash := 7%N; l_size := 3%N |}.
Example F3_refuted :
  match publish (fail_after_select [] 2 1) 2 2 0 [line] with
  | Some gs => verify (map RGroup gs) = false
  | None => False end.
Proof. vm_compute. reflexivity. Qed.
Example healthy_history :
  match publish [] 2 1 0 [line] with
  | Some gs => match publish gs 2 2 0 [line] with Some gs' => verify (map RGroup gs') = true | None => False end
  | None => False end.
Proof. vm_compute. reflexivity. Qed.

(* ---------------- the age alarm (uploading/check.rs) in seconds ---------------- *)
Definition alarm (newest : option nat) (now threshold : nat) : bool :=
  match newest with None => true | Some t => if now <? t then true (* "in the future": reported too *) else threshold <=? now - t end.
Theorem alarm_iff : forall t now thr, t <= now -> alarm (Some t) now thr = true <-> now - t >= thr.
Proof. intros t now thr H. unfold alarm. destruct (Nat.ltb_spec now t); [lia|]. rewrite Nat.leb_le. lia. Qed.
