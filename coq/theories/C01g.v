(* PROTOTYPE (round 0): C01 at Layer A for the code as it is today (all repair switches off) *)
From Coq Require Import List Arith NArith ZArith Lia Bool Permutation.
Import ListNotations.
Require Import Restore2 Restore2Exec Restore2Plan C01a C01b C01c C01d C01e FxMono.

Theorem history_restore_today : forall h pre b dls ws post,
  HOK h -> h = pre ++ (b, dls, ws) :: post ->
  exists t, exec today (bs_of h) (b_name b) = Some (t, true) /\
    (forall p m, In (p, SDir m) (sn_of ws) -> t_get p t = Some (RDir (Some m))) /\
    (forall p m d, In (p, SFile m d) (sn_of ws) -> t_get p t = Some (RFile d (Some m))) /\
    (forall p m tg, In (p, SSym m tg) (sn_of ws) -> t_get p t = Some (RSym tg m)) /\
    (forall p n, t_get p t = Some n -> exists x, In (p, x) (sn_of ws)).
Proof.
  intros h pre b dls ws post Hh Eh.
  destruct (history_restore repaired h pre b dls ws post eq_refl eq_refl Hh Eh) as (t & E & R).
  exists t. split; [|exact R]. eapply success_holds_today; eauto.
Qed.
Print Assumptions history_restore_today.
