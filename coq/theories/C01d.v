(* PROTOTYPE (round 0): C01 stage 4b - from a well-formed group to the premises of restore_success, and exec *)
From Coq Require Import List Arith NArith ZArith Lia Bool Permutation.
Import ListNotations.
Require Import Restore2 Restore2Exec Restore2Plan C01a C01b C01c.
Open Scope N_scope.

Lemma NoDup_concat_In : forall (A : Type) (ls : list (list A)) l, NoDup (concat ls) -> In l ls -> NoDup l.
Proof.
  intros A ls. induction ls as [|x ls IH]; intros l Hn Hin; [destruct Hin|]. cbn [concat] in Hn.
  destruct Hin as [<-|Hin]; [eapply NoDup_app_l; eauto | apply IH; auto; eapply NoDup_app_r; eauto].
Qed.
Lemma NoDup_app_disj : forall (A : Type) (a b : list A) x, NoDup (a ++ b) -> In x a -> In x b -> False.
Proof.
  intros A a b x. induction a as [|y a IH]; intros Hn Ha Hb; [destruct Ha|]. cbn [app] in Hn. inversion Hn as [|? ? Hy Hn']; subst.
  destruct Ha as [<-|Ha]; [apply Hy; apply in_or_app; now right | eauto].
Qed.
Lemma NoDup_concat_disj : forall (A : Type) (ls : list (list A)) pre l1 post l2 x, NoDup (concat ls) ->
  ls = pre ++ l1 :: post -> In l2 post -> In x l1 -> In x l2 -> False.
Proof.
  intros A ls pre l1 post l2 x Hn E Hl2 H1 H2. subst ls. rewrite concat_app in Hn. apply NoDup_app_r in Hn. cbn [concat] in Hn.
  eapply NoDup_app_disj; eauto. apply in_concat. eauto.
Qed.

Section Group.
Variable sn : snapshot.
Variable uniq : path -> bool.
Hypothesis sn_nodup : NoDup (map fst sn).
Hypothesis uniq_nonempty : forall p m d, In (p, SFile m d) sn -> uniq p = true -> fsize d <> 0.

Definition mk (p : path) (d : bytes) : mline := {| l_unique := uniq p; l_hash := H d; l_size := fsize d; l_path := p |}.
Definition line_of (e : path * snode) : list mline := match e with (p, SFile m d) => [mk p d] | _ => [] end.
Definition Lm : list mline := flat_map line_of sn.

Lemma Lm_In : forall l, In l Lm <-> exists p m d, In (p, SFile m d) sn /\ l = mk p d.
Proof.
  intros l. unfold Lm. rewrite in_flat_map. split.
  - intros ([p n] & Hin & Hl). destruct n as [m|m d|m t]; cbn in Hl; try contradiction. destruct Hl as [<-|[]]. eauto.
  - intros (p & m & d & Hin & ->). exists (p, SFile m d). split; auto. now left.
Qed.
Lemma Lm_paths : forall l, In l Lm -> In (l_path l) (map fst sn).
Proof. intros l Hl. apply Lm_In in Hl as (p & m & d & Hin & ->). apply in_map_iff. exists (p, SFile m d). auto. Qed.
Lemma Lm_nodup : NoDup (map l_path Lm).
Proof.
  unfold Lm. clear uniq_nonempty. induction sn as [|[p n] l IH]; cbn [flat_map map]; [constructor|].
  cbn [map fst] in sn_nodup. inversion sn_nodup as [|? ? Hn Hnd]; subst. specialize (IH Hnd).
  destruct n as [m|m d|m t]; cbn [line_of app]; auto. cbn [map l_path mk]. constructor; auto.
  intro Hc. apply Hn. apply in_map_iff in Hc as (l0 & E & Hl0). apply in_flat_map in Hl0 as ([q nq] & Hq & Hl).
  destruct nq; cbn in Hl; try contradiction. destruct Hl as [<-|[]]. cbn in E. subst. apply in_map_iff. exists (p, SFile m0 d0). auto.
Qed.
Lemma is_own_mk : forall p d, is_own (mk p d) = own uniq p d.
Proof. reflexivity. Qed.

Lemma sn_fun : forall p n1 n2, In (p, n1) sn -> In (p, n2) sn -> n1 = n2.
Proof. intros. eapply sn_functional; eauto. Qed.

Lemma ExtLine_sn : forall q h sz, ExtLine Lm q h sz <-> exists m d, In (q, SFile m d) sn /\ own uniq q d = false /\ h = H d /\ sz = fsize d.
Proof.
  intros q h sz. unfold ExtLine. split.
  - intros (l & Hl & Ho & <- & <- & <-). apply Lm_In in Hl as (p & m & d & Hin & ->). exists m, d. rewrite is_own_mk in Ho. auto.
  - intros (m & d & Hin & Ho & -> & ->). exists (mk q d). split; [apply Lm_In; eauto|]. rewrite is_own_mk. auto.
Qed.

Lemma NoDup_map_filter : forall (A B : Type) (f : A -> B) (g : A -> bool) l, NoDup (map f l) -> NoDup (map f (filter g l)).
Proof.
  intros A B f g l. induction l as [|x l IH]; cbn [map filter]; intros Hn; [constructor|]. inversion Hn as [|? ? Hx Hn']; subst.
  destruct (g x); cbn [map]; [constructor; auto|auto]. intro Hc. apply Hx. apply in_map_iff in Hc as (y & E & Hy). apply filter_In in Hy as [Hy _].
  apply in_map_iff. eauto.
Qed.

Variable fx : fixes.
Hypothesis Hfx5 : fx5 fx = true.
Hypothesis Hfx7 : fx7 fx = true.
Variable name : N.
Definition bT : backup := {| b_name := name; b_manifest := Lm; b_archive := map (entry_of uniq) sn |}.
Definition ownL := filter is_own Lm.
Definition extL := filter (fun l => negb (is_own l)) Lm.
Definition X := rev (map l_path extL).

Lemma H_inj : forall a b : bytes, H a = H b -> a = b.
Proof. intros a b E. exact E. Qed.

(* sizes recorded on waiting paths agree with any resolving record of the same hash *)
Lemma ext_size : forall q h sz d, ExtLine Lm q h sz -> h = H d -> sz = fsize d.
Proof. intros q h sz d Hx E. apply ExtLine_sn in Hx as (m & dq & _ & _ & -> & ->). apply H_inj in E. now subst. Qed.

Lemma target_shape : exists ensT : list (mline * list (path * N)),
  let s0 := plan_target fx bT in
  TfOK Lm (p_tf s0) /\ p_exts s0 = concat (map fo_of ensT) /\ Permutation X (tfp (p_tf s0) ++ p_exts s0) /\
  (forall e, In e ensT -> In (fst e) ownL /\ (forall q sz, In (q, sz) (snd e) -> ExtLine Lm q (l_hash (fst e)) sz) /\
                         map_get (l_path (fst e)) (p_map s0) = Some (rfile_of true e)) /\
  (forall k r, map_get k (p_map s0) = Some r -> exists e, In e ensT /\ k = l_path (fst e)) /\
  (forall l, In l ownL -> exists ps, In (l, ps) ensT) /\
  p_ok s0 = true /\ NoDup (map (fun e => l_path (fst e)) ensT) /\
  (forall l ps, In l ownL -> ~ In (l_hash l, ps) (p_tf s0)).
Proof.
  unfold plan_target. cbn [b_manifest bT]. fold ownL extL.
  destruct (fold_push_TfOK Lm extL []) as [Htf0 Hperm0].
  { constructor; [split; [constructor|intros ? ? []] | intros ? ? ? ? [] | constructor]. }
  { intros l Hl. apply filter_In in Hl as [A B]. split; auto. now apply negb_true_iff. }
  { apply NoDup_map_filter. apply Lm_nodup. }
  { intros l _ []. }
  set (tf0 := fold_left (fun tf l => tf_push (l_hash l) (l_path l, l_size l) tf) extL []) in *.
  destruct (resolves_shape fx Hfx5 Hfx7 Lm true ownL {| p_tf := tf0; p_exts := []; p_map := []; p_ok := true |})
    as (ensT & Htf & Hex & Hperm & Hens & Hnew & _ & Hown & Hok & Hnd & Hgone & _).
  { exact Htf0. } { apply NoDup_map_filter. apply Lm_nodup. } { intros l _. reflexivity. }
  cbn [p_tf p_exts p_map p_ok] in *. exists ensT. cbn zeta.
  split; [exact Htf|]. split; [exact Hex|]. split.
  { unfold X. rewrite app_nil_r in Hperm0. eapply Permutation_trans; [apply Permutation_sym; exact Hperm0|]. rewrite Hex. exact Hperm. }
  split; [exact Hens|]. split.
  { intros k r Hk. destruct (Hnew k r Hk) as [A|B]; [discriminate|exact B]. }
  split; [apply Hown; reflexivity|]. split.
  { apply Hok. split; [reflexivity|]. intros e q sz He Hq. destruct (Hens e He) as (Hl & Hx & _).
    apply filter_In in Hl as [Hl _]. apply Lm_In in Hl as (p & m & d & _ & E). rewrite E in *. cbn [l_hash l_size mk] in *.
    eapply ext_size; eauto. }
  split; [exact Hnd|]. exact Hgone.
Qed.

(* ---- older backups ---- *)
Record ArchOK (b' : backup) : Prop := {
  ao_entry : forall l, In l (b_manifest b') -> l_unique l = true ->
     exists mm data, In (EReg (l_path l) mm (fsize data) data) (b_archive b') /\ l_size l = fsize data /\ l_hash l = H data;
  ao_reg : NoDup (reg_paths (b_archive b'));
  ao_keys : NoDup (map l_path (filter l_unique (b_manifest b')))
}.

Definition ensentry := (mline * list (path * N))%type.
Record StepEns (st : step) (ens : list ensentry) : Prop := {
  se_arch : ArchOK (fst st);
  se_ens : forall e, In e ens -> In (fst e) (filter l_unique (b_manifest (fst st))) /\
             (forall q sz, In (q, sz) (snd e) -> ExtLine Lm q (l_hash (fst e)) sz) /\
             map_get (l_path (fst e)) (snd st) = Some (rfile_of false e);
  se_keys : forall k r, map_get k (snd st) = Some r -> exists e, In e ens /\ k = l_path (fst e);
  se_nodup : NoDup (map (fun e : ensentry => l_path (fst e)) ens)
}.
Definition fos (x : step * list ensentry) : list path := concat (map fo_of (snd x)).

Lemma plan_rest_shape : forall older s steps steps' s',
  Forall ArchOK older -> TfOK Lm (p_tf s) -> Permutation X (tfp (p_tf s) ++ p_exts s) -> p_ok s = true ->
  plan_rest fx older s steps = (steps', s') ->
  exists ENS : list (step * list ensentry),
    steps' = steps ++ map fst ENS /\ TfOK Lm (p_tf s') /\ Permutation X (tfp (p_tf s') ++ p_exts s') /\ p_ok s' = true /\
    p_exts s' = p_exts s ++ concat (map fos ENS) /\ Forall (fun x => StepEns (fst x) (snd x)) ENS /\
    (p_tf s' = [] \/ forall b' l ps, In b' older -> In l (b_manifest b') -> l_unique l = true -> ~ In (l_hash l, ps) (p_tf s')) /\
    (forall h ps, In (h, ps) (p_tf s') -> In (h, ps) (p_tf s)).
Proof.
  induction older as [|b' older IH]; intros s steps steps' s' HA Htf Hperm Hok Hp; cbn [plan_rest] in Hp.
  - inversion Hp; subst. exists []. cbn [map concat]. rewrite !app_nil_r.
    split; [reflexivity|]. split; [exact Htf|]. split; [exact Hperm|]. split; [exact Hok|]. split; [reflexivity|]. split; [constructor|]. split; [right; intros ? ? ? []|auto].
  - destruct (p_tf s) as [|e0 tf0] eqn:Et.
    { inversion Hp; subst. exists []. cbn [map concat]. rewrite !app_nil_r. rewrite Et.
      split; [reflexivity|]. split; [exact Htf|]. split; [exact Hperm|]. split; [exact Hok|]. split; [reflexivity|]. split; [constructor|]. split; [left; reflexivity|auto]. }
    rewrite <- Et in *. inversion HA as [|? ? A1 As]; subst.
    rewrite plan_older_eq in Hp.
    set (sR := {| p_tf := p_tf s; p_exts := p_exts s; p_map := []; p_ok := p_ok s |}) in *.
    destruct (resolves_shape fx Hfx5 Hfx7 Lm false (filter l_unique (b_manifest b')) sR)
      as (ens & Htf1 & Hex1 & Hperm1 & Hens1 & Hnew1 & _ & _ & Hok1 & Hnd1 & Hgone1 & Hsub1).
    { exact Htf. } { apply (ao_keys _ A1). } { intros l _. reflexivity. }
    set (s1 := fold_left (fun s l => resolve fx false l s) (filter l_unique (b_manifest b')) sR) in *.
    cbn [p_tf p_exts p_map p_ok sR] in Hex1, Hperm1, Hok1, Hnew1, Hsub1.
    assert (Hok1' : p_ok s1 = true).
    { apply Hok1. split; [exact Hok|]. intros e q sz He Hq. destruct (Hens1 e He) as (Hl & Hx & _).
      apply filter_In in Hl as [Hl Hu]. destruct (ao_entry _ A1 _ Hl Hu) as (mm & data & _ & Hs & Hh). rewrite Hs. eapply ext_size; eauto. }
    assert (Hperm1' : Permutation X (tfp (p_tf s1) ++ p_exts s1)).
    { rewrite Hex1. eapply Permutation_trans; [exact Hperm|].
      eapply Permutation_trans; [apply Permutation_app_tail; exact Hperm1|].
      rewrite <- app_assoc. apply Permutation_app_head. apply Permutation_app_comm. }
    destruct (IH s1 _ _ _ As Htf1 Hperm1' Hok1' Hp) as (ENS & Est & Htf' & Hperm' & Hok' & Hex' & Hall & Hempty & Hsub').
    assert (Hse : StepEns (b', p_map s1) ens).
    { constructor; cbn [fst snd]; auto.
      intros k r Hk. destruct (Hnew1 k r Hk) as [A|B]; [discriminate|exact B]. }
    destruct (p_map s1) as [|m0 mrest] eqn:Em.
    + (* nothing resolved here: the step is not recorded and contributes no paths *)
      assert (ens = []).
      { destruct ens as [|e ens']; [reflexivity|]. destruct (Hens1 e (or_introl eq_refl)) as (_ & _ & Hg). rewrite ?Em in Hg. cbn in Hg. discriminate. }
      subst ens. cbn [map concat] in Hex1. rewrite app_nil_r in Hex1.
      exists ENS. split; [exact Est|]. split; [exact Htf'|]. split; [exact Hperm'|]. split; [exact Hok'|].
      split; [rewrite Hex', Hex1; reflexivity|]. split; [exact Hall|]. split.
      * destruct Hempty as [E|Hg]; [now left|right]. intros b0 l ps [<-|Hb0] Hl Hu; [|eauto].
        intro Hc. apply Hsub' in Hc. eapply Hgone1; eauto. apply filter_In. auto.
      * intros h ps Hi. apply Hsub1. apply Hsub'. exact Hi.
    + exists (((b', m0 :: mrest), ens) :: ENS). cbn [map fst].
      split; [rewrite Est, <- app_assoc; reflexivity|]. split; [exact Htf'|]. split; [exact Hperm'|]. split; [exact Hok'|].
      split; [rewrite Hex', Hex1; cbn [map concat fos snd]; rewrite <- app_assoc; reflexivity|].
      split; [constructor; [cbn [fst snd]; exact Hse|exact Hall]|]. split.
      * destruct Hempty as [E|Hg]; [now left|right]. intros b0 l ps [<-|Hb0] Hl Hu; [|eauto].
        intro Hc. apply Hsub' in Hc. eapply Hgone1; eauto. apply filter_In. auto.
      * intros h ps Hi. apply Hsub1. apply Hsub'. exact Hi.
Qed.

(* ---- everything together ---- *)
Hypothesis sn_nonroot : forall p n, In (p, n) sn -> p <> [].
Hypothesis sn_parents : forall pre p n suf, sn = pre ++ (p, n) :: suf -> parent p = [] \/ exists m, In (parent p, SDir m) pre.
Variable older : list backup.                           (* the backups before the target, newest first *)
Hypothesis older_ok : Forall ArchOK older.
(* the group invariant of C02, read at the level of contents *)
Hypothesis resolvable : forall q m d, In (q, SFile m d) sn -> own uniq q d = false ->
  (exists p m', In (p, SFile m' d) sn /\ own uniq p d = true) \/
  (exists b' l, In b' older /\ In l (b_manifest b') /\ l_unique l = true /\ l_hash l = H d).
Variable group : list backup.
Hypothesis group_split : split_at name (rev group) = Some (bT, older).

Lemma X_nodup : NoDup X.
Proof. unfold X. apply NoDup_rev. apply NoDup_map_filter. apply Lm_nodup. Qed.
Lemma X_ext : forall q, In q X <-> is_ext sn uniq q.
Proof.
  intros q. unfold X, extL. rewrite <- in_rev, in_map_iff. split.
  - intros (l & <- & Hl). apply filter_In in Hl as [Hl Ho]. apply negb_true_iff in Ho. apply Lm_In in Hl as (p & m & d & Hin & ->).
    exists m, d. rewrite is_own_mk in Ho. auto.
  - intros (m & d & Hin & Ho). exists (mk q d). split; [reflexivity|]. apply filter_In. split; [apply Lm_In; eauto|].
    rewrite is_own_mk, Ho. reflexivity.
Qed.

Theorem exec_success : exists t,
  exec fx group name = Some (t, true) /\
  (forall p m, In (p, SDir m) sn -> t_get p t = Some (RDir (Some m))) /\
  (forall p m d, In (p, SFile m d) sn -> t_get p t = Some (RFile d (Some m))) /\
  (forall p m tg, In (p, SSym m tg) sn -> t_get p t = Some (RSym tg m)) /\
  (forall p n, t_get p t = Some n -> exists x, In (p, x) sn).
Proof.
  destruct target_shape as (ensT & HtfT & HexT & HpermT & HensT & HkeysT & HownT & HokT & HndT & HgoneT).
  set (s0 := plan_target fx bT) in *.
  destruct (plan_rest fx older s0 [(bT, p_map s0)]) as [steps s'] eqn:Er.
  destruct (plan_rest_shape older s0 _ _ _ older_ok HtfT HpermT HokT Er) as (ENS & Est & Htf' & Hperm' & Hok' & Hex' & Hall & Hempty & Hsub').
  (* nothing is left unresolved *)
  assert (Hnil : p_tf s' = []).
  { remember (p_tf s') as tfl eqn:Etl. destruct tfl as [|[h ps] tf]; [reflexivity|]. exfalso.
    destruct ps as [|[q sz] ps'].
    { destruct (tk_wf _ _ Htf') as [_ Hne]. apply (Hne h []); [now left|reflexivity]. }
    assert (Hin : In (h, (q, sz) :: ps') ((h, (q, sz) :: ps') :: tf)) by now left.
    pose proof (tk_ext _ _ Htf' h _ q sz Hin (or_introl eq_refl)) as Hx.
    apply ExtLine_sn in Hx as (m & dq & Hq & Ho & -> & _).
    destruct (resolvable q m dq Hq Ho) as [(p & m' & Hp & Hop)|(b' & l & Hb' & Hl & Hu & Hh)].
    - eapply (HgoneT (mk p dq)); [apply filter_In; split; [apply Lm_In; eauto | rewrite is_own_mk; exact Hop] | apply Hsub'; exact Hin].
    - destruct Hempty as [E|Hg]; [rewrite E in Hin; destruct Hin|]. eapply Hg; eauto. rewrite Hh. exact Hin. }
  set (files := p_map s0) in *. set (exts := p_exts s') in *.
  assert (Hperm : Permutation X exts) by (rewrite Hnil in Hperm'; exact Hperm').
  assert (Hnd_exts : NoDup exts) by (eapply Permutation_NoDup; [exact Hperm|apply X_nodup]).
  assert (Hexts : exts = concat (map fo_of ensT) ++ concat (map fos ENS)) by (rewrite Hex', HexT; reflexivity).
  assert (Hexts_ext : forall q, In q exts <-> is_ext sn uniq q).
  { intros q. rewrite <- X_ext. split; intro Hq; [eapply Permutation_in; [apply Permutation_sym; exact Hperm|exact Hq] | eapply Permutation_in; eauto]. }
  (* the target map *)
  assert (Hkey_e : forall k r, map_get k files = Some r -> exists e, In e ensT /\ k = l_path (fst e) /\ r = rfile_of true e).
  { intros k r Hk. destruct (HkeysT k r Hk) as (e & He & ->). destruct (HensT e He) as (_ & _ & Hg). exists e. repeat split; auto. congruence. }
  assert (Hown_e : forall e, In e ensT -> exists p m d, In (p, SFile m d) sn /\ own uniq p d = true /\ fst e = mk p d).
  { intros e He. destruct (HensT e He) as (Hl & _). apply filter_In in Hl as [Hl Ho]. apply Lm_In in Hl as (p & m & d & Hin & E).
    exists p, m, d. rewrite E, is_own_mk in Ho. auto. }
  assert (Hfo_ext : forall e q, In e ensT -> In q (fo_of e) -> forall p d, fst e = mk p d -> exists mq, In (q, SFile mq d) sn /\ own uniq q d = false).
  { intros e q He Hq p d E. unfold fo_of in Hq. apply in_map_iff in Hq as ([q0 sz] & <- & Hq). destruct (HensT e He) as (_ & Hx & _).
    specialize (Hx _ _ Hq). rewrite E in Hx. cbn [l_hash mk] in Hx. apply ExtLine_sn in Hx as (mq & dq & Hin & Ho & Eh & _). apply H_inj in Eh. subst dq. eauto. }
  assert (Hfo_nodup_e : forall e, In e ensT -> NoDup (fo_of e)).
  { intros e He. eapply (NoDup_concat_In _ (map fo_of ensT)); [rewrite Hexts in Hnd_exts; eapply NoDup_app_l; eauto | apply in_map; auto]. }
  assert (files_own : forall p m d, In (p, SFile m d) sn -> own uniq p d = true ->
            exists fo, map_get p files = Some {| rf_hash := H d; rf_size := fsize d; rf_paths := fo ++ [p] |} /\
                       forall q, In q fo -> exists mq, In (q, SFile mq d) sn /\ own uniq q d = false).
  { intros p m d Hin Ho. destruct (HownT (mk p d)) as (ps & He); [apply filter_In; split; [apply Lm_In; eauto|rewrite is_own_mk; auto]|].
    destruct (HensT _ He) as (_ & _ & Hg). cbn [fst mk l_path] in Hg. exists (fo_of (mk p d, ps)). split; [exact Hg|].
    intros q Hq. eapply (Hfo_ext _ q He Hq p d). reflexivity. }
  assert (files_only_own : forall p info, map_get p files = Some info -> exists m d, In (p, SFile m d) sn /\ own uniq p d = true).
  { intros p info Hg. destruct (Hkey_e p info Hg) as (e & He & -> & _). destruct (Hown_e e He) as (p0 & m & d & Hin & Ho & E). rewrite E. cbn. eauto. }
  assert (own_not_ext : forall p m d q mq dq, In (p, SFile m d) sn -> own uniq p d = true -> In (q, SFile mq dq) sn -> own uniq q dq = false -> p <> q).
  { intros p m d q mq dq H1 Ho1 H2 Ho2 E. subst q. pose proof (sn_fun _ _ _ H1 H2) as E. inversion E; subst. congruence. }
  assert (fo_nodup : forall p i, map_get p files = Some i -> NoDup (rf_paths i)).
  { intros p i Hg. destruct (Hkey_e p i Hg) as (e & He & -> & ->). unfold rfile_of. cbn [rf_paths].
    destruct (Hown_e e He) as (p0 & m & d & Hin & Ho & E). apply NoDup_app_intro; [apply Hfo_nodup_e; auto | constructor; [intros []|constructor] |].
    intros x Hx [<-|[]]. destruct (Hfo_ext e _ He Hx p0 d E) as (mq & Hq & Hoq). rewrite E in *. cbn [l_path mk] in *.
    eapply own_not_ext; eauto. }
  assert (entry_eq : forall e1 e2, In e1 ensT -> In e2 ensT -> l_path (fst e1) = l_path (fst e2) -> e1 = e2).
  { intros e1 e2 H1 H2 E. clear - HndT H1 H2 E. induction ensT as [|e l IH]; [destruct H1|]. cbn [map] in HndT. inversion HndT as [|? ? Hn Hnd]; subst.
    destruct H1 as [<-|H1], H2 as [<-|H2]; auto.
    - exfalso. apply Hn. apply in_map_iff. exists e2. auto.
    - exfalso. apply Hn. apply in_map_iff. exists e1. auto. }
  assert (fo_disjoint : forall p1 p2 i1 i2 q, map_get p1 files = Some i1 -> map_get p2 files = Some i2 -> In q (rf_paths i1) -> In q (rf_paths i2) -> p1 = p2).
  { intros p1 p2 i1 i2 q G1 G2 Q1 Q2.
    destruct (Hkey_e p1 i1 G1) as (e1 & He1 & -> & ->). destruct (Hkey_e p2 i2 G2) as (e2 & He2 & -> & ->).
    unfold rfile_of in Q1, Q2. cbn [rf_paths] in Q1, Q2.
    destruct (Hown_e e1 He1) as (a1 & m1 & d1 & Hi1 & Ho1 & E1). destruct (Hown_e e2 He2) as (a2 & m2 & d2 & Hi2 & Ho2 & E2).
    apply in_app_or in Q1 as [Q1|[Q1|[]]]; apply in_app_or in Q2 as [Q2|[Q2|[]]].
    - (* both fan-outs: the same record, else the concatenation would repeat q *)
      destruct (in_split e1 ensT He1) as (pre & post & Esp).
      destruct (list_eq_dec N.eq_dec (l_path (fst e1)) (l_path (fst e2))) as [E|Hne]; [exact E|]. exfalso.
      assert (He2' : In e2 pre \/ In e2 post).
      { rewrite Esp in He2. apply in_app_or in He2 as [A|[A|A]]; [now left | subst; congruence | now right]. }
      assert (Hnd1 : NoDup (concat (map fo_of ensT))) by (rewrite Hexts in Hnd_exts; eapply NoDup_app_l; eauto).
      destruct He2' as [A|A].
      + destruct (in_split e2 pre A) as (pre2 & post2 & Esp2).
        eapply (NoDup_concat_disj _ (map fo_of ensT) (map fo_of pre2) (fo_of e2) (map fo_of post2 ++ fo_of e1 :: map fo_of post) (fo_of e1) q Hnd1); auto.
        * rewrite Esp, Esp2. rewrite !map_app. cbn [map]. rewrite <- app_assoc. reflexivity.
        * apply in_or_app. right. now left.
      + eapply (NoDup_concat_disj _ (map fo_of ensT) (map fo_of pre) (fo_of e1) (map fo_of post) (fo_of e2) q Hnd1); auto.
        * rewrite Esp, map_app. reflexivity.
        * apply in_map. exact A.
    - exfalso. subst q. destruct (Hfo_ext e1 _ He1 Q1 a1 d1 E1) as (mq & Hq & Hoq). rewrite E2 in *. cbn [l_path mk] in *. eapply (own_not_ext a2 m2 d2); eauto.
    - exfalso. subst q. destruct (Hfo_ext e2 _ He2 Q2 a2 d2 E2) as (mq & Hq & Hoq). rewrite E1 in *. cbn [l_path mk] in *. eapply (own_not_ext a1 m1 d1); eauto.
    - congruence. }
  (* the older steps *)
  rewrite Forall_forall in Hall.
  assert (HndO : NoDup (concat (map fos ENS))) by (rewrite Hexts in Hnd_exts; eapply NoDup_app_r; eauto).
  assert (HFO : forall x q, In x ENS -> FO (snd (fst x)) q -> In q (fos x)).
  { intros x q Hx (k & info & Hg & Hq). pose proof (Hall x Hx) as SE.
    destruct (se_keys _ _ SE k info Hg) as (e & He & ->). destruct (se_ens _ _ SE e He) as (_ & _ & Hg'). rewrite Hg in Hg'. inversion Hg'; subst info.
    unfold rfile_of in Hq. cbn [rf_paths] in Hq. rewrite app_nil_r in Hq. unfold fos. apply in_concat. exists (fo_of e). split; [apply in_map; auto|auto]. }
  assert (HFO' : forall x q, In x ENS -> In q (fos x) -> FO (snd (fst x)) q).
  { intros x q Hx Hq. unfold fos in Hq. apply in_concat in Hq as (l & Hl & Hq). apply in_map_iff in Hl as (e & <- & He).
    destruct (se_ens _ _ (Hall x Hx) e He) as (_ & _ & Hg). exists (l_path (fst e)), (rfile_of false e). split; auto.
    unfold rfile_of. cbn [rf_paths]. rewrite app_nil_r. exact Hq. }
  assert (HTFO : forall q, TFO files q -> In q (concat (map fo_of ensT))).
  { intros q (p & info & Hg & Hq & Hne). destruct (Hkey_e p info Hg) as (e & He & -> & ->). unfold rfile_of in Hq. cbn [rf_paths] in Hq.
    apply in_app_or in Hq as [Hq|[Hq|[]]]; [|congruence]. apply in_concat. exists (fo_of e). split; [apply in_map; auto|auto]. }
  assert (osteps_ok : Forall (OStepOK sn uniq) (map fst ENS)).
  { apply Forall_forall. intros st Hst. apply in_map_iff in Hst as (x & <- & Hx). pose proof (Hall x Hx) as SE.
    assert (Hndx : NoDup (fos x)) by (eapply NoDup_concat_In; [exact HndO | apply in_map; auto]).
    constructor.
    - intros p' info Hg. destruct (se_keys _ _ SE p' info Hg) as (e & He & ->). destruct (se_ens _ _ SE e He) as (Hl & Hx' & Hg').
      rewrite Hg in Hg'. inversion Hg'; subst info. apply filter_In in Hl as [Hl Hu].
      destruct (ao_entry _ (se_arch _ _ SE) _ Hl Hu) as (mm & data & Hin & Hs & Hh). exists mm, data. split; [exact Hin|].
      unfold rfile_of. cbn [rf_size rf_hash rf_paths]. rewrite app_nil_r. split; [exact Hs|]. split; [exact Hh|]. split.
      + eapply (NoDup_concat_In _ (map fo_of (snd x))); [exact Hndx | apply in_map; auto].
      + intros q Hq. unfold fo_of in Hq. apply in_map_iff in Hq as ([q0 sz] & <- & Hq). specialize (Hx' _ _ Hq).
        apply ExtLine_sn in Hx' as (mq & dq & Hi & Ho & Eh & _). rewrite Hh in Eh. apply H_inj in Eh. subst dq. eauto.
    - apply (ao_reg _ (se_arch _ _ SE)).
    - intros p1 p2 i1 i2 q G1 G2 Q1 Q2.
      destruct (se_keys _ _ SE p1 i1 G1) as (e1 & He1 & ->). destruct (se_keys _ _ SE p2 i2 G2) as (e2 & He2 & ->).
      destruct (se_ens _ _ SE e1 He1) as (_ & _ & G1'). destruct (se_ens _ _ SE e2 He2) as (_ & _ & G2').
      rewrite G1 in G1'. rewrite G2 in G2'. inversion G1'; subst i1. inversion G2'; subst i2.
      unfold rfile_of in Q1, Q2. cbn [rf_paths] in Q1, Q2. rewrite app_nil_r in Q1, Q2.
      destruct (list_eq_dec N.eq_dec (l_path (fst e1)) (l_path (fst e2))) as [E|Hne]; [exact E|]. exfalso.
      destruct (in_split e1 (snd x) He1) as (pre & post & Esp).
      assert (He2' : In e2 pre \/ In e2 post).
      { rewrite Esp in He2. apply in_app_or in He2 as [A|[A|A]]; [now left | subst; congruence | now right]. }
      destruct He2' as [A|A].
      + destruct (in_split e2 pre A) as (pre2 & post2 & Esp2).
        eapply (NoDup_concat_disj _ (map fo_of (snd x)) (map fo_of pre2) (fo_of e2) (map fo_of post2 ++ fo_of e1 :: map fo_of post) (fo_of e1) q Hndx); auto.
        * rewrite Esp, Esp2. rewrite !map_app. cbn [map]. rewrite <- app_assoc. reflexivity.
        * apply in_or_app. right. now left.
      + eapply (NoDup_concat_disj _ (map fo_of (snd x)) (map fo_of pre) (fo_of e1) (map fo_of post) (fo_of e2) q Hndx); auto.
        * rewrite Esp, map_app. reflexivity.
        * apply in_map. exact A. }
  assert (older_vs_target : forall st x, In st (map fst ENS) -> FO (snd st) x -> ~ TFO files x).
  { intros st x Hst Hx Ht. apply in_map_iff in Hst as (xe & <- & Hxe). pose proof (HFO _ _ Hxe Hx) as H2. pose proof (HTFO _ Ht) as H1.
    rewrite Hexts in Hnd_exts. eapply NoDup_app_disj; [exact Hnd_exts | exact H1 |]. apply in_concat. exists (fos xe). split; [apply in_map; auto|auto]. }
  assert (older_disjoint : forall pre st post x, map fst ENS = pre ++ st :: post -> FO (snd st) x -> forall st', In st' post -> ~ FO (snd st') x).
  { intros pre st post x E Hx st' Hst' Hx'.
    apply map_eq_app in E as (preE & restE & EE & Epre & Erest). apply map_eq_cons in Erest as (xe & postE & -> & <- & <-).
    apply in_map_iff in Hst' as (xe' & <- & Hxe').
    assert (Hxe : In xe ENS) by (rewrite EE; apply in_or_app; right; now left).
    assert (Hxe'2 : In xe' ENS) by (rewrite EE; apply in_or_app; right; now right).
    eapply (NoDup_concat_disj _ (map fos ENS) (map fos preE) (fos xe) (map fos postE) (fos xe') x HndO); auto.
    - rewrite EE, map_app. reflexivity.
    - apply in_map. exact Hxe'. }
  assert (coverage : forall q, is_ext sn uniq q -> TFO files q \/ exists st, In st (map fst ENS) /\ FO (snd st) q).
  { intros q Hq. pose proof (proj2 (Hexts_ext q) Hq) as Hin. rewrite Hexts in Hin. apply in_app_or in Hin as [Hin|Hin].
    - left. apply in_concat in Hin as (l & Hl & Hql). apply in_map_iff in Hl as (e & <- & He).
      destruct (HensT e He) as (_ & _ & Hg). destruct (Hown_e e He) as (p & m & d & Hi & Ho & E).
      exists (l_path (fst e)), (rfile_of true e). split; [exact Hg|]. split; [unfold rfile_of; cbn [rf_paths]; apply in_or_app; now left|].
      destruct (Hfo_ext e q He Hql p d E) as (mq & Hqi & Hoq). rewrite E. cbn [l_path mk]. intro Eq. subst q. eapply (own_not_ext p m d p mq d); eauto.
    - right. apply in_concat in Hin as (l & Hl & Hql). apply in_map_iff in Hl as (x & <- & Hx). exists (fst x). split; [apply in_map; auto | apply HFO'; auto]. }
  destruct (restore_success sn uniq sn_nodup sn_nonroot sn_parents files [] exts files_own files_only_own Hexts_ext fo_disjoint fo_nodup
              fx bT eq_refl (map fst ENS) osteps_ok older_vs_target older_disjoint coverage)
    as (s & t & Hdo & Hoks & Hpend & Hpre & Happ & Hd & Hf & Hsy & Honly).
  exists t. split; [|repeat split; auto].
  subst files exts s0. unfold exec, plan. rewrite group_split, Er, Hnil, Hok'. cbn [map concat snd fst andb].
  rewrite Est. cbn [app].
  change {| tr := []; pre := []; pending := p_exts s'; restored := []; sched := []; ok := true; seen := [] |} with (s_init (p_exts s')).
  match goal with |- match ?X with _ => _ end = _ => replace X with (Some s) by (symmetry; exact Hdo) end.
  rewrite Hpend in Happ. rewrite Hpend, Happ, Hoks, Hpre. reflexivity.
Qed.
End Group.
Print Assumptions exec_success.
