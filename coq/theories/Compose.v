(* PROTOTYPE (round 0): C04's provable half - the reader thread (hash every block, forward it, finish with the checksum)
   composed with the splitter: whatever blocks gpg's stdout yields and whatever the request-size limit, the request
   bodies are the stream cut at the limit, in order, and the finalisation carries the provider's checksum of the stream *)
From Coq Require Import List Arith NArith ZArith Lia Bool.
Import ListNotations.
Require Import Chunk Splitter.

Section C.
Variable H : list N -> list N.          (* SHA-256 *)
Variable blk : nat.                     (* the provider's hash block size (4 MiB for Dropbox) *)
Hypothesis Hblk : blk > 0.

(* encryptor.rs::read_data: each block goes to the hasher and then down the channel; EOF sends the digest *)
Definition reader (blocks : list (list N)) : option (list msg) :=
  match feed H blk (init) blocks with
  | Some s => Some (map Payload blocks ++ [Eof (finish H s)])
  | None => None
  end.

Theorem upload_stream_exact : forall blocks m budget, m >= 1 -> 2 * length (concat blocks) + 1 <= budget ->
  exists msgs es0,
    reader blocks = Some msgs /\
    splitter (Some m) budget msgs = (es0 ++ [EEof (length (concat blocks)) (spec H blk (concat blocks))], ROk) /\
    bodies (es0 ++ [EEof (length (concat blocks)) (spec H blk (concat blocks))]) = from_off 0 (chunks m (concat blocks)) /\
    concat (chunks m (concat blocks)) = concat blocks.
Proof.
  intros blocks m budget Hm Hb. unfold reader.
  destruct (chunked_sha256_correct H blk blocks Hblk) as (s & Hs & Hf). rewrite Hs.
  destruct (splitter_correct m blocks (finish H s) budget Hm Hb) as (es0 & Hr & Hbod).
  exists (map Payload blocks ++ [Eof (finish H s)]), es0. rewrite <- Hf. repeat split; auto.
  now apply chunks_concat.
Qed.
End C.
Print Assumptions upload_stream_exact.
