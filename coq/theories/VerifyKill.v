(* PROTOTYPE (round 0): C13, killed runs - a kill leaves at most temporaries (and possibly a fresh empty group) behind;
   verification never looks at temporaries, so health is kept *)
From Coq Require Import List Arith NArith Lia Bool.
Import ListNotations.
Require Import Verify VerifyRuns.

(* health of a group depends only on its final-named entries and on the absence of junk *)
Lemma healthy_same_finals : forall g es', HealthyGroup g -> finals es' = finals (g_entries g) -> ~ In GJunk es' ->
  HealthyGroup {| g_day := g_day g; g_entries := es' |}.
Proof.
  intros g es' (A & B & C & D) Ef Hj. unfold HealthyGroup. cbn [g_day g_entries]. rewrite Ef.
  split; [exact Hj|]. split; [exact B|]. split; [exact C|exact D].
Qed.

(* every state a kill can leave in the group being written: any sub-selection of the old temporaries deleted,
   and the new temporary present or not *)
Definition only_temps_differ (es es' : list gentry) : Prop := finals es' = finals es /\ (In GJunk es' -> In GJunk es).

(* where a kill can strike: before anything, while abandoned temporaries are deleted, after the temporary was created,
   at any write; (after the rename the state is that of [publish]) *)
Inductive killed : list grp -> nat -> nat -> list grp -> Prop :=
| K_reuse : forall gs g older max day es',
    rev gs = g :: older -> length (kept g) < max -> only_temps_differ (g_entries g) es' ->
    killed gs max day (rev older ++ [{| g_day := g_day g; g_entries := es' |}])
| K_new : forall gs g older max day es',
    rev gs = g :: older -> ~ length (kept g) < max -> finals es' = [] -> ~ In GJunk es' ->
    killed gs max day (gs ++ [{| g_day := day; g_entries := es' |}])
| K_first : forall max day es', finals es' = [] -> ~ In GJunk es' ->
    killed [] max day [{| g_day := day; g_entries := es' |}]
| K_nothing : forall gs max day, killed gs max day gs.

Lemma healthy_no_finals : forall day es, finals es = [] -> ~ In GJunk es -> HealthyGroup {| g_day := day; g_entries := es |}.
Proof.
  intros day es Ef Hj. unfold HealthyGroup. cbn [g_day g_entries]. rewrite Ef.
  split; [exact Hj|]. split; [intros b r E; discriminate|]. split; [intros b []|exact I].
Qed.

Theorem kill_keeps_healthy : forall gs max day gs', Forall HealthyGroup gs -> killed gs max day gs' -> Forall HealthyGroup gs'.
Proof.
  intros gs max day gs' Hh Hk. destruct Hk as [gs g older max day es' Er Hl [Ef Hj]|gs g older max day es' Er Hl Ef Hj|max day es' Ef Hj|gs max day].
  - destruct (rev_cons_last _ gs g older {| g_day := 0; g_entries := [] |} Er) as [_ Egs].
    rewrite Egs in Hh. apply Forall_app in Hh as [Hold Hg]. apply Forall_inv in Hg.
    apply Forall_app. split; auto. constructor; [|constructor]. apply healthy_same_finals; auto.
    intro Hc. destruct Hg as (Hn & _). apply Hn. auto.
  - apply Forall_app. split; auto. constructor; [|constructor]. now apply healthy_no_finals.
  - constructor; [|constructor]. now apply healthy_no_finals.
  - exact Hh.
Qed.
Print Assumptions kill_keeps_healthy.
