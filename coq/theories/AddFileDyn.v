(* PROTOTYPE (round 0): C15 - add_file / deduplicate for a file that may change while it is read: two read passes over
   an arbitrary reader oracle.  What is recorded describes exactly what restore will produce. *)
From Coq Require Import List Arith NArith Lia Bool.
Import ListNotations.
Require Import FileReader.

Section A.
Variable S : Type.
Variable rd : S -> nat -> option (list N) * S.
Hypothesis rd_len : forall s n bs s', rd s n = (Some bs, s') -> length bs <= n.
Variable rewind : S -> S.                              (* file.seek(SeekFrom::Start(0)) *)
Variable bz1 bz2 : nat -> nat.                         (* buffer sizes of io::copy and of tar's append *)
Hypothesis bz1_pos : forall i, bz1 i >= 1.
Hypothesis bz2_pos : forall i, bz2 i >= 1.
Variable hash : Type.
Variable Hh : list N -> hash.
Variable known : hash -> bool.                          (* extern_hashes.contains *)
Variable EMPTY : hash.

Inductive outcome :=
| Extern (h : hash) (size : nat)                        (* empty entry, manifest line `extern h size` *)
| Unique (h : hash) (size : nat) (entry : list N)       (* entry data, manifest line `unique h size` *)
| Abort.                                                (* an I/O error while reading: the run aborts *)

(* [last] = the hash recorded for this path by the previous backup if the fingerprint is unchanged *)
Definition add_file (s : S) (declared : nat) (last : option hash) : outcome :=
  if declared =? 0 then Extern EMPTY 0 else
  match last with
  | Some h => Extern h declared
  | None =>
    match run S rd bz1 s declared with
    | Done _ _ f1 =>
      if known (Hh (real S f1)) then Extern (Hh (real S f1)) (bytes_read S f1)
      else match run S rd bz2 (rewind (src S f1)) declared with
           | Done _ out f2 => Unique (Hh (real S f2)) (bytes_read S f2) out
           | _ => Abort end
    | _ => Abort
    end
  end.

(* C15: a unique record: the entry has exactly the declared size (so the archive stays well formed whatever the
   file did), its first `size` bytes are the bytes that were actually read and hashed, the rest is zero padding *)
Theorem unique_record_exact : forall s declared h size entry,
  add_file s declared None = Unique h size entry ->
  length entry = declared /\ size <= declared /\ Hh (firstn size entry) = h /\
  skipn size entry = repeat 0%N (declared - size).
Proof.
  intros s declared h size entry H. unfold add_file in H. destruct (declared =? 0); [discriminate|].
  destruct (run S rd bz1 s declared) as [o1 f1| |]; try discriminate.
  destruct (known (Hh (real S f1))); [discriminate|].
  pose proof (file_reader_exact S rd rd_len bz2 bz2_pos (rewind (src S f1)) declared) as Hx.
  destruct (run S rd bz2 (rewind (src S f1)) declared) as [o2 f2| |]; try discriminate.
  inversion H; subst. destruct Hx as (Hl & Ho & Hb & Hle). rewrite Hb. repeat split; auto.
  - rewrite Ho at 1. rewrite firstn_app, firstn_all, Nat.sub_diag. cbn [firstn]. now rewrite app_nil_r.
  - rewrite Ho at 1. rewrite skipn_app, skipn_all, Nat.sub_diag. cbn [skipn app]. reflexivity.
Qed.

(* an extern record made by the first pass: hash and size are those of the bytes that pass read, and the hash is one
   the group already stores - so, with collision freedom, restore writes exactly those bytes *)
Theorem extern_by_hash_exact : forall s declared h size,
  add_file s declared None = Extern h size -> declared <> 0 ->
  exists bytes, h = Hh bytes /\ size = length bytes /\ size <= declared /\ known h = true.
Proof.
  intros s declared h size H Hd. unfold add_file in H. destruct (declared =? 0) eqn:E; [apply Nat.eqb_eq in E; congruence|].
  pose proof (file_reader_exact S rd rd_len bz1 bz1_pos s declared) as Hx.
  destruct (run S rd bz1 s declared) as [o1 f1| |]; try discriminate.
  destruct (known (Hh (real S f1))) eqn:Ek; [|destruct (run S rd bz2 _ declared); discriminate].
  inversion H; subst. destruct Hx as (_ & _ & Hb & Hle). exists (real S f1). rewrite Hb. auto.
Qed.

(* whatever the file does, adding it yields a well-formed record or aborts the run; it never yields a malformed one *)
Theorem add_file_total : forall s declared last,
  match add_file s declared last with
  | Unique _ size entry => length entry = declared /\ size <= declared
  | Extern _ size => size <= declared
  | Abort => True end.
Proof.
  intros s declared last. unfold add_file. destruct (declared =? 0) eqn:E; [lia|]. destruct last; [lia|].
  pose proof (file_reader_exact S rd rd_len bz1 bz1_pos s declared) as H1.
  destruct (run S rd bz1 s declared) as [o1 f1| |]; auto.
  destruct (known (Hh (real S f1))); [destruct H1 as (_ & _ & Hb & Hle); lia|].
  pose proof (file_reader_exact S rd rd_len bz2 bz2_pos (rewind (src S f1)) declared) as H2.
  destruct (run S rd bz2 (rewind (src S f1)) declared) as [o2 f2| |]; auto. destruct H2 as (Hl & _ & Hb & Hle). lia.
Qed.
End A.
Print Assumptions unique_record_exact.
Print Assumptions extern_by_hash_exact.
