(* Wire glue for C19 / C08: Backuper::run over items with hooks and per-node faults.
   case: (items); item = (before_opt after_opt tree_opt denied_names); hook = 0 fails / 1 succeeds;
   node = (0 data fault) file | (1 ((name node) ...) fault) directory | (2 target fault) symlink | (3) special file
   fault = 0 none | 1 vanished | 2 denied | 3 type changed | 4 read error; denied_names: children names the filter cannot decode (unused: ())
   result: (0 trace aborted ok); trace event = (0 i ok) before | (1 i events) walk | (2 i) prepare error | (3 i ok) after
           walk event = (0 path) dir | (1 path data) file | (2 path target) symlink | (3 path) error | (4 path) warning | (5 path) abort *)
From Coq Require Import List NArith Bool Arith.
Import ListNotations.
Require Import Wire Walker Hooks Hooks2.
Local Open Scope N_scope.

Definition dec_fault (n : N) : fault :=
  match n with 1 => Vanish | 2 => Denied | 3 => TypeChanged | 4 => ReadErr | _ => NoFault end.

Fixpoint dec_node (v : val) : option node :=
  match v with
  | VL [VN 0; d; VN f] => option_map (fun d => NFile d (dec_fault f)) (as_bytes d)
  | VL [VN 1; VL cs; VN f] =>
    option_map (fun cs => NDir cs (dec_fault f))
      ((fix go (l : list val) : option (list (name * node)) :=
          match l with
          | [] => Some []
          | VL [VN nm; c] :: r => match dec_node c, go r with Some c, Some r => Some ((nm, c) :: r) | _, _ => None end
          | _ => None
          end) cs)
  | VL [VN 2; t; VN f] => option_map (fun t => NSym t (dec_fault f)) (as_bytes t)
  | VL [VN 3] => Some NSpecial
  | _ => None
  end.

Definition dec_item (v : val) : option item :=
  match v with
  | VL [b; a; t] =>
    match as_option as_bool b, as_option as_bool a, as_option dec_node t with
    | Some b, Some a, Some t => Some {| it_before := b; it_after := a; it_tree := t; it_filter := fun _ => Some true |}
    | _, _, _ => None end
  | VL [b; a; t; bad] =>
    (* bad = item-relative paths whose name cannot be represented (not UTF-8, or containing CR / LF) *)
    match as_option as_bool b, as_option as_bool a, as_option dec_node t, as_listof as_bytes bad with
    | Some b, Some a, Some t, Some bad =>
      Some {| it_before := b; it_after := a; it_tree := t;
              it_filter := fun p => if existsb (fun q => if list_eq_dec N.eq_dec p q then true else false) bad then None else Some true |}
    | _, _, _, _ => None end
  | _ => None end.

Definition enc_path (p : rpath) : val := VL (map VN p).
Definition enc_ev (e : ev) : val :=
  match e with
  | EvDir p => VL [VN 0; enc_path p]
  | EvFile p d => VL [VN 1; enc_path p; of_bytes d]
  | EvSym p t => VL [VN 2; enc_path p; of_bytes t]
  | EvError p => VL [VN 3; enc_path p]
  | EvWarn p => VL [VN 4; enc_path p]
  | EvAbort p => VL [VN 5; enc_path p]
  end.
Definition enc_iev (e : iev) : val :=
  match e with
  | IBefore i ok => VL [VN 0; of_nat i; of_bool ok]
  | IWalk i es => VL [VN 1; of_nat i; of_list enc_ev es]
  | IPrepErr i => VL [VN 2; of_nat i]
  | IAfter i ok => VL [VN 3; of_nat i; of_bool ok]
  end.

Definition run_c19 (v : val) : val :=
  match v with
  | VL [its] =>
    match as_listof dec_item its with
    | Some its => let r := run_items 0 its in VL [VN 0; of_list enc_iev (fst r); of_bool (snd r); of_bool (run_ok its)]
    | None => bad_input end
  | _ => bad_input end.
