(* PROTOTYPE (round 0): C19, second sentence - a hook of a reached item that cannot be started or exits non-zero makes the
   run report failure (and, by hooks_bracket, does not stop the item or the run) *)
From Coq Require Import List Arith NArith Lia Bool.
Import ListNotations.
Require Import Walker Hooks.

Definition run_ok (its : list item) : bool :=
  let r := run_items 0 its in forallb iev_ok (fst r) && negb (snd r).

Lemma bad_event_not_ok : forall tr e, In e tr -> iev_ok e = false -> forallb iev_ok tr = false.
Proof.
  intros tr e Hin He. apply not_true_is_false. intro H. rewrite forallb_forall in H. specialize (H e Hin). congruence.
Qed.

Theorem failing_hook_fails_run : forall its k j,
  (* k items were started (hooks_bracket), j is one of them *)
  fst (run_items 0 its) = concat (map (fun j => fst (one_item (0 + j) (nth j its dflt))) (seq 0 k)) -> j < k ->
  (it_before (nth j its dflt) = Some false \/ it_after (nth j its dflt) = Some false) ->
  run_ok its = false.
Proof.
  intros its k j Htr Hj Hbad. unfold run_ok. apply andb_false_iff. left.
  assert (Hsub : forall e, In e (fst (one_item (0 + j) (nth j its dflt))) -> In e (fst (run_items 0 its))).
  { intros e He. rewrite Htr. apply in_concat. eexists. split; [|exact He]. apply in_map_iff. exists j. split; auto. apply in_seq. lia. }
  destruct Hbad as [Hb|Ha].
  - apply bad_event_not_ok with (e := IBefore (0 + j) false); [|reflexivity]. apply Hsub.
    unfold one_item. cbn [fst]. rewrite Hb. cbn [hook_ev]. now left.
  - apply bad_event_not_ok with (e := IAfter (0 + j) false); [|reflexivity]. apply Hsub.
    unfold one_item. cbn [fst]. rewrite Ha. cbn [hook_ev]. apply in_or_app. right. apply in_or_app. right. now left.
Qed.

(* ... and an item that cannot be prepared (missing, unsupported, overlapping) likewise *)
Theorem unprepared_item_fails_run : forall its k j,
  fst (run_items 0 its) = concat (map (fun j => fst (one_item (0 + j) (nth j its dflt))) (seq 0 k)) -> j < k ->
  it_tree (nth j its dflt) = None -> run_ok its = false.
Proof.
  intros its k j Htr Hj Hn. unfold run_ok. apply andb_false_iff. left.
  apply bad_event_not_ok with (e := IPrepErr (0 + j)); [|reflexivity]. rewrite Htr. apply in_concat. eexists. split.
  - apply in_map_iff. exists j. split; [reflexivity|]. apply in_seq. lia.
  - unfold one_item, body. cbn [fst]. rewrite Hn. cbn [fst]. apply in_or_app. right. now left.
Qed.
Print Assumptions failing_hook_fails_run.
