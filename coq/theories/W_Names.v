(* Wire glue for the name classification (C13 / C07): ((level is_dir name) ...) -> (0 (class ...)) with
   level 0 = storage root: 0 hidden, 1 group, 2 unexpected;  level 1 = inside a group: 0 hidden, 1 backup, 2 temporary, 3 unexpected. *)
From Coq Require Import List NArith Bool.
Import ListNotations.
Require Import Wire NameClass.
Local Open Scope N_scope.

Definition dec_name_case (v : val) : option (N * bool * list N) :=
  match v with
  | VL [VN lvl; d; nm] =>
    match as_bool d, as_bytes nm with
    | Some d, Some nm => Some (lvl, d, nm)
    | _, _ => None
    end
  | _ => None
  end.

Definition class_code (c : N * bool * list N) : N :=
  let '(lvl, d, nm) := c in
  if lvl =? 0 then match classify_root d nm with NRHidden => 0 | NRGroup => 1 | NRUnexpected => 2 end
  else match classify_entry d nm with EHidden => 0 | EBackup _ => 1 | ETemporary _ => 2 | EUnexpected => 3 end.

Definition run_names (v : val) : val :=
  match v with
  | VL [cs] =>
    match as_listof dec_name_case cs with
    | Some cs => VL [VN 0; VL (map (fun c => VN (class_code c)) cs)]
    | None => bad_input
    end
  | _ => bad_input
  end.
