(* C04 and C05 composed (Dropbox): what the splitter hands to the uploader, fed into the upload machine.
   Safety, for ANY server replies: if the final name changes, the object under it is exactly the concatenation of the
   blocks the encryptor produced.  Liveness against an honest server: when every request succeeds and the server's
   content hash is the provider's checksum function, the upload succeeds and publishes exactly that object. *)
From Coq Require Import List Arith NArith Lia Bool.
Import ListNotations.
Require Import Chunk Splitter Compose Providers2 Dropbox2.

(* the uploader's view of the splitter's output: one request body per (offset, bytes), then the finalisation *)
Definition cevs_of (bs : list (nat * list N)) (n : nat) (sum : list N) : list cev :=
  map (fun ob => CStream (fst ob) (snd ob)) bs ++ [CEof n sum].

Lemma payload_cevs : forall bs n sum, payload (cevs_of bs n sum) = concat (map snd bs).
Proof.
  unfold cevs_of. induction bs as [|[o b] bs IH]; intros n sum; cbn [map app payload concat fst snd]; [reflexivity|].
  now rewrite IH.
Qed.

Lemma map_snd_from_off : forall cs o, map snd (from_off o cs) = cs.
Proof. induction cs as [|c cs IH]; intro o; cbn [from_off map snd]; [reflexivity|]. now rewrite IH. Qed.

Section C3.
Variable H : list N -> list N.
Variable blk : nat.
Hypothesis Hblk : blk > 0.
Variable beqb : bytes -> bytes -> bool.
Hypothesis beqb_spec : forall a b, reflect (a = b) (beqb a b).

(* safety: whatever the server answers and whatever its checksum function is *)
Theorem final_object_is_stream : forall reply Hsrv blocks m s s' res, m >= 1 ->
  dropbox reply Hsrv beqb (cevs_of (from_off 0 (chunks m (concat blocks))) (length (concat blocks)) (spec H blk (concat blocks))) s = (s', res) ->
  dfinal s' <> dfinal s -> dfinal s' = Some (concat blocks) /\ res = true /\ Hsrv (concat blocks) = spec H blk (concat blocks).
Proof.
  intros reply Hsrv blocks m s s' res Hm E Hne.
  destruct (dropbox_final_only_if_verified reply Hsrv beqb beqb_spec _ s s' res E Hne) as (R & _ & F & T).
  rewrite payload_cevs, map_snd_from_off, chunks_concat in F, T by assumption.
  repeat split; auto. unfold cevs_of in T.
  assert (Ht : forall bs n sum, Providers2.terminal (map (fun ob => CStream (fst ob) (snd ob)) bs ++ [CEof n sum]) = Some (n, sum)).
  { induction bs as [|[o b] bs IH]; intros n sum; cbn [map app Providers2.terminal]; auto. }
  rewrite Ht in T. inversion T. congruence.
Qed.

(* the honest server: every request succeeds, offsets are checked, the content hash is the provider's function *)
Lemma d_events_stream_ok : forall cs o n sum s Hsrv k,
  length (dsession s) = o -> exists k',
  d_events (fun _ => Ok) Hsrv beqb (map (fun ob => CStream (fst ob) (snd ob)) (from_off o cs) ++ [CEof n sum]) k s =
  d_events (fun _ => Ok) Hsrv beqb [CEof n sum] k' {| dsession := dsession s ++ concat cs; dtemp := dtemp s; dfinal := dfinal s |}.
Proof.
  induction cs as [|c cs IH]; intros o n sum s Hsrv k Ho.
  - exists k. cbn [from_off map app concat]. rewrite app_nil_r. destruct s; reflexivity.
  - destruct (IH (o + length c) n sum {| dsession := dsession s ++ c; dtemp := dtemp s; dfinal := dfinal s |} Hsrv (S k)) as [k' Hk'].
    { cbn [dsession]. rewrite app_length, Ho. reflexivity. }
    exists k'. cbn [from_off map app concat fst snd]. cbn [dsession dtemp dfinal] in Hk'. rewrite <- app_assoc in Hk'. rewrite <- Hk'.
    cbn [d_events is_ok andb]. rewrite Ho, Nat.eqb_refl. reflexivity.
Qed.

Theorem honest_upload_publishes_stream : forall blocks m s, m >= 1 -> dfinal s = None ->
  exists s', dropbox (fun _ => Ok) (spec H blk) beqb
               (cevs_of (from_off 0 (chunks m (concat blocks))) (length (concat blocks)) (spec H blk (concat blocks))) s = (s', true) /\
             dfinal s' = Some (concat blocks) /\ dtemp s' = None.
Proof.
  intros blocks m s Hm Hf. unfold dropbox, cevs_of. cbn [is_ok].
  destruct (d_events_stream_ok (chunks m (concat blocks)) 0 (length (concat blocks)) (spec H blk (concat blocks))
              {| dsession := []; dtemp := dtemp s; dfinal := dfinal s |} (spec H blk) 1 eq_refl) as [k' ->].
  cbn [dsession dtemp dfinal app].
  rewrite chunks_concat by assumption. cbn [d_events is_ok andb dsession dfinal dtemp].
  rewrite Nat.eqb_refl. destruct (beqb_spec (spec H blk (concat blocks)) (spec H blk (concat blocks))) as [_|Hc]; [|congruence].
  rewrite Hf. eexists. split; [reflexivity|]. cbn. auto.
Qed.
End C3.
Print Assumptions final_object_is_stream.
Print Assumptions honest_upload_publishes_stream.
