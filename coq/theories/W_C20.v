(* Wire glue for C20: Config::load acceptance on a typed-leaf YAML tree.
   case: (text tree) - the harness reads the text, the model the tree;
   tree: (0 text kind) leaf, kind = (0) null | (1) bool | (2 z) int | (3) float | (4) str; (1 (items)) seq; (2 ((key value) ...)) map
   result: (0) rejected | (1 specs metrics) *)
From Coq Require Import List NArith ZArith Bool.
Import ListNotations.
Require Import Wire Config.
Local Open Scope N_scope.

Definition dec_kind (v : val) : option kind :=
  match v with
  | VL [VN 0] => Some KNull
  | VL [VN 1] => Some KBool
  | VL [VN 2; z] => option_map KInt (as_Z z)
  | VL [VN 3] => Some KFloat
  | VL [VN 4] => Some KStr
  | _ => None
  end.

Fixpoint dec_yv (v : val) : option yv :=
  match v with
  | VL [VN 0; t; k] =>
    match as_bytes t, dec_kind k with
    | Some t, Some k => Some (YLeaf {| text := t; lkind := k |})
    | _, _ => None end
  | VL [VN 1; VL items] =>
    option_map YSeq ((fix go (l : list val) : option (list yv) :=
       match l with
       | [] => Some []
       | x :: r => match dec_yv x, go r with Some a, Some b => Some (a :: b) | _, _ => None end
       end) items)
  | VL [VN 2; VL entries] =>
    option_map YMap ((fix go (l : list val) : option (list (list N * yv)) :=
       match l with
       | [] => Some []
       | VL [k; x] :: r => match as_bytes k, dec_yv x, go r with Some k, Some a, Some b => Some ((k, a) :: b) | _, _, _ => None end
       | _ => None
       end) entries)
  | _ => None
  end.

Definition enc_item (i : item_cfg) : val :=
  VL [of_bytes (it_path i); of_nat (length (it_filter i)); of_option of_bytes (it_before i); of_option of_bytes (it_after i)].
Definition enc_backup (b : backup_cfg) : val := VL [of_list enc_item (bk_items b); VN (bk_groups b); VN (bk_per_group b)].
Definition enc_upload (u : upload_cfg) : val :=
  VL [of_bytes (up_provider u); of_bytes (up_path u); VN (up_groups u); of_bytes (up_pass u); of_option VN (up_max_age u)].
Definition enc_spec (s : spec_cfg) : val :=
  VL [of_bytes (sp_name s); of_bytes (sp_path s); of_option enc_backup (sp_backup s); of_option enc_upload (sp_upload s)].

(* (home_opt release text doc_opt) *)
Definition run_c20 (v : val) : val :=
  match v with
  | VL [home; rel; _; doc] =>
    match as_option as_bytes home, as_bool rel, as_option dec_yv doc with
    | Some home, Some rel, Some doc =>
      match load home doc with
      | Some c => VL [VN 1; of_list enc_spec (c_backups c); of_option of_bytes (c_metrics c)]
      | None => VL [VN 0]
      end
    | _, _, _ => bad_input
    end
  | _ => bad_input
  end.
