(* C04 and C05 composed for the providers without a request-size limit (Yandex Disk, Google Drive): the single body the
   splitter produces, fed into the upload machines under an ARBITRARY reply oracle and server-side checksum function: if
   the final name changes at all, the object under it is exactly the encryptor's output. *)
From Coq Require Import List Arith NArith Lia Bool.
Import ListNotations.
Require Import Splitter Splitter3 Compose3 Providers2.

Section C4.
Variable Hmd5 : list N -> list N.
Variable beqb : bytes -> bytes -> bool.
Hypothesis beqb_spec : forall a b, reflect (a = b) (beqb a b).

Lemma one_body_events : forall data, data <> [] ->
  cevs_of (one_body 0 data) (length data) (Hmd5 data) = [CStream 0 data; CEof (length data) (Hmd5 data)].
Proof. intros data Hd. unfold cevs_of, one_body. destruct data; [congruence|reflexivity]. Qed.

Theorem yandex_final_object_is_stream : forall reply Hsrv polls data s s' res, data <> [] ->
  yandex reply Hsrv beqb polls (cevs_of (one_body 0 data) (length data) (Hmd5 data)) s = (s', res) ->
  yfinal s' <> yfinal s -> yfinal s' = Some data /\ res = true /\ Hsrv data = Hmd5 data.
Proof.
  intros reply Hsrv polls data s s' res Hd E Hne. rewrite one_body_events in E by assumption.
  destruct (yandex_final_only_if_verified reply Hsrv beqb beqb_spec polls _ s s' res E Hne) as (R & n & d & T & F & _ & [Hp|[Hp _]]).
  - cbn [payload app] in Hp. rewrite app_nil_r in Hp. subst d. cbn [Providers2.terminal] in T. inversion T. auto.
  - cbn [payload app] in Hp. rewrite app_nil_r in Hp. congruence.
Qed.

Theorem google_final_object_is_stream : forall reply Hsrv data s s' res, data <> [] ->
  google reply Hsrv beqb (cevs_of (one_body 0 data) (length data) (Hmd5 data)) s = (s', res) ->
  gfinal s' <> gfinal s -> gfinal s' = gfinal s ++ [data] /\ res = true /\ Hsrv data = Hmd5 data.
Proof.
  intros reply Hsrv data s s' res Hd E Hne. rewrite one_body_events in E by assumption.
  destruct (google_final_only_if_verified reply Hsrv beqb beqb_spec _ s s' res E Hne) as (R & n & T & _ & F).
  cbn [payload app] in F, T. rewrite app_nil_r in F, T. cbn [Providers2.terminal] in T. inversion T. auto.
Qed.
End C4.
Print Assumptions yandex_final_object_is_stream.
Print Assumptions google_final_object_is_stream.
